import Mathlib.Data.Rat.Floor
import Mathlib.Tactic.Linarith
import Mathlib.Tactic.Ring
import Mathlib.Tactic.Positivity

-- model-side definitions would live in a Mathlib-free file using core Rat.floor
def trunc0 (x : ℚ) : ℤ := if 0 ≤ x then x.floor else -((-x).floor)   -- Python int()
def uIndex (x : ℚ) (i0 : ℤ) : ℤ := trunc0 (x - i0 + 1/2)

-- C17-style obligation: a clipped stage position indexes inside the u-array (width imax+1)
theorem uIndex_in_bounds (x : ℚ) (i0 i1 : ℤ)
    (hlo : (i0 : ℚ) + 1/100 ≤ x) (hhi : x ≤ (i1 : ℚ) - 1 - 1/100) :
    0 ≤ uIndex x i0 ∧ uIndex x i0 + 1 ≤ (i1 - i0) := by
  have h0 : (0:ℚ) ≤ x - i0 + 1/2 := by linarith
  unfold uIndex trunc0
  rw [if_pos h0]
  have hf : (x - i0 + 1/2).floor = ⌊x - i0 + 1/2⌋ := rfl
  rw [hf]
  constructor
  · exact Int.floor_nonneg.mpr h0
  · have : ⌊x - ↑i0 + 1/2⌋ < i1 - i0 := by
      rw [Int.floor_lt]; push_cast; linarith
    omega

-- C02-style obligation: bilinear weights form a convex combination
theorem bilinear_convex (p q f00 f10 f01 f11 lo hi : ℚ) (hp0 : 0 ≤ p) (hp1 : p ≤ 1) (hq0 : 0 ≤ q) (hq1 : q ≤ 1)
    (h00 : lo ≤ f00 ∧ f00 ≤ hi) (h10 : lo ≤ f10 ∧ f10 ≤ hi) (h01 : lo ≤ f01 ∧ f01 ≤ hi) (h11 : lo ≤ f11 ∧ f11 ≤ hi) :
    lo ≤ (1-p)*(1-q)*f00 + p*(1-q)*f10 + (1-p)*q*f01 + p*q*f11 ∧
    (1-p)*(1-q)*f00 + p*(1-q)*f10 + (1-p)*q*f01 + p*q*f11 ≤ hi := by
  have a : 0 ≤ (1-p)*(1-q) := by nlinarith
  have b : 0 ≤ p*(1-q) := by nlinarith
  have c : 0 ≤ (1-p)*q := by nlinarith
  have d : 0 ≤ p*q := by nlinarith
  constructor <;> nlinarith [mul_le_mul_of_nonneg_left h00.1 a, mul_le_mul_of_nonneg_left h00.2 a,
    mul_le_mul_of_nonneg_left h10.1 b, mul_le_mul_of_nonneg_left h10.2 b,
    mul_le_mul_of_nonneg_left h01.1 c, mul_le_mul_of_nonneg_left h01.2 c,
    mul_le_mul_of_nonneg_left h11.1 d, mul_le_mul_of_nonneg_left h11.2 d]
#print axioms uIndex_in_bounds
#print axioms bilinear_convex
