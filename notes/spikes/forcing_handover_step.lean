import Mathlib.Tactic.Linarith
import Mathlib.Tactic.Ring
import Mathlib.Tactic.FieldSimp
import Mathlib.Tactic.Push
import Mathlib.Algebra.Order.Field.Rat

structure Frame where
  step : Int
  val : ℚ

structure FS where
  u : ℚ
  unew : ℚ
  dU : ℚ
  upcoming : List Frame

def FS.update (st : FS) (n : Int) : FS :=
  match st.upcoming with
  | f :: rest =>
    if f.step = n then
      match rest with
      | g :: _ => { u := st.unew, unew := g.val,
                    dU := (g.val - st.unew) / ((g.step - n : Int) : ℚ), upcoming := rest }
      | [] => { st with u := st.unew, upcoming := [] }
    else { st with u := st.u + st.dU }
  | [] => { st with u := st.u + st.dU }

def interp (a b : Frame) (n : Int) : ℚ :=
  a.val + ((n - a.step : Int) : ℚ) * ((b.val - a.val) / ((b.step - a.step : Int) : ℚ))

def FInv (st : FS) (prev : Frame) (n : Int) : Prop :=
  (∃ next rest, st.upcoming = next :: rest ∧ prev.step ≤ n ∧ n < next.step ∧
      st.unew = next.val ∧
      st.dU = (next.val - prev.val) / ((next.step - prev.step : Int) : ℚ) ∧
      st.u = interp prev next n)
  ∨ (st.upcoming = [] ∧ n = prev.step ∧ st.u = prev.val)

def Sorted : List Frame → Prop
  | a :: b :: t => a.step < b.step ∧ Sorted (b :: t)
  | _ => True

/-- one step of the (repaired) hand-over machine keeps `u` on the interpolant -/
theorem update_preserves (st : FS) (prev : Frame) (n : Int)
    (h : FInv st prev n) (hs : Sorted st.upcoming) (hcov : st.upcoming ≠ []) :
    ∃ prev', FInv (st.update (n + 1)) prev' (n + 1) ∧
      ∀ next rest, st.upcoming = next :: rest →
        (st.update (n + 1)).u = interp prev next (n + 1) := by
  obtain ⟨u, unew, dU, up⟩ := st
  rcases h with ⟨next, rest, hup, hlo, hhi, hnew, hdU, hu⟩ | ⟨hup, _, _⟩
  swap
  · exact absurd hup hcov
  simp only at hup hnew hdU hu hs
  subst hup
  have hpos : (0:ℤ) < next.step - prev.step := by omega
  have hL : ((next.step - prev.step : Int) : ℚ) ≠ 0 := by exact_mod_cast (ne_of_gt hpos)
  by_cases hstep : next.step = n + 1
  · -- hand-over at a frame step
    have hcast : ((n + 1 - prev.step : Int) : ℚ) = ((next.step - prev.step : Int) : ℚ) := by rw [hstep]
    have hval : next.val = interp prev next (n + 1) := by
      unfold interp; rw [hcast]; field_simp; ring
    cases rest with
    | nil =>
      refine ⟨next, Or.inr ?_, ?_⟩
      · simp [FS.update, hstep, hnew]
      · intro nx rs h; cases h
        simp only [FS.update, hstep, if_true, hnew]; exact hval
    | cons g t =>
      have hsg : next.step < g.step := hs.1
      refine ⟨next, Or.inl ⟨g, t, ?_, ?_, ?_, ?_, ?_, ?_⟩, ?_⟩
      · simp [FS.update, hstep]
      · omega
      · omega
      · simp [FS.update, hstep]
      · simp [FS.update, hstep, hnew]
      · simp [FS.update, hstep, hnew, interp]
      · intro nx rs h; cases h
        simp only [FS.update, hstep, if_true, hnew]; exact hval
  · -- ordinary step between frames
    have hlt : n + 1 < next.step := by omega
    have hadv : u + dU = interp prev next (n + 1) := by
      rw [hu, hdU]; unfold interp; push_cast; ring
    refine ⟨prev, Or.inl ⟨next, rest, ?_, ?_, hlt, ?_, ?_, ?_⟩, ?_⟩
    · simp [FS.update, hstep]
    · omega
    · simp [FS.update, hstep, hnew]
    · simp [FS.update, hstep, hdU]
    · simp only [FS.update, hstep, if_false]; exact hadv
    · intro nx rs h; cases h
      simp only [FS.update, hstep, if_false]; exact hadv
#print axioms update_preserves
