import Mathlib.Probability.Distributions.Gaussian.Real
open MeasureTheory ProbabilityTheory NNReal

/-- the code's diffusive displacement in grid units: velocity `sqrt(2D/dt) * xi`, times `dt/dx` -/
noncomputable def diffCoef (D dt dx : ℝ) : ℝ := Real.sqrt (2 * D / dt) * dt / dx
noncomputable def diffDisp (D dt dx : ℝ) (xi : ℝ) : ℝ := Real.sqrt (2 * D / dt) * xi * dt / dx

/-- the squared coefficient is the configured variance `2 D dt / dx²` -/
theorem diffCoef_sq (D dt dx : ℝ) (hD : 0 ≤ D) (hdt : 0 < dt) (hdx : 0 < dx) :
    diffCoef D dt dx ^ 2 = 2 * D * dt / dx ^ 2 := by
  have hs : Real.sqrt (2 * D / dt) ^ 2 = 2 * D / dt := Real.sq_sqrt (by positivity)
  unfold diffCoef
  rw [div_pow, mul_pow, hs]
  field_simp

/-- a displacement driven by a standard normal draw is centred normal with that variance -/
theorem diffDisp_law {Ω} [MeasurableSpace Ω] {P : Measure Ω} {xi : Ω → ℝ}
    (h : HasLaw xi (gaussianReal 0 1) P) (D dt dx : ℝ) :
    HasLaw (fun ω => diffDisp D dt dx (xi ω))
      (gaussianReal 0 (NNReal.mk (diffCoef D dt dx ^ 2) (sq_nonneg _))) P := by
  have h2 := gaussianReal_const_mul h (diffCoef D dt dx)
  have e : (fun ω => diffDisp D dt dx (xi ω)) = fun ω => diffCoef D dt dx * xi ω := by
    funext ω; unfold diffDisp diffCoef; ring
  rw [e]
  simpa using h2
#print axioms diffCoef_sq
#print axioms diffDisp_law
