import os, sys; HERE = os.path.dirname(os.path.abspath(__file__)); sys.path.insert(0, os.environ.get("LADIM_REPO", "/repo")); sys.path.insert(0, HERE)
from lab import *
import warnings; warnings.filterwarnings("ignore")
logging.disable(logging.CRITICAL)
from ladim.timekeeper import TimeKeeper
from ladim.state import State
from ladim.ROMS import Grid, Forcing

def run_layout(frames, parts, start, nsteps, dt=60, rev=False, extra=False, fr=0.5):
    """frames: list of frame times in units of dt (absolute, ints); parts: list of sizes of files
    start: start time in dt units. Values: u == c(frame time) = 1 + t*t/64 (nonlinear in t), temp = 10 + t"""
    d = tempfile.mkdtemp(prefix="p3_")
    c = lambda t: 1.0 + (t/dt)**2/64.0
    k = 0
    for n, sz in enumerate(parts):
        ts = [f*dt for f in frames[k:k+sz]]; k += sz
        make_grid_forcing(f"{d}/f_{n:03d}.nc", ts, ufunc=lambda t,kk,j,i: c(t)+0*i, vfunc=lambda t,kk,j,i: -c(t)+0*i,
                          scal=dict(temp=lambda t,kk,j,i: 10.0 + t/dt + 0*i) if extra else None)
    stop = start - nsteps if rev else start + nsteps
    iso = lambda s: str(T0 + np.timedelta64(int(s*dt), "s"))
    timer = TimeKeeper(start=iso(start), stop=iso(stop), dt=dt, time_reversal=rev)
    ivars = dict(temp=float) if extra else {}
    state = State(instance_variables=ivars)
    grid = Grid(f"{d}/f_000.nc")
    modules = dict(time=timer, state=state, grid=grid)
    out = []
    try:
        force = Forcing(modules, f"{d}/f_*.nc", extra_forcing=["temp"] if extra else None)
        modules["forcing"] = force
        state.append(X=5.0, Y=5.0, Z=5.0, **({"temp": 0.0} if extra else {}))
        for n in range(nsteps):
            timer.update()
            force.update()
            u0, v0 = force.velocity(state.X, state.Y, state.Z)
            uf, vf = force.velocity(state.X, state.Y, state.Z, fractional_step=fr)
            tnow = start - timer.step if rev else start + timer.step   # in dt units (true model time)
            sgn = -1.0 if rev else 1.0
            # expected: linear interp between bracketing frames at model time tnow, tnow +- fr
            def interp(t):
                fs = sorted(frames)
                for a, b in zip(fs[:-1], fs[1:]):
                    if a <= t <= b:
                        w = (t-a)/(b-a); return (1-w)*c(a*dt) + w*c(b*dt)
                return None
            e0 = sgn*interp(tnow); ef = sgn*interp(tnow + (-fr if rev else fr))
            fs = sorted(frames)
            et = None
            if extra:
                if rev: et = 10.0 + min(f for f in fs if f >= tnow)
                else: et = 10.0 + max(f for f in fs if f <= tnow)
            got_t = float(state["temp"][0]) if extra else None
            out.append((timer.step, round(float(u0[0]),6), round(e0,6), round(float(uf[0]),6), round(ef,6), got_t, et))
    except BaseException as e:
        out.append(("EXC", type(e).__name__, str(e)[:100]))
    shutil.rmtree(d)
    return out

def show(title, res):
    print("==", title)
    for r in res:
        if r[0] == "EXC": print("   ", r); continue
        s, u0, e0, uf, ef, gt, et = r
        flag = ("" if abs(u0-e0) < 1e-5 else "  <-- u WRONG") + ("" if abs(uf-ef) < 1e-5 else "  <-- frac WRONG") + ("" if gt is None or abs(gt-et)<1e-5 else "  <-- temp WRONG")
        print(f"   step {s}: u={u0} exp={e0} | u(+.5)={uf} exp={ef} | temp={gt} exp={et}{flag}")

show("regular spacing 4, one file, start on frame", run_layout([0,4,8,12], [4], 0, 10))
show("start between frames (offset 2)", run_layout([0,4,8,12], [4], 2, 8))
show("spacing == dt", run_layout([0,1,2,3,4,5,6], [7], 0, 5))
show("irregular spacing incl 1", run_layout([0,3,4,6,10], [5], 0, 9))
show("two files, extra scalar, start between straddling", run_layout([0,4,8,12], [2,2], 5, 6, extra=True))
show("first read straddles two files w/ scalar", run_layout([0,4,8,12], [1,3], 1, 6, extra=True))
show("one frame per file w/ scalar", run_layout([0,4,8,12], [1,1,1,1], 0, 10, extra=True))
show("reversed, one file", run_layout([0,4,8,12], [4], 10, 9, rev=True, extra=True))
show("reversed, two files", run_layout([0,4,8,12], [2,2], 10, 9, rev=True, extra=True))
