import os, sys; HERE = os.path.dirname(os.path.abspath(__file__)); sys.path.insert(0, os.environ.get("LADIM_REPO", "/repo")); sys.path.insert(0, HERE)
from lab import *
import warnings; warnings.filterwarnings("ignore")
import glob, copy
def base(d, rev=False, multi=False, cont=False):
    dt = 64
    if multi:
        make_grid_forcing(f"{d}/f_000.nc", [-640, 320]); make_grid_forcing(f"{d}/f_001.nc", [640, 6400])
        pat = f"{d}/f_*.nc"; gridf = f"{d}/f_000.nc"
    else:
        make_grid_forcing(f"{d}/f_000.nc", [-640, 6400]); pat = f"{d}/f_000.nc"; gridf = pat
    start, stop = (1024, 0) if rev else (0, 1024)
    write_release(f"{d}/release.rls", [dict(mult=1, release_time=start, X=4.0, Y=4.0, Z=5.0), dict(mult=1, release_time=start + (-256 if rev else 256), X=5.0, Y=4.0, Z=5.0)])
    conf = base_conf(d, start, stop, dt, 128, pat, gridf, reversed_=rev, release=dict(continuous=True, release_frequency=[128,"s"]) if cont else None)
    return conf
def attempt(mutate, **kw):
    d = tempfile.mkdtemp(prefix="p16_")
    try:
        conf = base(d, **kw)
        mutate(conf, d)
        try:
            run(conf, d); res = "RAN"
        except SystemExit as e: res = f"SystemExit({e.code})"
        except BaseException as e: res = f"{type(e).__name__}: {str(e)[:60]}"
        outs = glob.glob(f"{d}/out*.nc")
        nrec = None
        if outs:
            try: nrec = sum(read_out(f)["_dims"]["time"] for f in outs)
            except Exception as e: nrec = "unreadable"
        return res, f"outfiles={len(outs)} records={nrec}"
    finally:
        shutil.rmtree(d)
def T(s): return str(T0 + np.timedelta64(int(s), "s"))
faults = {
 "none": lambda c,d: None,
 "forcing starts after start": lambda c,d: c["time"].update(start=T(-6400)) if not c["time"].get("time_reversal") else c["time"].update(stop=T(-6400)),
 "forcing ends before stop": lambda c,d: c["time"].update(stop=T(64000)) if not c["time"].get("time_reversal") else c["time"].update(start=T(64000)),
 "frames out of order (dup file)": lambda c,d: (shutil.copy(f"{d}/f_000.nc", f"{d}/f_002.nc"), c["forcing"].update(filename=f"{d}/f_*.nc"))[-1],
 "missing start": lambda c,d: c["time"].pop("start"),
 "missing stop": lambda c,d: c["time"].pop("stop"),
 "missing dt": lambda c,d: c["time"].pop("dt"),
 "stop wrong side": lambda c,d: c["time"].update(start=c["time"]["stop"], stop=c["time"]["start"]),
 "no release in window (all before)": lambda c,d: write_release(f"{d}/release.rls", [dict(mult=1, release_time=(5000 if c["time"].get("time_reversal") else -500), X=4.0, Y=4.0, Z=5.0)]),
 "no release in window (all after)": lambda c,d: write_release(f"{d}/release.rls", [dict(mult=1, release_time=(-500 if c["time"].get("time_reversal") else 5000), X=4.0, Y=4.0, Z=5.0)]),
 "only row at stop": lambda c,d: write_release(f"{d}/release.rls", [dict(mult=1, release_time=(0 if c["time"].get("time_reversal") else 1024), X=4.0, Y=4.0, Z=5.0)]),
 "rows without position": lambda c,d: write_release(f"{d}/release.rls", [dict(mult=1, release_time=0, Z=5.0)]),
 "missing release file": lambda c,d: os.remove(f"{d}/release.rls"),
 "missing forcing file": lambda c,d: (c["forcing"].update(filename=f"{d}/nope_*.nc"), c["grid"].pop("filename"))[0],
 "missing grid file": lambda c,d: c["grid"].update(filename=f"{d}/nogrid.nc"),
 "missing section time": lambda c,d: c.pop("time"),
 "missing section tracker": lambda c,d: c.pop("tracker"),
 "missing section release": lambda c,d: c.pop("release"),
 "missing section output": lambda c,d: c.pop("output"),
 "missing section forcing": lambda c,d: c.pop("forcing"),
 "illegal subgrid": lambda c,d: c["grid"].update(subgrid=[0, 5, 1, 5]),
 "illegal subgrid 2": lambda c,d: c["grid"].update(subgrid=[3, 3, 1, 5]),
}
for kw in [dict(), dict(rev=True, multi=True, cont=True)]:
    print("== base", kw)
    for name, m in faults.items():
        if not name.startswith("missing"): continue
        print(f"   {name:38s}", *attempt(m, **kw))
