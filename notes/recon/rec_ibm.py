import numpy as np, json
class IBM:
    def __init__(self, modules, log=None, **kw):
        self.modules = modules; self.log = log; self.rows = []
    def update(self):
        st = self.modules["state"]; g = self.modules["grid"]
        self.rows.append(dict(step=int(self.modules["time"].step), pid=st.pid.tolist(), alive=st.alive.tolist(), active=st.active.tolist(), X=st.X.tolist(), Y=st.Y.tolist(), Z=st.Z.tolist()))
    def close(self):
        json.dump(self.rows, open(self.log, "w"))
