import os, sys; HERE = os.path.dirname(os.path.abspath(__file__)); sys.path.insert(0, os.environ.get("LADIM_REPO", "/repo")); sys.path.insert(0, HERE)
from lab import *
import warnings; warnings.filterwarnings("ignore")
logging.disable(logging.CRITICAL)
from ladim.timekeeper import TimeKeeper
from ladim.state import State
from ladim.release import ParticleReleaser
class G:  # dummy grid
    def ll2xy(self, lon, lat): return np.asarray(lon)*10, np.asarray(lat)*10
def trial(rows, start, stop, dt=60, rev=False, cont=False, freq=0, ivars=None, pvars=None, names=None, header=True):
    d = tempfile.mkdtemp(prefix="p7_")
    write_release(f"{d}/r.rls", rows, header=header)
    iso = lambda s: str(T0 + np.timedelta64(int(s), "s"))
    timer = TimeKeeper(start=iso(start), stop=iso(stop), dt=dt, time_reversal=rev)
    state = State(instance_variables=ivars or {}, particle_variables=pvars or {})
    modules = dict(time=timer, state=state, grid=G())
    log = []
    try:
        rel = ParticleReleaser(modules, f"{d}/r.rls", continuous=cont, release_frequency=freq, names=names)
        log.append(("steps", rel.steps, "total", int(rel.total_particle_count)))
        for n in range(timer.Nsteps):
            timer.step += 1   # avoid clock bug dependence
            before = len(state)
            rel.update()
            if len(state) > before:
                new = slice(before, len(state))
                log.append((timer.step, state.pid[new].tolist(), state.X[new].tolist(), {k: state[k][new].tolist() for k in list(ivars or {})+list(pvars or {})}))
    except BaseException as e:
        import traceback; log.append(("EXC", type(e).__name__, str(e)[:100], traceback.format_exc().splitlines()[-2].strip()))
    shutil.rmtree(d); return log
R = lambda t, x, m=1, **kw: dict(mult=m, release_time=t, X=x, Y=1.0, Z=0.0, **kw)
print("basic window [120, 360): rows at 60,120,180,360,420:", trial([R(60,1.),R(120,2.,2),R(180,3.),R(180,3.5,0),R(360,4.),R(420,5.)], 120, 360))
print("row at stop only + one in:", trial([R(120,2.),R(360,4.)], 120, 360))
print("only row at stop:", trial([R(360,4.)], 120, 360))
print("extra cols:", trial([R(120,2.,2,farm=7,w=1.5),R(180,3.,1,farm=8,w=2.5)], 120, 360, ivars=dict(farm=int), pvars=dict(w=float)))
print("reversed window (360 -> 120]: rows 420,360,240,120,60:", trial([R(420,5.),R(360,4.),R(240,3.,2),R(120,2.),R(60,1.)], 360, 120, rev=True))
print("reversed, rows ascending in file:", trial([R(120,2.),R(240,3.,2),R(360,4.)], 360, 120, rev=True))
print("continuous freq 120, file times 0, 240; window [0,600):", trial([R(0,1.),R(0,1.5),R(240,2.,2)], 0, 600, cont=True, freq=120))
print("continuous, first file time before start (-120), start 0:", trial([R(-120,1.),R(240,2.)], 0, 600, cont=True, freq=120))
print("continuous, first file time after start:", trial([R(120,1.),R(360,2.)], 0, 600, cont=True, freq=120))
print("continuous reversed freq 120, file times 600,360; 600->0:", trial([R(600,1.),R(360,2.)], 600, 0, rev=True, cont=True, freq=120))
print("lonlat:", trial([dict(release_time=120, lon=0.5, lat=0.7, Z=1.0)], 120, 360))
print("names, no header:", trial([R(120,2.,3)], 120, 360, names=["mult","release_time","X","Y","Z"], header=False))
print("time col:", trial([R(120,2.,1,tt="2000-01-01T00:01:00")], 120, 360, pvars=dict(tt="time", release_time="time")))
