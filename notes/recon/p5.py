import os, sys; HERE = os.path.dirname(os.path.abspath(__file__)); sys.path.insert(0, os.environ.get("LADIM_REPO", "/repo")); sys.path.insert(0, HERE)
from lab import *
import warnings; warnings.filterwarnings("ignore")
import glob
def trial(kills, layout="sparse", nsteps=8, ops=2, nrel=4, pv=True, shear=False, numrec=0, lonlat=False):
    d = tempfile.mkdtemp(prefix="p5_")
    dt = 64
    # depth-dependent current: u depends on level k: so K/A misalignment shows
    make_grid_forcing(f"{d}/f.nc", [-640, 64000], ufunc=(lambda t,k,j,i: 0.25*(k+1)+0*i) if shear else (lambda t,k,j,i: 0.25+0*i))
    rows = [dict(release_time=0, X=3.0+0.5*n, Y=4.0, Z=[5.0, 20.0, 30.0, 45.0][n%4], w=10.0+n) for n in range(nrel)]
    write_release(f"{d}/release.rls", rows)
    oi = ("pid","X","Y","Z") + (("lon","lat") if lonlat else ())
    conf = base_conf(d, 0, nsteps*dt, dt, ops*dt, f"{d}/f.nc", f"{d}/f.nc", layout=layout, numrec=numrec,
                     pvars=dict(w="float") if pv else None, out_pvars=("w",) if pv else (), out_ivars=oi,
                     ibm=dict(module=os.path.join(HERE, "killer_ibm"), kills=kills, log=f"{d}/log.json"))
    try:
        run(conf, d)
        res = []
        for f in sorted(glob.glob(f"{d}/out*.nc")):
            o = read_out(f)
            if layout == "sparse":
                res.append((os.path.basename(f), o["_dims"], [(r["pid"], [round(x,4) for x in r["X"]]) for r in records(o)], o.get("w", np.array([])).tolist()))
            else:
                res.append((o["_dims"], np.round(o["X"],3).tolist(), o.get("w", np.array([])).tolist(), np.round(o["lon"],3).tolist() if lonlat else None))
    except BaseException as e:
        import traceback
        res = ("EXC", type(e).__name__, str(e)[:100], traceback.format_exc().splitlines()[-3])
    shutil.rmtree(d)
    return res
print("no kills:", trial({}))
print("kill highest pid 3 at step 1:", trial({1: [3]}))
print("kill all at step 1 (empty records):", trial({1: [0,1,2,3]}))
print("kill pid 1 at step 1 (before output step 2), shear flow:", trial({1: [1]}, shear=True))
print("  ref: no kill, shear:", trial({}, shear=True))
print("dense kill pid1 step1:", trial({1: [1]}, layout="dense", lonlat=True))
