import os, sys; sys.path.insert(0, os.environ.get("LADIM_REPO", "/repo"))
import warnings; warnings.filterwarnings("ignore")
import numpy as np, datetime
from fractions import Fraction
from ladim.timekeeper import normalize_period, duration2iso, TimeKeeper
def t(x):
    try: return repr(normalize_period(x))
    except Exception as e: return f"{type(e).__name__}"
for x in ["PT1H", "PT1H\n", "PT1H30M", "PT90S", "PT", "P1D", "PT1M1H", "pt1h", " PT1H", "PT1.5H", "PT٣H", [1,"h"], [90,"s"], [1,"d"], [1,"D"], (1,"h"), [1.5,"h"], [1], [1,"h",2], [True,"h"], 3600, 3600.0, np.timedelta64(1,"h"), datetime.timedelta(hours=1), None, "3600", True, [1,"x"], [1,"M"], -60, 0]:
    print(repr(x), "->", t(x))
print(duration2iso(np.timedelta64(3661,"s")), duration2iso(np.timedelta64(90061,"s")), duration2iso(np.timedelta64(0,"s")), duration2iso(np.timedelta64(-5,"s")))
# dt not dividing duration, time2step off-grid & negative
tk = TimeKeeper(start="2000-01-01T00:00:00", stop="2000-01-01T00:10:05", dt=60)
print("Nsteps", tk.Nsteps, [tk.time2step(np.datetime64("2000-01-01T00:00:00") + np.timedelta64(s,"s")) for s in (-61,-60,-1,0,59,60,61)])
tr = TimeKeeper(start="2000-01-01T00:10:05", stop="2000-01-01T00:00:00", dt=60, time_reversal=True)
print("rev Nsteps", tr.Nsteps, [tr.time2step(np.datetime64("2000-01-01T00:10:05") + np.timedelta64(s,"s")) for s in (61,60,1,0,-59,-60,-61)], tr.step2nctime(2,"m"), tr.cf_units("h"))
# dyadic exactness: EF step X + U*dt/dx with dx = 128, dt = 64
X = np.array([4.0, 5.125, 9.4375]); U = np.array([0.25, -0.375, 1.5]); dt = 64.0; dx = np.array([128.0]*3)
X1 = X + U*dt/dx
print([Fraction(float(a)) == Fraction(float(x)) + Fraction(float(u))*64/128 for a, x, u in zip(X1, X, U)])
# float32 increments: u += dU with spacing 4
u0 = np.float32(1.25); u1 = np.float32(2.0); dU = (np.array([u1]) - np.array([u0]))/np.int64(4); print(dU.dtype, dU)
