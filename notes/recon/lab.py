"""Scratch reconnaissance helpers used while writing DESIGN.md (not part of the verification machinery).

Set LADIM_REPO to point the probes at another checkout. The pandas shim below is only needed
on a tree without the release.py repair (F0)."""
import os, sys, logging, tempfile, shutil, json
from pathlib import Path
import numpy as np
import pandas as pd
from netCDF4 import Dataset
import yaml

# --- pandas 3 shim so that ladim.release can run at all in this sandbox
_orig_read_csv = pd.read_csv
def _read_csv(*a, **kw):
    if kw.pop("delim_whitespace", False):
        kw["sep"] = r"\s+"
    return _orig_read_csv(*a, **kw)
pd.read_csv = _read_csv
_orig_fillna = pd.DataFrame.fillna
def _fillna(self, *a, method=None, **kw):
    if method == "ffill":
        return self.ffill()
    return _orig_fillna(self, *a, **kw)
pd.DataFrame.fillna = _fillna

T0 = np.datetime64("2000-01-01T00:00:00")

def make_grid_forcing(fname, times_s, imax=12, jmax=10, N=3, h=None, mask=None,
                      ufunc=None, vfunc=None, scal=None, dx=100.0, hc=0.0,
                      t0=T0, write_grid=True):
    """times_s: list of seconds since t0 for the frames of this file.
    ufunc(t_s, k, j, i) -> u at u-point index (file index) etc. (vectorised arrays)"""
    nc = Dataset(fname, "w")
    nc.createDimension("xi_rho", imax); nc.createDimension("eta_rho", jmax)
    nc.createDimension("xi_u", imax-1); nc.createDimension("eta_u", jmax)
    nc.createDimension("xi_v", imax); nc.createDimension("eta_v", jmax-1)
    nc.createDimension("s_rho", N); nc.createDimension("s_w", N+1)
    nc.createDimension("ocean_time", None)
    v = nc.createVariable("ocean_time", "f8", ("ocean_time",))
    v.units = f"seconds since {str(t0).replace('T',' ')}"
    v[:] = np.array(times_s, float)
    if write_grid:
        H = np.full((jmax, imax), 50.0) if h is None else np.asarray(h, float)
        M = np.ones((jmax, imax)) if mask is None else np.asarray(mask, float)
        nc.createVariable("h", "f8", ("eta_rho","xi_rho"))[:] = H
        nc.createVariable("mask_rho", "f8", ("eta_rho","xi_rho"))[:] = M
        nc.createVariable("pm", "f8", ("eta_rho","xi_rho"))[:] = 1.0/dx
        nc.createVariable("pn", "f8", ("eta_rho","xi_rho"))[:] = 1.0/dx
        nc.createVariable("angle", "f8", ("eta_rho","xi_rho"))[:] = 0.0
        jj, ii = np.meshgrid(np.arange(jmax), np.arange(imax), indexing="ij")
        nc.createVariable("lon_rho", "f8", ("eta_rho","xi_rho"))[:] = 5.0 + 0.01*ii + 0.001*jj
        nc.createVariable("lat_rho", "f8", ("eta_rho","xi_rho"))[:] = 60.0 + 0.005*jj - 0.0005*ii
        nc.createVariable("hc", "f8", ())[...] = hc
        nc.createVariable("Cs_r", "f8", ("s_rho",))[:] = -1.0 + (np.arange(N)+0.5)/N
        nc.createVariable("Cs_w", "f8", ("s_w",))[:] = -1.0 + np.arange(N+1)/N
    nt = len(times_s)
    U = nc.createVariable("u", "f4", ("ocean_time","s_rho","eta_u","xi_u"))
    V = nc.createVariable("v", "f4", ("ocean_time","s_rho","eta_v","xi_v"))
    for n, t in enumerate(times_s):
        k, j, i = np.meshgrid(np.arange(N), np.arange(jmax), np.arange(imax-1), indexing="ij")
        U[n] = (ufunc(t, k, j, i) if ufunc else 0*k) + 0.0*k
        k, j, i = np.meshgrid(np.arange(N), np.arange(jmax-1), np.arange(imax), indexing="ij")
        V[n] = (vfunc(t, k, j, i) if vfunc else 0*k) + 0.0*k
    for name, f in (scal or {}).items():
        S = nc.createVariable(name, "f4", ("ocean_time","s_rho","eta_rho","xi_rho"))
        for n, t in enumerate(times_s):
            k, j, i = np.meshgrid(np.arange(N), np.arange(jmax), np.arange(imax), indexing="ij")
            S[n] = f(t, k, j, i) + 0.0*k
    nc.close()

def write_release(fname, rows, header=True, cols=None):
    """rows: list of dicts with release_time (seconds since T0 or str) + cols"""
    cols = cols or list(rows[0].keys())
    with open(fname, "w") as f:
        if header:
            f.write(" ".join(cols) + "\n")
        for r in rows:
            out = []
            for c in cols:
                x = r[c]
                if c == "release_time" and not isinstance(x, str):
                    x = str(T0 + np.timedelta64(int(x), "s"))
                out.append(str(x))
            f.write(" ".join(out) + "\n")

def base_conf(d, start_s, stop_s, dt, outper, forcing_pattern, gridfile, advection="EF",
              reversed_=False, numrec=0, layout="sparse", extra_forcing=None, ibm=None,
              ivars=None, pvars=None, defaults=None, out_ivars=("pid","X","Y","Z"), out_pvars=(),
              release=None, tracker=None, reference=None, subgrid=None):
    conf = dict(
        version=2,
        time=dict(dt=dt, start=str(T0+np.timedelta64(int(start_s),"s")), stop=str(T0+np.timedelta64(int(stop_s),"s"))),
        grid=dict(module="ladim.ROMS", filename=str(gridfile)),
        forcing=dict(module="ladim.ROMS", filename=str(forcing_pattern)),
        release=dict(release_file=str(Path(d)/"release.rls")),
        state=dict(instance_variables=dict(ivars or {}), particle_variables=dict(pvars or {}), default_values=dict(defaults or {})),
        tracker=dict(advection=advection),
        output=dict(filename=str(Path(d)/"out.nc"), output_period=outper, layout=layout,
                    instance_variables={}, particle_variables={}),
    )
    if reversed_: conf["time"]["time_reversal"] = True
    if reference is not None: conf["time"]["reference"] = reference
    if numrec: conf["output"]["numrec"] = numrec
    if extra_forcing: conf["forcing"]["extra_forcing"] = list(extra_forcing)
    if subgrid: conf["grid"]["subgrid"] = list(subgrid)
    if ibm: conf["ibm"] = ibm
    if release: conf["release"].update(release)
    if tracker: conf["tracker"].update(tracker)
    enc = dict(pid="i4", alive="i1", active="i1")
    for v in out_ivars:
        conf["output"]["instance_variables"][v] = dict(encoding=dict(datatype=enc.get(v,"f8")), attributes=dict(long_name=v))
    for v in out_pvars:
        att = dict(long_name=v)
        if v == "release_time": att["units"] = "seconds since reference_time"
        conf["output"]["particle_variables"][v] = dict(encoding=dict(datatype="f8"), attributes=att)
    return conf

def run(conf, d, name="ladim.yaml"):
    from ladim.main import main
    p = Path(d)/name
    with open(p, "w") as f: yaml.safe_dump(conf, f)
    logging.disable(logging.CRITICAL)
    cwd = os.getcwd(); os.chdir(d)
    try:
        main(str(p), loglevel=logging.ERROR)
    finally:
        os.chdir(cwd)

def read_out(fname):
    with Dataset(fname) as nc:
        nc.set_auto_mask(False)
        out = {k: nc.variables[k][:].copy() for k in nc.variables}
        out["_units"] = nc.variables["time"].units
        out["_dims"] = {k: len(v) for k, v in nc.dimensions.items()}
    return out

def records(o, vars_=("pid","X","Y","Z")):
    pc = o["particle_count"]; ends = np.cumsum(pc); starts = ends - pc
    recs = []
    for n in range(len(pc)):
        recs.append(dict(time=float(o["time"][n]), **{v: o[v][starts[n]:ends[n]].tolist() for v in vars_ if v in o}))
    return recs
