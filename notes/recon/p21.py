import os, sys; HERE = os.path.dirname(os.path.abspath(__file__)); sys.path.insert(0, os.environ.get("LADIM_REPO", "/repo")); sys.path.insert(0, HERE)
from lab import *
import warnings; warnings.filterwarnings("ignore")
seed = int(sys.argv[1]) if len(sys.argv) > 1 else 0
rng = np.random.default_rng(seed)
ntr = int(sys.argv[2]) if len(sys.argv) > 2 else 40
stats = dict(runs=0, exc={}, inv_viol=0, deaths=0, landcancel=0)
for t in range(ntr):
    d = tempfile.mkdtemp(prefix="p21_")
    try:
        imax, jmax = 12, 10
        mask = np.ones((jmax, imax))
        for _ in range(rng.integers(0, 4)):
            mask[rng.integers(2, jmax-2), rng.integers(2, imax-2)] = 0
        if rng.random() < 0.3: mask[4, 3:8] = 0; mask[4, 5] = 1  # wall with a one-cell channel
        h = 20.0 + 40.0*rng.random((jmax, imax))
        a, b, c = rng.uniform(-3, 3, 3)
        speed = 10**rng.uniform(-1.5, 0.6)  # up to ~4 m/s ; dx=100, dt=64 -> up to 2.5 cells/step
        uf = lambda t,k,j,i: speed*(np.cos(a) + 0.3*np.sin(b*i + c*j) + 0.2*k)
        vf = lambda t,k,j,i: speed*(np.sin(a) + 0.3*np.cos(c*i - b*j) - 0.1*k)
        make_grid_forcing(f"{d}/f.nc", [-640, 64000], imax=imax, jmax=jmax, N=3, h=h, mask=mask, ufunc=uf, vfunc=vf, scal=dict(w=lambda t,k,j,i: 0.05*np.sin(i+j+k)))
        sub = None
        if rng.random() < 0.4:
            i0 = int(rng.integers(1, 4)); i1 = int(rng.integers(8, 12)); j0 = int(rng.integers(1, 3)); j1 = int(rng.integers(7, 10)); sub = [i0, i1, j0, j1]
        else: i0, i1, j0, j1 = 1, imax-1, 1, jmax-1
        rows = []
        for _ in range(60):
            x = rng.uniform(i0+0.5, i1-1.5); y = rng.uniform(j0+0.5, j1-1.5)
            if rng.random() < 0.3: x = [i0+0.501, i1-1.501][rng.integers(2)]
            if not (i0+0.5 < x < i1-1.5 and j0+0.5 < y < j1-1.5): continue
            if mask[int(round(y)), int(round(x))] < 1: continue
            rows.append(dict(release_time=0, X=float(x), Y=float(y), Z=float(rng.uniform(0, 20))))
        if not rows: continue
        write_release(f"{d}/release.rls", rows)
        adv = ["EF", "RK2", "RK4"][rng.integers(3)]
        trk = dict(diffusion=float(10**rng.uniform(-1, 2))) if rng.random() < 0.4 else {}
        if rng.random() < 0.5: trk["vertdiff"] = float(10**rng.uniform(-4, -1))
        va = rng.random() < 0.4
        if va: trk["vertical_advection"] = True
        conf = base_conf(d, 0, 10*64, 64, 128, f"{d}/f.nc", f"{d}/f.nc", advection=adv, subgrid=sub, tracker=trk,
                         extra_forcing=["w"] if va else None, ivars=dict(w="float") if va else None, defaults=dict(w=0.0) if va else None,
                         ibm=dict(module=os.path.join(HERE, "rec_ibm"), log=f"{d}/log.json"))
        stats["runs"] += 1
        try:
            run(conf, d)
        except BaseException as e:
            k = f"{type(e).__name__}: {str(e)[:60]}"; stats["exc"][k] = stats["exc"].get(k, 0) + 1
            if len(stats["exc"]) <= 3 and stats["exc"][k] == 1:
                import traceback; tb = traceback.format_exc().splitlines(); print("EXC", k, "|", [l.strip() for l in tb if "ladim/" in l][-3:], dict(adv=adv, sub=sub, trk=trk, speed=round(speed,2)))
            continue
        log = json.load(open(f"{d}/log.json"))
        prev = {}
        for rec in log:
            for pid, al, ac, x, y, z in zip(rec["pid"], rec["alive"], rec["active"], rec["X"], rec["Y"], rec["Z"]):
                if al:
                    inside = (i0+0.5 < x < i1-1.5) and (j0+0.5 < y < j1-1.5)
                    sea = inside and mask[int(np.round(y)), int(np.round(x))] > 0
                    hh = h[int(np.round(y)), int(np.round(x))] if inside else None
                    if not (inside and sea and np.isfinite(x) and np.isfinite(y)):
                        stats["inv_viol"] += 1
                        if stats["inv_viol"] <= 3: print("INVARIANT", dict(step=rec["step"], pid=pid, x=x, y=y, inside=inside, sea=sea, adv=adv, sub=sub))
                    if pid in prev and prev[pid][0] and ("vertdiff" in trk or va):
                        h0 = h[int(np.round(prev[pid][2])), int(np.round(prev[pid][1]))]
                        if not (-1e-12 <= z <= h0 + 1e-9):
                            stats.setdefault("z_viol", 0); stats["z_viol"] += 1
                            if stats["z_viol"] <= 3: print("DEPTH", dict(z=z, h0=h0, zprev=prev[pid][3], trk=trk))
                elif pid in prev and prev[pid][0]: stats["deaths"] += 1
                if pid in prev and not prev[pid][0] and al: stats.setdefault("revived", 0); stats["revived"] += 1
                prev[pid] = (al, x, y, z)
    finally:
        shutil.rmtree(d)
print(seed, stats)
