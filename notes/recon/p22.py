import os, sys; HERE = os.path.dirname(os.path.abspath(__file__)); sys.path.insert(0, os.environ.get("LADIM_REPO", "/repo")); sys.path.insert(0, HERE)
from lab import *
import warnings; warnings.filterwarnings("ignore")
import glob
seed = int(sys.argv[1]) if len(sys.argv) > 1 else 0
rng = np.random.default_rng(seed)
dt = 64
def build(d, frames, parts, sign, tmap, a, b):
    # u(t,k,j,i) = sign*( c(t) * (1 + 0.125*k) + 0.0625*(i - j) ) ; frames given in dt units (true time), tmap maps true time->file time
    c = lambda t: 0.25 + ((t/dt) % 7)/16.0 + (t/dt)**2/256.0
    k0 = 0; files = []
    order = sorted(range(len(frames)), key=lambda n: tmap(frames[n]))
    fr_sorted = [frames[n] for n in order]
    for n, sz in enumerate(parts):
        chunk = fr_sorted[k0:k0+sz]; k0 += sz
        ts = [tmap(f)*dt for f in chunk]
        vals = {tmap(f)*dt: f*dt for f in chunk}
        make_grid_forcing(f"{d}/f_{n:03d}.nc", ts,
            ufunc=lambda t,k,j,i: sign*(c(vals[t])*(1+0.125*k) + 0.0625*(i-j)*a),
            vfunc=lambda t,k,j,i: sign*(0.5*c(vals[t]) - 0.03125*(i+j)*b))
def recs(pattern, S=None):
    out = []
    for f in sorted(glob.glob(pattern)):
        o = read_out(f)
        u = o["_units"].split("since")[1].strip()
        ref = (np.datetime64(u) - T0)/np.timedelta64(1,"s")
        for r in records(o): out.append((r["time"]+ref, r["pid"], r["X"], r["Y"]))
    return out
bad = 0; n_ok = 0
for trial in range(int(sys.argv[2]) if len(sys.argv) > 2 else 10):
    d1 = tempfile.mkdtemp(prefix="p22a_"); d2 = tempfile.mkdtemp(prefix="p22b_")
    try:
        nfr = int(rng.integers(3, 7)); gaps = rng.integers(1, 5, nfr-1); frames = [0] + list(np.cumsum(gaps)); last = frames[-1]
        # partition
        cuts = sorted(rng.choice(range(1, nfr), size=int(rng.integers(0, min(3, nfr-1)+1)), replace=False)) if nfr > 1 else []
        parts = [b-a for a, b in zip([0]+list(cuts), list(cuts)+[nfr])]
        S = int(rng.integers(max(1, last-3), last+1)); E = int(rng.integers(0, S))  # reversed from S down to E (dt units)
        nsteps = S - E
        a, b = float(rng.integers(0, 3)), float(rng.integers(0, 3))
        adv = ["EF","RK2","RK4"][rng.integers(3)]
        cont = rng.random() < 0.4
        # release rows at true times (dt units) between E+1..S
        rts = sorted(set(int(x) for x in rng.integers(E+1, S+1, size=3)), reverse=True)
        if cont: rts = [S, max(E+1, S-4)] if S-4 > E else [S]
        rows = [dict(mult=int(rng.integers(1,3)), release_time=t*dt, X=float(rng.integers(8, 14))/2, Y=float(rng.integers(6, 12))/2, Z=float(rng.integers(0, 40))) for t in rts]
        ops = int(rng.integers(1, 4))
        rel = dict(continuous=True, release_frequency=[2*dt, "s"]) if cont else None
        # run A: reversed
        build(d1, frames, parts, +1.0, lambda f: f, a, b)
        write_release(f"{d1}/release.rls", rows)
        cA = base_conf(d1, S*dt, E*dt, dt, ops*dt, f"{d1}/f_*.nc", f"{d1}/f_000.nc", advection=adv, reversed_=True, release=rel, reference=str(T0))
        # run B: forward on mirrored time axis t -> 2S - t, negated fields
        build(d2, frames, parts, -1.0, lambda f: 2*S - f, a, b)
        write_release(f"{d2}/release.rls", [dict(r, release_time=(2*S*dt - r["release_time"])) for r in rows])
        cB = base_conf(d2, S*dt, (2*S-E)*dt, dt, ops*dt, f"{d2}/f_*.nc", f"{d2}/f_000.nc", advection=adv, release=rel, reference=str(T0))
        try:
            run(cA, d1); run(cB, d2)
        except BaseException as e:
            import traceback; print("EXC", type(e).__name__, str(e)[:80], [l.strip() for l in traceback.format_exc().splitlines() if "ladim/" in l][-2:], dict(frames=frames, parts=parts, S=S, E=E, adv=adv, cont=cont)); bad += 1; continue
        A = recs(f"{d1}/out*.nc"); B = recs(f"{d2}/out*.nc")
        ok = len(A) == len(B) and all(abs((2*S*dt - ta) - tb) < 1e-9 and pa == pb and np.allclose(xa, xb, atol=2e-6) and np.allclose(ya, yb, atol=2e-6) for (ta,pa,xa,ya),(tb,pb,xb,yb) in zip(A,B))
        clock_ok = all(abs(ta - (S - k*ops)*dt) < 1e-9 for k, (ta, *_r) in enumerate(A))
        if ok and clock_ok: n_ok += 1
        else:
            bad += 1
            if bad <= 3: print("MISMATCH", dict(frames=frames, parts=parts, S=S, E=E, adv=adv, cont=cont, ops=ops, rows=[(r["release_time"]//dt, r["mult"]) for r in rows]), "\n  A", [(t/dt, p, np.round(x,3).tolist()) for t,p,x,y in A][:4], "\n  B", [(t/dt, p, np.round(x,3).tolist()) for t,p,x,y in B][:4])
    finally:
        shutil.rmtree(d1); shutil.rmtree(d2)
print("seed", seed, "ok", n_ok, "bad", bad)
