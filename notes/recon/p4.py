import os, sys; HERE = os.path.dirname(os.path.abspath(__file__)); sys.path.insert(0, os.environ.get("LADIM_REPO", "/repo")); sys.path.insert(0, HERE)
from lab import *
import warnings; warnings.filterwarnings("ignore")
import glob
def trial(nsteps, ops, numrec, layout="sparse", rev=False, pv=False):
    d = tempfile.mkdtemp(prefix="p4_")
    dt = 60
    make_grid_forcing(f"{d}/f.nc", [-600, 6000], ufunc=lambda t,k,j,i: 0.1+0*i)
    start = 3000 if rev else 0
    stop = start - nsteps*dt if rev else start + nsteps*dt
    rows = [dict(release_time=start, X=5.0, Y=4.0, Z=5.0), dict(release_time=start+(-dt if rev else dt), X=5.0, Y=5.0, Z=5.0)] if nsteps > 1 else [dict(release_time=start, X=5.0, Y=4.0, Z=5.0)]
    write_release(f"{d}/release.rls", rows)
    conf = base_conf(d, start, stop, dt, ops*dt, f"{d}/f.nc", f"{d}/f.nc", numrec=numrec, layout=layout, reversed_=rev,
                     pvars=dict(release_time="time") if pv else None, out_pvars=("release_time",) if pv else ())
    res = None
    try:
        run(conf, d)
        files = sorted(glob.glob(f"{d}/out*.nc"))
        res = []
        for f in files:
            o = read_out(f)
            res.append((os.path.basename(f), o["time"].tolist(), o.get("particle_count", np.array([])).tolist(), o["release_time"].tolist() if pv else None))
    except BaseException as e:
        res = ("EXC", type(e).__name__, str(e)[:80])
    shutil.rmtree(d)
    return res
for (n, ops, nr) in [(6,2,0), (7,2,0), (5,3,0), (1,2,0), (2,3,0), (6,2,2), (7,2,2), (8,2,3), (6,1,4), (9,2,2)]:
    print((n,ops,nr), trial(n, ops, nr))
print("pv", trial(6,2,2,pv=True))
print("dense", trial(6,2,0,layout="dense"))
print("rev", trial(6,2,0,rev=True))
print("rev split", trial(6,2,2,rev=True))
