import os, sys; HERE = os.path.dirname(os.path.abspath(__file__)); sys.path.insert(0, os.environ.get("LADIM_REPO", "/repo")); sys.path.insert(0, HERE)
from lab import *
import warnings; warnings.filterwarnings("ignore")
import glob, json
d = tempfile.mkdtemp(prefix="p23_")
make_grid_forcing(f"{d}/f_000.nc", [-640, 320], ufunc=lambda t,k,j,i: 0.125*(k+1)+0*i, scal=dict(temp=lambda t,k,j,i: 5.0+k+0*i))
make_grid_forcing(f"{d}/f_001.nc", [640, 6400], ufunc=lambda t,k,j,i: 0.25*(k+1)+0*i, scal=dict(temp=lambda t,k,j,i: 6.0+k+0*i))
write_release(f"{d}/release.rls", [dict(mult=2, release_time=0, X=4.0, Y=4.0, Z=5.0, farmid=17), dict(mult=1, release_time=256, X=4.5, Y=5.0, Z=30.0, farmid=18)], header=False)
cols = ["mult", "release_time", "X", "Y", "Z", "farmid"]
ibm_path = os.path.join(HERE, "killer_ibm")
v1 = f"""
time_control:
    start_time: 2000-01-01 00:00:00
    stop_time: 2000-01-01 00:12:48
    reference_time: 1999-12-31 00:00:00
files:
    particle_release_file: {d}/release.rls
    output_file: {d}/out_v1.nc
particle_release:
    variables: [mult, release_time, X, Y, Z, farmid]
    release_type: continuous
    release_frequency: [128, s]
    release_time: time
    farmid: int
    particle_variables: [release_time, farmid]
gridforce:
    module: ladim1.gridforce.ROMS
    input_file: {d}/f_*.nc
    subgrid: [2, 10, 1, 9]
    extra_forcing: [temp]
ibm:
    ibm_module: {ibm_path}
    variables: [age, temp]
    kills: {{3: [1]}}
output_variables:
    outper: [128, s]
    particle: [release_time, farmid]
    instance: [pid, X, Y, Z, age, temp]
    release_time: {{ncformat: f8, long_name: particle release time, units: seconds since reference_time}}
    farmid: {{ncformat: i4, long_name: farm}}
    pid: {{ncformat: i4, long_name: particle identifier}}
    X: {{ncformat: f4, long_name: particle X-coordinate}}
    Y: {{ncformat: f4, long_name: particle Y-coordinate}}
    Z: {{ncformat: f4, long_name: particle depth}}
    age: {{ncformat: f4, long_name: age}}
    temp: {{ncformat: f4, long_name: temp}}
numerics:
    dt: [64, s]
    advection: RK4
    diffusion: 0.0
"""
enc = dict(pid="i4")
v2 = dict(version=2,
  time=dict(start="2000-01-01 00:00:00", stop="2000-01-01 00:12:48", reference="1999-12-31 00:00:00", dt=[64, "s"]),
  grid=dict(subgrid=[2, 10, 1, 9]),
  forcing=dict(module="ladim.ROMS", filename=f"{d}/f_*.nc", extra_forcing=["temp"]),
  tracker=dict(advection="RK4"),
  state=dict(particle_variables=dict(release_time="time", farmid="int"), instance_variables=dict(age="float", temp="float"), default_values=dict(age=0, temp=0)),
  release=dict(release_file=f"{d}/release.rls", names=cols, continuous=True, release_frequency=[128, "s"]),
  ibm=dict(module=ibm_path, kills={3: [1]}),
  output=dict(filename=f"{d}/out_v2.nc", output_period=[128, "s"],
     instance_variables={v: dict(encoding=dict(datatype=enc.get(v, "f4")), attributes=dict(long_name=v)) for v in ["pid","X","Y","Z","age","temp"]},
     particle_variables=dict(release_time=dict(encoding=dict(datatype="f8"), attributes=dict(long_name="rt", units="seconds since reference_time")),
                             farmid=dict(encoding=dict(datatype="i4"), attributes=dict(long_name="farm")))))
def tomlify(x, prefix=""):
    lines = []; subs = []
    for k, v in x.items():
        if isinstance(v, dict): subs.append((k, v))
        else: lines.append(f"{json.dumps(str(k)) if not str(k).isidentifier() else k} = {json.dumps(v)}")
    out = ([f"[{prefix}]"] if prefix else []) + lines
    for k, v in subs: out += tomlify(v, f"{prefix}.{json.dumps(str(k)) if not str(k).isidentifier() else k}" if prefix else str(k))
    return out
from ladim.main import main
logging.disable(logging.CRITICAL)
try:
    open(f"{d}/v1.yaml","w").write(v1); yaml.safe_dump(v2, open(f"{d}/v2.yaml","w"))
    v2t = json.loads(json.dumps(v2)); v2t["output"]["filename"] = f"{d}/out_toml.nc"; v2t["ibm"]["kills"] = {"3": [1]}
    open(f"{d}/v2.toml","w").write("\n".join(tomlify(v2t)))
    for name in ["v1.yaml", "v2.yaml", "v2.toml"]:
        try: main(f"{d}/{name}", loglevel=logging.ERROR)
        except BaseException as e:
            import traceback; print(name, "EXC", type(e).__name__, str(e)[:200], [l.strip() for l in traceback.format_exc().splitlines() if "ladim/" in l][-2:])
    outs = {}
    for f in sorted(glob.glob(f"{d}/out_*.nc")):
        o = read_out(f); outs[os.path.basename(f)] = o
        print(os.path.basename(f), o["_units"], o["_dims"], [(r["time"], r["pid"]) for r in records(o)][:3], "rt", o.get("release_time")[:4], "farm", o.get("farmid")[:4])
    names = list(outs)
    for n in names[1:]:
        same = all(np.array_equal(outs[names[0]][k], outs[n][k]) for k in outs[names[0]] if not k.startswith("_"))
        print(names[0], "==", n, same)
finally:
    shutil.rmtree(d)
