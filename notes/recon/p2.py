import os, sys; HERE = os.path.dirname(os.path.abspath(__file__)); sys.path.insert(0, os.environ.get("LADIM_REPO", "/repo")); sys.path.insert(0, HERE)
from lab import *
import warnings; warnings.filterwarnings("ignore")
# --- C01: one step in shear flow u = a*(x) , v=0 ; dx=100, dt=64 ; EF: x1 = x + a x dt/dx ; RK2 Heun/midpoint differ
res = {}
for adv in ["EF", "RK2", "RK4"]:
    d = tempfile.mkdtemp(prefix="p2_")
    # u at u-point file index i sits at x = i+0.5 ; u = 0.25*(x) m/s
    make_grid_forcing(f"{d}/f.nc", [0, 6400], ufunc=lambda t,k,j,i: 0.25*(i+0.5), vfunc=None)
    write_release(f"{d}/release.rls", [dict(release_time=0, X=4.0, Y=4.0, Z=5.0)])
    conf = base_conf(d, 0, 256, 64, 64, f"{d}/f.nc", f"{d}/f.nc", advection=adv)
    run(conf, d)
    o = read_out(f"{d}/out.nc")
    res[adv] = [r["X"][0] for r in records(o)]
    shutil.rmtree(d)
print(res)
# expected: k = a*dt/dx = 0.25*64/100=0.16 ; EF factor 1.16 ; RK2 (midpoint: 1+k+k^2/2=1.1728); RK4 1.17351
print("EF exp", 4*1.16, "RK2 exp", 4*(1+.16+.0128), "RK4 exp", 4*(1+.16+.0128+.16**3/6+.16**4/24))

# --- C13/C10: reversed clock
from ladim.timekeeper import TimeKeeper
t = TimeKeeper(start="2000-01-01T01:00:00", stop="2000-01-01T00:00:00", dt=600, time_reversal=True)
print("rev init", t.step, t.time, "Nsteps", t.Nsteps)
for n in range(3):
    t.update(); print(" step", t.step, "time", t.time, "step2isotime", t.step2isotime(t.step), "step2time", t.step2time(t.step), "nctime", t.nctime(), t.step2nctime(t.step))
t = TimeKeeper(start="2000-01-01T00:00:00", stop="2000-01-01T01:00:00", dt=600)
print("fwd init", t.step, t.time, "Nsteps", t.Nsteps)
for n in range(2):
    t.update(); print(" step", t.step, "time", t.time, t.step2isotime(t.step))
