import sys, os; sys.path.insert(0, os.environ.get("LADIM_REPO", "/repo"))
import numpy as np, warnings; warnings.filterwarnings("ignore")
from ladim.sample import sample2D, bilin_inv
def polar_stereo(imax, jmax, dx_km, xp, yp, ylon=58.0, lat_ts=60.0):
    """ROMS-style polar stereographic grid: lon/lat of rho points (i,j); pole at grid coords (xp,yp)"""
    R = 6371.0; phi0 = np.radians(lat_ts)
    jj, ii = np.meshgrid(np.arange(jmax), np.arange(imax), indexing="ij")
    X = (ii - xp)*dx_km; Y = (jj - yp)*dx_km
    r = np.hypot(X, Y)
    lam = np.degrees(np.arctan2(X, -Y)) + ylon
    phi = 90 - 2*np.degrees(np.arctan(r/(R*(1+np.sin(phi0)))))
    return lam, phi
rng = np.random.default_rng(1)
def classify(name, lon, lat, n=400, margin=1.0):
    jmax, imax = lon.shape
    X = rng.uniform(margin, imax-1-margin, n); Y = rng.uniform(margin, jmax-1-margin, n)
    lo = sample2D(lon, X, Y); la = sample2D(lat, X, Y)
    exc = conv_ok = conv_bad = 0; worst = 0.0; worst_res = 0.0
    for k in range(n):
        try:
            yb, xb = bilin_inv(lo[k:k+1], la[k:k+1], lon, lat)
        except IndexError:
            exc += 1; continue
        e = float(np.hypot(xb-X[k], yb-Y[k])[0])
        inside = (0 <= xb[0] < imax-1) and (0 <= yb[0] < jmax-1)
        res = np.hypot(sample2D(lon, xb, yb) - lo[k], sample2D(lat, xb, yb) - la[k])[0] if inside else np.inf
        # solver tolerance: squared residual < 1e-7 deg^2
        if res**2 < 1e-7: conv_ok += 1; worst = max(worst, e)
        else: conv_bad += 1; worst_res = max(worst_res, res)
    # vectorised call
    try:
        Yb, Xb = bilin_inv(lo, la, lon, lat); vec = f"vector call ok, max err {np.hypot(Xb-X, Yb-Y).max():.2e} cells"
    except IndexError as e: vec = "vector call IndexError"
    print(f"{name:34s} {str(lon.shape):12s} IndexError={exc:3d} residual>tol={conv_bad:3d} ok={conv_ok:3d} (worst pos err {worst:.3f} cells) | {vec}")
classify("20 km, pole far", *polar_stereo(120, 100, 20.0, 80.0, 250.0))
classify("4 km Nordic-like", *polar_stereo(400, 300, 4.0, 418.25, 257.25*4))
classify("800 m NorKyst-like", *polar_stereo(1200, 500, 0.8, 3991.0, 2230.0))
classify("4 km, pole just outside", *polar_stereo(300, 200, 4.0, 150.0, 220.0))
l2 = polar_stereo(400, 300, 4.0, 418.25, 257.25*4); classify("4 km subgrid", l2[0][20:120, 30:150], l2[1][20:120, 30:150])
classify("4 km small 60x50", *polar_stereo(60, 50, 4.0, 418.25, 257.25*4))
