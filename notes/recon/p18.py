import os, sys; HERE = os.path.dirname(os.path.abspath(__file__)); sys.path.insert(0, os.environ.get("LADIM_REPO", "/repo")); sys.path.insert(0, HERE)
from lab import *
import warnings; warnings.filterwarnings("ignore")
import glob
d = tempfile.mkdtemp(prefix="p18_")
dt = 64
make_grid_forcing(f"{d}/f.nc", [-640, 64000], ufunc=lambda t,k,j,i: 0.125+0*i)
write_release(f"{d}/release.rls", [dict(release_time=0, X=3.0, Y=4.0, Z=5.0), dict(release_time=64, X=3.5, Y=5.0, Z=5.0), dict(release_time=192, X=4.0, Y=5.0, Z=5.0)])
def conf(out, kills, warm=None):
    c = base_conf(d, 0, 8*dt, dt, 2*dt, f"{d}/f.nc", f"{d}/f.nc", numrec=2, ibm=dict(module=os.path.join(HERE, "killer_ibm"), kills=kills))
    c["output"]["filename"] = f"{d}/{out}"
    if warm: c["warm_start"] = dict(filename=warm, variables=[])
    return c
try:
    run(conf("full.nc", {1: [1]}), d)
    for f in sorted(glob.glob(f"{d}/full_*.nc")): print("FULL", os.path.basename(f), [(r["time"], r["pid"]) for r in records(read_out(f))])
    run(conf("rest_001.nc", {}, warm=f"{d}/full_000.nc"), d, name="r.yaml")
    for f in sorted(glob.glob(f"{d}/rest_*.nc")): print("REST", os.path.basename(f), [(r["time"]+128, r["pid"]) for r in records(read_out(f))])
finally:
    shutil.rmtree(d)
