import os, sys; HERE = os.path.dirname(os.path.abspath(__file__)); sys.path.insert(0, os.environ.get("LADIM_REPO", "/repo")); sys.path.insert(0, HERE)
import numpy as np, warnings; warnings.filterwarnings("ignore")
from ladim.ROMS import s_stretch, sdepth, z2s
rng = np.random.default_rng(1)
bad = {}
def note(k, v):
    bad.setdefault(k, []); 
    if len(bad[k]) < 3: bad[k].append(v)
for trial in range(4000):
    N = int(rng.integers(1, 61)); Vs = int(rng.choice([1,2,4])); Vt = int(rng.choice([1,2]))
    ths = float(10**rng.uniform(-3, 1)); thb = float(rng.uniform(0,1)) if Vs == 1 else float(10**rng.uniform(-3, np.log10(4)))
    h = float(10**rng.uniform(0, np.log10(5000)));
    hc = float(rng.uniform(0, h)) if Vt == 1 else float(10**rng.uniform(-1, 3))
    Cr = s_stretch(N, ths, thb, "rho", Vs); Cw = s_stretch(N, ths, thb, "w", Vs)
    p = (N, Vs, Vt, ths, thb, h, hc)
    if not (np.all(np.diff(Cw) > 0) and abs(Cw[0]+1) < 1e-12 and abs(Cw[-1]) < 1e-12): note("Cw", (p, Cw[:3], Cw[-2:]))
    if N > 1 and not np.all(np.diff(Cr) > 0): note("Cr", p)
    if not (np.all(Cr > -1) and np.all(Cr < 0)): note("Cr range", p)
    zr = sdepth(np.array([h]), hc, Cr, "rho", Vt)[:,0]; zw = sdepth(np.array([h]), hc, Cw, "w", Vt)[:,0]
    if not (abs(zw[0]+h) < 1e-9*h and abs(zw[-1]) < 1e-9*h): note("zw ends", (p, zw[0], zw[-1]))
    if not np.all(np.diff(zw) > 0): note("zw mono", p)
    if N > 1 and not np.all(np.diff(zr) > 0): note("zr mono", p)
    if not (np.all(zw[:-1] < zr) and np.all(zr < zw[1:])): note("interleave", p)
    if N >= 2:
        Z = np.concatenate([rng.uniform(-5, h+5, 20), -zr, [0.0, h]])
        K, A = z2s(zr.reshape(N,1,1), np.zeros_like(Z), np.zeros_like(Z), Z)
        ok = np.all((K >= 1) & (K <= N-1)) and np.all((A >= 0) & (A <= 1))
        val = A*zr[K-1] + (1-A)*zr[K]; exp = np.clip(-Z, zr[0], zr[-1])
        if not ok: note("z2s range", (p, K.min(), K.max(), A.min(), A.max()))
        elif not np.allclose(val, exp, rtol=0, atol=1e-9*max(1,h)): note("z2s identity", (p,))
for k, v in bad.items(): print(k, len(v), v[:2])
print("done")
# N == 1
try:
    zr = sdepth(np.array([50.0]), 0.0, s_stretch(1, 5, 0.4), "rho").reshape(1,1,1)
    print("N=1 z2s:", z2s(zr, np.zeros(3), np.zeros(3), np.array([0., 25., 60.])))
except Exception as e: print("N=1 EXC", type(e).__name__, e)
