import os, sys; HERE = os.path.dirname(os.path.abspath(__file__)); sys.path.insert(0, os.environ.get("LADIM_REPO", "/repo")); sys.path.insert(0, HERE)
from lab import *
import warnings; warnings.filterwarnings("ignore")
def trial(u, v, X, Y, mask=None, adv="EF", nsteps=4, subgrid=None, dt=64, diffusion=0):
    d = tempfile.mkdtemp(prefix="p6_")
    make_grid_forcing(f"{d}/f.nc", [-640, 64000], ufunc=lambda t,k,j,i: u*(j>=3)+0*i, vfunc=lambda t,k,j,i: v*(j>=3)+0*i, mask=mask)
    rows = [dict(release_time=0, X=4.0, Y=2.0, Z=5.0)] + [dict(release_time=0, X=x, Y=y, Z=5.0) for x, y in zip(X, Y)]
    write_release(f"{d}/release.rls", rows)
    conf = base_conf(d, 0, nsteps*dt, dt, dt, f"{d}/f.nc", f"{d}/f.nc", advection=adv, subgrid=subgrid, tracker=dict(diffusion=diffusion) if diffusion else None)
    try:
        run(conf, d); o = read_out(f"{d}/out.nc")
        res = [(r["pid"], [round(x,3) for x in r["X"]], [round(x,3) for x in r["Y"]]) for r in records(o)]
    except BaseException as e:
        import traceback; res = ("EXC", type(e).__name__, str(e)[:100], traceback.format_exc().splitlines()[-3].strip())
    shutil.rmtree(d); return res
print("slow flow to E boundary (0.3 cell/step):", trial(0.46875, 0, [9.0], [4.0]))
print("fast flow to E boundary (1.2 cell/step):", trial(1.875, 0, [9.4], [4.0]))
print("fast flow to W boundary (1.2 cell/step):", trial(-1.875, 0, [1.6], [4.0]))
print("very fast W (3 cell/step):", trial(-4.6875, 0, [1.6], [4.0]))
print("very fast E (3 cell/step):", trial(4.6875, 0, [9.4], [4.0]))
print("RK4 fast E:", trial(1.875, 0, [9.4], [4.0], adv="RK4"))
print("subgrid [2,9,2,8], flow E:", trial(0.46875, 0, [7.0], [4.0], subgrid=[2,9,2,8]))
print("subgrid fast flow E:", trial(1.875, 0, [7.4], [4.0], subgrid=[2,9,2,8]))
print("subgrid very fast W:", trial(-4.6875, 0, [2.6], [4.0], subgrid=[2,9,2,8]))
