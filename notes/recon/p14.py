import os, sys; HERE = os.path.dirname(os.path.abspath(__file__)); sys.path.insert(0, os.environ.get("LADIM_REPO", "/repo")); sys.path.insert(0, HERE)
from lab import *
import warnings; warnings.filterwarnings("ignore")
def trial(kills, layout, rows, nsteps=8, ops=2, out_ivars=("pid","X","Y","Z"), ivars=None):
    d = tempfile.mkdtemp(prefix="p14_")
    dt = 64
    make_grid_forcing(f"{d}/f.nc", [-640, 64000], ufunc=lambda t,k,j,i: 0.25+0*i)
    write_release(f"{d}/release.rls", rows)
    conf = base_conf(d, 0, nsteps*dt, dt, ops*dt, f"{d}/f.nc", f"{d}/f.nc", layout=layout, out_ivars=out_ivars, ivars=ivars,
                     pvars=dict(w="float"), out_pvars=("w",), ibm=dict(module=os.path.join(HERE, "killer_ibm"), kills=kills))
    try:
        run(conf, d); o = read_out(f"{d}/out.nc")
        if layout == "sparse": res = (o["_dims"], o["particle_count"].tolist(), [(r["pid"], np.round(r["X"],3).tolist()) for r in records(o)], o["w"].tolist())
        else: res = (o["_dims"], np.round(o["X"],3).tolist(), o["w"].tolist(), {k: np.round(o[k],3).tolist() for k in ("lon",) if k in o})
    except BaseException as e:
        import traceback; res = ("EXC", type(e).__name__, str(e)[:100], traceback.format_exc().splitlines()[-3].strip())
    shutil.rmtree(d); return res
R = lambda t, x, w: dict(release_time=t, X=x, Y=4.0, Z=5.0, w=w)
print("sparse: all die at step 1, new release at step 4:", trial({1:[0,1]}, "sparse", [R(0,3.,1.),R(0,3.5,2.),R(256,4.,3.)]))
print("dense: births at 0 and step 4, pid1 dies step 1:", trial({1:[1]}, "dense", [R(0,3.,1.),R(0,3.5,2.),R(256,4.,3.)]))
print("dense+lon:", trial({1:[1]}, "dense", [dict(R(0,3.,1.), lon=0., lat=0.),dict(R(0,3.5,2.), lon=0., lat=0.),dict(R(256,4.,3.), lon=0., lat=0.)], out_ivars=("X","lon","lat"), ivars=dict(lon="float", lat="float")))
print("sparse+lon:", trial({1:[1]}, "sparse", [dict(R(0,3.,1.), lon=0., lat=0.),dict(R(0,3.5,2.), lon=0., lat=0.)], out_ivars=("pid","X","lon","lat"), ivars=dict(lon="float", lat="float")))
