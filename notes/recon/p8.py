import os, sys; HERE = os.path.dirname(os.path.abspath(__file__)); sys.path.insert(0, os.environ.get("LADIM_REPO", "/repo")); sys.path.insert(0, HERE)
from lab import *
import warnings; warnings.filterwarnings("ignore")
import glob, copy
def scenario(d, nsteps, ops, numrec, kills, adv="EF", outname="out.nc", warm=None, start=0):
    dt = 64
    conf = base_conf(d, start, nsteps*dt, dt, ops*dt, f"{d}/f.nc", f"{d}/f.nc", numrec=numrec, advection=adv,
                     ivars=dict(age="float"), defaults=dict(age=0), pvars=dict(w="float", release_time="time"),
                     out_ivars=("pid","X","Y","Z","age"), out_pvars=("w","release_time"),
                     release=dict(continuous=True, release_frequency=[128, "s"]),
                     ibm=dict(module=os.path.join(HERE, "killer_ibm"), kills=kills))
    conf["output"]["filename"] = f"{d}/{outname}"
    if warm:
        conf["warm_start"] = dict(filename=warm, variables=["age", "w", "release_time"])
    return conf
def allrecs(pattern):
    out = []
    for f in sorted(glob.glob(pattern)):
        o = read_out(f)
        rs = records(o, ("pid","X","age"))
        out.append((os.path.basename(f), [(r["time"], r["pid"], [round(x,4) for x in r["X"]], r["age"]) for r in rs], o["w"].tolist(), o["release_time"].tolist()))
    return out
d = tempfile.mkdtemp(prefix="p8_")
make_grid_forcing(f"{d}/f.nc", [-640, 64000], ufunc=lambda t,k,j,i: 0.125*(k+1)+0*i)
write_release(f"{d}/release.rls", [dict(mult=1, release_time=0, X=3.0, Y=4.0, Z=5.0, w=1.5), dict(mult=2, release_time=256, X=3.5, Y=5.0, Z=30.0, w=2.5)])
nsteps, ops, numrec = 12, 2, 2
kills = {3: [1]}
try:
    run(scenario(d, nsteps, ops, numrec, kills, outname="full.nc"), d)
    full = allrecs(f"{d}/full_*.nc")
    for x in full: print("FULL", x)
    # restart from full_000.nc (2 records: t=0,128) -> continue into rest_001.nc
    import shutil as sh
    conf = scenario(d, nsteps, ops, numrec, {}, outname="rest_001.nc", warm=f"{d}/full_000.nc")
    # kills are keyed by step of the run: shift
    last_t = 128; shift = last_t//64
    conf["ibm"]["kills"] = {k-shift: v for k, v in kills.items() if k-shift >= 0}
    run(conf, d, name="rest.yaml")
    for x in allrecs(f"{d}/rest_*.nc"): print("REST", x)
except BaseException as e:
    import traceback; traceback.print_exc()
shutil.rmtree(d)
