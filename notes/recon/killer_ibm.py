import numpy as np, json, os
class IBM:
    def __init__(self, modules, kills=None, log=None, **kw):
        self.modules = modules; self.kills = {int(k): v for k, v in (kills or {}).items()}; self.log = log
        self.rows = []
    def update(self):
        st = self.modules["state"]; step = self.modules["time"].step
        if "age" in st.variables:
            st["age"] = st.age + 1
        for pid in self.kills.get(step, []):
            st.alive[st.pid == pid] = False
        self.rows.append(dict(step=int(step), pid=st.pid.tolist(), alive=st.alive.tolist(), X=st.X.tolist()))
    def close(self):
        if self.log:
            json.dump(self.rows, open(self.log, "w"))
