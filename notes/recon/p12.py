import os, sys; HERE = os.path.dirname(os.path.abspath(__file__)); sys.path.insert(0, os.environ.get("LADIM_REPO", "/repo")); sys.path.insert(0, HERE)
from lab import *
import warnings; warnings.filterwarnings("ignore")
import glob
d = tempfile.mkdtemp(prefix="p12_")
make_grid_forcing(f"{d}/f_000.nc", [-640, 320], ufunc=lambda t,k,j,i: 0.125*(k+1)+0*i)
make_grid_forcing(f"{d}/f_001.nc", [640, 6400], ufunc=lambda t,k,j,i: 0.25*(k+1)+0*i)
write_release(f"{d}/release.rls", [dict(mult=2, release_time=0, X=3.0, Y=4.0, Z=5.0, farmid=17), dict(mult=1, release_time=128, X=3.5, Y=5.0, Z=30.0, farmid=18)], header=False)
cols = ["mult", "release_time", "X", "Y", "Z", "farmid"]
v1 = f"""
time_control:
    start_time: 2000-01-01 00:00:00
    stop_time: 2000-01-01 00:08:32
files:
    particle_release_file: {d}/release.rls
    output_file: {d}/out_v1.nc
particle_release:
    variables: [mult, release_time, X, Y, Z, farmid]
    release_time: time
    farmid: int
    particle_variables: [release_time, farmid]
gridforce:
    module: ladim1.gridforce.ROMS
    input_file: {d}/f_*.nc
output_variables:
    outper: [128, s]
    particle: [release_time, farmid]
    instance: [pid, X, Y, Z]
    release_time: {{ncformat: f8, long_name: particle release time, units: seconds since reference_time}}
    farmid: {{ncformat: i4, long_name: farm}}
    pid: {{ncformat: i4, long_name: particle identifier}}
    X: {{ncformat: f4, long_name: particle X-coordinate}}
    Y: {{ncformat: f4, long_name: particle Y-coordinate}}
    Z: {{ncformat: f4, long_name: particle depth}}
numerics:
    dt: [64, s]
    advection: EF
    diffusion: 0.0
"""
v2 = dict(version=2,
  time=dict(start="2000-01-01 00:00:00", stop="2000-01-01 00:08:32", dt=[64, "s"]),
  forcing=dict(module="ladim.ROMS", filename=f"{d}/f_*.nc"),
  tracker=dict(advection="EF"),
  state=dict(particle_variables=dict(release_time="time", farmid="int")),
  release=dict(release_file=f"{d}/release.rls", names=cols),
  output=dict(filename=f"{d}/out_v2.nc", output_period=[128, "s"],
     instance_variables={v: dict(encoding=dict(datatype="i4" if v=="pid" else "f4"), attributes=dict(long_name=v)) for v in ["pid","X","Y","Z"]},
     particle_variables=dict(release_time=dict(encoding=dict(datatype="f8"), attributes=dict(long_name="rt", units="seconds since reference_time")),
                             farmid=dict(encoding=dict(datatype="i4"), attributes=dict(long_name="farm")))))
from ladim.main import main
from ladim.configure import configure
logging.disable(logging.CRITICAL)
def tomlify(x, prefix=""):
    import json
    lines = []; subs = []
    for k, v in x.items():
        if isinstance(v, dict): subs.append((k, v))
        else: lines.append(f"{k} = {json.dumps(v)}")
    out = ([f"[{prefix}]"] if prefix else []) + lines
    for k, v in subs: out += tomlify(v, f"{prefix}.{k}" if prefix else k)
    return out
try:
    open(f"{d}/v1.yaml","w").write(v1); yaml.safe_dump(v2, open(f"{d}/v2.yaml","w"))
    v2t = json.loads(json.dumps(v2)); v2t["output"]["filename"] = f"{d}/out_toml.nc"
    open(f"{d}/v2.toml","w").write("\n".join(tomlify(v2t)))
    for name in ["v1.yaml", "v2.yaml", "v2.toml"]:
        try:
            c = configure(f"{d}/{name}")
            print(name, "->", {k: (v if k not in ("output",) else "...") for k, v in c.items()})
            main(f"{d}/{name}", loglevel=logging.ERROR)
        except BaseException as e:
            import traceback; print(name, "EXC", type(e).__name__, str(e)[:200]); traceback.print_exc(limit=-3)
    for f in sorted(glob.glob(f"{d}/out_*.nc")):
        o = read_out(f); print(os.path.basename(f), [(r["time"], r["pid"], np.round(r["X"],4).tolist()) for r in records(o)], o.get("release_time"), o.get("farmid"), o["_units"])
finally:
    shutil.rmtree(d)
