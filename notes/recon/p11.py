import os, sys; HERE = os.path.dirname(os.path.abspath(__file__)); sys.path.insert(0, os.environ.get("LADIM_REPO", "/repo")); sys.path.insert(0, HERE)
from lab import *
import warnings; warnings.filterwarnings("ignore")
logging.disable(logging.CRITICAL)
from ladim.timekeeper import TimeKeeper
from ladim.state import State
from ladim.ROMS import Grid, Forcing
d = tempfile.mkdtemp(prefix="p11_")
N = 4; H = 64.0
# z_r levels for hc=0, Cs linear: z = C*h ; levels at -56,-40,-24,-8
# u-point (file idx i) at x=i+0.5,y=j ; v-point at x=i, y=j+0.5 ; linear field in x,y,z
zlev = lambda k: H*(-1.0 + (k+0.5)/N)
uf = lambda t,k,j,i: 0.5 + 0.125*(i+0.5) - 0.0625*j + 0.015625*zlev(k)
vf = lambda t,k,j,i: -0.25 + 0.03125*i + 0.25*(j+0.5) - 0.0078125*zlev(k)
mask = np.ones((10,12)); mask[6:8, 8] = 0
make_grid_forcing(f"{d}/f.nc", [0, 6400], N=N, h=np.full((10,12), H), ufunc=uf, vfunc=vf, mask=mask,
                  scal=dict(temp=lambda t,k,j,i: 100*k+10*j+i))
timer = TimeKeeper(start=str(T0), stop=str(T0+np.timedelta64(640,"s")), dt=64)
rng = np.random.default_rng(0)
def sample(subgrid, X, Y, Z):
    state = State(instance_variables=dict(temp=float))
    grid = Grid(f"{d}/f.nc", subgrid=subgrid)
    modules = dict(time=timer, state=state, grid=grid)
    timer.step = -1
    f = Forcing(modules, f"{d}/f.nc", extra_forcing=["temp"]); modules["forcing"] = f
    state.append(X=X, Y=Y, Z=Z, temp=0.0)
    timer.step = 0
    f.update()
    u, v = f.velocity(state.X, state.Y, state.Z)
    return u, v, state["temp"].copy(), f.variables["u"].copy()
X = rng.uniform(2.6, 6.4, 200); Y = rng.uniform(2.6, 4.9, 200); Z = rng.uniform(-2, 70, 200)
# add edges/corners
X[:6] = [3.0, 3.5, 4.0, 4.5, 3.0, 6.0]; Y[:6] = [3.0, 3.5, 4.5, 4.0, 4.5, 3.0]; Z[:6] = [8, 24, 40, 56, 0, 64]
u, v, t, uu = sample(None, X, Y, Z)
zc = np.clip(-Z, zlev(0), zlev(N-1))
ue = 0.5 + 0.125*X - 0.0625*Y + 0.015625*zc; ve = -0.25 + 0.03125*X + 0.25*Y - 0.0078125*zc
print("max |u-exact|", np.abs(u-ue).max(), "max |v-exact|", np.abs(v-ve).max(), "u==variables[u]", np.abs(u-uu).max())
K = np.clip(np.searchsorted([zlev(k) for k in range(N)], -Z), 1, N-1)
I = np.round(X).astype(int); J = np.round(Y).astype(int)
cand = [set((100*(k)+10*j+i, 100*(k-1)+10*j+i)) for k, j, i in zip(K, J, I)]
print("temp own cell (non-edge pts):", all(tt in c for tt, c in list(zip(t, cand))[6:]), "edge pts:", [(tt in c) for tt, c in list(zip(t, cand))[:6]])
u2, v2, t2, _ = sample([2, 8, 2, 6], X, Y, Z)
print("subgrid diff u,v,temp(non-edge), temp(edge):", np.abs(u-u2).max(), np.abs(v-v2).max(), np.abs(t-t2)[6:].max(), np.abs(t-t2)[:6])
u3, v3, t3, _ = sample([1, 9, 2, 7], X, Y, Z)
print("subgrid2 diff:", np.abs(u-u3).max(), np.abs(v-v3).max(), np.abs(t-t3).max())
# land faces: near land cell (i=8, j=6..7): u at face x=7.5 and 8.5 for j=6,7 must be zero
Xl = np.array([7.5, 7.5, 7.4]); Yl = np.array([6.0, 7.0, 6.5]); Zl = np.array([8.0, 8.0, 8.0])
ul, vl, _, _ = sample(None, Xl, Yl, Zl)
print("u at land faces:", ul)
shutil.rmtree(d)
