#!/usr/bin/env python3
"""Print the table of seeded changes (seeded/*/meta.json) for DESIGN.md §11.5."""
import json
from pathlib import Path
V = Path(__file__).resolve().parent.parent
rows = []
for d in sorted((V / "seeded").iterdir()):
    m = json.loads((d / "meta.json").read_text()) if (d / "meta.json").exists() else {}
    c = m.get("confirmed", {})
    caught = [x.split(":")[0] for x in c.get("checks_run", "").split() if x.endswith("rc=1")]
    missed = [x.split(":")[0] for x in c.get("checks_run", "").split() if x.endswith("rc=0")]
    rows.append((d.name, m.get("property", "?"), (m.get("summary") or "")[:110].replace("|", "/"), (m.get("needs") or "")[:110].replace("|", "/"),
                 ", ".join(caught) or "—", ", ".join(missed) or ""))
print("| seeded change | property | what it does | needs | caught by | not flagged by |")
print("|---|---|---|---|---|---|")
for r in rows:
    print("| " + " | ".join(r) + " |")
