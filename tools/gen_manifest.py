#!/usr/bin/env python3
"""Generate /verif/MANIFEST.json from the table below (one entry per claimed property)."""
import json
from pathlib import Path

V = Path(__file__).resolve().parent.parent

COMMON_NOTE = (
    "Trusted base: Lean 4.33 kernel (+ leanchecker in the thorough tier); Mathlib as a library of kernel-checked "
    "statements; axioms of every property theorem audited on every run (#print axioms subset of propext, Classical.choice, "
    "Quot.sound; no sorry/native_decide/own axioms). The Lean model is hand-written; it is tied to /repo's working tree by "
    "the correspondence check of this command (same inputs through the real Python code in-process and through the compiled "
    "model driver). Exact rationals stand for IEEE floats (rounding in numpy/numba is outside the theorems); numpy, numba, "
    "pandas, netCDF4, PyYAML/tomli are exercised, not proved. The whole simulation is a term of the model (Sim.run: clock, grid, "
    "per-node time machine, releaser, time loop, output files) with composition theorems (Props/Whole*, Sim*); besides its "
    "function-grain streams a check may therefore run whole simulations of generated scenarios on the real program against "
    "Sim.run (streams `whole-run-*`, `warm-*`). ")

P = {
 "C01": ("Theorems: Tracker.update is the EF/midpoint/RK4 explicit Runge-Kutta step with stage times 0,1/2,1/2,1 for every forcing oracle "
         "(advect_EF/RK2/RK4, move_open_water); order conditions of the three tableaux up to 1/2/4 and failure at 2/3/5; stability "
         "polynomial and convergence with order p on linear fields (conv_linear, over C); quadrature exactness; analytical helpers. "
         "Tie: Tracker.update with polynomial plug-in forcing on real ROMS Grid vs the model, stage-time log, observed order of convergence.",
         "Convergence for arbitrary smooth fields follows from the order conditions by Butcher's theorem (cited, not formalised). "
         "Stage positions are assumed inside the clip box in step_eq_rk (the clipped case is covered by C17)."),
 "C02": ("Theorems: trilinear sample is a convex combination (trilinear_convex), exact on fields linear in the particle's own coordinates "
         "with the half-cell stagger (uv_exact_linear), zero through land faces and packed storage (readVel_node, landface_zero), scalar "
         "forcing from the particle's own cell (scalar_own_cell), independence of the loaded sub-rectangle (windowU_node, u_index_shift, "
         "cell_global). Tie: real Grid+Forcing on synthetic files for all legal subgrids of a small grid vs mkGrid/windowU/V/sampleVel.",
         "Depth exactness composes with C12.z2s_spec. N >= 2 levels."),
 "C03": ("Theorems (induction over steps, every sorted frame table / file partition / start offset / run length): u_eq_interp, velocity_frac, "
         "scalar_latest, reads_right_frame on the time machine FM. Tie: real Forcing stepped over synthetic files, exhaustive small layouts "
         "x partitions x offsets x directions, compared with the machine and with its specification interpFrames.",
         "Fields are pointwise: the machine is proved for one node value and run for every node. float32 accumulation compared within 2e-6."),
 "C04": ("Theorems: released_at_step, outside_window_none, expand_count, total_is_sum, init_accepts_iff, continuous_ticks (forward fill along the "
         "release-frequency grid) for tables sorted in simulation order on the time grid, both directions. Tie: real ParticleReleaser on generated "
         "release files (mult 0..3, extra columns, header/names, lon/lat through a stub grid, all windows) vs Ladim.Model.Release.",
         "pd.read_csv is a parameter of the model (typed table in); pandas groupby/unique/ffill semantics are stated assumptions exercised by the tie."),
 "C05": ("Theorems (every op sequence, unbounded): wf_preserved, pid_fresh, pid_never_reused, compactify_is_filter, values_follow_append/"
         "compactify, pid_ge_index. Tie: real State vs the model after every op, exhaustive sequences up to length 4 (5 thorough) + random longer.",
         "setitem is length-keeping by hypothesis (the code does not check it)."),
 "C06": ("Theorems: record_faithful + counts_sum (retrieval through cumulative particle_count gives back every snapshot, empty ones included), "
         "pvars_complete, dense_faithful, time_coord on the output model; the snapshot is the model state (C19/C14). Tie: end-to-end runs "
         "(deaths, late releases, empty records, highest pids dead, time-typed particle variable, both layouts, reference times) read back and "
         "compared with the virtual files of Out fed by Run.",
         "netCDF unlimited-dimension/fill semantics are a stated library assumption. Column names must be distinct (hypothesis forced by the proof)."),
 "C07": ("Theorems for all nsteps, period>=1, numrec>=0, layouts, name prototypes, histories: schedule_complete, file_chunks, all_closed, names, "
         "concat_eq_unsplit, dueSteps_spec/length. Tie: exhaustive end-to-end runs (Nsteps<=9, period<=4, numrec<=4; thorough 14/5/5) x layout x "
         "direction x particle variables vs the virtual files.",
         "Single-file mode holds at most 999999 records (hypothesis hbig, a limit of the code, not explored by the tie)."),
 "C08": ("Theorems on the run model: updates_split (semigroup), restart_transparent, restart_final_state, npid_from_record, restart_partial_witness (F12). "
         "Tie: every file boundary of split runs is restarted on the real code and compared record by record with the uninterrupted run and with warmRun.",
         "Hypotheses: forcing-derived variables are functions of position/time (ForceIdem), dynamic state variables are listed as warm-start variables, "
         "pid counter restored (known finding F12 when the file has no particle variable), output precision f8."),
 "C09": ("Theorems for every oracle/mask/kick: valid_preserved, out_of_grid_dies, land_cancel, inactive_fixed, dead_stay_dead, mask_lookup_in_range, "
         "history_invariant (every history). Tie: Tracker.update iterated on grids with islands/channels, flows up to 2.5 cells/step, all schemes, "
         "scripted diffusion, subgrids vs moveH; the invariant evaluated on the implementation.",
         "Finite positions: rationals are finite; NaN is a float-only phenomenon."),
 "C10": ("Theorems: time2step_mirror, nsteps_mirror, rev_clock, fm_neg (linearity of the time machine), trilinear_neg, sampleVel_neg, release_mirror. "
         "Tie: pairs of end-to-end runs (reversed vs forward on mirrored, negated files) compared record for record; reversed run vs the model.",
         "The run-level equality composes these with C14.run_refines_spec."),
 "C11": ("Theorems over R (Mathlib probability): disp_law (N(0, 2 D dt/dx^2)), disp_mean_variance, independent, draws_distinct, cloud_variance, "
         "deterministic_when_off. Tie: Tracker.update with a scripted generator (displacement = coefficient x own draw, draw layout) vs diffDisp at Float; "
         "statistical support test with the real generator (6-sigma bands).",
         "Assumes numpy's Generator.normal yields independent standard normals (supported by the statistical test, which is a test)."),
 "C12": ("Theorems over R: stretch1/2/4 end points and strict monotonicity, curves_ordered; over Q: sdepth_mono, sdepth_range, z2s_spec (N>=2). "
         "Tie: s_stretch vs the Float instance of the same generic terms, sdepth vs the exact model, z2s kernel vs z2sCol, with the property's statements as monitors.",
         "N = 1 is known finding F13 (no valid index pair exists)."),
 "C13": ("Theorems: clock_reads, nsteps_floor, time2step_step2time (all integers), step2time_time2step, time2step_floor, nctime_spec, init_accepts_iff, "
         "parseIso_spec (sound and complete), spellings_agree, rejects. Tie: exhaustive clock lattice + every period string up to a length over the ISO alphabet.",
         "Times are unbounded integers (int64 overflow not modelled); non-ASCII digits not generated."),
 "C14": ("Theorems: run_refines_spec (sparse and dense), record_pids_sorted, particle_independent, advance_relabel, subset_invariant, permutation_invariant, "
         "time_shift_invariant/nsteps/release. Tie: paired end-to-end runs (rows dropped/added/permuted, other particles killed/spared, whole-step shifts, repeat) "
         "with bit-for-bit per-particle comparison; base run vs the model.",
         "IBM and forcing enter as per-particle functions (Sane, PidBlind)."),
 "C15": ("Theorems: reflect_spec, reflect_in_column, depth_in_column, depth_in_column_sharp (hypothesis needed), depth_unchanged_when_off, depth_of_step. "
         "Tie: Tracker.update with scripted vertical diffusion/advection over variable bathymetry vs moveV; the statement evaluated on the implementation.", ""),
 "C16": ("Theorems: sample2D exact on bilinear fields / convex / masked nodes ignored / outside value returned (incl. 0.0) / raises; bilin_inv exact on affine "
         "grids in one Newton step, residual below tolerance on convergence, never indexes outside (clamped cell). Tie: sample2D, bilin_inv, Grid.xy2ll/ll2xy on "
         "affine and polar-stereographic grids, release by lon/lat and output lon/lat end to end.",
         "Newton convergence on curved grids within 7 iterations is measured (residual monitor), not proved (bilin_inv_partial)."),
 "C17": ("Theorems (checked array access in the model): trilinear_in_bounds, stage_positions_clipped, uv_in_bounds, z2s_in_bounds, sampleVel_in_bounds, "
         "scalar_in_bounds, metric_depth_mask_in_bounds, advect_in_bounds for every position of the valid region, clipped stage position, depth, scheme. "
         "Tie: the scenario space re-run in processes started with NUMBA_BOUNDSCHECK=1 (any IndexError is a failing input) and index effects compared through sampled values.",
         "That an out-of-range read is silent is a fact about numba; N = 1 is finding F13."),
 "C18": ("Theorems on the configuration model: defaults are empty sections, grid defaulted from the forcing (first sorted match of a wildcard), v1 translation "
         "equals the canonical v2 tree. Tie: the same simulation as v2 YAML, v2 TOML, v1 YAML: configure() trees vs the model, and the three runs' outputs against each other.",
         "YAML/TOML parsers are trusted."),
 "C19": ("Theorems: call_log (cold and warm), record_steps, record_state_is_post_forcing, ibm_sees_moved_particles_once, ibm_kill_from_next_record, sparse_record_alive. "
         "Tie: runs in which grid, forcing, ibm and output are recording wrappers given by file path (with same-named decoys on sys.path), cold and warm, call log vs the model.", ""),
 "C20": ("Theorems: validate_sound (accepted => covered forcing, sorted frames, start/stop/dt on the right side, a release in [start, stop), positions, legal subgrid) and "
         "per-fault refusals; no output before refusal. Tie: every single fault injected into every base scenario; kind of stop and absence of output records vs the model.",
         "An uncaught KeyError for a missing section counts as a refusal at start-up."),
}

TECH = "Lean 4 theorems about a hand-written executable model + differential correspondence check of the model against the real code"


def main():
    ob = json.loads((V / "lean" / "obligations.json").read_text())
    claimed = sorted(p for p in P if (V / "harness" / "props" / f"{p.lower()}.py").exists() and p in ob)
    checks = []
    for p in claimed:
        text, note = P[p]
        checks.append(dict(
            property_id=p,
            quick_cmd=f"./check {p} --tier quick",
            thorough_cmd=f"./check {p} --tier thorough",
            evidence_file=f"evidence/{p}.json",
            replay_cmd_template=f"./check {p} --replay {{path}}",
            engine="lean-proof+correspondence",
            level_claimed=dict(category="proof", text=text, design_ref=f"DESIGN.md section 8, {p}"),
            level_note=COMMON_NOTE + note,
            technique=TECH))
    na = [dict(property_id=p, reason="check under construction in this revision (model and theorems exist or are planned; not claimed until its correspondence check runs clean)")
          for p in sorted(P) if p not in claimed]
    m = dict(
        version=1,
        setup_cmd="cd lean && lake build",
        hooks=dict(guard="BJORNAA_LADIM2_VERIF",
                   enable="no source hooks exist: the harness drives /repo's working tree in-process (plug-in modules given by path, scripted RNG and forcing objects); the guard name is reserved",
                   baseline_off_cmd="cd /repo && /venv/bin/python -m pytest -q -p no:cacheprovider --timeout=900 --continue-on-collection-errors",
                   source_commits=[], add_only=True),
        engines=[dict(name="lean-proof+correspondence", path="lean/ harness/ check", serves_properties=claimed,
                      kind_free_text="Lean 4 model (lean/Ladim/Model), property theorems (lean/Ladim/Props), compiled line-protocol driver; Python harness running /repo in-process and diffing against the driver")],
        checks=checks,
        notes="exit 0 = held on everything explored (KNOWN-FINDING lines for listed findings), 1 = VIOLATION line printed, 2 = machinery failure/timeout. "
              "known_findings.json lists known and fixed findings. See DESIGN.md.",
        not_applicable=na)
    (V / "MANIFEST.json").write_text(json.dumps(m, indent=1))
    print(f"claimed: {claimed}; not yet: {[x['property_id'] for x in na]}")


if __name__ == "__main__":
    main()
