#!/bin/bash
# run every claimed check (tier $1, default quick) and summarise
cd "$(dirname "$0")/.."
tier=${1:-quick}
for p in $(python3 -c "import json;print(' '.join(c['property_id'] for c in json.load(open('MANIFEST.json'))['checks']))"); do
  s=$(date +%s)
  out=$(./check $p --tier $tier 2>&1); rc=$?
  echo "[$p rc=$rc $(( $(date +%s) - s ))s] $(echo "$out" | tail -1)"
  echo "$out" | grep -E "VIOLATION|KNOWN-FINDING|MACHINERY" | head -5
done
