#!/bin/bash
# For every seeded change: apply it to /repo, run the check of its own property (quick), undo, record the result.
cd "$(dirname "$0")/.."
for d in seeded/*/; do
  name=$(basename $d)
  if [ -n "$ONLY" ] && ! echo " $ONLY " | grep -q " $name "; then continue; fi
  prop=$(python3 -c "import json;print(json.load(open('$d/meta.json')).get('property','?'))")
  git -C /repo apply /verif/$d/patch.diff || { echo "$name: patch does not apply"; continue; }
  out=$(timeout 1500 ./check $prop --tier quick 2>&1); rc=$?
  git -C /repo checkout -- .
  line=$(echo "$out" | grep -E "^VIOLATION" | head -1)
  echo "$name [$prop] rc=$rc $line"
  python3 - "$d" "$prop" "$rc" "$line" <<'PY'
import json,sys
d,prop,rc,line=sys.argv[1:5]
p=d+"/meta.json"; m=json.load(open(p))
m["recheck"]=dict(check=prop,rc=int(rc),verdict=("VIOLATION no-failing-input-found" if "no-failing-input-found" in line else "VIOLATION with failing input" if line else "not flagged"))
json.dump(m,open(p,"w"),indent=1)
PY
done
rm -rf /verif/replays/C*
