#!/bin/bash
# run every check (quick) under several VERIF_SEED values on the current tree; print anything that is not a clean pass
cd "$(dirname "$0")/.."
(cd lean && lake build >/dev/null 2>&1)
for seed in "$@"; do
  for p in $(python3 -c "import json;print(' '.join(c['property_id'] for c in json.load(open('MANIFEST.json'))['checks']))"); do
    out=$(VERIF_SEED=$seed ./check $p --tier quick 2>&1); rc=$?
    echo "[seed $seed $p rc=$rc] $(echo "$out" | tail -1)"
    if [ $rc -ne 0 ]; then echo "$out" | grep -E "VIOLATION|MACHINERY|Error" | head -5; fi
  done
done
