#!/bin/bash
# tools/try_mutant.sh <name> <worktree> <check ids...>
# 1. confirm the demonstration in the worktree (fails with the change, passes without, baseline suite unchanged)
# 2. keep it under seeded/<name>/
# 3. apply it to /repo, run the given checks, undo
name=$1; wt=$2; shift 2
cd "$wt" || exit 2
if [ ! -s patch.diff ]; then git diff -- ladim/ > patch.diff; fi
git checkout -q -- ladim 2>/dev/null; git apply patch.diff || { echo "patch does not apply in worktree"; exit 2; }
PYTHONPATH=$wt /venv/bin/python demo.py >/tmp/demo_with.log 2>&1; with=$?
git apply -R patch.diff
PYTHONPATH=$wt /venv/bin/python demo.py >/tmp/demo_without.log 2>&1; without=$?
git apply patch.diff
base=$(LADIM_REPO=$wt /verif/tools/baseline.py | tail -1)
echo "demo with change: exit $with; without: exit $without; $base"
mkdir -p /verif/seeded/$name
cp patch.diff demo.py /verif/seeded/$name/ 2>/dev/null; cp meta.json /verif/seeded/$name/meta.json 2>/dev/null
cd /verif
git -C /repo apply /verif/seeded/$name/patch.diff || { echo "patch does not apply to /repo"; exit 2; }
res=""
for c in "$@"; do
  out=$(timeout 1500 ./check $c --tier quick 2>&1); rc=$?
  line=$(echo "$out" | grep -E "^VIOLATION" | head -1)
  echo "  check $c: rc=$rc $line"
  res="$res $c:rc=$rc"
  if [ -n "$line" ]; then
    rp=$(echo "$line" | sed -E 's/.*replay=([^ ]+).*/\1/')
    mkdir -p seeded/$name/replays; cp "$rp" seeded/$name/replays/$c.json 2>/dev/null
  fi
done
git -C /repo checkout -- .
rm -rf /verif/replays/*
python3 - "$name" "$with" "$without" "$base" "$res" <<'PY'
import json,sys
name,w,wo,base,res=sys.argv[1:6]
p=f"/verif/seeded/{name}/meta.json"
try: m=json.load(open(p))
except Exception: m={}
m["confirmed"]=dict(demo_exit_with_change=int(w),demo_exit_without=int(wo),baseline=base,checks_run=res.strip())
json.dump(m,open(p,"w"),indent=1)
PY
