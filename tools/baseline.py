#!/venv/bin/python
"""Run /repo's pinned baseline suite and compare with /root/.vp/BASELINE.json (stable_pass)."""
import json, subprocess, sys, tempfile, xml.etree.ElementTree as ET, os
repo = os.environ.get("LADIM_REPO", "/repo")
base = json.load(open("/root/.vp/BASELINE.json"))
with tempfile.NamedTemporaryFile(suffix=".xml") as f:
    subprocess.run(["/venv/bin/python", "-m", "pytest", "-q", "-p", "no:cacheprovider", "--timeout=900",
                    "--continue-on-collection-errors", f"--junitxml={f.name}"], cwd=repo,
                   stdout=subprocess.DEVNULL, stderr=subprocess.DEVNULL)
    root = ET.parse(f.name).getroot()
passed = set()
for tc in root.iter("testcase"):
    if not any(c.tag in ("failure", "error", "skipped") for c in tc):
        passed.add(f"{tc.get('classname')}::{tc.get('name')}")
missing = sorted(set(base["stable_pass"]) - passed)
print(f"baseline: {len(set(base['stable_pass']) & passed)}/{len(base['stable_pass'])} stable tests pass; total passing {len(passed)}")
if missing:
    print("MISSING:", missing); sys.exit(1)
