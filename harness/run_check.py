"""python -m harness.run_check Cxx [--tier …] [--replay …]"""
import importlib
import sys

from harness.common import main_for


def main():
    prop = sys.argv[1]
    mod = importlib.import_module(f"harness.props.{prop.lower()}")
    sys.exit(main_for(prop, mod.run, sys.argv[2:]))


if __name__ == "__main__":
    main()
