"""C08 — restart transparency.  A split run (continuous release, deaths by IBM and by leaving the
grid, IBM age variable, scalar forcing, EF/RK2/RK4, durations that are and are not multiples of the
period) is run uninterrupted; then a warm start is made from *every* completed output file and each
record written after the restart (particle set, pids, positions, age, scalar, particle variables,
file names, absolute times) is compared with the uninterrupted run.  The restarted run is also
compared with Ladim.Model.Run.warmRun started from the file's last record."""
from __future__ import annotations

import copy
import re
from pathlib import Path

import numpy as np

from harness import lab, scen
from harness.common import Ctx, driver, pmap, parse_rat, use_repo, val_s


def make_base(seed):
    r = np.random.RandomState(seed)
    # every seventh uninterrupted run goes backwards in time (its files hold descending times; a restart continues from the *last*
    # record of a file, which then is the earliest)
    sc = scen.gen(seed, rev=bool(seed % 7 == 5), layout="sparse", numrec=int(r.choice([1, 2, 3])) if seed % 7 != 5 else int(r.choice([2, 2, 3])), period=int(r.choice([1, 2, 3])),
                  nsteps=int(r.randint(5, 12)), kills=True, continuous=bool(r.rand() < 0.5), speed=float(r.choice([0.25, 1.0, 2.0])),
                  pvars=bool(r.rand() < 0.7))
    if seed % 3 == 0:
        # a reference time inside the run: particles released before it have negative time offsets in the files
        sc["reference_s"] = scen.sim2time(sc, sc["nsteps"] // 2) + 7
        sc["reference"] = lab.tstr(sc["reference_s"])
    if seed % 4 == 3 and sc["fsteps"][-1] > sc["nsteps"]:      # (the forcing must cover the longer window)
        sc["stop_extra"] = scen.DT // 2      # the run is N + 1/2 time steps long: N steps, before and after a restart
    if seed % 4 == 1 and not sc["rev"]:
        # forcing frames between two model times (dt does not divide the frame times): a frame belongs to the step
        # that holds it, before and after a restart alike
        sc["frame_off"] = scen.DT // 2
    if seed % 5 == 2 and not sc.get("vertadv"):
        # depth is stored packed (16-bit integers with scale_factor and add_offset; the depths of these set-ups are
        # quarters of a metre, so nothing is lost): a restart reads what the file means, not what it stores
        sc["_pack"] = True
    if seed % 5 == 3:
        # the flags `alive` and `active` are written to the output as well (8-bit integers), so a restart reads them back (F25)
        sc["out_flags"] = True
    if sc["continuous"]:
        # a file entry that is not a whole number of release periods after the first one: an uninterrupted run
        # never reaches it (ticks are counted from the first file time); a restarted run must not either
        sc["freq"] = 2
        for row in sc["rows"]:
            row["step"] = 2 * (row["step"] // 2)
        extra = dict(sc["rows"][0], step=int(2 * r.randint(0, max(1, sc["nsteps"] // 2)) + 1), mult=2)
        sc["rows"] = sorted(sc["rows"] + [extra], key=lambda x: x["step"])
    return sc


def corpus_recorded_then_dead():
    """The highest pid is recorded in an early record of the restart file and dead in its last one; no particle
    variables in the file; a later release must not get that pid again."""
    out = []
    for seed, numrec in ((14, 3), (15, 4)):
        sc = scen.gen(seed, rev=False, layout="sparse", numrec=numrec, period=1, nsteps=9, kills=False, continuous=False, speed=0.25, land=False,
                      pvars=False, subgrid="none", late_release=False)
        r0 = sc["rows"][0]
        sc["rows"] = [dict(r0, step=0, mult=1), dict(r0, step=1, mult=2), dict(r0, step=numrec + 1, mult=1), dict(r0, step=numrec + 3, mult=2)]
        sc["kill"] = {"1": [1, 2]}
        out.append(sc)
    return out


def corpus_release_inside_restart_step():
    """A release time between two model times, in the step at which a file ends: the uninterrupted run releases
    it at that step (it is in the file's last record); the restarted run must not release it again."""
    from fractions import Fraction
    out = []
    for seed, numrec, rev in ((16, 2, False), (17, 3, False)):      # (the restart harness drives forward runs)
        sc = scen.gen(seed, rev=rev, layout="sparse", numrec=numrec, period=1, nsteps=9, kills=False, continuous=False, speed=0.25, land=False,
                      pvars=bool(seed % 2), subgrid="none", late_release=False)
        r0 = sc["rows"][0]
        last = numrec * 2 - 1          # last step of the second file
        sc["rows"] = [dict(r0, step=0, mult=1), dict(r0, step=last + Fraction(1, 2), mult=2), dict(r0, step=last + 2, mult=1)]
        out.append(sc)
    return out


def abs_times(f):
    """absolute record times (seconds since lab.T0) from the file's own units"""
    m = re.match(r"seconds since (.*)", f["units"])
    ref = (np.datetime64(m.group(1).strip().replace(" ", "T"), "s") - lab.T0) / np.timedelta64(1, "s")
    return [float(ref) + t for t in f["time"]], float(ref)


def run_base_and_restarts(sc):
    use_repo()
    out = dict(restarts=[])
    with lab.scratch() as d:
        conf = scen.write(sc, d)
        packed_z = dict(encoding=dict(datatype="i2"), attributes=dict(long_name="Z", scale_factor=0.25, add_offset=1.0))
        if sc.get("_pack"):
            conf["output"]["instance_variables"]["Z"] = copy.deepcopy(packed_z)
        out["status"] = lab.run(conf, d)
        out["files"] = scen.read_outputs(d, sc)
        import json
        out["ibm"] = json.loads((d / "ibm_log.json").read_text()) if (d / "ibm_log.json").exists() else None
        if out["status"] != "ok":
            return out
        nfiles = len(out["files"])
        for k in range(nfiles - 1):
            wd = d / f"warm_{k}"
            wd.mkdir()
            fk = out["files"][k]
            nxt = out["files"][k + 1]["name"]
            at, _ = abs_times(fk)
            rstep = abs(int(round((at[-1] - sc["start"]) / scen.DT)))
            scw = copy.deepcopy(sc)
            # the scripted IBM counts steps from the start of *its* run
            scw["kill"] = {str(int(s_) - rstep): v for s_, v in sc["kill"].items() if int(s_) - rstep >= 0}
            conf2 = scen.write(scw, wd, out_name=nxt,
                               warm=dict(filename=str(d / fk["name"]), variables=(["age"] if sc["age"] else []) + (["release_time"] if sc["pvars"] else [])))
            if sc.get("_pack"):
                conf2["output"]["instance_variables"]["Z"] = copy.deepcopy(packed_z)
            st = lab.run(conf2, wd)
            out["restarts"].append(dict(k=k, status=st, files=scen.read_outputs(wd, sc, pattern="out*.nc")))
    return out


def records_of(files, sc):
    """absolute time -> (file name, record dict) for sparse files"""
    recs = {}
    for f in files:
        if "unreadable" in f:
            continue
        at, ref = abs_times(f)
        pos = 0
        for n, c in enumerate(f["count"]):
            r = dict(file=f["name"], pid=f["pid"][pos:pos + c])
            for v in ("X", "Y", "Z", "age", "temp"):
                if v in f:
                    r[v] = f[v][pos:pos + c]
            if "release_time" in f:
                r["release_time"] = [None if x is None else x + ref for x in f["release_time"]]
            recs[at[n]] = r
            pos += c
    return recs



def warm_request(sc, g, k, base_recs=None):
    """The driver request for the run warm-started from output file `k` of the uninterrupted run `g`."""
    fk = g["files"][k]
    at, _ = abs_times(fk)
    rstep = abs(int(round((at[-1] - sc["start"]) / scen.DT)))
    if base_recs is None:
        base_recs = records_of(g["files"], sc)
    last = base_recs[at[-1]]
    parts = []
    for i, pid in enumerate(last["pid"]):
        vars_ = {}
        if sc["age"]:
            vars_["age"] = val_s(last["age"][i])
        for nm in scen.extra_forcing(sc):
            vars_[nm] = "nan"
        parts.append(dict(pid=pid, X=val_s(last["X"][i]), Y=val_s(last["Y"][i]), Z=val_s(last["Z"][i]), alive=True, active=True,
                          vars=vars_, pvars={}))
    npid = max(max(fk["pid"] + [-1]) + 1, fk["particle_dim"])
    pvt = [dict(release_time=val_s(x)) if x is not None else dict(release_time="nan") for x in (last.get("release_time") or [])][:npid]
    sc2 = copy.deepcopy(sc)
    sc2["outname"] = g["files"][k + 1]["name"]
    rq = scen.request(sc2, warm=dict(parts=parts, npid=npid, pvtable=pvt), start_step=rstep)
    return sc2, rq


def run(ctx: Ctx):
    use_repo()
    n = 200 if ctx.thorough else 28
    cases = [make_base(ctx.seed * 100000 + 9000 + k) for k in range(n)]
    # corpus: a pid handed out and dead between two records, file without particle variables (finding F12)
    c12 = scen.gen(12, rev=False, layout="sparse", numrec=2, period=2, nsteps=8, kills=False, continuous=False, speed=0.25, land=False,
                   pvars=False, subgrid="none", late_release=False)
    r0 = c12["rows"][0]
    c12["rows"] = [dict(r0, step=0, mult=1), dict(r0, step=1, mult=1), dict(r0, step=3, mult=1)]
    c12["kill"] = {"1": [1]}
    cases.append(c12)
    cases += corpus_recorded_then_dead()
    cases += corpus_release_inside_restart_step()
    res = pmap(run_base_and_restarts, cases)
    reqs, rmeta = [], []
    for sc, g in zip(cases, res):
        if g["status"] != "ok":
            ctx.case("base", [sc["seed"]], sample=scen.brief(sc))
            ctx.violation("failing-input", "base", scen.brief(sc), dict(status=g["status"]), tags=dict(first="status"))
            continue
        base_recs = records_of(g["files"], sc)
        # npid of the uninterrupted run after each step (from the recording IBM)
        npid_at = {e["step"]: e["npid"] for e in g["ibm"]["log"]}
        for rs in g["restarts"]:
            k = rs["k"]
            fk = g["files"][k]
            at, _ = abs_times(fk)
            rstep = abs(int(round((at[-1] - sc["start"]) / scen.DT)))
            max_pid_file = max([p for f in g["files"][:k + 1] for p in f["pid"]] + [-1])
            # a particle released and dead before it was ever recorded: the file cannot know its pid was used
            unrecorded = npid_at.get(rstep, 0) > max(fk["pid"] + [-1]) + 1
            ctx.case("restart", [sc["seed"], k], sample=dict(scenario=scen.brief(sc), restart_from=fk["name"], at_step=rstep), nontrivial=True)
            ctx.count("restart:unrecorded-pid" if unrecorded else "restart:ordinary")
            tags = dict(first="restart", unrecorded_highest_pid=bool(unrecorded), particle_variables=bool(sc["pvars"]))
            case = dict(scenario=scen.brief(sc), restart_from=fk["name"], at_step=rstep)
            if rs["status"] != "ok":
                ctx.violation("failing-input", "restart", case, dict(status=rs["status"]), tags=tags)
                continue
            wrecs = records_of(rs["files"], sc)
            later = {t: r for t, r in base_recs.items() if (t < at[-1] if sc["rev"] else t > at[-1])}      # later in the direction of the run
            bad = None
            if sorted(wrecs) != sorted(later):
                bad = dict(what="record times after the restart", restarted=sorted(wrecs), uninterrupted=sorted(later))
            else:
                for t in sorted(later):
                    a, b = later[t], wrecs[t]
                    if a["file"] != b["file"]:
                        bad = dict(what="file name", time=t, uninterrupted=a["file"], restarted=b["file"]); break
                    if a["pid"] != b["pid"]:
                        bad = dict(what="particle set / pids", time=t, uninterrupted=a["pid"], restarted=b["pid"]); break
                    for v in ("X", "Y", "Z", "age", "temp"):
                        if v in a and any(abs(x - y) > 1e-9 * max(1.0, abs(x)) for x, y in zip(a[v], b[v])):
                            bad = dict(what=v, time=t, uninterrupted=a[v], restarted=b[v]); break
                    if bad:
                        break
                    if "release_time" in a:
                        n_ = min(len(a["release_time"]), len(b["release_time"]))
                        if a["release_time"][:n_] != b["release_time"][:n_] or len(a["release_time"]) != len(b["release_time"]):
                            bad = dict(what="release_time per pid", time=t, uninterrupted=a["release_time"], restarted=b["release_time"]); break
            if bad:
                ctx.violation("failing-input", "restart", case, dict(bad, theorem="Ladim.C08.restart_transparent"), tags=tags)
                continue
            # the restarted run against the model's warmRun
            sc2, rq = warm_request(sc, g, k, base_recs)
            reqs.append(rq); rmeta.append((sc2, case, rs, tags))
    want = driver(reqs)
    for (sc2, case, rs, tags), w in zip(rmeta, want):
        if "error" in w:
            ctx.violation("tie-broken", "restart-vs-model", case, dict(model=w)); continue
        diffs = scen.compare_files(sc2, rs["files"], w["files"])
        if diffs:
            ctx.violation("tie-broken" if tags["unrecorded_highest_pid"] else "failing-input", "restart-vs-model", case,
                          dict(differences=[dict(what=a, implementation=str(x)[:300], model=str(y)[:300]) for a, x, y in diffs[:3]],
                               theorem="Ladim.C08.warmRun_eq_continuation"), tags=tags)
