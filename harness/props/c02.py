"""C02 — spatial interpolation on the C-grid.  Real ladim.ROMS Grid + Forcing on synthetic files
(random dyadic node values, land masks with islands and one-cell channels, variable bathymetry,
N = 2…5, packed or float storage) for every legal subgrid of a small grid; positions on cell
edges, corners and half-integers, depths above/at/below every level.  Compared with
Ladim.Model.Grid (`mkGrid`, `windowU/V`, `sampleVel`, `sampleScalar`); the property's own
statements (convexity, exactness on linear fields, subgrid independence, zero through land
faces) are evaluated on the implementation's output as monitors."""
from __future__ import annotations

import os
from pathlib import Path
from fractions import Fraction

import numpy as np

from harness import lab
from harness.common import Ctx, driver, pmap, parse_rat, rat_s, use_repo, close

IMAX, JMAX = 9, 8


def make_setup(seed, linear=False, packed=False):
    r = np.random.RandomState(seed)
    N = int(r.choice([2, 3, 4, 5]))
    if linear:
        h = np.full((JMAX, IMAX), float(r.choice([16, 40, 128])))
    else:
        h = r.choice([8.0, 16.0, 24.0, 50.0, 100.0], size=(JMAX, IMAX))
    mask = np.ones((JMAX, IMAX))
    if not linear:
        for _ in range(r.randint(0, 5)):
            mask[r.randint(0, JMAX), r.randint(0, IMAX)] = 0
        if r.rand() < 0.5:      # a wall with a one-cell channel
            j = r.randint(2, JMAX - 2)
            mask[j, :] = 0
            mask[j, r.randint(2, IMAX - 2)] = 1
    hc = float(r.choice([0.0, 4.0, 8.0]))
    vt = int(r.choice([1, 2]))
    if not linear and seed % 2 == 1:
        vt = 1 if seed % 4 == 1 else vt
        # a critical depth above the shallowest water (12 m over 8 m columns): with these stretching curves the levels are
        # still increasing in every column, for both transforms; the levels are those of the file's hc, whatever is loaded
        hc = 12.0
    Cs_r = -1.0 + (np.arange(N) + 0.5) / N
    if r.rand() < 0.5 or hc == 12.0:  # a stretched (still dyadic-free) curve (always with the large hc: unstretched, hc drops out)
        Cs_r = -(np.abs(Cs_r) ** 1.5)
    if linear:
        a, b, c, d = [float(x) / 8 for x in r.randint(-8, 9, size=4)]
        zlev = Cs_r * 0  # filled below
    else:
        a = b = c = d = 0.0
    U = r.randint(-32, 33, size=(N, JMAX, IMAX - 1)) / 8.0
    V = r.randint(-32, 33, size=(N, JMAX - 1, IMAX)) / 8.0
    S = r.randint(0, 200, size=(N, JMAX, IMAX)) / 2.0
    setup = dict(seed=seed, N=N, h=h, mask=mask, hc=hc, vt=vt, Cs_r=Cs_r, U=U, V=V, S=S, linear=linear,
                 packed=packed, coef=(a, b, c, d))
    if linear:
        from_z = lambda k: 0.0  # noqa: E731
        setup["lin"] = True
    return setup


def write_file(setup, path):
    N = setup["N"]
    U, V, S = setup["U"], setup["V"], setup["S"]
    if setup["linear"]:
        # u = a + b*x_u + c*y_u + d*z on the levels (flat bottom): x_u = i + 0.5 for file index i
        use_repo()
        from ladim.ROMS import sdepth
        zr = sdepth(setup["h"], setup["hc"], setup["Cs_r"], stagger="rho", Vtransform=setup["vt"])
        a, b, c, d = setup["coef"]
        k, j, i = np.meshgrid(np.arange(N), np.arange(JMAX), np.arange(IMAX - 1), indexing="ij")
        zu = zr[:, 0, 0][k]
        U = a + b * (i + 0.5) + c * j + d * zu
        k, j, i = np.meshgrid(np.arange(N), np.arange(JMAX - 1), np.arange(IMAX), indexing="ij")
        V = a - c * i + b * (j + 0.5) - d * zr[:, 0, 0][k]
        U = U.astype("f4").astype(float); V = V.astype("f4").astype(float)
        setup["U"], setup["V"] = U, V
    scale = (1.0 / 8, 1.0 / 16) if setup["packed"] else None       # u and v packed with different factors
    # an earlier file with the *other* kind of storage (the frames before the start come from it):
    # packing is a property of each file, not of the run
    other = Path(path).with_name("roms_a.nc")
    lab.make_grid_forcing(other, [-640, -64], imax=IMAX, jmax=JMAX, N=N, h=setup["h"], mask=setup["mask"],
                          u=lambda t, k, j, i: 0.5 + 0 * k, v=lambda t, k, j, i: -0.25 + 0 * k,
                          scal=dict(temp=lambda t, k, j, i: 1.0 + 0 * k), dx=128.0, hc=setup["hc"],
                          Cs_r=setup["Cs_r"], vtransform=setup["vt"], scale_uv=None if setup["packed"] else (1.0 / 4, 1.0 / 8))
    lab.make_grid_forcing(path, [0, 640], imax=IMAX, jmax=JMAX, N=N, h=setup["h"], mask=setup["mask"],
                          u=lambda t, k, j, i: U[k, j, i], v=lambda t, k, j, i: V[k, j, i],
                          scal=dict(temp=lambda t, k, j, i: S[k, j, i]), dx=128.0, hc=setup["hc"],
                          Cs_r=setup["Cs_r"], vtransform=setup["vt"], scale_uv=scale,
                          # the scalar too may be stored packed: as 16-bit integers, or as floats with an offset only
                          # (scale_factor 1: degrees Celsius kept as Kelvin) — the values are halves, nothing is lost
                          scal_pack=dict(temp=[(0.5, 16.0, "i2"), (1.0, 64.0, "f4")][setup["seed"] % 2]) if setup["packed"] else None)


def points_for(sub, r, h, N):
    i0, i1, j0, j1 = sub
    xs = set()
    lo, hi = i0 + 0.5, i1 - 1.5
    if hi <= lo:
        return []
    cand_x = [lo + 1 / 64, hi - 1 / 64, (lo + hi) / 2] + [float(k) for k in range(i0 + 1, i1 - 1)] + [k + 0.5 for k in range(i0 + 1, i1 - 2)]
    cand_x += [float(lo + (hi - lo) * r.randint(1, 64) / 64) for _ in range(3)]
    lo, hi = j0 + 0.5, j1 - 1.5
    if hi <= lo:
        return []
    cand_y = [lo + 1 / 64, hi - 1 / 64, (lo + hi) / 2] + [float(k) for k in range(j0 + 1, j1 - 1)] + [k + 0.5 for k in range(j0 + 1, j1 - 2)]
    cand_y += [float(lo + (hi - lo) * r.randint(1, 64) / 64) for _ in range(3)]
    pts = []
    for _ in range(14):
        x = float(cand_x[r.randint(len(cand_x))]); y = float(cand_y[r.randint(len(cand_y))])
        z = float(r.choice([-1.0, 0.0, 0.5, 3.0, 7.0, 8.0, 11.0, 16.0, 23.0, 49.0, 50.0, 75.0, 100.0, 300.0]))
        pts.append((x, y, z))
    return pts


def run_setup(job):
    """One synthetic file; for each requested subgrid build Grid+Forcing and sample the points."""
    use_repo()
    from ladim.ROMS import Forcing, Grid
    from ladim.state import State
    from ladim.timekeeper import TimeKeeper
    setup = make_setup(job["seed"], linear=job["linear"], packed=job["packed"])
    out = []
    with lab.scratch() as d:
        f = d / "roms_b.nc"
        write_file(setup, f)
        for sub, pts in job["subs"]:
            rec = dict(sub=sub)
            try:
                tk = TimeKeeper(start=lab.tstr(0), stop=lab.tstr(640), dt=64)
                grid = Grid(filename=f, subgrid=sub)
                st = State(instance_variables=dict(temp=float))
                P = np.array(pts, dtype=float)
                st.append(X=P[:, 0], Y=P[:, 1], Z=P[:, 2])
                fo = Forcing(modules=dict(time=tk, grid=grid, state=st), filename=str(d / "roms_*.nc"), extra_forcing=["temp"])
                tk.update(); fo.update()
                u, v = fo.velocity(st.X, st.Y, st.Z, 0.0)
                # velocity at displaced positions with the level column of the start position
                X2 = np.clip(st.X + 0.25, grid.xmin + 0.01, grid.xmax - 0.01); Y2 = np.clip(st.Y - 0.375, grid.ymin + 0.01, grid.ymax - 0.01)
                u2, v2 = fo.velocity(X2, Y2, st.Z, 0.0)
                rec.update(u=u.tolist(), v=v.tolist(), u2=u2.tolist(), v2=v2.tolist(), X2=X2.tolist(), Y2=Y2.tolist(),
                           K=[int(k) for k in fo.K], A=[float(a) for a in fo.A], temp=[float(t) for t in st["temp"]],
                           metric=[float(x) for x in grid.metric(st.X, st.Y)[0]], depth=[float(x) for x in grid.depth(st.X, st.Y)],
                           atsea=[bool(x) for x in grid.atsea(st.X, st.Y)], ingrid=[bool(x) for x in grid.ingrid(st.X, st.Y)],
                           limits=[int(grid.i0), int(grid.i1), int(grid.j0), int(grid.j1)],
                           Mu=grid.Mu.tolist(), Mv=grid.Mv.tolist())
                fo.close()
            except SystemExit as e:
                rec["error"] = f"exit{e.code}"
            except Exception as e:  # noqa: BLE001
                rec["error"] = type(e).__name__ + ": " + str(e)[:80]
            out.append(rec)
    return out


def f3(a):
    return [[[rat_s(x) for x in row] for row in plane] for plane in a]


def f2(a):
    return [[rat_s(x) for x in row] for row in a]


def run(ctx: Ctx):
    use_repo()
    r = np.random.RandomState(ctx.seed + 7)
    nset = 30 if ctx.thorough else 6
    all_subs = [(a, b, c, d) for a in range(1, IMAX - 1) for b in range(a + 1, IMAX) for c in range(1, JMAX - 1) for d in range(c + 1, JMAX)]
    legal_nonempty = [s for s in all_subs if s[1] - s[0] >= 3 and s[3] - s[2] >= 3]
    jobs = []
    for k in range(nset):
        linear = k % 3 == 1
        packed = k % 3 == 2
        setup = make_setup(1000 * ctx.seed + k, linear, packed)
        if ctx.thorough or k < 2:
            subs = legal_nonempty
        else:
            subs = [legal_nonempty[i] for i in r.choice(len(legal_nonempty), 40, replace=False)]
        subs = [None] + subs + [(-8, -1, 1, 7), (0, 5, 1, 5), (1, IMAX, 1, 5), (3, 3, 1, 5)]
        job_subs = []
        for s in subs:
            eff = s if s is not None else (1, IMAX - 1, 1, JMAX - 1)
            if s is not None and not (1 <= (s[0] % IMAX if s[0] < 0 else s[0]) < (s[1] % IMAX if s[1] < 0 else s[1]) <= IMAX - 1):
                pts = [(3.0, 3.0, 1.0)]
            else:
                e = tuple((x + IMAX if x < 0 else x) for x in eff[:2]) + tuple(eff[2:])
                pts = points_for(e, r, setup["h"], setup["N"]) or [(e[0] + 1.0, e[2] + 1.0, 1.0)]
            job_subs.append((list(s) if s is not None else None, pts))
        if linear and setup["N"] >= 3:
            # every particle of this batch sits exactly at the depth of an interior s-level of its cell (weight exactly 0)
            from ladim.ROMS import sdepth
            zr = sdepth(setup["h"], setup["hc"], setup["Cs_r"], stagger="rho", Vtransform=setup["vt"])
            base = points_for((1, IMAX - 1, 1, JMAX - 1), r, setup["h"], setup["N"])
            lev = [(x, y, float(-zr[1 + i % (setup["N"] - 2), int(round(y)), int(round(x))])) for i, (x, y, _) in enumerate(base)]
            job_subs.append((None, lev))
        jobs.append(dict(seed=1000 * ctx.seed + k, linear=linear, packed=packed, subs=job_subs))
    results = pmap(run_setup, jobs, chunksize=1)
    # model requests
    reqs, index = [], []
    for job, res in zip(jobs, results):
        setup = make_setup(job["seed"], job["linear"], job["packed"])
        if job["linear"]:
            import tempfile
            with lab.scratch() as d:
                write_file(setup, d / "x.nc")   # fills setup["U"], setup["V"] for the linear case
        filej = dict(h=f2(setup["h"]), mask=f2(setup["mask"]), dx=f2(np.full((JMAX, IMAX), 128.0)), hc=rat_s(setup["hc"]),
                     Cs_r=[rat_s(c) for c in setup["Cs_r"]], vtransform=setup["vt"])
        Uq = np.rint(setup["U"] * 8) if job["packed"] else setup["U"]
        Vq = np.rint(setup["V"] * 8) if job["packed"] else setup["V"]
        for (sub, pts), rec in zip(job["subs"], res):
            if "error" in rec:
                points = [[rat_s(p[0]), rat_s(p[1]), rat_s(p[2]), rat_s(p[0]), rat_s(p[1])] for p in pts]
                points2 = points
            else:
                points = [[rat_s(p[0]), rat_s(p[1]), rat_s(p[2]), rat_s(p[0]), rat_s(p[1])] for p in pts]
                points2 = [[rat_s(p[0]), rat_s(p[1]), rat_s(p[2]), rat_s(x2), rat_s(y2)] for p, x2, y2 in zip(pts, rec["X2"], rec["Y2"])]
            rq = dict(op="roms_sample", file=filej, U=f3(Uq), V=f3(Vq), S=f3(setup["S"]), sign=1, points=points + points2)
            if sub is not None:
                rq["subgrid"] = sub
            if job["packed"]:
                rq["scale"] = "1/8"
            reqs.append(rq)
            index.append((job, setup, sub, pts, rec))
    want = driver(reqs)
    whole = {}   # (seed, point) -> sampled values on the whole grid, for subgrid independence
    for (job, setup, sub, pts, rec), w in zip(index, want):
        case = dict(seed=job["seed"], linear=job["linear"], packed=job["packed"], subgrid=sub, N=setup["N"], vtransform=setup["vt"], hc=setup["hc"])
        ctx.case("subgrid", [job["seed"], sub], sample=dict(case=case, points=pts[:3]), nontrivial="error" not in rec)
        ctx.count("storage:" + ("packed" if job["packed"] else "float"))
        ctx.count("field:" + ("linear" if job["linear"] else "random"))
        if "error" in rec or "error" in w:
            if rec.get("error", "ok")[:5] != w.get("error", "ok")[:5]:
                ctx.violation("failing-input", "subgrid-legality", case, dict(implementation=rec.get("error", "accepted"), model=w.get("error", "accepted"),
                              note="an illegal subgrid must be refused, a legal one accepted"), tags=dict(first="legality"))
            continue
        n = len(pts)
        W1, W2 = w["points"][:n], w["points"][n:]
        if rec["limits"] != w["limits"]:
            ctx.violation("tie-broken", "subgrid", case, dict(what="limits", implementation=rec["limits"], model=w["limits"]))
            continue
        for k, p in enumerate(pts):
            pc = dict(case, point=p)
            wk = W1[k]
            # ---- monitors: the property's own statements on the implementation's numbers
            if job["linear"]:
                a, b, c, d = setup["coef"]
                use_z = None
                from ladim.ROMS import sdepth
                zr = sdepth(setup["h"], setup["hc"], setup["Cs_r"], stagger="rho", Vtransform=setup["vt"])[:, 0, 0]
                zc = min(max(-p[2], zr[0]), zr[-1])
                eu = a + b * p[0] + c * p[1] + d * zc
                ev = a - c * p[0] + b * p[1] - d * zc
                if not (close(rec["u"][k], eu, rel=1e-5, abs_=1e-5) and close(rec["v"][k], ev, rel=1e-5, abs_=1e-5)):
                    ctx.violation("failing-input", "linear-exact", pc, dict(implementation=[rec["u"][k], rec["v"][k]], exact=[eu, ev],
                                  theorem="Ladim.C02.u_exact_linear / v_exact_linear"), tags=dict(first="linear"))
                    break
            key = (job["seed"], tuple(p))
            if sub is None:
                whole[key] = (rec["u"][k], rec["v"][k], rec["temp"][k], rec["K"][k], rec["A"][k])
            elif key in whole:
                g = (rec["u"][k], rec["v"][k], rec["temp"][k], rec["K"][k], rec["A"][k])
                if any(not close(a_, b_, rel=1e-12, abs_=1e-12) for a_, b_ in zip(g, whole[key])):
                    ctx.violation("failing-input", "subgrid-independence", pc, dict(subgrid=g, whole_grid=whole[key],
                                  theorem="Ladim.C02.sample_subgrid_indep"), tags=dict(first="subgrid", half=(p[0] * 2) % 2 == 1 or (p[1] * 2) % 2 == 1))
                    break
            # ---- correspondence with the model
            diffs = []
            if wk["KA"] == "oob" or wk["uv"] == "oob" or wk["s"] == "oob":
                diffs.append(("model reads outside the arrays", wk, None))
            else:
                # a depth within rounding of an s-level: the level's depth is a float in the implementation and a rational in the
                # model, so the two may put the particle on different sides of it — (K, 0) and (K+1, 1) are the same place for the
                # (continuous) velocities, while the cell value of a scalar jumps there and is decided by that rounding
                on_level = rec["K"][k] != wk["KA"][0] and abs((rec["K"][k] - rec["A"][k]) - (wk["KA"][0] - float(parse_rat(wk["KA"][1])))) < 1e-9
                if on_level:
                    ctx.count("depth-on-a-level:sides-differ")
                elif rec["K"][k] != wk["KA"][0] or not close(rec["A"][k], parse_rat(wk["KA"][1]), rel=1e-9, abs_=1e-12):
                    diffs.append(("K,A", [rec["K"][k], rec["A"][k]], [wk["KA"][0], float(parse_rat(wk["KA"][1]))]))
                mu, mv = float(parse_rat(wk["uv"][0])), float(parse_rat(wk["uv"][1]))
                if not (close(rec["u"][k], mu, rel=1e-9, abs_=1e-9) and close(rec["v"][k], mv, rel=1e-9, abs_=1e-9)):
                    diffs.append(("velocity", [rec["u"][k], rec["v"][k]], [mu, mv]))
                m2u, m2v = float(parse_rat(W2[k]["uv"][0])), float(parse_rat(W2[k]["uv"][1])) if W2[k]["uv"] != "oob" else (None, None)
                if W2[k]["uv"] != "oob" and not (close(rec["u2"][k], m2u, rel=1e-9, abs_=1e-9) and close(rec["v2"][k], m2v, rel=1e-9, abs_=1e-9)):
                    diffs.append(("velocity at a stage position", [rec["u2"][k], rec["v2"][k]], [m2u, m2v]))
                if not on_level and rec["temp"][k] != float(parse_rat(wk["s"])):
                    diffs.append(("scalar", rec["temp"][k], float(parse_rat(wk["s"]))))
                if rec["metric"][k] != float(parse_rat(wk["metric"])) or rec["depth"][k] != float(parse_rat(wk["depth"])) or rec["atsea"][k] != wk["atsea"] or rec["ingrid"][k] != wk["ingrid"]:
                    diffs.append(("metric/depth/atsea/ingrid", [rec["metric"][k], rec["depth"][k], rec["atsea"][k], rec["ingrid"][k]],
                                  [wk["metric"], wk["depth"], wk["atsea"], wk["ingrid"]]))
            if diffs:
                # the sampled values are what the property fixes (interpolation of the file's nodes at the particle's position)
                ctx.violation("failing-input", "sample", pc, dict(differences=[dict(what=a_, implementation=b_, model=c_) for a_, b_, c_ in diffs[:4]],
                              theorem="Ladim.C02.sampleVel_spec (trilinear_convex, u_exact_linear, landface_zero, scalar_own_cell)"),
                              tags=dict(first=diffs[0][0]))
                break

    # ---- whole simulations in the dense layout with particles leaving the grid: dead and inactive particles stay in the
    # arrays in front of living ones; every living particle must still be sampled at its own position and level
    from harness import scen
    ne = 40 if ctx.thorough else 10
    ecases = []
    for k in range(ne):
        sc = scen.gen(ctx.seed * 100000 + 2500 + k, layout="dense", kills=bool(k % 2), land=False, speed=2.0, continuous=False,
                      scheme=["EF", "RK2", "RK4"][k % 3], rev=False, subgrid="none")
        # the first particle starts next to the open boundary and is carried out early
        sc["rows"] = [dict(sc["rows"][0], step=0, mult=1, X=float(sc["imax"] - 2.25), Y=float(sc["jmax"] - 2.25), Z=1.0)] + sc["rows"]
        ecases.append(sc)
    scen.e2e_stream(ctx, "whole-run-dense", ecases, "Ladim.C02.sampleVel_spec for every living particle of Ladim.Simulation (records_are_spec)")
