"""C11 — random-walk diffusion.  (a) Tracker.update with a *scripted* generator: every particle's
displacement must be sqrt(2 D dt)/dx (2 Dz dt in depth) times its own draw, draws are consumed
U block, V block, W block, none when the coefficient is zero; compared with the Float instance of
Ladim.diffDisp.  (b) statistical support with the real generator (labelled a test): mean, variance,
cross- and lag-covariances of a cloud against 6-sigma bands."""
from __future__ import annotations

import math

import numpy as np

from harness import trk
from harness.common import Ctx, driver, pmap, rat_s, use_repo
from harness.props.c12 import bits2float


def make_cases(ctx: Ctx):
    r = np.random.RandomState(ctx.seed + 3)
    cases = []
    n = 400 if ctx.thorough else 80
    for k in range(n):
        dx = float(r.choice([1.0, 16.0, 100.0, 800.0, 4000.0, 20000.0, 0.75, 2.5, 12.5, 62.5, 1250.5]))   # 1/pm need not be whole metres
        dt = int(r.choice([1, 10, 60, 600, 3600, 86400]))
        # displacement of a fraction of a cell: sqrt(2 D dt)/dx ~ 0.02 … 0.3
        target = float(r.choice([0.02, 0.1, 0.3]))
        D = (target * dx) ** 2 / (2 * dt) * float(r.choice([1.0, 0.37, 2.5]))
        if k % 7 == 0:
            D = 0.0
        Dz = float(r.choice([0.0, 1e-5, 1e-3, 0.05])) if k % 3 else 0.0
        gs = trk.grid_spec(k, land=False, dx=dx, varh=False)
        gs["dx"] = np.full_like(gs["dx"], dx)
        sub = None
        if k % 8 == 4:
            # the metric changes from row to row and the loaded window has different offsets in x and y:
            # the step must be scaled with the spacing of the particle's own cell
            gs["dx"] = gs["dx"] * np.array([1.0, 2.0, 4.0, 0.5])[np.arange(gs["dx"].shape[0]) % 4][:, None]
            sub = [3, gs["imax"] - 2, 1, gs["jmax"] - 2]
        gs["h"] = np.full_like(gs["h"], 4096.0)
        npart = int(r.choice([1, 3, 8]))
        parts = [[float(r.uniform(4, 8)), float(r.uniform(4, 6)), float(r.uniform(100, 1000)), 1, 1] for _ in range(npart)]
        if k % 6 == 3 and npart >= 3:
            # particles that are kept but not moved (settled, stranded) in front of free ones: each free particle still
            # gets its own draw, the settled ones stay where they are
            parts[0][4] = 0
            parts[2][4] = 0 if npart > 3 else 1
        nsteps = 3
        draws = []
        for _ in range(nsteps):
            m = (2 * npart if D > 0 else 0) + (npart if Dz > 0 else 0)
            draws.append([float(x) for x in r.normal(size=m + 2)])   # two spare numbers: must stay unused
        case = dict(grid=gs, scheme="", dt=dt, D=D, Dz=Dz, cu=[0] * 7, cv=[0] * 7, particles=parts, nsteps=nsteps,
                    draws=draws, dx=dx, k=k)
        if sub:
            case["subgrid"] = sub
        if k % 5 == 2:
            # vertical advection in the same run: the random walk comes on top of the advective displacement
            case["vertadv"] = True
            case["w"] = [[float(x) / 8 / dt for x in r.randint(-48, 49, size=npart)] for _ in range(nsteps)]
        cases.append(case)
    return cases


def stat_cloud(arg):
    """Real generator: a cloud released in one point of still water; returns moments."""
    seed, npart, nsteps, D, dt, dx = arg
    use_repo()
    from ladim.ROMS import Grid
    from ladim.state import State
    from ladim.timekeeper import TimeKeeper
    from ladim.tracker import Tracker
    from harness import lab
    gs = trk.grid_spec(0, imax=30, jmax=30, land=False, dx=dx, varh=False)
    gs["dx"] = np.full((30, 30), dx)
    with lab.scratch() as d:
        lab.make_grid_forcing(d / "g.nc", [0], imax=30, jmax=30, N=3, h=gs["h"], mask=gs["mask"], dx=gs["dx"])
        grid = Grid(filename=d / "g.nc")
    tk = TimeKeeper(start=lab.tstr(0), stop=lab.tstr(10 ** 7), dt=dt)
    st = State()
    st.append(X=np.full(npart, 15.0), Y=np.full(npart, 15.0), Z=np.full(npart, 5.0))
    trkr = Tracker(advection="", diffusion=D, vertdiff=0.0, modules=dict(state=st, time=tk, grid=grid, forcing=trk.PolyForcing([0] * 7, [0] * 7)))
    trkr.rng = np.random.default_rng(seed)
    steps = []
    prev = st.X.copy()
    for _ in range(nsteps):
        trkr.update()
        steps.append(st.X - prev)
        prev = st.X.copy()
    X, Y = st.X - 15.0, st.Y - 15.0
    lag = float(np.mean(steps[0] * steps[1])) if nsteps > 1 else 0.0
    return dict(mean=[float(X.mean()), float(Y.mean())], var=[float(X.var()), float(Y.var())], cov=float(np.mean(X * Y)),
                lag=lag, neighbour=float(np.mean(X[:-1] * X[1:])), alive=int(st.alive.sum()), m4=float(np.mean(X ** 4)))


def two_runs(arg):
    """Two trackers set up one after the other the way two runs (or two legs of a restarted run) set them up, each with
    its own default generator: the displacements of the same particles in the two runs."""
    npart, D, dt, dx = arg
    use_repo()
    from ladim.ROMS import Grid
    from ladim.state import State
    from ladim.timekeeper import TimeKeeper
    from ladim.tracker import Tracker
    from harness import lab
    gs = trk.grid_spec(0, imax=30, jmax=30, land=False, dx=dx, varh=False)
    gs["dx"] = np.full((30, 30), dx)
    with lab.scratch() as d:
        lab.make_grid_forcing(d / "g.nc", [0], imax=30, jmax=30, N=3, h=gs["h"], mask=gs["mask"], dx=gs["dx"])
        grid = Grid(filename=d / "g.nc")
    out = []
    for _leg in range(2):
        tk = TimeKeeper(start=lab.tstr(0), stop=lab.tstr(10 ** 7), dt=dt)
        st = State()
        st.append(X=np.full(npart, 15.0), Y=np.full(npart, 15.0), Z=np.full(npart, 5.0))
        trkr = Tracker(advection="", diffusion=D, vertdiff=0.0, modules=dict(state=st, time=tk, grid=grid, forcing=trk.PolyForcing([0] * 7, [0] * 7)))
        trkr.update()
        out.append(st.X - 15.0)
    a, b = out
    return dict(corr=float(np.mean(a * b) / (np.std(a) * np.std(b) + 1e-300)), same=bool(np.array_equal(a, b)), n=npart)


def run(ctx: Ctx):
    use_repo()
    cases = make_cases(ctx)
    got = pmap(trk.run_tracker, cases)
    reqs = []
    def own_dx(c, x, y):
        """grid spacing of the cell that holds (x, y): the scale of that particle's random step"""
        return float(c["grid"]["dx"][int(round(y))][int(round(x))])

    for c, g in zip(cases, got):
        rows = []
        npart = len(c["particles"])
        pos = [(p[0], p[1]) for p in c["particles"]]
        for n in range(c["nsteps"]):
            for k in range(npart):
                if c["D"] > 0:
                    rows.append([rat_s(c["D"]), rat_s(float(c["dt"])), rat_s(own_dx(c, *pos[k])), rat_s(c["draws"][n][k])])
            if n < len(g["steps"]) and "error" not in g["steps"][n]:
                pos = list(zip(g["steps"][n]["X"], g["steps"][n]["Y"]))
        reqs.append(dict(op="diffdisp", cases=rows or [[1, 1, 1, 0]]))
    want = driver(reqs)
    for c, g, w in zip(cases, got, want):
        npart = len(c["particles"])
        ctx.case("scripted", [c["k"], c["D"], c["Dz"], c["dt"], c["dx"], npart], sample=dict(D=c["D"], Dz=c["Dz"], dt=c["dt"], dx=c["dx"], particles=npart,
                 draws=c["draws"][0][:4]), nontrivial=c["D"] > 0 or c["Dz"] > 0)
        ctx.count("D>0:" + str(c["D"] > 0)); ctx.count("Dz>0:" + str(c["Dz"] > 0)); ctx.count("vertical advection:" + str(bool(c.get("vertadv"))))
        px = [p[0] for p in c["particles"]]; py = [p[1] for p in c["particles"]]; pz = [p[2] for p in c["particles"]]
        bad = None
        wi = 0
        small = dict(D=c["D"], Dz=c["Dz"], dt=c["dt"], dx=c["dx"], particles=c["particles"], draws=c["draws"])
        for n, s in enumerate(g["steps"]):
            if "error" in s:
                bad = dict(step=n, what="raised", implementation=s["error"]); break
            exp_req = ([npart, npart] if c["D"] > 0 else []) + ([npart] if c["Dz"] > 0 else [])
            if s["rng"] != exp_req:
                bad = dict(step=n, what="draws requested from the generator", implementation=s["rng"], expected=exp_req,
                           note="U block, V block, then W block; nothing when the coefficient is zero"); break
            dr = c["draws"][n]
            for k in range(npart):
                ex = ey = ez = 0.0
                if c["D"] > 0:
                    coef = math.sqrt(2 * c["D"] * c["dt"]) / own_dx(c, px[k], py[k])       # the property: variance 2 D dt / dx²
                    ex, ey = coef * dr[k], coef * dr[npart + k]
                    mdisp = bits2float(w[wi][1]); wi += 1
                    if not c["particles"][k][4]:
                        ex = ey = 0.0          # not active: not moved horizontally (C09), whatever its draw
                    elif s["alive"][k] and abs((s["X"][k] - px[k]) - mdisp) > 1e-12 * (1 + abs(px[k])):
                        bad = dict(step=n, particle=k, what="tie", implementation=s["X"][k] - px[k], model=mdisp)
                if c["Dz"] > 0:
                    off = 2 * npart if c["D"] > 0 else 0
                    ez = math.sqrt(2 * c["Dz"] * c["dt"]) * dr[off + k]
                zadv = c["w"][n][k] * c["dt"] if c.get("vertadv") else 0.0
                zexp = abs(pz[k] + ez + zadv)
                tol = 2e-13
                if not s["alive"][k]:
                    # the kick carried the particle out of the grid: it was killed and put back (C09), no claim here
                    ex = ey = 0.0
                    if (s["X"][k], s["Y"][k]) != (px[k], py[k]):
                        bad = dict(step=n, particle=k, what="a particle killed at the boundary was moved", implementation=[s["X"][k], s["Y"][k]])
                        break
                if abs((s["X"][k] - px[k]) - ex) > tol * (1 + abs(px[k])) + 1e-9 * abs(ex) or abs((s["Y"][k] - py[k]) - ey) > tol * (1 + abs(py[k])) + 1e-9 * abs(ey) \
                        or abs(s["Z"][k] - zexp) > tol * (1 + abs(pz[k])) + 1e-9 * abs(ez):
                    bad = dict(step=n, particle=k, what="displacement is not sqrt(2 D dt)/dx times the particle's own draw",
                               implementation=[s["X"][k] - px[k], s["Y"][k] - py[k], s["Z"][k] - pz[k]], expected=[ex, ey, zexp - pz[k]])
                    break
            if bad:
                break
            px, py, pz = s["X"], s["Y"], s["Z"]
        if bad:
            kind = "tie-broken" if bad.get("what") == "tie" else "failing-input"
            ctx.violation(kind, "scripted", small, dict(bad, theorem="Ladim.C11.disp_law / independent / deterministic_when_off"),
                          tags=dict(first=str(bad.get("what"))[:20]))
    # ---- statistical support (a test, not a proof): 6-sigma bands
    npart = 400000 if ctx.thorough else 40000
    nsteps = 20 if ctx.thorough else 5
    args = []
    for k in range(6 if ctx.thorough else 3):
        dx = [100.0, 800.0, 4000.0][k % 3]
        dt = [600, 60, 3600][k % 3]
        D = (0.05 * dx) ** 2 / (2 * dt)
        args.append((ctx.seed * 1000 + k, npart, nsteps, D, dt, dx))
    res = pmap(stat_cloud, args)
    for a, m in zip(args, res):
        seed, npart, nsteps, D, dt, dx = a
        var = 2 * D * dt * nsteps / dx ** 2
        sd = math.sqrt(var)
        ctx.case("statistics", list(a), sample=dict(D=D, dt=dt, dx=dx, particles=npart, steps=nsteps, moments=m, expected_variance=var))
        bad = []
        if m["alive"] != npart:
            bad.append("particles lost in still water")
        for name, val, band in (("mean X", m["mean"][0], 6 * sd / math.sqrt(npart)), ("mean Y", m["mean"][1], 6 * sd / math.sqrt(npart)),
                                ("var X", m["var"][0] - var, 6 * var * math.sqrt(2 / npart)), ("var Y", m["var"][1] - var, 6 * var * math.sqrt(2 / npart)),
                                ("cov XY", m["cov"], 6 * var / math.sqrt(npart)), ("lag-1 step covariance", m["lag"], 6 * (var / nsteps) / math.sqrt(npart)),
                                ("neighbour covariance", m["neighbour"], 6 * var / math.sqrt(npart)),
                                ("4th moment", m["m4"] - 3 * var ** 2, 6 * var ** 2 * math.sqrt(96 / npart))):
            if abs(val) > band:
                bad.append(f"{name}: off by {val:.3e}, 6-sigma band {band:.3e}")
        if bad:
            ctx.violation("failing-input", "statistics", dict(seed=seed, particles=npart, steps=nsteps, D=D, dt=dt, dx=dx),
                          dict(broken=bad, moments=m, expected_variance=var, theorem="Ladim.C11.cloud_variance (statistical test of the generator assumption)"),
                          tags=dict(first="statistics"))
    # ---- two runs in a row (two legs of a restarted simulation): each has its own generator; their random steps are
    # independent, not a replay (statistical support, 6-sigma band on the correlation)
    for a in [(40000, (0.05 * 100.0) ** 2 / (2 * 600), 600, 100.0)]:
        m = two_runs(a)
        ctx.case("two-runs", list(a), sample=dict(result=m))
        if m["same"] or abs(m["corr"]) > 6 / math.sqrt(m["n"]):
            ctx.violation("failing-input", "two-runs", dict(npart=a[0], D=a[1], dt=a[2], dx=a[3]),
                          dict(correlation_between_the_two_runs=m["corr"], identical=m["same"], band=6 / math.sqrt(m["n"]),
                               theorem="Ladim.C11.independent (displacements of different steps are independent)"), tags=dict(first="two-runs"))
