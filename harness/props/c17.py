"""C17 — the compiled sampling kernels never read outside the forcing arrays.
The theorems (Ladim.Props.C17) bound every index the model's checked samplers compute.  The tie:
the scenario space of the other properties (fast flow towards every open boundary with RK2/RK4,
subgrids, horizontal and vertical diffusion, vertical advection, particles at the surface and at the
bottom, islands and channels) is re-run in a process started with NUMBA_BOUNDSCHECK=1, where an
out-of-range access raises IndexError instead of being silent; plus direct kernel calls at
valid-region and clip-box positions."""
from __future__ import annotations

import json
import os
import subprocess
import sys

from harness.common import Ctx, MachineryError, REPO


def run(ctx: Ctx):
    n = 600 if ctx.thorough else 70
    scen_jobs = []
    for k in range(n):
        opts = dict(speed=[2.0, 4.0, 1.0][k % 3], scheme=["RK4", "RK2", "EF"][k % 3], layout="sparse", kills=(k % 5 == 0),
                    vertadv=(k % 2 == 0), nsteps=8)
        scen_jobs.append(dict(seed=ctx.seed * 100000 + 17000 + k, opts=opts, diffusion=[0.0, 50.0, 400.0][k % 3] if k % 2 else 0.0,
                              vertdiff=0.01 if k % 4 == 1 else 0.0, vinfo=bool(k % 7 == 3)))
    kernel_jobs = [dict(seed=ctx.seed * 1000 + k, N=[2, 3, 5, 1][k % 4] if k % 16 == 15 else [2, 3, 5, 8][k % 4]) for k in range(400 if ctx.thorough else 64)]
    # sequences in one process: a wide (tall) grid at rest or slow, then a narrower (shorter) one with a fast flow whose stage
    # positions overshoot the boundary — limits, shapes or compiled constants of the first run must not serve the second
    seq_jobs = []
    base = ctx.seed * 100000 + 17900
    for k in range(24 if ctx.thorough else 6):
        firsts = [s_ for s_ in range(base + 40 * k, base + 40 * k + 8) if s_ % 4 == [0, 1][k % 2]]     # (12, 10) wide / (9, 13) tall
        seconds = [s_ for s_ in range(base + 40 * k + 8, base + 40 * k + 24) if s_ % 4 == [1, 0][k % 2]]
        seq = [dict(seed=firsts[0], opts=dict(speed=0.25, scheme=["RK4", "RK2"][k % 2], layout="sparse", kills=False, nsteps=3, land=False, subgrid="none"),
                    diffusion=0.0, vertdiff=0.0)]
        seq += [dict(seed=s_, opts=dict(speed=4.0, scheme=["RK4", "RK2"][k % 2], layout="sparse", kills=False, nsteps=6, land=False, subgrid="none"),
                     diffusion=0.0, vertdiff=0.0) for s_ in seconds[:3]]
        seq_jobs.append(seq)
    # releases given by longitude/latitude on loaded windows with (very) different offsets in x and y
    lonlat_jobs = [dict(seed=ctx.seed * 1000 + 170 + k, dx=[4000.0, 800.0][k % 2], subgrid=[[12, 38, 2, 20], [2, 30, 9, 28], [20, 38, 2, 20]][k % 3])
                   for k in range(12 if ctx.thorough else 3)]
    env = dict(os.environ, NUMBA_BOUNDSCHECK="1", LADIM_REPO=str(REPO))
    p = subprocess.run([sys.executable, "-m", "harness.bounds_worker"], input=json.dumps(dict(scen=scen_jobs, kernel=kernel_jobs, seq=seq_jobs, lonlat=lonlat_jobs)),
                       capture_output=True, text=True, env=env, cwd="/verif", timeout=3000)
    if "@@RESULT@@" not in p.stdout:
        raise MachineryError("bounds worker failed: " + p.stderr[-2000:])
    res = json.loads(p.stdout.split("@@RESULT@@")[1])
    for job, g in zip(scen_jobs, res["scen"]):
        ctx.case("bounds-checked run", [job["seed"], job["diffusion"], job["vertdiff"]], sample=dict(job=job, scenario=g["brief"], status=g["status"]))
        ctx.count("scheme:" + job["opts"]["scheme"]); ctx.count("steps", g["steps"])
        if g["status"] != "ok":
            kind = "failing-input" if "IndexError" in g["status"] else "tie-broken"
            ctx.violation(kind, "bounds-checked run", dict(job=job, scenario=g["brief"]),
                          dict(status=g["status"], theorem="Ladim.C17.sampleVel_in_bounds / advect_in_bounds / z2s_in_bounds"),
                          tags=dict(first="IndexError" if "IndexError" in g["status"] else "status", N=g["brief"]["N"]))
    for seq, gs in zip(seq_jobs, res["seq"]):
        ctx.case("runs in a row", [j["seed"] for j in seq], sample=dict(sequence=[g["brief"] for g in gs], status=[g["status"] for g in gs]), nontrivial=True)
        ctx.count("sequence:" + seq[0]["opts"]["scheme"])
        for n_, (job, g) in enumerate(zip(seq, gs)):
            if g["status"] != "ok":
                kind = "failing-input" if "IndexError" in g["status"] else "tie-broken"
                ctx.violation(kind, "runs in a row", dict(sequence=seq[: n_ + 1], scenarios=[x["brief"] for x in gs[: n_ + 1]]),
                              dict(status=g["status"], position_in_sequence=n_, theorem="Ladim.C17.sampleVel_in_bounds / advect_in_bounds (for the grid of the run itself)"),
                              tags=dict(first="IndexError" if "IndexError" in g["status"] else "status", N=g["brief"]["N"]))
                break
    for job, g in zip(lonlat_jobs, res["lonlat"]):
        ctx.case("bounds-checked lon/lat release", [job["seed"], str(job["subgrid"])], sample=dict(job=job, status=g["status"]), nontrivial=True)
        if g["status"] != "ok":
            kind = "failing-input" if "IndexError" in str(g["status"]) else "tie-broken"
            ctx.violation(kind, "bounds-checked lon/lat release", dict(job=job), dict(status=g["status"],
                          theorem="Ladim.C17.sampleVel_in_bounds / z2s_in_bounds (positions of a release lie in the loaded window)"),
                          tags=dict(first="IndexError" if "IndexError" in str(g["status"]) else "status", N=2))
    for job, g in zip(kernel_jobs, res["kernel"]):
        ctx.case("bounds-checked kernels", [job["seed"], job["N"]], sample=dict(job=job, result=g))
        ctx.count("kernel:N=%d" % job["N"])
        if g["status"] != "ok":
            ctx.violation("failing-input", "bounds-checked kernels", dict(job=job, shape=g["shape"]), dict(status=g["status"],
                          theorem="Ladim.C17.uv_in_bounds / z2s_in_bounds (2 <= N)"), tags=dict(first="IndexError", N=1 if job["N"] == 1 else ">=2"))
