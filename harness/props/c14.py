"""C14 — particles are independent; runs are reproducible and time-shift invariant.
Paired end-to-end runs on the real code: a scenario (depth-dependent currents, land, IBM deaths
scheduled so that an output step follows, late releases, scalar forcing, both layouts) against the
same scenario with release rows removed / added / permuted inside a release time, other particles
killed or spared, every time of the set-up shifted by whole steps, and the run repeated.  Each
particle's trajectory (identified by its release row and copy number) must be bit-for-bit the
same.  The base run is also compared with Ladim.Model.Run (per-particle specification)."""
from __future__ import annotations

import copy

import numpy as np

from harness import lab, scen
from harness.common import Ctx, driver, pmap, use_repo


def pid_map(sc):
    """pid -> (row index, copy) in release order (discrete release)."""
    order = sorted(range(len(sc["rows"])), key=lambda i: (sc["rows"][i]["step"], i))
    out = []
    for i in order:
        for c in range(sc["rows"][i]["mult"]):
            out.append((sc["rows"][i]["key"], c))
    return out


def trajectories(sc, real):
    """(row key, copy) -> list of (record time, X, Y, Z, age, temp)"""
    pm = pid_map(sc)
    traj = {}
    for f in real["files"]:
        if "unreadable" in f:
            continue
        if sc["layout"] == "sparse":
            pos = 0
            for n, c in enumerate(f["count"]):
                for k in range(pos, pos + c):
                    pid = f["pid"][k]
                    if pid < len(pm):
                        traj.setdefault(pm[pid], []).append((f["time"][n],) + tuple(f[v][k] for v in ("X", "Y", "Z", "age", "temp") if v in f))
                pos += c
        else:
            for n, t in enumerate(f["time"]):
                for pid in range(len(f["X"][n])):
                    if f["X"][n][pid] is not None and pid < len(pm):
                        traj.setdefault(pm[pid], []).append((t,) + tuple(f[v][n][pid] for v in ("X", "Y", "Z", "age", "temp") if v in f))
    return traj


def make_base(seed):
    r = np.random.RandomState(seed)
    sc = scen.gen(seed, rev=False, continuous=False, kills=False, nsteps=int(r.randint(4, 9)), period=int(r.choice([1, 2])),
                  numrec=int(r.choice([0, 2])), speed=float(r.choice([0.25, 1.0])), subgrid=("none" if seed % 5 == 2 else None))
    for i, row in enumerate(sc["rows"]):
        row["key"] = i
    total = sum(x["mult"] for x in sc["rows"])
    # deaths one step before an output step, of particles that are not the last ones
    kill = {}
    for _ in range(int(r.randint(1, 3))):
        st = int(r.randint(0, sc["nsteps"] - 1))
        kill.setdefault(str(st), []).append(int(r.randint(0, max(1, total - 1))))
    sc["kill"] = kill
    if seed % 5 == 2:
        # the western half is exactly at rest in the frames up to the start and flows later: a particle released there
        # starts with zero velocity while the field under it changes in time; scheme with intermediate stages
        U, V = np.array(sc["U"]), np.array(sc["V"])
        half = sc["imax"] // 2
        first = [m for m, f in enumerate(sc["fsteps"]) if f <= 0]
        for m in first:
            U[m][:, :, : half + 1] = 0.0
            V[m][:, :, : half + 1] = 0.0
        sc["U"], sc["V"] = U.tolist(), V.tolist()
        sc["scheme"] = ["RK2", "RK4"][seed % 2]
        sc["kill"] = {}
        r0 = dict(sc["rows"][0])
        west = dict(r0, step=0, mult=1, X=2.5, Y=float(sc["jmax"] // 2) + 0.25, Z=1.0, key=0)
        east = dict(r0, step=0, mult=1, X=float(sc["imax"] - 3) + 0.5, Y=float(sc["jmax"] // 2) - 0.25, Z=1.0, key=1)
        rest = [dict(row, key=2 + i) for i, row in enumerate(sc["rows"]) if row["step"] > 0]
        sc["rows"] = [west, east] + rest
        sc["mask"] = np.ones_like(np.array(sc["mask"])).tolist()
        sc["_rest"] = True
    if seed % 5 == 4:
        # dense layout (the dead stay in the arrays), a land block in an eastward flow of one cell per step: the first particle
        # leaves the grid at once, others run aground one and two steps later, one drifts in open water
        sc = scen.gen(seed, rev=False, continuous=False, kills=False, nsteps=6, period=1, numrec=0, speed=1.0, subgrid="none", layout="dense",
                      land=False, scheme="EF", vertadv=False)
        imax, jmax = sc["imax"], sc["jmax"]
        sc["U"] = np.full_like(np.array(sc["U"]), 2.0).tolist(); sc["V"] = np.zeros_like(np.array(sc["V"])).tolist()
        mask = np.ones((jmax, imax)); ib = imax // 2 + 1
        mask[3:jmax - 3, ib:ib + 2] = 0
        sc["mask"] = mask.tolist()
        sc["dx"] = np.full((jmax, imax), 128.0).tolist()
        r0 = dict(sc["rows"][0])
        sc["rows"] = [dict(r0, step=0, mult=1, X=float(imax - 2.25), Y=1.25, Z=1.0, key=0),        # A: out of the grid in step 0
                      dict(r0, step=0, mult=1, X=float(ib - 1.25), Y=4.0, Z=1.0, key=1),           # B: aground in step 0
                      dict(r0, step=0, mult=1, X=2.0, Y=1.5, Z=1.0, key=2),                        # C: open water
                      dict(r0, step=0, mult=1, X=float(ib - 2.25), Y=5.25, Z=1.0, key=3)]          # D: aground in step 1
        sc["kill"] = {}
        sc["_ground"] = True
    return sc


def variant(sc, kind, r):
    v = copy.deepcopy(sc)
    pm = pid_map(sc)
    killed_keys = {st: [pm[p] for p in pids if p < len(pm)] for st, pids in sc["kill"].items()}
    if kind == "drop" and sc.get("_rest"):
        v["rows"] = v["rows"][:1]          # the particle in the resting water, alone
    elif kind == "drop_leaver":
        v["rows"] = v["rows"][1:]
    elif kind == "drop":
        keep = [row for row in v["rows"] if row["step"] == 0 and row["key"] == v["rows"][0]["key"] or r.rand() < 0.6]
        v["rows"] = keep or v["rows"][:1]
    elif kind == "drop_first":
        later = [row for row in v["rows"] if row["step"] > 0]
        if any(row["step"] < v["nsteps"] for row in later):     # something must still be released inside the window
            v["rows"] = later
    elif kind == "permute":
        rows = v["rows"]
        by_step = {}
        for row in rows:
            by_step.setdefault(row["step"], []).append(row)
        new = []
        for st in sorted(by_step):
            g = by_step[st]
            perm = r.permutation(len(g))
            new += [g[i] for i in perm]
        v["rows"] = new
    elif kind == "add":
        extra = copy.deepcopy(v["rows"][int(r.randint(len(v["rows"])))])
        extra["key"] = 1000 + int(r.randint(1000)); extra["mult"] = 2
        idx = int(r.randint(len(v["rows"]) + 1))
        rows = v["rows"][:idx] + [extra] + v["rows"][idx:]
        v["rows"] = sorted(rows, key=lambda x: x["step"])   # stable: keeps file order inside a time
    elif kind == "add_none":
        # a release time whose rows release nothing (multiplicity 0), before a later release
        used = {row["step"] for row in v["rows"]}
        last = max(used)
        free = [st for st in range(1, min(last, v["nsteps"])) if st not in used] or [st for st in range(1, v["nsteps"]) if st not in used]
        if free and not v["continuous"]:
            extra = copy.deepcopy(v["rows"][0])
            extra["key"] = 3000; extra["mult"] = 0; extra["step"] = free[0]
            v["rows"] = sorted(v["rows"] + [extra], key=lambda x: x["step"])
    elif kind == "spare":
        killed_keys = {}
    elif kind == "shift":
        v["_shift"] = int(r.choice([-3, -1, 2, 5])) * scen.DT
    elif kind == "repeat":
        pass
    # translate the kill schedule to the variant's numbering (kills of removed particles vanish)
    pm2 = pid_map(v)
    inv = {k: i for i, k in enumerate(pm2)}
    v["kill"] = {st: [inv[k] for k in keys if k in inv] for st, keys in killed_keys.items()}
    v["kill"] = {st: p for st, p in v["kill"].items() if p}
    return v


def run_one(sc):
    use_repo()
    with lab.scratch() as d:
        conf = scen.write(sc, d, shift=sc.get("_shift", 0))
        status = lab.run(conf, d)
        return dict(status=status, files=scen.read_outputs(d, sc))


def lonlat_rows(job):
    """Grid.ll2xy of each lon/lat row alone, of all rows together and of the rows in reverse order."""
    use_repo()
    from ladim.ROMS import Grid
    from ladim.sample import sample2D
    lon, lat = job["lon"], job["lat"]
    jmax, imax = lon.shape
    try:
        with lab.scratch() as d:
            lab.make_grid_forcing(d / "g.nc", [0], imax=imax, jmax=jmax, N=2, lon=lon, lat=lat, dx=job["dx"])
            grid = Grid(filename=d / "g.nc", subgrid=job["subgrid"])
        tg = [(float(sample2D(lon, np.array(x), np.array(y))), float(sample2D(lat, np.array(x), np.array(y)))) for x, y in job["pts"]]
        lo = np.array([t[0] for t in tg]); la = np.array([t[1] for t in tg])
        X, Y = grid.ll2xy(lo, la)
        Xr, Yr = grid.ll2xy(lo[::-1].copy(), la[::-1].copy())
        alone = []
        for k in range(len(tg)):
            x1, y1 = grid.ll2xy(lo[k:k + 1].copy(), la[k:k + 1].copy())
            alone.append([float(x1[0]), float(y1[0])])
        return dict(targets=tg, alone=alone, together=[[float(a), float(b)] for a, b in zip(X, Y)],
                    reversed=[[float(a), float(b)] for a, b in zip(Xr[::-1], Yr[::-1])])
    except Exception as e:  # noqa: BLE001
        return dict(error=type(e).__name__ + ": " + str(e)[:100])


def own_death(sc):
    """(row key, copy) -> step at which the scripted IBM kills it"""
    pm = pid_map(sc)
    out = {}
    for st, pids in sc["kill"].items():
        for p in pids:
            if p < len(pm):
                out.setdefault(pm[p], int(st))
    return out


def run(ctx: Ctx):
    use_repo()
    r = np.random.RandomState(ctx.seed + 41)
    nbase = 150 if ctx.thorough else 24
    kinds = ["drop", "drop_first", "permute", "add", "spare", "shift", "repeat", "add_none"]
    jobs, meta = [], []
    for b in range(nbase):
        base = make_base(ctx.seed * 100000 + 7000 + b)
        jobs.append(base); meta.append((b, "base"))
        for kind in (["drop_leaver", "permute", "repeat"] if base.get("_ground") else kinds if ctx.thorough else (["drop", "permute", "repeat"] if base.get("_rest") else [kinds[(b + i) % len(kinds)] for i in range(3)])):
            jobs.append(variant(base, kind, r)); meta.append((b, kind))
    res = pmap(run_one, jobs)
    bases = {}
    for (b, kind), sc, g in zip(meta, jobs, res):
        if kind == "base":
            bases[b] = (sc, g, trajectories(sc, g))
    # the base runs against the model
    blist = [bases[b][0] for b in sorted(bases)]
    want = driver([scen.request(sc) for sc in blist])
    for sc, w in zip(blist, want):
        g = bases[[b for b in bases if bases[b][0] is sc][0]][1]
        ctx.case("base-vs-model", [sc["seed"]], sample=scen.brief(sc))
        if "error" in w or g["status"] != "ok":
            ctx.violation("failing-input" if g["status"] != "ok" else "tie-broken", "base-vs-model", scen.brief(sc), dict(implementation=g["status"], model=w.get("error", "ok")))
            continue
        diffs = scen.compare_files(sc, g["files"], w["files"])
        if diffs:
            ctx.violation("failing-input", "base-vs-model", scen.brief(sc),
                          dict(differences=[dict(what=a, implementation=str(x)[:300], model=str(y)[:300]) for a, x, y in diffs[:3]],
                               theorem="Ladim.C14.run_refines_spec (each record = every released particle advanced on its own)"),
                          tags=dict(first="model"))
    for (b, kind), sc, g in zip(meta, jobs, res):
        if kind == "base":
            continue
        base, gb, tb = bases[b]
        ctx.case("pair:" + kind, [base["seed"], kind, str(sc["rows"])[:200], str(sc.get("_shift"))], sample=dict(base=scen.brief(base), variant=kind, rows=sc["rows"][:4], kill=sc["kill"]))
        ctx.count("variant:" + kind)
        if g["status"] != "ok" or gb["status"] != "ok":
            ctx.violation("failing-input", "pair", dict(base=scen.brief(base), variant=kind), dict(base_status=gb["status"], variant_status=g["status"]), tags=dict(first="status"))
            continue
        tv = trajectories(sc, g)
        dth_b, dth_v = own_death(base), own_death(sc)
        bad = None
        for key, tr in tv.items():
            if key not in tb:
                continue
            a, c = tb[key], tr
            if kind == "spare" or dth_b.get(key) != dth_v.get(key):
                # its own death was (re)scheduled: compare up to the earlier end
                m = min(len(a), len(c)); a, c = a[:m], c[:m]
            if a != c:
                k = next(i for i in range(max(len(a), len(c))) if i >= len(a) or i >= len(c) or a[i] != c[i])
                bad = dict(particle=dict(release_row=key[0], copy=key[1]), record=k, base=a[k] if k < len(a) else None, variant=c[k] if k < len(c) else None)
                break
        if bad is None:
            # a particle of both set-ups that the base run wrote must be written by the variant too
            lost = [key for key in pid_map(sc) if key in tb and key not in tv and kind != "spare" and dth_b.get(key) == dth_v.get(key)]
            if lost:
                bad = dict(particle=dict(release_row=lost[0][0], copy=lost[0][1]), record=0, base=tb[lost[0]][0], variant=None,
                           what="the particle is in the base output and missing from the variant's")
        if bad:
            ctx.violation("failing-input", "pair", dict(base=scen.brief(base), variant=kind, variant_rows=sc["rows"], variant_kill=sc["kill"], shift=sc.get("_shift", 0)),
                          dict(bad, theorem="Ladim.C14.particle_independent / subset_permutation_invariant / time_shift_invariant / deterministic"),
                          tags=dict(first=kind))

    # ---- release positions given by longitude/latitude: a row's start position depends on its own lon/lat only
    from harness.props.c16 import polar_grid
    ljobs = []
    for k in range(12 if ctx.thorough else 4):
        dx = [4000.0, 800.0, 20000.0][k % 3]
        imax, jmax = 40, 30
        lon, lat = polar_grid(imax, jmax, dx, xp=float(r.uniform(-100, 200)) * 4000 / dx, yp=float(r.uniform(600, 1200)) * 4000 / dx, ylon=float(r.uniform(0, 60)))
        pts = [(float(r.uniform(2.0, imax - 3.5)), float(r.uniform(2.0, jmax - 3.5))) for _ in range(6)]
        ljobs.append(dict(lon=lon, lat=lat, dx=dx, pts=pts, subgrid=None if k % 2 == 0 else [3, 35, 2, 27]))
    for job, g in zip(ljobs, pmap(lonlat_rows, ljobs)):
        case = dict(dx=job["dx"], subgrid=job["subgrid"], rows_lonlat=g.get("targets"))
        ctx.case("lonlat-rows", [job["dx"], str(job["subgrid"]), str(job["pts"])], sample=case)
        if "error" in g:
            ctx.violation("tie-broken", "lonlat-rows", case, dict(implementation=g["error"])); continue
        for k, (alone, together, rev) in enumerate(zip(g["alone"], g["together"], g["reversed"])):
            if alone != together or alone != rev:
                ctx.violation("failing-input", "lonlat-rows", case,
                              dict(row=k, start_position_alone=alone, with_the_other_rows=together, with_the_rows_reversed=rev,
                                   note="Grid.ll2xy of a release row must not depend on the other rows of the release file",
                                   theorem="Ladim.C14.particle_independent (release data of the particle itself)"),
                              tags=dict(first="lonlat"))
                break
