"""C01 — advection scheme and order of accuracy.  Tracker.update (real Grid, polynomial plug-in
forcing, diffusion off) for EF/RK2/RK4 against Ladim.Model.Tracker; the fractional times the
forcing is asked for; observed order of convergence on a rotation (support for the order
theorems, and the failing-input search for 'scheme degraded' changes); analytical.get_velocityN."""
from __future__ import annotations

import math
from fractions import Fraction

import numpy as np

from harness import trk
from harness.common import Ctx, driver, parse_rat, pmap, rat_s, use_repo, close

EXPECT_FRACS = {"EF": [0.0], "RK2": [0.0, 0.5], "RK4": [0.0, 0.5, 0.5, 1.0]}
ORDER = {"EF": 1, "RK2": 2, "RK4": 4}


def fields(r):
    q = lambda: Fraction(int(r.randint(-16, 17)), 8)  # noqa: E731
    kinds = []
    kinds.append(("shear", [q(), Fraction(1, 4), 0, 0, 0, 0, 0], [q(), 0, 0, 0, 0, 0, 0]))
    kinds.append(("rotation", [0, 0, Fraction(-1, 2), 0, 0, 0, 0], [0, Fraction(1, 2), 0, 0, 0, 0, 0]))
    kinds.append(("strain", [q(), q(), q(), 0, 0, 0, 0], [q(), q(), q(), 0, 0, 0, 0]))
    kinds.append(("time", [q(), 0, 0, q(), 0, 0, q()], [q(), 0, 0, q(), 0, 0, 0]))
    kinds.append(("nonlinear", [q(), q(), q(), q(), Fraction(int(r.randint(-4, 5)), 16), Fraction(int(r.randint(-4, 5)), 16), q()],
                  [q(), q(), q(), q(), Fraction(int(r.randint(-4, 5)), 16), 0, 0]))
    return kinds


def make_cases(ctx: Ctx):
    r = np.random.RandomState(ctx.seed + 11)
    cases = []
    n = 40 if ctx.thorough else 8
    for k in range(n):
        imax, jmax = [(12, 10), (8, 17), (10, 10), (15, 7)][k % 4]     # wide, tall, square
        gs = trk.grid_spec(ctx.seed * 100 + k, imax=imax, jmax=jmax, land=False)
        dxv = float(gs["dx"][0, 0])
        for name, cu, cv in fields(r):
            for scheme in ("EF", "RK2", "RK4"):
                # displacement per step below about one cell: |u| dt / dx <~ 1
                dt = int(2 ** r.randint(0, 8))
                if (k + len(cases)) % 7 == 3:
                    dt = int(r.choice([86400, 2 * 86400, 86400 + 3600 * 6]))     # a time step of a day or more is a time step
                # anywhere in the interior of the valid region (also close to its edges, where the stage clip acts)
                parts = [[float(r.randint(2 * 16, (imax - 3) * 16)) / 16, float(r.randint(2 * 16, (jmax - 3) * 16)) / 16, 5.0, 1, 1] for _ in range(7)]
                parts[0][0] = 4.0; parts[0][1] = 4.0
                parts[1][0] = imax - 2.75; parts[1][1] = jmax - 2.75
                parts[2][0] = 1.75; parts[2][1] = 1.75
                scale = Fraction(dxv) / dt / 8
                cu2 = [Fraction(c) * scale for c in cu]
                cv2 = [Fraction(c) * scale for c in cv]
                cases.append(dict(kind=name, grid=gs, scheme=scheme, dt=dt, cu=[str(c) for c in cu2], cv=[str(c) for c in cv2],
                                  particles=parts, nsteps=2))
    return cases


def rotation_error(arg):
    """End-point error after a quarter... turn of a rigid rotation, n steps, on the real tracker."""
    scheme, n = arg
    use_repo()
    gs = trk.grid_spec(1, imax=40, jmax=40, land=False, dx=100.0, varh=False)
    gs["dx"] = np.full((40, 40), 100.0)
    T = 1.0  # radians turned in total
    dt = 64
    om = T / (n * dt)                   # angular velocity [1/s]
    xc = yc = 20.0
    # u [m/s] = -om (y - yc) dx ; v = om (x - xc) dx
    cu = [om * yc * 100.0, 0, -om * 100.0, 0, 0, 0, 0]
    cv = [-om * xc * 100.0, om * 100.0, 0, 0, 0, 0, 0]
    case = dict(grid=gs, scheme=scheme, dt=dt, cu=[Fraction(c) for c in cu], cv=[Fraction(c) for c in cv],
                particles=[[28.0, 20.0, 1.0, 1, 1]], nsteps=n)
    res = trk.run_tracker(case)
    last = res["steps"][-1]
    ex, ey = xc + 8 * math.cos(T), yc + 8 * math.sin(T)
    return math.hypot(last["X"][0] - ex, last["Y"][0] - ey)


def run(ctx: Ctx):
    use_repo()
    cases = make_cases(ctx)
    got = pmap(trk.run_tracker, cases)
    want = driver([trk.model_request(c) for c in cases])
    for c, g, w in zip(cases, got, want):
        sig = [c["kind"], c["scheme"], c["dt"], float(c["grid"]["dx"][0, 0]), c["cu"], c["cv"]]
        small = dict(kind=c["kind"], scheme=c["scheme"], dt=c["dt"], cu=c["cu"], cv=c["cv"], particles=c["particles"][:2])
        ctx.case("step", sig, sample=small, nontrivial=True)
        ctx.count("scheme:" + c["scheme"]); ctx.count("field:" + c["kind"])
        d = trk.compare_steps(g, w, rel=1e-12, abs_=1e-12)
        if d:
            ctx.violation("failing-input", "step", small | dict(grid_seed=None), dict(d, theorem="Ladim.C01.step_eq_rk"),
                          tags=dict(scheme=c["scheme"], first=d.get("what")))
            continue
        for s in g["steps"]:
            if [round(f, 6) for f in s["fracs"]] != EXPECT_FRACS[c["scheme"]]:
                ctx.violation("failing-input", "fractional-times", small, dict(implementation=s["fracs"], expected=EXPECT_FRACS[c["scheme"]],
                              theorem="Ladim.C01.step_eq_rk (stage times 0, 1/2, 1/2, 1)"), tags=dict(scheme=c["scheme"], first="fracs"))
                break
    # ---- observed order of convergence (support; a measurement, not a proof)
    ns = [8, 16, 32]
    args = [(s, n) for s in ("EF", "RK2", "RK4") for n in ns]
    errs = dict(zip(args, pmap(rotation_error, args)))
    for s in ("EF", "RK2", "RK4"):
        orders = [math.log2(errs[(s, a)] / errs[(s, b)]) for a, b in zip(ns, ns[1:])]
        ctx.case("order", [s], sample=dict(scheme=s, errors=[errs[(s, n)] for n in ns], observed_order=orders))
        ctx.notes.setdefault("observed_orders", {})[s] = orders
        if any(abs(o - ORDER[s]) > 0.35 for o in orders):
            ctx.violation("failing-input", "order", dict(scheme=s, field="rigid rotation, 1 radian", steps=ns),
                          dict(errors=[errs[(s, n)] for n in ns], observed_order=orders, expected=ORDER[s],
                               theorem=f"Ladim.C01.conv_linear / order conditions of {s}"), tags=dict(scheme=s, first="order"))
    # ---- analytical.get_velocity1/2/4
    from ladim.analytical import get_velocity1, get_velocity2, get_velocity4

    class S:
        pass
    r = np.random.RandomState(ctx.seed + 5)
    reqs, metas = [], []
    for k in range(60 if ctx.thorough else 15):
        q = lambda: Fraction(int(r.randint(-16, 17)), 8)  # noqa: E731
        cu = [q(), q(), q(), 0, Fraction(int(r.randint(-2, 3)), 8), Fraction(int(r.randint(-2, 3)), 8), 0]
        cv = [q(), q(), q(), 0, Fraction(int(r.randint(-2, 3)), 8), 0, 0]
        dt = int(r.choice([1, 2, 4, 8]))
        s = Fraction(r.choice([1, 2, 1, 3])) / Fraction(r.choice([2, 3, 1, 4]))
        pts = [[float(r.randint(-32, 33)) / 8, float(r.randint(-32, 33)) / 8] for _ in range(4)]
        reqs.append(dict(op="analytical", u=[str(c) for c in cu], v=[str(c) for c in cv], dt=dt, s=str(s), points=[[rat_s(a), rat_s(b)] for a, b in pts]))
        metas.append((cu, cv, dt, s, pts))
    want = driver(reqs)
    for (cu, cv, dt, s, pts), w in zip(metas, want):
        st = S(); st.X = np.array([p[0] for p in pts]); st.Y = np.array([p[1] for p in pts])
        cuf, cvf = [float(c) for c in cu], [float(c) for c in cv]
        f = lambda X, Y: (trk.poly(cuf, 0, X, Y), trk.poly(cvf, 0, X, Y))  # noqa: E731
        g1 = get_velocity1(st, f); g2 = get_velocity2(st, f, dt, float(s)); g4 = get_velocity4(st, f, dt)
        ctx.case("analytical", [str(cu), str(cv), dt, str(s)], sample=dict(u=[str(c) for c in cu], dt=dt, s=str(s)))
        for k in range(len(pts)):
            for name, g, m in (("get_velocity1", g1, w[k][0]), ("get_velocity2", g2, w[k][1]), ("get_velocity4", g4, w[k][2])):
                mu, mv = float(parse_rat(m[0])), float(parse_rat(m[1]))
                if not (close(float(np.atleast_1d(g[0])[k]), mu, rel=1e-11, abs_=1e-11) and close(float(np.atleast_1d(g[1])[k]), mv, rel=1e-11, abs_=1e-11)):
                    ctx.violation("failing-input", "analytical", dict(u=[str(c) for c in cu], v=[str(c) for c in cv], dt=dt, s=str(s), point=pts[k]),
                                  dict(helper=name, implementation=[float(np.atleast_1d(g[0])[k]), float(np.atleast_1d(g[1])[k])], model=[mu, mv],
                                       theorem="Ladim.C01.gv*_is_rk"), tags=dict(first=name))

    # ---- whole simulations: the stage velocities come from the real forcing (time-dependent, frames several steps apart)
    from harness import scen
    ne = 30 if ctx.thorough else 9
    ecases = [scen.gen(ctx.seed * 100000 + 1500 + k, scheme=["RK4", "RK2", "EF"][k % 3], rev=bool(k % 4 == 3), layout="sparse", kills=False,
                       land=False, speed=[0.25, 1.0][k % 2], continuous=False) for k in range(ne)]
    # dense layout with a particle that leaves at once: dead, inactive particles stay in front of the living ones
    for k in range(4 if not ctx.thorough else 12):
        sc = scen.gen(ctx.seed * 100000 + 1700 + k, layout="dense", kills=False, land=False, speed=2.0, continuous=False,
                      scheme=["RK4", "RK2", "EF"][k % 3], rev=False, subgrid="none")
        sc["rows"] = [dict(sc["rows"][0], step=0, mult=1, X=float(sc["imax"] - 2.25), Y=float(sc["jmax"] - 2.25), Z=1.0)] + sc["rows"]
        ecases.append(sc)
    # a forcing frame at every model step (time step = forcing interval), and frames one and two steps apart in turn: the
    # stages at half and full step need the increment towards the *next* frame also when that frame is the next step
    for k in range(4 if not ctx.thorough else 12):
        ecases.append(scen.gen(ctx.seed * 100000 + 1800 + k, layout="sparse", kills=False, land=False, speed=1.0, continuous=False, nsteps=7,
                               scheme=["RK4", "RK2"][k % 2], rev=bool(k % 4 == 2), subgrid="none", frame_gaps=[[1], [1, 1, 2], [2, 1]][k % 3]))
    # a loaded window with different offsets in x and y over a metric that changes from row to row: the step of a particle is
    # scaled with the spacing of its own cell
    for k in range(3 if not ctx.thorough else 9):
        seed_ = ctx.seed * 100000 + 1900 + k
        imax_, jmax_ = [(12, 10), (9, 13), (11, 11), (10, 12)][seed_ % 4]
        sc = scen.gen(seed_, layout="sparse", kills=False, land=False, speed=0.5, continuous=False, nsteps=6, scheme=["RK4", "EF", "RK2"][k % 3], rev=False,
                      subgrid=[3, imax_ - 1, 1, jmax_ - 2])
        sc["dx"] = (128.0 * np.array([1.0, 2.0, 0.5, 4.0])[np.arange(jmax_) % 4][:, None] * np.ones((jmax_, imax_))).tolist()
        ecases.append(sc)
    scen.e2e_stream(ctx, "whole-run", ecases, "Ladim.C01.advect_EF/RK2/RK4 with the velocity of Ladim.Simulation.velocity_seen at the stage times")
