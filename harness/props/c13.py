"""C13 — clock arithmetic and period spellings: correspondence of ladim.timekeeper with
Ladim.Model.Time, on an exhaustive lattice plus seeded random cases."""
from __future__ import annotations

import datetime
import itertools

from harness.common import Ctx, driver, parse_rat, use_repo, close

EPOCH0 = 946684800  # 2000-01-01T00:00:00 in seconds since 1970
UNITS = ["s", "m", "h", "D"]


def iso(t):
    import numpy as np
    return str(np.datetime64(int(t), "s"))


def impl_clock(case):
    """Run the real TimeKeeper on one case; returns the same shape as the driver's answer."""
    import numpy as np
    from ladim.timekeeper import TimeKeeper
    kw = dict(start=iso(case["start"]) if case["start"] is not None else "",
              stop=iso(case["stop"]) if case["stop"] is not None else "",
              dt=case["dt"], time_reversal=case["rev"])
    if case["ref"] is not None:
        kw["reference"] = iso(case["ref"])
    try:
        tk = TimeKeeper(**kw)
    except SystemExit as e:
        return {"error": f"exit{e.code}"}
    except Exception as e:  # noqa: BLE001
        return {"error": type(e).__name__}
    ti = lambda t: int(np.datetime64(t, "s").astype("int64"))  # noqa: E731
    out = {"nsteps": int(tk.Nsteps), "ref": ti(tk.reference_time), "min": ti(tk.min_time), "max": ti(tk.max_time)}
    clock = []
    for k in range(case["updates"] + 1):
        if k:
            tk.update()
        clock.append({"step": int(tk.step), "time": ti(tk.time), "nctime": [tk.nctime(u) for u in UNITS]})
    out["clock"] = clock
    out["step2time"] = [ti(tk.step2time(n)) for n in case["steps"]]
    out["step2isotime"] = [ti(np.datetime64(tk.step2isotime(n))) for n in case["steps"]]
    out["time2step"] = [int(tk.time2step(np.datetime64(int(t), "s"))) for t in case["times"]]
    out["time2step_str"] = [int(tk.time2step(iso(t))) for t in case["times"]]
    out["step2nctime"] = [[tk.step2nctime(n, u) for u in UNITS] for n in case["steps"]]
    out["cf_units"] = tk.cf_units("s")
    return out


def compare_clock(ctx: Ctx, case, got, want):
    """got = implementation, want = model."""
    diffs = []
    if "error" in want or "error" in got:
        if got.get("error") != want.get("error"):
            diffs.append(("init", got.get("error", "accepted"), want.get("error", "accepted")))
        return diffs, []
    for k in ("nsteps", "ref", "min", "max"):
        if got[k] != want[k]:
            diffs.append((k, got[k], want[k]))
    for i, (g, w) in enumerate(zip(got["clock"], want["clock"])):
        if g["step"] != w["step"] or g["time"] != w["time"]:
            diffs.append((f"clock[{i}]", (g["step"], g["time"]), (w["step"], w["time"])))
        for u, a, b in zip(UNITS, g["nctime"], w["nctime"]):
            if not close(a, parse_rat(b)):
                diffs.append((f"nctime[{i}][{u}]", a, b))
    for i, n in enumerate(case["steps"]):
        if got["step2time"][i] != want["step2time"][i]:
            diffs.append((f"step2time({n})", got["step2time"][i], want["step2time"][i]))
        if got["step2isotime"][i] != want["step2time"][i]:
            diffs.append((f"step2isotime({n})", got["step2isotime"][i], want["step2time"][i]))
        for u, a, b in zip(UNITS, got["step2nctime"][i], want["step2nctime"][i]):
            if not close(a, parse_rat(b)):
                diffs.append((f"step2nctime({n},{u})", a, b))
    soft = []
    for i, t in enumerate(case["times"]):
        on_grid = (t - case["start"]) % case["dt"] == 0 if case["dt"] > 0 else False
        for key in ("time2step", "time2step_str"):
            if got[key][i] != want["time2step"][i]:
                (diffs if on_grid else soft).append((f"{key}({t})", got[key][i], want["time2step"][i]))
    expect_units = f"seconds since {iso(want['ref'])}"
    if got["cf_units"] != expect_units:
        diffs.append(("cf_units", got["cf_units"], expect_units))
    return diffs, soft


def clock_cases(ctx: Ctx):
    cases = []
    dts = [1, 7, 60, 600, 3600]
    for dt in dts:
        for start_off in (0, 13):
            start = EPOCH0 + start_off
            for nwhole in range(0, 4):
                for resid in sorted({0, 1, dt - 1, dt // 2} - {dt}):
                    if resid < 0 or resid >= dt:
                        continue
                    for rev in (False, True):
                        dur = nwhole * dt + resid
                        stop = start - dur if rev else start + dur
                        for ref in (None, start - 86400, start + 50):
                            cases.append(dict(start=start, stop=stop, dt=dt, ref=ref, rev=rev))
    # wrong side / zero duration / missing pieces
    for rev in (False, True):
        cases.append(dict(start=EPOCH0, stop=EPOCH0 + (600 if rev else -600), dt=60, ref=None, rev=rev))
        cases.append(dict(start=EPOCH0, stop=EPOCH0, dt=60, ref=None, rev=rev))
        cases.append(dict(start=None, stop=EPOCH0, dt=60, ref=None, rev=rev))
        cases.append(dict(start=EPOCH0, stop=None, dt=60, ref=None, rev=rev))
        cases.append(dict(start=EPOCH0, stop=EPOCH0 + (-600 if rev else 600), dt=0, ref=None, rev=rev))
    n_rand = 3000 if ctx.thorough else 300
    r = ctx.rng
    for _ in range(n_rand):
        dt = r.choice([1, 2, 3, 5, 10, 30, 45, 60, 90, 300, 600, 900, 1800, 3600, 7200, 86400])
        start = EPOCH0 + r.randrange(-10800, 10800)
        rev = r.random() < 0.5
        dur = r.randrange(0, 12) * dt + r.choice([0, 0, 0, r.randrange(0, dt)])
        stop = start - dur if rev else start + dur
        ref = r.choice([None, start + r.randrange(-10800, 10800), EPOCH0 - 86400 * 365])
        cases.append(dict(start=start, stop=stop, dt=dt, ref=ref, rev=rev))
    for c in cases:
        dt = c["dt"] or 60
        start = c["start"] if c["start"] is not None else EPOCH0
        n = abs((c["stop"] if c["stop"] is not None else start) - start) // dt
        c["updates"] = min(n + 2, 7)
        c["steps"] = sorted(set(range(-5, 6)) | {n, n + 1, n + 5})
        sg = -1 if c["rev"] else 1
        c["times"] = sorted({start + sg * k * dt for k in range(-5, 8)} | {start + 1, start - 1, start + dt // 2, start - dt - 1})
    return cases


# ------------------------------------------------------------------ period spellings

def impl_period(arg):
    from ladim.timekeeper import normalize_period
    import numpy as np
    try:
        v = normalize_period(arg)
    except ValueError:
        return {"error": "ValueError"}
    except Exception as e:  # noqa: BLE001
        return {"error": type(e).__name__}
    if not isinstance(v, np.timedelta64) or np.datetime_data(v.dtype)[0] != "s":
        return {"error": f"bad-type {type(v).__name__} {getattr(v, 'dtype', '')}"}
    return {"ok": int(v.astype("int64"))}


def period_cases(ctx: Ctx):
    import numpy as np
    cases = []  # (request, python argument, label)
    # exhaustive strings over the ISO alphabet
    alpha = "PTHMS019"
    maxlen = 6 if ctx.thorough else 5
    for L in range(0, maxlen + 1):
        for tup in itertools.product(alpha, repeat=L):
            s = "".join(tup)
            # every string that starts with PT, and a thin slice of the others
            if not s.startswith("PT") and (L > 3):
                continue
            cases.append((dict(op="period", kind="iso", s=s), s, "iso-exhaustive"))
    # structured valid/near-valid strings
    r = ctx.rng
    def grp(ch):
        return r.choice(["", "", f"{r.randrange(0, 100000)}{ch}", f"0{r.randrange(0, 99)}{ch}"])
    for _ in range(3000 if ctx.thorough else 600):
        s = "PT" + grp("H") + grp("M") + grp("S")
        mut = r.random()
        if mut < 0.15:
            s = s + r.choice(["\n", " ", "X", "\n\n", "1", "h"])
        elif mut < 0.25:
            s = r.choice(["pt", "P", "T", " PT", "PT "]) + s[2:]
        elif mut < 0.35:
            parts = ["PT", grp("S"), grp("M"), grp("H")]
            s = "".join(parts)
        elif mut < 0.40:
            s = s.replace("M", "m").replace("H", "h")
        elif mut < 0.45:
            s = s.replace("PT", "P1DT") if r.random() < 0.5 else s.replace("H", ".5H")
        cases.append((dict(op="period", kind="iso", s=s), s, "iso-structured"))
    # the other spellings
    for n in [0, 1, 59, 60, 61, 600, 3600, 86400, 90061, -60, -1] + [r.randrange(0, 10**6) for _ in range(40)]:
        cases.append((dict(op="period", kind="secs", n=n), int(n), "int"))
        cases.append((dict(op="period", kind="secs", n=n), np.timedelta64(n, "s"), "timedelta64"))
        cases.append((dict(op="period", kind="secs", n=n), datetime.timedelta(seconds=n), "timedelta"))
        if n % 60 == 0:
            cases.append((dict(op="period", kind="secs", n=n), np.timedelta64(n // 60, "m"), "timedelta64[m]"))
    for unit in ["s", "m", "h", "D", "W", "d", "H", "S", "x", "", "sec", "hours"]:
        for v in [0, 1, 2, 15, 36, 100, -3, r.randrange(0, 5000)]:
            cases.append((dict(op="period", kind="pair", v=v, unit=unit), [v, unit], "pair"))
    for bad in ([1], [1, "h", 2], ["1", "h"], [1.5, "h"], [1, 2], []):
        cases.append((dict(op="period", kind="badpair"), bad, "badpair"))
    for other in ((1, "h"), 1.5, None, {"a": 1}, b"PT1H"):
        cases.append((dict(op="period", kind="other"), other, "other"))
    return cases


def spelling_groups(ctx: Ctx):
    """One duration, every accepted spelling: the implementation must give one value."""
    import numpy as np
    r = ctx.rng
    out = []
    for _ in range(400 if ctx.thorough else 80):
        h, m, s = r.randrange(0, 50), r.randrange(0, 120), r.randrange(0, 4000)
        if r.random() < 0.3:
            h = 0
        if r.random() < 0.3:
            m = 0
        if r.random() < 0.3 or (h == 0 and m == 0 and s == 0):
            s = r.randrange(1, 100)
        total = 3600 * h + 60 * m + s
        isos = "PT" + (f"{h}H" if h else "") + (f"{m}M" if m else "") + (f"{s}S" if s else "")
        sp = [total, np.timedelta64(total, "s"), datetime.timedelta(seconds=total), [total, "s"], isos, f"PT{total}S"]
        if total % 60 == 0:
            sp += [[total // 60, "m"], f"PT{total // 60}M"]
        if total % 3600 == 0:
            sp += [[total // 3600, "h"], f"PT{total // 3600}H"]
        out.append((total, sp))
    return out


def run(ctx: Ctx):
    use_repo()
    # ---- clock
    cases = clock_cases(ctx)
    reqs = [dict(op="tk", start=c["start"], stop=c["stop"], dt=c["dt"], ref=c["ref"], rev=c["rev"],
                 updates=c["updates"], steps=c["steps"], times=c["times"], units=UNITS) for c in cases]
    want = driver(reqs)
    for c, w in zip(cases, want):
        g = impl_clock(c)
        diffs, soft = compare_clock(ctx, c, g, w)
        nt = "error" not in w and w["nsteps"] >= 1
        ctx.case("clock", [c["start"] - EPOCH0 if c["start"] is not None else None,
                           (c["stop"] - c["start"]) if None not in (c["start"], c["stop"]) else None,
                           c["dt"], c["ref"] is None, c["rev"]],
                 sample=dict(case={k: c[k] for k in ("start", "stop", "dt", "ref", "rev", "updates")},
                             model={k: w[k] for k in w if k in ("nsteps", "error")}), nontrivial=nt)
        ctx.count("clock:" + ("refused" if "error" in w else ("reversed" if c["rev"] else "forward")))
        if diffs:
            ctx.violation("failing-input", "clock", c, dict(differences=[dict(what=a, implementation=str(b), model=str(m)) for a, b, m in diffs[:8]],
                          theorem="Ladim.C13.clock_reads / time2step_step2time / nctime_spec"),
                          tags=dict(rev=c["rev"], first=diffs[0][0].split("[")[0].split("(")[0]))
        elif soft:
            ctx.violation("tie-broken", "clock-offgrid", c, dict(differences=[dict(what=a, implementation=str(b), model=str(m)) for a, b, m in soft[:8]],
                          correspondence="time2step off the step grid (floor toward the past); the property only fixes step boundaries"))
    # ---- period spellings
    pc = period_cases(ctx)
    want = driver([p[0] for p in pc])
    for (rq, arg, label), w in zip(pc, want):
        g = impl_period(arg)
        ctx.case("period", [label, repr(arg)], sample=dict(arg=repr(arg), model=w), nontrivial=True)
        ctx.count("period:" + label + (":accepted" if "ok" in w else ":rejected"))
        if g != w:
            ctx.violation("failing-input", "period", dict(arg=repr(arg), kind=label),
                          dict(implementation=g, model=w, theorem="Ladim.C13.parseIso_spec / spellings_agree"),
                          tags=dict(kind=label))
    for total, sp in spelling_groups(ctx):
        vals = [impl_period(a) for a in sp]
        ctx.case("spellings", [total], sample=dict(total=total, spellings=[repr(a) for a in sp]))
        if any(v != {"ok": total} for v in vals):
            ctx.violation("failing-input", "spellings", dict(total=total, spellings=[repr(a) for a in sp]),
                          dict(implementation=vals, expected=total), tags=dict(kind="spellings"))
    # ---- dt given in every spelling to TimeKeeper itself
    from ladim.timekeeper import TimeKeeper
    import numpy as np
    for total, sp in spelling_groups(ctx)[:30]:
        for a in sp:
            try:
                tk = TimeKeeper(start=iso(EPOCH0), stop=iso(EPOCH0 + 5 * total + (1 if total > 1 else 0)), dt=a)
                got = (int(tk.dt / np.timedelta64(1, "s")), int(tk.Nsteps))
            except BaseException as e:  # noqa: BLE001
                got = type(e).__name__
            ctx.case("tk-dt-spelling", [total, repr(a)])
            if got != (total, 5):
                ctx.violation("failing-input", "tk-dt-spelling", dict(dt=repr(a), total=total), dict(implementation=str(got), expected=[total, 5]))
    # ---- the clock of a warm-started run: its records carry start' + n*dt too (start' = the restart time)
    from harness.props import c08
    from harness.common import pmap
    wcases = [c08.make_base(ctx.seed * 100000 + 13500 + k) for k in range(20 if ctx.thorough else 4)]
    for sc, g in zip(wcases, pmap(c08.run_base_and_restarts, wcases)):
        if g["status"] != "ok":
            continue
        for rs in g["restarts"]:
            fk = g["files"][rs["k"]]
            at, _ = c08.abs_times(fk)
            rstep = abs(int(round((at[-1] - sc["start"]) / c08.scen.DT)))
            sg = -1 if sc["rev"] else 1          # (some of the base runs go backwards in time)
            case = dict(scenario=c08.scen.brief(sc), restart_from=fk["name"], at_step=rstep)
            ctx.case("warm-clock", [sc["seed"], rs["k"]], sample=case, nontrivial=True)
            if rs["status"] != "ok":
                continue
            expect = [float(sc["start"] + sg * n * c08.scen.DT) for n in range(rstep + 1, sc["nsteps"]) if n % sc["period"] == 0]
            have = [t for f in rs["files"] if "unreadable" not in f for t in c08.abs_times(f)[0]]
            if have != expect:
                ctx.violation("failing-input", "warm-clock", case, dict(what="record times of the restarted run (absolute seconds)", implementation=have,
                              expected=expect, theorem="Ladim.C13.clock_reads (clock = start + n*dt at step n, also after a warm start)"),
                              tags=dict(first="warm-clock"))
