"""C04 — release accounting.  The real ParticleReleaser (real TimeKeeper and State, a stub grid
for lon/lat) on generated release files: several rows per time, mult 0…3, extra int/float/time
columns, header in the file or names in the configuration, every window over a small time lattice,
discrete and continuous release with several frequencies, forward and reversed runs; the particles
appended to the state at every step are compared with Ladim.Model.Release."""
from __future__ import annotations

import numpy as np

from harness import lab
from harness.common import Ctx, driver, pmap, parse_rat, use_repo, val_s

DT = 60


class StubGrid:
    """ll2xy of an affine, *rotated* lon/lat grid (X and Y each depend on both coordinates):
    X = 8·(lon − 5) + 4·(lat − 60), Y = −2·(lon − 5) + 16·(lat − 60)."""

    def ll2xy(self, lon, lat):
        lo, la = np.asarray(lon, float) - 5.0, np.asarray(lat, float) - 60.0
        return 8.0 * lo + 4.0 * la, -2.0 * lo + 16.0 * la


def gen_case(r, k, thorough):
    rev = bool(k % 2)
    sg = -1 if rev else 1
    nsteps = int(r.choice([1, 2, 3, 5, 8]))
    start = 0
    # some windows are not a whole number of time steps long: the last `tail` seconds of
    # [start, stop) lie beyond the last step the loop performs
    tail = int(r.choice([0, 0, 0, 0, 0, 1, DT // 2, DT - 1]))
    stop = sg * (nsteps * DT + tail)
    continuous = bool(r.rand() < 0.4)
    freq = int(r.choice([1, 2, 3])) * DT
    # file times on the model time grid, in simulation order; in continuous mode on the frequency grid
    ntimes = int(r.choice([1, 1, 2, 3, 4]))
    unit = freq if continuous else DT
    first = int(r.randint(-3, nsteps + 2)) * (DT if not continuous else freq)
    times = [first]
    for _ in range(ntimes - 1):
        times.append(times[-1] + int(r.randint(1, 4)) * unit)
    times = [sg * t for t in times]
    lonlat = bool(r.rand() < 0.2)
    extras = []
    if r.rand() < 0.6:
        extras.append("weight")
    if r.rand() < 0.4:
        extras.append("stage")
    pvar_time = bool(r.rand() < 0.4)
    rows = []
    for t in times:
        for _ in range(int(r.choice([1, 1, 2, 3]))):
            row = dict(release_time=t, mult=int(r.choice([0, 1, 1, 2, 3])))
            if lonlat:
                row["lon"] = 5.0 + r.randint(16, 80) / 64.0
                row["lat"] = 60.0 + r.randint(16, 64) / 128.0
                if rows and r.rand() < 0.5:      # rows on one meridian or one parallel (a lattice of release points)
                    other = rows[r.randint(len(rows))]
                    if "lon" in other:
                        key = "lon" if r.rand() < 0.5 else "lat"
                        row[key] = other[key]
            else:
                row["X"] = r.randint(32, 160) / 16.0
                row["Y"] = r.randint(32, 128) / 16.0
            row["Z"] = r.randint(0, 100) / 4.0
            if "weight" in extras:
                row["weight"] = r.randint(0, 1000) / 8.0
            if "stage" in extras:
                row["stage"] = int(r.randint(0, 6))
            rows.append(row)
    use_names = bool(r.rand() < 0.4)
    has_mult = bool(r.rand() < 0.8)
    if not has_mult:
        for row in rows:
            row.pop("mult")
    return dict(k=k, rev=rev, nsteps=nsteps, tail=tail, start=start, stop=stop, continuous=continuous, freq=freq, rows=rows,
                lonlat=lonlat, extras=extras, pvar_time=pvar_time, use_names=use_names, has_mult=has_mult)


def run_case(c):
    use_repo()
    from ladim.release import ParticleReleaser
    from ladim.state import State
    from ladim.timekeeper import TimeKeeper
    ivars = {}
    if "weight" in c["extras"]:
        ivars["weight"] = float
    if "stage" in c["extras"]:
        ivars["stage"] = int
    pvars = dict(release_time="time") if c["pvar_time"] else {}
    with lab.scratch() as d:
        cols = list(c["rows"][0].keys())
        lab.write_release(d / "rel.rls", c["rows"], header=not c["use_names"], cols=cols)
        try:
            tk = TimeKeeper(start=lab.tstr(c["start"]), stop=lab.tstr(c["stop"]), dt=DT, time_reversal=c["rev"])
            # defaults for the extra columns: a value in the release row must win over the default
            defaults = {}
            if "weight" in c["extras"] and c["k"] % 2 == 0:
                defaults["weight"] = 1.5
            if "stage" in c["extras"] and c["k"] % 3 == 0:
                defaults["stage"] = 9
            st = State(instance_variables=ivars, particle_variables=pvars, default_values=defaults)
            modules = dict(time=tk, grid=StubGrid(), state=st)
            kw = dict(release_file=str(d / "rel.rls"), continuous=c["continuous"])
            if c["continuous"]:
                kw["release_frequency"] = c["freq"]
            if c["use_names"]:
                kw["names"] = cols
            rel = ParticleReleaser(modules, **kw)
        except SystemExit as e:
            return dict(error=f"exit{e.code}")
        except Exception as e:  # noqa: BLE001
            return dict(error=type(e).__name__ + ": " + str(e)[:100])
        out = []
        try:
            for n in range(c["nsteps"]):
                tk.update()
                before = len(st)
                npid0 = int(st.npid)
                rel.update()
                new = []
                for i in range(before, len(st)):
                    p = dict(pid=int(st.pid[i]), X=float(st.X[i]), Y=float(st.Y[i]), Z=float(st.Z[i]))
                    for e in c["extras"]:
                        p[e] = float(st[e][i])
                    if c["pvar_time"]:
                        p["release_time"] = int(st["release_time"][int(st.pid[i])].astype("M8[s]").astype("int64")) - lab.T0_S
                    new.append(p)
                out.append(dict(step=int(tk.step), new=new, npid=int(st.npid) - npid0))
        except Exception as e:  # noqa: BLE001
            return dict(error=type(e).__name__ + ": " + str(e)[:100], steps=out)
        return dict(steps=out, total=int(rel.total_particle_count))


def request(c):
    rows = []
    for r in c["rows"]:
        cols = {}
        if c["lonlat"]:
            lo, la = r["lon"] - 5.0, r["lat"] - 60.0
            cols["X"] = val_s(8.0 * lo + 4.0 * la); cols["Y"] = val_s(-2.0 * lo + 16.0 * la)
        else:
            cols["X"] = val_s(r["X"]); cols["Y"] = val_s(r["Y"])
        cols["Z"] = val_s(r["Z"])
        for e in c["extras"]:
            cols[e] = val_s(r[e])
        rows.append(dict(time=r["release_time"], mult=r.get("mult", 1), cols=cols))
    return dict(op="release", start=c["start"], stop=c["stop"], dt=DT, rev=c["rev"], continuous=c["continuous"],
                freq=c["freq"], warm=False, release_time_col=c["pvar_time"], rows=rows, first_step=0, nsteps=c["nsteps"])


def run(ctx: Ctx):
    use_repo()
    r = np.random.RandomState(ctx.seed + 21)
    n = 6000 if ctx.thorough else 700
    cases = [gen_case(r, k, ctx.thorough) for k in range(n)]
    # corpus: the witnesses of the repaired defects
    cases.append(dict(k=-1, rev=True, nsteps=6, start=0, stop=-360, continuous=False, freq=60, lonlat=False, extras=[], pvar_time=False,
                      use_names=False, has_mult=True, rows=[dict(release_time=0, mult=1, X=3.0, Y=3.0, Z=1.0), dict(release_time=-120, mult=2, X=4.0, Y=4.0, Z=1.0),
                                                           dict(release_time=-240, mult=1, X=5.0, Y=5.0, Z=1.0)]))
    cases.append(dict(k=-2, rev=False, nsteps=3, start=0, stop=180, continuous=False, freq=60, lonlat=False, extras=[], pvar_time=False,
                      use_names=False, has_mult=True, rows=[dict(release_time=180, mult=1, X=3.0, Y=3.0, Z=1.0)]))
    # runs of more than a day (1500 steps of a minute): releases a day and more after the start, in both directions, discrete and continuous
    for k_, (rev_, cont_) in enumerate([(False, False), (True, False), (False, True)]):
        sg_ = -1 if rev_ else 1
        cases.append(dict(k=-10 - k_, rev=rev_, nsteps=1500, start=0, stop=sg_ * 1500 * DT, continuous=cont_, freq=21600, lonlat=False, extras=[], pvar_time=False,
                          use_names=False, has_mult=True,
                          rows=[dict(release_time=0, mult=1, X=3.0, Y=3.0, Z=1.0), dict(release_time=sg_ * 3600, mult=2, X=4.0, Y=4.0, Z=1.0),
                                dict(release_time=sg_ * (86400 + 120), mult=3, X=5.0, Y=5.0, Z=1.0), dict(release_time=sg_ * (86400 + 3600), mult=1, X=6.0, Y=5.0, Z=1.0)]))
    got = pmap(run_case, cases, warm=False)
    want = driver([request(c) for c in cases])
    for c, g, w in zip(cases, got, want):
        small = {k: v for k, v in c.items() if k != "rows"} | dict(rows=c["rows"][:6])
        nreleased = sum(len(s[1]) for s in w.get("released", []))
        ctx.case("table", [c["k"], c["rev"], c["continuous"], c["nsteps"], len(c["rows"])], sample=small, nontrivial=nreleased > 0)
        ctx.count("mode:" + ("continuous" if c["continuous"] else "discrete")); ctx.count("dir:" + ("reversed" if c["rev"] else "forward"))
        ctx.count("refused" if "error" in w else "accepted")
        if "error" in w or ("error" in g and "steps" not in g):
            if g.get("error", "ok")[:5] != w.get("error", "ok")[:5]:
                ctx.violation("failing-input", "table", small, dict(implementation=g.get("error", "accepted"), model=w.get("error", "accepted"),
                              note="a table with a release inside [start, stop) must be accepted and released; one without must be refused at start-up",
                              theorem="Ladim.C04.init_accepts_iff"), tags=dict(first="start-up"))
            continue
        bad = None
        if "error" in g:
            bad = dict(what="raised during the run", implementation=g["error"])
        pid = 0
        for s, (mstep, mrows) in zip(g.get("steps", []), w["released"]):
            if bad:
                break
            if len(s["new"]) != len(mrows):
                bad = dict(step=s["step"], what="number of particles released", implementation=len(s["new"]), model=len(mrows))
                break
            for p, m in zip(s["new"], mrows):
                if p["pid"] != pid:
                    bad = dict(step=s["step"], what="pid order", implementation=p["pid"], expected=pid); break
                pid += 1
                for col, mv in m["cols"].items():
                    if col == "release_time":
                        if p.get("release_time") != int(parse_rat(mv)):
                            bad = dict(step=s["step"], what="release_time", implementation=p.get("release_time"), model=int(parse_rat(mv)))
                    elif abs(p[col] - float(parse_rat(mv))) > 1e-9:
                        bad = dict(step=s["step"], what=col, implementation=p[col], model=float(parse_rat(mv)))
                if bad:
                    break
        if not bad and g.get("total") is not None and g["total"] != w["total"]:
            bad = dict(what="total_particle_count", implementation=g["total"], model=w["total"])
        if bad:
            ctx.violation("failing-input", "table", small, dict(bad, theorem="Ladim.C04.released_at_step / continuous_ticks"),
                          tags=dict(first=bad["what"], rev=c["rev"], continuous=c["continuous"]))
            continue
        # the statement itself, without the model (discrete mode): every row whose time lies in
        # [start, stop) yields `mult` particles at the step of its time
        if not c["continuous"] and "error" not in g:
            sg = -1 if c["rev"] else 1
            expect = {}
            for row in c["rows"]:
                off = sg * (row["release_time"] - c["start"])
                if 0 <= off < sg * (c["stop"] - c["start"]):
                    expect[off // DT] = expect.get(off // DT, 0) + row.get("mult", 1)
            have = {s_["step"]: len(s_["new"]) for s_ in g["steps"]}
            ctx.case("window-rows", [c["k"], c["nsteps"], c.get("tail", 0), sorted(expect.items())], nontrivial=bool(expect))
            ctx.count("window:" + ("whole steps" if not c.get("tail") else "with tail"))
            for k_, m_ in sorted(expect.items()):
                if have.get(k_, 0) != m_:
                    beyond = k_ >= c["nsteps"]
                    ctx.violation("failing-input", "window-rows", small,
                                  dict(what="a row inside [start, stop) did not yield mult particles at its step", step=k_,
                                       expected=m_, implementation=have.get(k_, 0), nsteps=c["nsteps"], tail_seconds=c.get("tail", 0),
                                       theorem="Ladim.Simulation.window_rows_released (needs dt | stop - start)"),
                                  tags=dict(first="row beyond the last step" if beyond else "row not released", tail=bool(c.get("tail")) and beyond))
                    break

    # ---- positions given by longitude/latitude on a loaded window whose offsets in x and y differ, through the real grid
    # (whole runs; the stub grid above has no window): every row enters at the position its longitude/latitude name
    from harness.props.c16 import polar_grid, run_e2e
    from ladim.sample import sample2D
    rr = np.random.RandomState(ctx.seed + 23)
    ljobs = []
    for k in range(9 if ctx.thorough else 3):
        dx = [4000.0, 800.0, 20000.0][k % 3]
        imax, jmax = 40, 30
        lon, lat = polar_grid(imax, jmax, dx, xp=float(rr.uniform(-100, 200)) * 4000 / dx, yp=float(rr.uniform(600, 1200)) * 4000 / dx, ylon=float(rr.uniform(0, 60)))
        sub = [[3, 35, 2, 27], [12, 38, 2, 20], [2, 30, 9, 28]][k % 3]
        tg = []
        for _ in range(5):
            x = float(rr.uniform(sub[0] + 1.0, sub[1] - 2.5)); y = float(rr.uniform(sub[2] + 1.0, sub[3] - 2.5))
            tg.append((float(sample2D(lon, np.array(x), np.array(y))), float(sample2D(lat, np.array(x), np.array(y))), x, y))
        ljobs.append(dict(lon=lon, lat=lat, dx=dx, subgrid=sub, layout="sparse", targets=[(t[0], t[1]) for t in tg], truth=[(t[2], t[3]) for t in tg], numrec=0))
    for job, g in zip(ljobs, pmap(run_e2e, ljobs)):
        case = dict(dx=job["dx"], subgrid=job["subgrid"], rows_lonlat=job["targets"])
        ctx.case("lonlat-release-on-window", [job["dx"], str(job["subgrid"])], sample=dict(case, result={k_: v for k_, v in g.items() if k_ != "first"}), nontrivial=True)
        if g.get("status") != "ok":
            ctx.violation("failing-input", "lonlat-release-on-window", case, dict(status=g.get("status")), tags=dict(first="status")); continue
        cell_tol = 3.2e-4 * 111000.0 / job["dx"] * 1.5
        bad = [f"row {n}: released at ({px}, {py}), its longitude/latitude are those of ({tx}, {ty})"
               for n, ((px, py), (tx, ty)) in enumerate(zip(g["first"], job["truth"])) if abs(px - tx) > cell_tol or abs(py - ty) > cell_tol]
        if len(g["first"]) != len(job["truth"]):
            bad.append(f"{len(g['first'])} particles in the first record, {len(job['truth'])} rows at the start time")
        if bad:
            ctx.violation("failing-input", "lonlat-release-on-window", case, dict(broken=bad[:4], theorem="Ladim.C04.released_at_step (row position = Grid.ll2xy of its lon/lat, C16)"),
                          tags=dict(first="position"))
