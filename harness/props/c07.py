"""C07 — every scheduled output time is written, for any duration, period and file split.
End-to-end runs of ladim.main.main, exhaustive over (Nsteps, period, numrec) up to a bound,
both layouts and directions, with/without particle variables; compared with Ladim.Model.Output."""
from __future__ import annotations

import glob
import os
from pathlib import Path

from harness import lab
from harness.common import Ctx, driver, pmap, parse_rat, use_repo

DT = 600
EPOCH_OFF = 946684793      # seconds from 1970-01-01T00:00:07 to the time origin of the scenarios
_worker = {}
_OWNER = os.getpid()       # fixed at import in the checking process; forked workers inherit it


def _forcing_dir():
    """One zero-velocity forcing file per worker process, reused by all its cases."""
    pid = os.getpid()
    if _worker.get("pid") != pid:
        import tempfile, atexit, shutil
        # pool workers end without running atexit handlers: the directory carries the id of the process that runs the check,
        # which removes its workers' directories after the map (see `run`)
        d = tempfile.mkdtemp(prefix=f"ladimverif_c07_{_OWNER}_")
        atexit.register(shutil.rmtree, d, ignore_errors=True)
        lab.make_grid_forcing(os.path.join(d, "forcing.nc"), [-2000000, 0, 2000000])
        _worker.update(pid=pid, dir=d)
    return _worker["dir"]


def first_release_step(c):
    """some runs release nothing at the start: their first records are empty, and are records all the same"""
    return 1 if (c.get("late") and c["nsteps"] > 2) else 0


def second_release_step(nsteps):
    return 2 if nsteps > 2 else None


def spelled(seconds, how):
    """the same period written as a number of seconds, as [value, unit] or as an ISO 8601 duration"""
    if how == 1:
        return [seconds // 3600, "h"] if seconds % 3600 == 0 else ([seconds // 60, "m"] if seconds % 60 == 0 else [seconds, "s"])
    if how == 2:
        h, m, sec = seconds // 3600, (seconds // 60) % 60, seconds % 60
        return "PT" + (f"{h}H" if h else "") + (f"{m}M" if m else "") + (f"{sec}S" if sec or not (h or m) else "")
    return seconds


def run_case(c):
    use_repo()
    fd = _forcing_dir()
    DT = c["dt"]
    sg = -1 if c["rev"] else 1
    start = 0
    stop = sg * (c["nsteps"] * DT + c["resid"])
    with lab.scratch() as d:
        r1 = first_release_step(c)
        rows = [dict(release_time=sg * r1 * DT, X=3.0, Y=4.0, Z=5.0, mult=2)]
        r2 = second_release_step(c["nsteps"])
        if r2 is not None:
            rows.append(dict(release_time=sg * r2 * DT, X=6.5, Y=5.25, Z=1.0, mult=1))
        lab.write_release(d / "release.rls", rows)
        conf = lab.base_conf(d, start, stop, spelled(DT, c["spell"]), spelled(c["period"] * DT, c["spell"]), os.path.join(fd, "forcing.nc"),
                             reference=lab.tstr(-EPOCH_OFF) if c.get("epoch") else None,
                             reversed_=c["rev"], numrec=c["numrec"], layout=c["layout"],
                             pvars=dict(release_time="time") if c["pvars"] else None,
                             out_pvars=("release_time",) if c["pvars"] else (),
                             out_name=c["outname"])
        status = lab.run(conf, d)
        files = []
        import re
        def numkey(f):
            m = re.search(r"_(\d+)\.nc$", f)
            return (int(m.group(1)) if m else -1, f)
        for f in sorted(glob.glob(str(d / "*.nc")), key=numkey):
            try:
                o = lab.read_out(f)
            except Exception as e:  # noqa: BLE001
                files.append(dict(name=Path(f).name, unreadable=type(e).__name__))
                continue
            fr = dict(name=Path(f).name, time=[float(t) for t in o["time"]])
            if c["layout"] == "sparse":
                fr["count"] = [int(x) for x in o["particle_count"]]
                fr["pid"] = [int(x) for x in o["pid"]]
                fr["X"] = [float(x) for x in o["X"]]
            else:
                fr["X"] = [[None if (x != x or abs(x) > 1e30) else float(x) for x in row] for row in o["X"]]
            fr["particle_dim"] = int(o["_dims"]["particle"])
            if c["pvars"]:
                fr["release_time"] = [float(x) for x in o["release_time"]]
            files.append(fr)
        return dict(status=status, files=files)


def model_request(c):
    DT = c["dt"]
    sg = -1 if c["rev"] else 1
    ref_off = (c["nsteps"] * DT + c["resid"]) if c["rev"] else 0   # reference = min(start, stop)
    if c.get("epoch"):
        ref_off = EPOCH_OFF                                          # an explicit reference time decades before the run
    snaps = []
    r2 = second_release_step(c["nsteps"])
    r1 = first_release_step(c)
    for step in range(0, c["nsteps"]):
        if step % c["period"] != 0:
            continue
        n = (2 if step >= r1 else 0) + (1 if r2 is not None and step >= r2 else 0)
        X = ["3", "3", "13/2"][:n]
        t1 = sg * r1 * DT + ref_off
        snaps.append(dict(time=sg * step * DT + ref_off, pid=list(range(n)), alive=[True] * n,
                          cols=dict(X=X), npid=n,
                          pvars=dict(release_time=[t1, t1, sg * (r2 or 0) * DT + ref_off][:n]) if c["pvars"] else {}))
    stem = Path(c["outname"]).stem
    return dict(op="outrun", layout=c["layout"], nsteps=c["nsteps"], period=c["period"], numrec=c["numrec"],
                stem=stem, suffix=".nc", skip_initial=False, first_step=0, last_step=c["nsteps"] - 1, snapshots=snaps)


def compare(c, got, want):
    """Differences between the implementation's files and the model's virtual files."""
    diffs = []
    if "error" in want:
        return [("model-error", want["error"], got["status"])]
    if got["status"] != "ok":
        diffs.append(("status", got["status"], "ok"))
    gf, wf = got["files"], want["files"]
    if [f["name"] for f in gf] != [f["name"] for f in wf]:
        diffs.append(("file names", [f["name"] for f in gf], [f["name"] for f in wf]))
        return diffs
    for g, w in zip(gf, wf):
        if "unreadable" in g:
            diffs.append((f"{g['name']} unreadable", g["unreadable"], "readable"))
            continue
        wt = [float(parse_rat(t)) for t in w["time"]]
        if g["time"] != wt:
            diffs.append((f"{g['name']} time", g["time"], wt))
        if c["layout"] == "sparse":
            if g["count"] != w["count"]:
                diffs.append((f"{g['name']} particle_count", g["count"], w["count"]))
            if g["pid"] != w["pid"]:
                diffs.append((f"{g['name']} pid", g["pid"], w["pid"]))
            wx = [float(parse_rat(x)) for x in w["inst"].get("X", [])]
            if g["X"] != wx:
                diffs.append((f"{g['name']} X", g["X"], wx))
        else:
            npart = max([len(r) for r in g["X"]] + [0])
            wrows = []
            for rec in w["dense"]:
                row = [None if x is None else float(parse_rat(x)) for x in rec["X"]]
                wrows.append(row + [None] * (npart - len(row)))
            if g["X"] != wrows:
                diffs.append((f"{g['name']} X[time,pid]", g["X"], wrows))
        if c["pvars"]:
            wn = w["pvarN"]
            wp = [float(parse_rat(x)) for x in w["pvars"].get("release_time", [])] if wn is not None else []
            if g["release_time"] != wp:
                diffs.append((f"{g['name']} release_time", g["release_time"], wp))
    return diffs


def cases(ctx: Ctx):
    out = []
    NS, P, NR = (14, 5, 5) if ctx.thorough else (9, 4, 4)
    names = ["out.nc", "res_07.nc", "a_b_998.nc"]
    k = 0
    for ns in range(1, NS + 1):
        for p in range(1, P + 1):
            for nr in range(0, NR + 1):
                for layout in ("sparse", "dense"):
                    for rev in (False, True):
                        for pv in (False, True):
                            # thin the product: every (ns, p, nr) with at least the sparse/forward variants,
                            # the other variants on a rotating schedule
                            k += 1
                            if not ctx.thorough and (layout, rev, pv) != ("sparse", False, True) and k % 3:
                                continue
                            # every sixth case: a time step of half a day (periods of a day and more), periods spelled
                            # as [value, unit] or as an ISO duration
                            halfday = k % 6 == 2 or k % 9 == 0
                            dt = DT * 72 if halfday else DT
                            resid = 0 if k % 4 else dt // 2
                            out.append(dict(nsteps=ns, period=p, numrec=nr, layout=layout, rev=rev, pvars=pv, dt=dt, spell=2 if (k % 8 == 2 or k % 18 == 0) else (1 if k % 5 == 0 else 0),
                                            resid=resid, outname=names[k % 3] if nr else "out.nc", late=bool(k % 5 == 3), epoch=bool(k % 7 == 2)))
    return out


def run(ctx: Ctx):
    use_repo()
    cs = cases(ctx)
    got = pmap(run_case, cs)
    import glob, shutil, tempfile
    for d in glob.glob(os.path.join(tempfile.gettempdir(), f"ladimverif_c07_{_OWNER}_*")):
        if d != _worker.get("dir"):
            shutil.rmtree(d, ignore_errors=True)
    want = driver([model_request(c) for c in cs])
    for c, g, w in zip(cs, got, want):
        nrec = -(-c["nsteps"] // c["period"])
        ctx.case("schedule", [c[k] for k in ("nsteps", "period", "numrec", "layout", "rev", "pvars", "resid", "outname", "dt", "spell")],
                 sample=dict(case=c, model_files=[dict(name=f["name"], records=len(f["time"])) for f in w.get("files", [])]),
                 nontrivial=nrec >= 1)
        ctx.count("residue:" + ("multiple" if c["nsteps"] % c["period"] == 0 else "non-multiple"))
        ctx.count("files:" + str(len(w.get("files", []))))
        diffs = compare(c, g, w)
        if diffs:
            ctx.violation("failing-input", "schedule", c,
                          dict(differences=[dict(what=a, implementation=str(b)[:300], model=str(m)[:300]) for a, b, m in diffs[:6]],
                               theorem="Ladim.C07.schedule_complete / file_chunks / all_closed / names"),
                          tags=dict(first=diffs[0][0].split(" ")[-1], mult=c["nsteps"] % c["period"] == 0))
        elif g["status"] == "ok":
            # the statement itself, without the model: one record for each output time
            # start + k*period in [start, stop)
            sg = -1 if c["rev"] else 1
            DT = c["dt"]
            ref_off = EPOCH_OFF if c.get("epoch") else ((c["nsteps"] * DT + c["resid"]) if c["rev"] else 0)
            expect = [float(sg * k_ * c["period"] * DT + ref_off) for k_ in range(0, c["nsteps"] + 2)
                      if k_ * c["period"] * DT < c["nsteps"] * DT + c["resid"]]
            have = [t for f in g["files"] for t in f.get("time", [])]
            ctx.case("window-times", [c["nsteps"], c["period"], c["resid"], c["rev"]], nontrivial=True)
            if have != expect:
                beyond = have == expect[:-1] and c["resid"] > 0
                ctx.violation("failing-input", "window-times", c,
                              dict(what="output times start + k*period in [start, stop) vs. the records written", expected=expect, implementation=have,
                                   theorem="Ladim.C07.schedule_complete (steps 0, p, 2p, ... < Nsteps)"),
                              tags=dict(first="output time beyond the last step" if beyond else "schedule", tail=beyond))
    # filename generator on its own
    stems = ["out", "cake_04", "cake_0099", "a_1_2", "x12", "y_", "z__7", "w_9", "run_999", "q_0x12", "_5", "5", "p_00"]
    want = driver([dict(op="genname", stem=s, suffix=".nc", n=12) for s in stems])
    from ladim.out_netcdf import filename_generator
    for s, w in zip(stems, want):
        g = filename_generator(Path("dir") / (s + ".nc"))
        got_names = [next(g).name for _ in range(12)]
        ctx.case("filenames", s, sample=dict(stem=s, names=got_names[:3]))
        if got_names != w:
            ctx.violation("failing-input", "filenames", dict(stem=s), dict(implementation=got_names, model=w, theorem="Ladim.C07.names"))
