"""C12 — vertical grid.  s_stretch / sdepth / z2s of ladim.ROMS against Ladim.Model.Vertical
(Float instance of the generic formulas, exact-rational sdepth) and Ladim.Model.Sample.z2sCol,
with the property's own statements evaluated on the implementation's output as monitors."""
from __future__ import annotations

from fractions import Fraction

import numpy as np

from harness.common import Ctx, driver, parse_rat, rat_s, use_repo


def param_sets(ctx: Ctx):
    r = ctx.rng
    out = []
    Ns = [1, 2, 3, 5, 10, 20, 35, 60]
    for vs in (1, 2, 4):
        for N in Ns:
            for ts in (0.0001, 0.5, 3.0, 7.0, 10.0):
                tbs = (0.0, 0.3, 1.0) if vs == 1 else (0.0001, 0.4, 2.0, 4.0)
                for tb in tbs:
                    out.append(dict(N=N, theta_s=ts, theta_b=tb, vs=vs))
    for _ in range(3000 if ctx.thorough else 300):
        vs = r.choice([1, 2, 4])
        out.append(dict(N=r.randrange(1, 61), theta_s=r.choice([r.uniform(1e-3, 10), r.uniform(0.01, 1), 10.0]),
                        theta_b=(r.uniform(0, 1) if vs == 1 else r.uniform(1e-3, 4)), vs=vs))
    return out


def bits2float(s):
    import struct
    return struct.unpack('<d', struct.pack('<Q', int(s)))[0]


def mono(a):
    return all(x < y for x, y in zip(a, a[1:]))


def check_stretch_monitor(p, cr, cw):
    """The property's statements about the stretching curves, on the implementation's output."""
    bad = []
    if not (mono(cr) and mono(cw)):
        bad.append("stretching curve not strictly increasing")
    if not (abs(cw[0] + 1) < 1e-12 and abs(cw[-1]) < 1e-12):
        bad.append(f"w-curve does not run from -1 to 0: {cw[0]}, {cw[-1]}")
    if any(c < -1 - 1e-12 or c > 1e-12 for c in list(cr) + list(cw)):
        bad.append("stretching value outside [-1, 0]")
    if not all(cw[k] < cr[k] < cw[k + 1] for k in range(len(cr))):
        bad.append("rho- and w-curves do not interleave")
    return bad


def run(ctx: Ctx):
    use_repo()
    from ladim.ROMS import s_stretch, sdepth, z2s
    r = ctx.rng
    ps = param_sets(ctx)
    # ---------------- the Grid object's own level arrays (from the file, from Vinfo, on subgrids)
    from harness.common import pmap
    jobs = []
    for k in range(240 if ctx.thorough else 48):
        vs = [1, 2, 4][k % 3]
        jobs.append(dict(seed=ctx.seed * 1000 + k, N=[2, 3, 8, 20, 35][k % 5], theta_s=[0.5, 3.0, 7.0, 10.0][k % 4],
                         theta_b=([0.0, 0.4, 1.0] if vs == 1 else [0.1, 0.9, 3.0])[k % 3], vs=vs, vt=[1, 2][(k // 3) % 2],
                         hc=[0.0, 5.0, 20.0][(k // 2) % 3] if (k // 3) % 2 else [0.0, 2.0][(k // 2) % 2], hmin=[25.0, 200.0][k % 2],
                         vinfo=bool((k // 6) % 2), sub=bool((k // 12) % 2)))
    for job, g in zip(jobs, pmap(grid_levels, jobs, warm=False)):
        ctx.case("grid-levels", [job[k_] for k_ in sorted(job)], sample=dict(job=job), nontrivial=True)
        ctx.count("grid:" + ("Vinfo" if job["vinfo"] else "file") + (":subgrid" if job["sub"] else ""))
        check_grid_levels(ctx, job, g)
    # ---------------- s_stretch vs the Float instance of the generic formulas
    reqs = []
    for p in ps:
        for w in (False, True):
            reqs.append(dict(op="sstretch", N=p["N"], theta_s=rat_s(p["theta_s"]), theta_b=rat_s(p["theta_b"]), w=w, vstretching=p["vs"]))
    want = driver(reqs)
    curves = []
    for k, p in enumerate(ps):
        try:
            cr = s_stretch(p["N"], p["theta_s"], p["theta_b"], stagger="rho", Vstretching=p["vs"])
            cw = s_stretch(p["N"], p["theta_s"], p["theta_b"], stagger="w", Vstretching=p["vs"])
        except Exception as e:  # noqa: BLE001
            ctx.case("s_stretch", [p["N"], p["theta_s"], p["theta_b"], p["vs"]], sample=dict(params=p), nontrivial=True)
            ctx.violation("failing-input", "s_stretch", p, dict(implementation=type(e).__name__ + ": " + str(e)[:80],
                          note="a valid vertical set-up is refused", theorem="Ladim.C12.stretch*_mono / stretch*_ends"), tags=dict(N=p["N"], vs=p["vs"], first="raised"))
            curves.append(None)
            continue
        curves.append((cr, cw))
        ctx.case("s_stretch", [p["N"], p["theta_s"], p["theta_b"], p["vs"]], sample=dict(params=p, Cs_r=[float(x) for x in cr[:4]]), nontrivial=p["N"] >= 2)
        ctx.count(f"vstretching:{p['vs']}")
        bad = check_stretch_monitor(p, list(map(float, cr)), list(map(float, cw)))
        if bad:
            ctx.violation("failing-input", "s_stretch", p, dict(broken=bad, theorem="Ladim.C12.stretch*_mono / stretch*_ends"), tags=dict(N=p["N"], vs=p["vs"]))
            continue
        for got, w in ((cr, want[2 * k]), (cw, want[2 * k + 1])):
            m = [bits2float(x) for x in w]
            # (cosh t - 1) and 1 - exp(-t) lose digits for tiny t: the two libms may differ there
            tmin = min(t for t in (p["theta_s"], p["theta_b"]) if t > 0)
            tol = 1e-10 + 1e-14 / tmin ** 2
            if len(m) != len(got) or any(abs(a - b) > tol for a, b in zip(got, m)):
                ctx.violation("tie-broken", "s_stretch", p, dict(implementation=[float(x) for x in got][:6], model=m[:6],
                              correspondence="s_stretch vs Ladim.sStretch at Float"))
                break
    # ---------------- sdepth vs the exact model, and the level-ordering monitor
    reqs, meta = [], []
    for p, cv in zip(ps, curves):
        if cv is None:
            continue
        cr, cw = cv
        for vt in (1, 2):
            h = r.choice([1.0, 5.0, 37.5, 250.0, 1000.0, 5000.0, r.uniform(1, 5000)])
            hc = r.choice([0.0, 0.5, 1.0]) * h if vt == 1 else r.choice([0.0, 5.0, 20.0, 250.0, 2 * h])
            hc = float(hc)
            zr = sdepth(np.array([h]), hc, cr, stagger="rho", Vtransform=vt)[:, 0]
            zw = sdepth(np.array([h]), hc, cw, stagger="w", Vtransform=vt)[:, 0]
            meta.append((p, vt, h, hc, zr, zw))
            reqs.append(dict(op="sdepth", vtransform=vt, H=rat_s(h), Hc=rat_s(hc), C=[rat_s(c) for c in cr], w=False))
            reqs.append(dict(op="sdepth", vtransform=vt, H=rat_s(h), Hc=rat_s(hc), C=[rat_s(c) for c in cw], w=True))
    want = driver(reqs)
    for k, (p, vt, h, hc, zr, zw) in enumerate(meta):
        case = dict(p, vtransform=vt, h=h, hc=hc)
        ctx.case("sdepth", [p["N"], p["theta_s"], p["theta_b"], p["vs"], vt, h, hc], sample=dict(case=case, z_r=[float(x) for x in zr[:4]]), nontrivial=p["N"] >= 2)
        bad = []
        eps = 1e-9 * h
        if not (mono(list(zr)) and mono(list(zw))):
            bad.append("levels not strictly increasing bottom to surface")
        if zr[0] < -h - eps or zr[-1] > eps:
            bad.append("rho-level outside [-h, 0]")
        if abs(zw[0] + h) > eps or abs(zw[-1]) > eps:
            bad.append(f"w-levels do not run from -h to 0: {zw[0]}, {zw[-1]}")
        if not all(zw[i] < zr[i] < zw[i + 1] for i in range(len(zr))):
            bad.append("rho- and w-levels do not interleave")
        if bad:
            ctx.violation("failing-input", "sdepth", case, dict(broken=bad, z_r=[float(x) for x in zr], theorem="Ladim.C12.sdepth_mono"), tags=dict(N=p["N"], vt=vt))
            continue
        for got, w in ((zr, want[2 * k]), (zw, want[2 * k + 1])):
            m = [float(parse_rat(x)) for x in w]
            if len(m) != len(got) or any(abs(a - b) > 1e-9 * max(1.0, h) for a, b in zip(got, m)):
                ctx.violation("tie-broken", "sdepth", case, dict(implementation=[float(x) for x in got][:6], model=m[:6],
                              correspondence="sdepth vs Ladim.sdepthCol at Rat"))
                break
    # ---------------- z2s: exact comparison of K, tolerance on A, and the clamp identity as monitor
    cols = meta_sample(meta, ctx)
    reqs, meta = [], []
    for (p, vt, h, hc, zr, zw) in cols:
        N = len(zr)
        depths = set()
        for z in zr:
            depths |= {-float(z), float(np.nextafter(-z, 1e9)), float(np.nextafter(-z, -1e9))}
        depths |= {0.0, h, h * 1.5, -1.0, -0.0, h / 2, h / 3}
        depths |= {r.uniform(-0.1 * h, 1.2 * h) for _ in range(8)}
        depths = sorted(depths)
        # the particle's own cell is round(X), round(Y) (half to even); the neighbours hold other columns
        zrho = np.zeros((N, 3, 4)) + 12345.0
        for jj in range(3):
            for ii in range(4):
                zrho[:, jj, ii] = np.asarray(zr) * (1.0 + 0.125 * (jj * 4 + ii))
        zrho[:, 1, 2] = zr
        fx = np.array([2.0, 1.5 + 1e-9, 2.4375, 2.5, 1.75, 2.25])
        fy = np.array([1.0, 0.5 + 1e-9, 1.4375, 0.75, 1.5 - 1e-9, 1.25])
        X = fx[np.arange(len(depths)) % len(fx)]; Y = fy[np.arange(len(depths)) % len(fy)]
        try:
            K, A = z2s(zrho, X, Y, np.array(depths))
            got = list(zip([int(k) for k in K], [float(a) for a in A]))
        except Exception as e:  # noqa: BLE001
            got = type(e).__name__
        meta.append((p, vt, h, hc, zr, depths, got))
        reqs.append(dict(op="z2s", zr=[rat_s(z) for z in zr], Z=[rat_s(z) for z in depths]))
    want = driver(reqs)
    for (p, vt, h, hc, zr, depths, got), w in zip(meta, want):
        N = len(zr)
        case = dict(p, vtransform=vt, h=h, hc=hc)
        ctx.case("z2s", [N, p["theta_s"], p["theta_b"], p["vs"], vt, h, hc], sample=dict(case=case, depths=depths[:5], impl=got[:5] if isinstance(got, list) else got), nontrivial=N >= 2)
        ctx.count("z2s:N=1" if N == 1 else "z2s:N>=2")
        if not isinstance(got, list):
            ctx.violation("failing-input", "z2s", case, dict(implementation=got), tags=dict(N=N))
            continue
        for z, (K, A), m in zip(depths, got, w):
            bad = []
            if not (1 <= K <= N - 1):
                bad.append(f"K={K} is not in 1..N-1 (N={N}): no valid index pair")
            elif not (0.0 <= A <= 1.0):
                bad.append(f"A={A} outside [0,1]")
            else:
                wd = A * zr[K - 1] + (1 - A) * zr[K]
                cl = min(max(-z, zr[0]), zr[-1])
                if abs(wd - cl) > 1e-9 * max(1.0, h):
                    bad.append(f"weighted level depth {wd} != clamped depth {cl}")
            if bad:
                ctx.violation("failing-input", "z2s", dict(case, depth=z, z_r=[float(x) for x in zr]),
                              dict(broken=bad, implementation=[K, A], theorem="Ladim.C12.z2s_spec (requires 2 <= N)"),
                              tags=dict(N=N if N < 2 else ">=2"))
                break
            mk, ma = (m[0], float(parse_rat(m[1]))) if m is not None else (None, None)
            if mk != K or abs(ma - A) > 1e-9:
                ctx.violation("tie-broken", "z2s", dict(case, depth=z, z_r=[float(x) for x in zr]),
                              dict(implementation=[K, A], model=[mk, ma], correspondence="z2s_kernel vs Ladim.z2sCol"))
                break
    # ---- whole simulations over varying bathymetry without vertical motion: the level of a particle must follow the
    # column it is in (the sampled scalar is the value of its own cell at that level, the velocity is sheared in depth)
    from harness import scen
    ne = 30 if ctx.thorough else 8
    def window(seed, k):
        # every other case: a loaded window with different offsets in x and y (three columns, one row cut off)
        imax, jmax = [(12, 10), (9, 13), (11, 11), (10, 12)][seed % 4]
        return [3, imax - 1, 1, jmax - 2] if k % 2 else None
    ecases = [scen.gen(ctx.seed * 100000 + 12500 + k, vertadv=False, scalars=True, kills=False, land=False, speed=[1.0, 2.0][k % 2], continuous=False,
                       layout="sparse", rev=bool(k % 4 == 3), scheme=["EF", "RK2", "RK4"][k % 3], nsteps=8,
                       subgrid=window(ctx.seed * 100000 + 12500 + k, k)) for k in range(ne)]
    scen.e2e_stream(ctx, "whole-run-levels", ecases, "Ladim.C12.z2s_spec applied at every step (Ladim.RomsSetup.force / oracle use levelOf at the current position)")


def grid_levels(job):
    """Grid.z_r / z_w / Cs_r / Cs_w of a real Grid built from a file or from Vinfo (whole grid or subgrid)."""
    use_repo()
    from harness import lab
    from ladim.ROMS import Grid, s_stretch
    r = np.random.RandomState(job["seed"])
    N = job["N"]
    imax, jmax = 8, 7
    h = r.uniform(job["hmin"], job["hmin"] * 4, size=(jmax, imax))
    try:
        cr = s_stretch(N, job["theta_s"], job["theta_b"], stagger="rho", Vstretching=job["vs"])
        cw = s_stretch(N, job["theta_s"], job["theta_b"], stagger="w", Vstretching=job["vs"])
    except Exception as e:  # noqa: BLE001
        return dict(error=type(e).__name__ + ": " + str(e)[:80])
    with lab.scratch() as d:
        lab.make_grid_forcing(d / "g.nc", [0], imax=imax, jmax=jmax, N=N, h=h, hc=job["hc"], Cs_r=cr, Cs_w=cw, vtransform=job["vt"])
        kw = dict(filename=d / "g.nc")
        if job["sub"]:
            kw["subgrid"] = [2, 7, 1, 6]
        if job["vinfo"]:
            kw["Vinfo"] = dict(N=N, hc=job["hc"], theta_s=job["theta_s"], theta_b=job["theta_b"], Vstretching=job["vs"], Vtransform=job["vt"])
        try:
            if job["vinfo"] and job["seed"] % 2 == 0:
                # the same vertical description serves a second grid (whole domain first, then the window):
                # what it says must not depend on having been read before
                Grid(filename=d / "g.nc", Vinfo=kw["Vinfo"])
            g = Grid(**kw)
        except BaseException as e:  # noqa: BLE001
            return dict(error=type(e).__name__ + ": " + str(e)[:80])
        H = np.asarray(g.H)
        return dict(z_r=np.asarray(g.z_r).tolist(), z_w=np.asarray(g.z_w).tolist(), H=H.tolist(), Cs_r=[float(x) for x in g.Cs_r],
                    Cs_w=[float(x) for x in g.Cs_w], cr=[float(x) for x in cr], cw=[float(x) for x in cw])


def check_grid_levels(ctx, job, g):
    case = {k: v for k, v in job.items()}
    if "error" in g:
        ctx.violation("failing-input", "grid-levels", case, dict(implementation=g["error"]), tags=dict(first="raised"))
        return
    bad = []
    zr, zw, H = np.array(g["z_r"]), np.array(g["z_w"]), np.array(g["H"])
    eps = 1e-9 * H
    if len(g["Cs_r"]) != job["N"] or len(g["Cs_w"]) != job["N"] + 1:
        bad.append("wrong number of levels")
    else:
        if any(abs(a - b) > 1e-12 for a, b in zip(g["Cs_r"], g["cr"])) or any(abs(a - b) > 1e-12 for a, b in zip(g["Cs_w"], g["cw"])):
            bad.append("the grid's stretching arrays are not those of the configured Vstretching")
        if not all(g["Cs_w"][k] < g["Cs_r"][k] < g["Cs_w"][k + 1] for k in range(job["N"])):
            bad.append("rho- and w-stretching curves do not interleave")
        if (np.diff(zr, axis=0) <= 0).any() or (np.diff(zw, axis=0) <= 0).any():
            bad.append("levels not strictly increasing bottom to surface")
        if (zr[0] < -H - eps).any() or (zr[-1] > eps).any():
            bad.append("rho-level outside [-h, 0]")
        if (np.abs(zw[0] + H) > eps).any() or (np.abs(zw[-1]) > eps).any():
            bad.append("w-levels do not run from -h to 0")
        if not ((zw[:-1] < zr).all() and (zr < zw[1:]).all()):
            bad.append("rho- and w-levels do not interleave")
    if bad:
        ctx.violation("failing-input", "grid-levels", case, dict(broken=bad, theorem="Ladim.C12.curves_ordered / sdepth_mono / sdepth_range"),
                      tags=dict(first="grid-levels", vinfo=job["vinfo"], vs=job["vs"]))


def meta_sample(meta, ctx):
    """z2s is run on a subset of the sdepth columns (all in the thorough tier)."""
    if ctx.thorough:
        return meta
    return [m for i, m in enumerate(meta) if i % 3 == 0]
