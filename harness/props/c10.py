"""C10 — backward tracking = forward tracking in the time-mirrored, sign-flipped flow.
Pairs of end-to-end runs on the real code: a reversed run from S back to E, and the forward run
from S over the mirrored time axis (frame and release times t -> 2S - t, files re-ordered) in the
negated velocity field.  Records must agree one for one (same particles, same positions), the
reversed time coordinate must read S, S-dt, ... and every release must happen at its stated time.
The reversed run is also compared with Ladim.Model.Run."""
from __future__ import annotations

import copy
import re
from fractions import Fraction

import numpy as np

from harness import lab, scen
from harness.common import Ctx, driver, pmap, use_repo
from harness.props.c08 import abs_times


def run_one(sc):
    use_repo()
    with lab.scratch() as d:
        conf = scen.write(sc, d)
        status = lab.run(conf, d)
        return dict(status=status, files=scen.read_outputs(d, sc))


def mirror(sc):
    m = copy.deepcopy(sc)
    m["rev"] = False
    m["U"] = (-np.array(sc["U"])).tolist()
    m["V"] = (-np.array(sc["V"])).tolist()
    m["W"] = (-np.array(sc["W"])).tolist()
    return m


def recs(sc, real):
    out = []
    for f in real["files"]:
        if "unreadable" in f:
            continue
        at, ref = abs_times(f)
        pos = 0
        for n, c in enumerate(f["count"]):
            r = dict(abs_time=at[n], pid=f["pid"][pos:pos + c])
            for v in ("X", "Y", "Z", "age", "temp"):
                if v in f:
                    r[v] = f[v][pos:pos + c]
            if "release_time" in f:
                r["release_time"] = [None if x is None else x + ref for x in f["release_time"]]
            out.append(r)
            pos += c
    return out


def run(ctx: Ctx):
    use_repo()
    n = 200 if ctx.thorough else 18
    r = np.random.RandomState(ctx.seed + 77)
    cases = []
    for k in range(n):
        sc = scen.gen(ctx.seed * 100000 + 11000 + k, rev=True, layout="sparse", continuous=bool(k % 3 == 0), files=int(r.choice([1, 2, 3])),
                      vertadv=bool(k % 4 == 0))
        if not sc["continuous"] and k % 2 == 1:
            # release times between two model times (valid: a row is released at the step that holds its time)
            for i, row in enumerate(sc["rows"]):
                if i % 2 == 1 or len(sc["rows"]) == 1:
                    row["step"] = row["step"] + Fraction(1, 2)
        if k % 5 == 2:
            sc["period_extra"] = scen.DT // 2      # records every floor(period / dt) steps, in both directions
        cases.append(sc)
    jobs = []
    for sc in cases:
        jobs += [sc, mirror(sc)]
    res = pmap(run_one, jobs)
    want = driver([scen.request(sc) for sc in cases])
    for k, sc in enumerate(cases):
        gr, gf = res[2 * k], res[2 * k + 1]
        w = want[k]
        ctx.case("pair", [sc["seed"], sc["scheme"], sc["continuous"], len(sc["cuts"])], sample=scen.brief(sc))
        ctx.count("files:%d" % (len(sc["cuts"]) + 1)); ctx.count("release:" + ("continuous" if sc["continuous"] else "discrete")); ctx.count("vertadv:" + str(sc["vertadv"]))
        tags = dict(first="pair", vertadv=sc["vertadv"])
        if gr["status"] != "ok" or gf["status"] != "ok":
            ctx.violation("failing-input", "pair", scen.brief(sc), dict(reversed_status=gr["status"], mirrored_forward_status=gf["status"]), tags=tags)
            continue
        a, b = recs(sc, gr), recs(sc, gf)
        S = sc["start"]
        bad = None
        if len(a) != len(b):
            bad = dict(what="number of records", reversed=len(a), mirrored_forward=len(b))
        for i, (x, y) in enumerate(zip(a, b)):
            if bad:
                break
            expect_t = S - i * sc["period"] * scen.DT
            if x["abs_time"] != expect_t:
                bad = dict(what="reversed time coordinate", record=i, reversed=x["abs_time"], expected=expect_t); break
            if y["abs_time"] != 2 * S - x["abs_time"]:
                bad = dict(what="mirrored record time", record=i, reversed=x["abs_time"], mirrored_forward=y["abs_time"]); break
            if x["pid"] != y["pid"]:
                bad = dict(what="particle set", record=i, reversed=x["pid"], mirrored_forward=y["pid"]); break
            for v in ("X", "Y", "Z", "age", "temp"):
                if v in x and any(abs(p - q) > 1e-9 * max(1.0, abs(p)) for p, q in zip(x[v], y[v])):
                    bad = dict(what=v, record=i, reversed=x[v], mirrored_forward=y[v]); break
            if not bad and "release_time" in x:
                if [None if t is None else 2 * S - t for t in x["release_time"]] != y["release_time"]:
                    bad = dict(what="release times", record=i, reversed=x["release_time"], mirrored_forward=y["release_time"])
        if bad:
            ctx.violation("failing-input", "pair", scen.brief(sc), dict(bad, theorem="Ladim.C10.reverse_eq_mirror (time2step_mirror, fm_neg, sampleVel_neg, release_mirror)"),
                          tags=dict(tags, what=bad["what"].split(" ")[0]))
            continue
        if "error" in w:
            ctx.violation("tie-broken", "reversed-vs-model", scen.brief(sc), dict(model=w)); continue
        diffs = scen.compare_files(sc, gr["files"], w["files"])
        if diffs:
            ctx.violation("failing-input", "reversed-vs-model", scen.brief(sc),
                          dict(differences=[dict(what=p, implementation=str(x)[:300], model=str(y)[:300]) for p, x, y in diffs[:3]]), tags=tags)

    # ---- across a restart: a backward run continued from its own output (the files of a backward run hold descending times; the
    # restart continues from the last record of a file) equals the mirrored forward run continued from its output
    from harness.props import c08
    wcases = [scen.gen(ctx.seed * 100000 + 11800 + k, rev=True, layout="sparse", numrec=[2, 3][k % 2], period=1, nsteps=8, kills=bool(k % 2), speed=1.0,
                       continuous=bool(k % 3 == 2), scheme=["EF", "RK2", "RK4"][k % 3]) for k in range(12 if ctx.thorough else 4)]
    wjobs = []
    for sc in wcases:
        wjobs += [sc, mirror(sc)]
    wres = pmap(c08.run_base_and_restarts, wjobs)
    for k, sc in enumerate(wcases):
        gr, gf = wres[2 * k], wres[2 * k + 1]
        S = sc["start"]
        case = dict(scenario=scen.brief(sc))
        ctx.case("pair-across-a-restart", [sc["seed"], sc["scheme"], sc["numrec"]], sample=dict(case, restarts=len(gr.get("restarts", []))), nontrivial=True)
        if gr["status"] != "ok" or gf["status"] != "ok" or len(gr["restarts"]) != len(gf["restarts"]):
            ctx.violation("failing-input", "pair-across-a-restart", case, dict(reversed_status=gr["status"], mirrored_forward_status=gf["status"],
                          restarts=[len(gr.get("restarts", [])), len(gf.get("restarts", []))]), tags=dict(first="status"))
            continue
        for rr_, rf_ in zip(gr["restarts"], gf["restarts"]):
            bad = None
            if rr_["status"] != "ok" or rf_["status"] != "ok":
                bad = dict(what="status of the restarted runs", reversed=rr_["status"], mirrored_forward=rf_["status"])
            else:
                a, b = recs(sc, rr_), recs(sc, rf_)
                if len(a) != len(b):
                    bad = dict(what="number of records after the restart", reversed=[x["abs_time"] for x in a], mirrored_forward=[y["abs_time"] for y in b])
                for i, (x, y) in enumerate(zip(a, b)):
                    if bad:
                        break
                    if y["abs_time"] != 2 * S - x["abs_time"]:
                        bad = dict(what="mirrored record time", record=i, reversed=x["abs_time"], mirrored_forward=y["abs_time"]); break
                    if x["pid"] != y["pid"]:
                        bad = dict(what="particle set", record=i, reversed=x["pid"], mirrored_forward=y["pid"]); break
                    for v in ("X", "Y", "Z", "age", "temp"):
                        if v in x and any(abs(p_ - q_) > 1e-9 * max(1.0, abs(p_)) for p_, q_ in zip(x[v], y[v])):
                            bad = dict(what=v, record=i, reversed=x[v], mirrored_forward=y[v]); break
            if bad:
                ctx.violation("failing-input", "pair-across-a-restart", dict(case, restart_from_file=rr_["k"]),
                              dict(bad, theorem="Ladim.C10.reverse_eq_mirror / Ladim.C10.release_mirror (warm starts included)"), tags=dict(first="restart", what=bad["what"].split(" ")[0]))
                break
