"""C19 — the step protocol.  Whole runs in which *every* module that can be replaced (time, grid,
forcing, release, tracker, ibm, output) is a logging wrapper found through the loader — given by
absolute path, by a path relative to the working directory without extension, or by module name —
while same-named decoys sit on sys.path (a user file must win).  The call log (module, step), the
construction order and the close calls are compared with the log of Ladim.Model.Run, for cold and
warm starts, all (Nsteps, period) in a range."""
from __future__ import annotations

import copy
import json
import os
import sys
from pathlib import Path

import numpy as np

from harness import lab, scen
from harness.common import Ctx, driver, pmap, use_repo

WRAP = '''
_CALLS = @CALLS@      # this very file's log: a module object left over from another run would write elsewhere
def _log(msg):
    with open(_CALLS, "a") as f:
        f.write(msg + "\\n")
'''

MODS = {
    "time": ("from ladim.timekeeper import TimeKeeper as _B\nclass TimeKeeper(_B):\n"
             "    def __init__(self, *a, **k):\n        _log('init:time'); super().__init__(*a, **k)\n"
             "    def update(self):\n        super().update(); _log('time %d' % self.step)\n"),
    "grid": ("from ladim.ROMS import Grid as _B\nclass Grid(_B):\n"
             "    def __init__(self, *a, **k):\n        k.pop('modules', None); _log('init:grid'); super().__init__(*a, **k)\n"),
    "forcing": ("from ladim.ROMS import Forcing as _B\nclass Forcing(_B):\n"
                "    def __init__(self, *a, **k):\n        _log('init:forcing'); super().__init__(*a, **k)\n"
                "    def update(self):\n        _log('forcing %d' % self.modules['time'].step); super().update()\n"
                "    def close(self):\n        _log('close:forcing'); super().close()\n"),
    "release": ("from ladim.release import ParticleReleaser as _B\nclass ParticleReleaser(_B):\n"
                "    def __init__(self, *a, **k):\n        _log('init:release'); super().__init__(*a, **k)\n"
                "    def update(self):\n        _log('release %d' % self.modules['time'].step); super().update()\n"),
    "tracker": ("from ladim.tracker import Tracker as _B\nclass Tracker(_B):\n"
                "    def __init__(self, *a, **k):\n        _log('init:tracker'); super().__init__(*a, **k)\n"
                "    def update(self):\n        _log('tracker %d' % self.modules['time'].step); super().update()\n"),
    "ibm": ("from ladim.ibm import IBM as _B\nclass IBM(_B):\n"
            "    def __init__(self, *a, **k):\n        _log('init:ibm'); super().__init__(*a, **k)\n"
            "    def update(self):\n        st = self.modules['state']\n        _log('ibm %d %d' % (self.modules['time'].step, int(st.alive.sum())))\n"
            "    def close(self):\n        _log('close:ibm')\n"),
    "output": ("from ladim.out_netcdf import Output as _B\nclass Output(_B):\n"
               "    def __init__(self, *a, **k):\n        _log('init:output'); super().__init__(*a, **k)\n"
               "    def write(self, state):\n        _log('output %d' % self.modules['time'].step); super().write(state)\n"
               "    def close(self):\n        _log('close:output'); super().close()\n"),
}
DECOY = "import os\nclass {cls}:\n    def __init__(self, *a, **k):\n        open(os.environ['LADIM_VERIF_CALLS'], 'a').write('DECOY {name}\\n')\n        raise SystemExit(99)\n"
CLS = dict(time="TimeKeeper", grid="Grid", forcing="Forcing", release="ParticleReleaser", tracker="Tracker", ibm="IBM", output="Output")


def install(conf, d, style_seed):
    """write the wrappers, point the configuration at them in three spellings, put decoys on sys.path"""
    r = np.random.RandomState(style_seed)
    decoy = Path(d) / "decoys"
    decoy.mkdir()
    for name, body in MODS.items():
        fn = f"verifwrap_{name}"
        (Path(d) / f"{fn}.py").write_text(WRAP.replace("@CALLS@", repr(os.environ["LADIM_VERIF_CALLS"])) + body)
        (decoy / f"{fn}.py").write_text(DECOY.format(cls=CLS[name], name=name))
        style = int(r.randint(3))
        spelled = [str(Path(d) / f"{fn}.py"), fn, str(Path(d) / fn)][style]   # abs path with .py / cwd-relative name / abs path without .py
        conf.setdefault(name, {})
        conf[name]["module"] = spelled
    # the recording IBM of the scenario is replaced: no kills, no ageing
    conf["ibm"] = dict(module=conf["ibm"]["module"])
    return str(decoy)


def run_case(job):
    use_repo()
    sc = job["sc"]
    out = {}
    with lab.scratch() as d:
        calls = d / "calls.log"
        os.environ["LADIM_VERIF_CALLS"] = str(calls)
        conf = scen.write(sc, d)
        decoy = install(conf, d, sc["seed"])
        sys.path.insert(0, decoy)
        try:
            out["status"] = lab.run(conf, d)
        finally:
            sys.path.remove(decoy)
        out["log"] = calls.read_text().split("\n") if calls.exists() else []
        out["files"] = [f["name"] for f in scen.read_outputs(d, sc)]
        if job.get("warm") and out["status"] == "ok" and len(out["files"]) >= 2:
            wd = d / "warm"; wd.mkdir()
            calls2 = wd / "calls.log"
            os.environ["LADIM_VERIF_CALLS"] = str(calls2)
            conf2 = scen.write(sc, wd, out_name=out["files"][1], warm=dict(filename=str(d / out["files"][0]), variables=["release_time"] if sc["pvars"] else []))
            decoy2 = install(conf2, wd, sc["seed"] + 1)
            sys.path.insert(0, decoy2)
            try:
                out["warm_status"] = lab.run(conf2, wd)
            finally:
                sys.path.remove(decoy2)
            out["warm_log"] = calls2.read_text().split("\n") if calls2.exists() else []
            out["warm_files"] = scen.read_outputs(wd, sc, pattern="out*.nc")
            o = lab.read_out(d / out["files"][0])
            out["restart_step"] = int(round((float(o["time"][-1])) / scen.DT)) if not sc["rev"] else None
    return out


def parse(log):
    inits = [l.split(":")[1] for l in log if l.startswith("init:")]
    closes = [l.split(":")[1] for l in log if l.startswith("close:")]
    calls = [[int(l.split()[1]), l.split()[0]] for l in log if l and l.split()[0] in ("time", "release", "forcing", "output", "tracker", "ibm")]
    decoys = [l for l in log if l.startswith("DECOY")]
    return inits, closes, calls, decoys


def run(ctx: Ctx):
    use_repo()
    jobs = []
    k = 0
    maxn = 9 if ctx.thorough else 6
    for ns in range(1, maxn + 1):
        for period in range(1, 5 if ctx.thorough else 4):
            k += 1
            sc = scen.gen(ctx.seed * 100000 + 19000 + k, nsteps=ns, period=period, rev=False, kills=False, age=False,
                          numrec=[0, 2, 1][k % 3], layout=["sparse", "dense"][k % 2] if k % 3 == 0 else "sparse", speed=0.25,
                          first_release=(2 if (k % 4 == 1 and ns > 3) else 0))   # some runs start with an empty state
            jobs.append(dict(sc=sc, warm=(sc["numrec"] > 0 and sc["layout"] == "sparse")))
    res = pmap(run_case, jobs, chunksize=1)
    want = driver([scen.request(dict(j["sc"], kill={}, age=False)) for j in jobs])
    for job, g, w in zip(jobs, res, want):
        sc = job["sc"]
        case = dict(scenario=scen.brief(sc))
        ctx.case("cold", [sc["seed"], sc["nsteps"], sc["period"], sc["numrec"], sc["layout"]], sample=dict(case, log_head=g["log"][:12]))
        inits, closes, calls, decoys = parse(g["log"])
        bad = []
        if "error" in w:
            # the model refuses the set-up: the program must refuse it too, and nothing else is compared
            if g["status"] == "ok":
                ctx.violation("tie-broken", "cold", case, dict(model=w, implementation="ok"))
            continue
        if g["status"] != "ok":
            bad.append(f"run ended with {g['status']}")
        if decoys:
            bad.append(f"a same-named module from sys.path was loaded instead of the user's file: {decoys}")
        if inits != ["time", "grid", "forcing", "release", "tracker", "ibm", "output"]:
            bad.append(f"construction order {inits}")
        if sorted(closes) != ["forcing", "ibm", "output"]:
            bad.append(f"close calls {closes} (each closable module exactly once)")
        if "error" not in w and calls != w["log"]:
            i = next((i for i in range(max(len(calls), len(w["log"]))) if i >= len(calls) or i >= len(w["log"]) or calls[i] != w["log"][i]), None)
            bad.append(f"call log differs at entry {i}: implementation {calls[i:i + 4] if i is not None else None}, model {w['log'][i:i + 4] if i is not None else None}")
        if bad:
            ctx.violation("failing-input", "cold", case, dict(broken=bad[:4], theorem="Ladim.C19.call_log / record_steps"), tags=dict(first=bad[0][:24]))
        if "warm_log" in g:
            ctx.case("warm", [sc["seed"], sc["nsteps"], sc["period"], sc["numrec"]], sample=dict(case, warm_log_head=g["warm_log"][:10]))
            inits, closes, calls, decoys = parse(g["warm_log"])
            r = g["restart_step"]
            nleft = sc["nsteps"] - r
            expect = [[0, "release"], [0, "forcing"], [0, "tracker"], [0, "ibm"]]
            for n in range(1, nleft):
                expect += [[n, "time"], [n, "release"], [n, "forcing"]] + ([[n, "output"]] if n % sc["period"] == 0 else []) + [[n, "tracker"], [n, "ibm"]]
            bad = []
            if g["warm_status"] != "ok":
                bad.append(f"warm run ended with {g['warm_status']}")
            if decoys:
                bad.append(f"decoy loaded: {decoys}")
            if calls != expect:
                i = next((i for i in range(max(len(calls), len(expect))) if i >= len(calls) or i >= len(expect) or calls[i] != expect[i]), None)
                bad.append(f"warm call log differs at entry {i}: implementation {calls[i:i + 4] if i is not None else None}, model {expect[i:i + 4] if i is not None else None}")
            if sorted(closes) != ["forcing", "ibm", "output"]:
                bad.append(f"close calls {closes}")
            # a record stamped t shows the state valid at t: the records of the restarted run carry the times of their steps
            from harness.props.c08 import abs_times
            have = [t for f in g.get("warm_files", []) if "unreadable" not in f for t in abs_times(f)[0]]
            expect_t = [float(sc["start"] + (r + n) * scen.DT) for n in range(1, nleft) if n % sc["period"] == 0]
            if g["warm_status"] == "ok" and have != expect_t:
                bad.append(f"record times of the restarted run {have}, the steps written are at {expect_t}")
            if bad:
                ctx.violation("failing-input", "warm", dict(case, restart_step=r), dict(broken=bad[:4], theorem="Ladim.C19.call_log_warm"), tags=dict(first=bad[0][:24]))

    # ---- the IBM's kills: effective from the next record on, in both layouts; the IBM is called once per step
    nk = 40 if ctx.thorough else 10
    kcases = []
    for k in range(nk):
        sc = scen.gen(ctx.seed * 100000 + 19500 + k, rev=False, kills=True, layout=["dense", "sparse"][k % 2], period=[1, 2, 1, 3][k % 4],
                      numrec=0, continuous=False, speed=0.25, land=False)
        # one-off kills of particles that certainly exist: the first particles, at early steps
        total0 = sum(x["mult"] for x in sc["rows"] if x["step"] == 0)
        sc["kill"] = {"1": [0], "2": [max(0, total0 - 1)]} if sc["nsteps"] > 3 else {"0": [0]}
        kcases.append(sc)
    kres = pmap(scen.run_real, kcases)
    kwant = driver([scen.request(sc) for sc in kcases])
    for sc, g, w in zip(kcases, kres, kwant):
        case = dict(scenario=scen.brief(sc), kill=sc["kill"])
        ctx.case("ibm-kills", [sc["seed"], sc["layout"], sc["period"], str(sc["kill"])], sample=case)
        ctx.count("kills-layout:" + sc["layout"])
        bad = []
        if g["status"] != "ok" or not g.get("ibm"):
            ctx.violation("failing-input", "ibm-kills", case, dict(status=g["status"]), tags=dict(first="status")); continue
        log = g["ibm"]["log"]
        if [e["step"] for e in log] != list(range(sc["nsteps"])):
            bad.append(f"IBM.update was called at steps {[e['step'] for e in log]}, expected once per step 0..{sc['nsteps'] - 1}")
        if g["ibm"].get("closed") != 1:
            bad.append(f"IBM.close was called {g['ibm'].get('closed')} times")
        for st_, pids in sc["kill"].items():
            for e in log:
                if e["step"] > int(st_):
                    seen = {p: a for p, a in zip(e["pid"], e["alive"])}
                    for p_ in pids:
                        if seen.get(p_, 0):
                            bad.append(f"pid {p_} killed by the IBM at step {st_} is shown to the IBM as living at step {e['step']}")
        if bad:
            ctx.violation("failing-input", "ibm-kills", case, dict(broken=bad[:4], theorem="Ladim.C19.ibm_kill_from_next_record / ibm_sees_moved_particles_once"),
                          tags=dict(first=bad[0][:16]))
            continue
        if "error" in w:
            ctx.violation("tie-broken", "ibm-kills", case, dict(model=w)); continue
        diffs = scen.compare_files(sc, g["files"], w["files"])
        if diffs:
            ctx.violation("failing-input", "ibm-kills", case,
                          dict(differences=[dict(what=a, implementation=str(x)[:300], model=str(y)[:300]) for a, x, y in diffs[:3]],
                               theorem="Ladim.C19.ibm_kill_from_next_record (records = the model's records)"), tags=dict(first="records"))
