"""C20 — impossible set-ups are refused before the simulation starts.
Every single fault of the listed kinds is injected into every valid base scenario (forward and
reversed, single- and multi-file forcing, discrete and continuous release); the real code must
stop with an error during start-up and leave no output record; the kind of stop is compared with
Ladim.Model.Validate (`validate`)."""
from __future__ import annotations

import copy
from fractions import Fraction
import glob
import os
from pathlib import Path

import numpy as np
import yaml

from harness import lab, scen
from harness.common import Ctx, driver, pmap, use_repo

FAULTS = [
    "none", "forcing_starts_late", "forcing_ends_early", "forcing_starts_fraction_late", "forcing_ends_fraction_early", "frames_out_of_order", "frame_duplicated_across_files",
    "forcing_ends_at_last_whole_step_partial_window", "forcing_starts_fraction_late_partial_window",
    "missing_start", "missing_stop", "missing_dt", "stop_wrong_side", "release_before_start", "release_after_stop",
    "release_at_stop_only", "release_one_step_before_start", "release_half_step_before_start", "release_without_position", "release_with_x_only", "release_with_y_only", "release_with_lon_only", "no_grid_file", "no_forcing_file", "no_release_file",
    "empty_release_file_name", "no_config_file", "no_time_section", "no_tracker_section", "no_release_section",
    "no_output_section", "no_forcing_section", "no_forcing_section_explicit_grid", "illegal_subgrid_order",
    "illegal_subgrid_edge", "bad_version",
]


def bases(seed):
    out = []
    k = 0
    for rev in (False, True):
        for files in (1, 3):
            for cont in (False, True):
                k += 1
                sc = scen.gen(seed * 1000 + k, rev=rev, files=files, continuous=cont, nsteps=6, kills=False, layout="sparse", land=False,
                              speed=0.25, subgrid="none", numrec=0, period=2, late_release=True)
                # at least three frames so that they can be split / swapped
                while len(sc["fsteps"]) < 4:
                    k += 100
                    sc = scen.gen(seed * 1000 + k, rev=rev, files=files, continuous=cont, nsteps=6, kills=False, layout="sparse", land=False,
                                  speed=0.25, subgrid="none", numrec=0, period=2, late_release=True)
                if files == 3 and cont:
                    # every forcing file counts its time from its own reference: the frames are when they are, however they are counted
                    sc["own_time_reference"] = True
                out.append(sc)
    return out


def apply_fault(sc, fault, d):
    """Write the (faulty) set-up; returns (config path, model request)."""
    sc = copy.deepcopy(sc)
    d = Path(d)
    sg = -1 if sc["rev"] else 1
    if fault.startswith("release_with_"):
        # nothing is sampled from the forcing before the first record, so nothing else stops a particle with half a position
        sc["scalars"] = False
    setup = dict(config_exists=True, version_ok=True, has_time=True, has_tracker=True, has_release=True, has_output=True,
                 has_forcing=True, grid_has_module_and_file=False, dt=scen.DT, rev=sc["rev"], grid_file_exists=True,
                 imax0=sc["imax"], jmax0=sc["jmax"], continuous=sc["continuous"], freq=sc["freq"] * scen.DT)
    # "…_partial_window": the same with a window that is half a time step longer than a whole number of steps (the run has the
    # same steps; what the forcing has to cover is the window [start, stop], not the steps)
    partial = fault.endswith("_partial_window")
    if partial:
        fault = fault[: -len("_partial_window")]
        sc["stop_extra"] = scen.DT // 2
    if fault == "forcing_starts_late":
        sc["fsteps"] = [s for s in sc["fsteps"] if s > 0]
        sc["cuts"] = []
    if fault == "forcing_ends_early":
        sc["fsteps"] = [s for s in sc["fsteps"] if s < sc["nsteps"]]
        sc["cuts"] = []
    for key in ("U", "V", "T", "W"):
        sc[key] = sc[key][: len(sc["fsteps"])]
    frac_shift = {}
    if fault == "forcing_starts_fraction_late":
        # the frame that should cover the start lies a fraction of a time step inside the window
        sc["fsteps"] = [s for s in sc["fsteps"] if s >= 0]
        if sc["fsteps"][0] != 0:
            sc["fsteps"] = [0] + sc["fsteps"]
        sc["cuts"] = []
        frac_shift = {0: scen.DT // 4}
    if fault in ("forcing_ends_fraction_early", "forcing_ends_at_last_whole_step"):
        sc["fsteps"] = [s for s in sc["fsteps"] if s <= sc["nsteps"]]
        if sc["fsteps"][-1] != sc["nsteps"]:
            sc["fsteps"] = sc["fsteps"] + [sc["nsteps"]]
        sc["cuts"] = []
        frac_shift = {len(sc["fsteps"]) - 1: -(scen.DT // 4) if fault == "forcing_ends_fraction_early" else 0}
    if frac_shift:
        nf = len(sc["fsteps"])
        for key in ("U", "V", "T", "W"):
            arr = np.array(sc[key]); sc[key] = np.resize(arr, (nf,) + arr.shape[1:]).tolist()
    if fault == "release_before_start":
        for r in sc["rows"]:
            r["step"] = -3 if not sc["continuous"] else r["step"]
        if sc["continuous"]:
            fault = "none-equivalent"   # in continuous mode earlier file times are not a fault
    if fault in ("release_one_step_before_start", "release_half_step_before_start"):
        if sc["continuous"]:
            fault = "none-equivalent"
        else:
            for r in sc["rows"]:
                r["step"] = -1 if fault == "release_one_step_before_start" else Fraction(-1, 2)
    if fault == "release_after_stop":
        for r in sc["rows"]:
            r["step"] = sc["nsteps"] + 2
    if fault == "release_at_stop_only":
        for r in sc["rows"]:
            r["step"] = sc["nsteps"]
    conf = scen.write(sc, d)
    files = scen.files_of(sc)
    names = sorted(glob.glob(str(d / "forcing_*.nc")))
    ftimes = []
    if fault in ("frames_out_of_order", "frame_duplicated_across_files"):
        # rewrite as two files whose time axes are not increasing across the sorted file names
        for f in names:
            os.remove(f)
        order = list(range(len(sc["fsteps"])))
        mem = order[::-1] if sc["rev"] else order
        times = [scen.sim2time(sc, sc["fsteps"][m]) for m in mem]          # ascending in time
        half = len(times) // 2
        first, second = times[:half], times[half:]
        if fault == "frames_out_of_order":
            parts = [second, first]
        else:
            parts = [first + second[:1], second]
        for k, ts in enumerate(parts):
            lab.make_grid_forcing(d / f"forcing_{k:03d}.nc", ts, imax=sc["imax"], jmax=sc["jmax"], N=sc["N"], h=np.array(sc["h"]),
                                  mask=np.array(sc["mask"]), dx=np.array(sc["dx"]), scal=dict(temp=lambda t, kk, j, i: 0.0 * kk) if sc["scalars"] else None,
                                  w=(lambda t, kk, j, i: 0.0 * kk) if sc["vertadv"] else None,
                                  time_ref_s=(ts[0] - 17 - 3600 * k) if sc.get("own_time_reference") else None)
            ftimes.append(ts)
    else:
        for members in (files if not sc["rev"] else files[::-1]):
            mem = members[::-1] if sc["rev"] else members
            ftimes.append([scen.sim2time(sc, sc["fsteps"][m]) for m in mem])
    if frac_shift:
        # one file, frame times in simulation direction shifted by a fraction of dt at one end
        for f in names:
            os.remove(f)
        order = list(range(len(sc["fsteps"])))
        times_sim = [scen.sim2time(sc, sc["fsteps"][m]) + sg * frac_shift.get(m, 0) for m in order]
        ts = sorted(times_sim)
        lab.make_grid_forcing(d / "forcing_000.nc", ts, imax=sc["imax"], jmax=sc["jmax"], N=sc["N"], h=np.array(sc["h"]),
                              mask=np.array(sc["mask"]), dx=np.array(sc["dx"]), scal=dict(temp=lambda t, kk, j, i: 0.0 * kk) if sc["scalars"] else None,
                              w=(lambda t, kk, j, i: 0.0 * kk) if sc["vertadv"] else None)
        ftimes = [ts]
        names = [str(d / "forcing_000.nc")]
    setup["forcing_files"] = ftimes
    start, stop = sc["start"], scen.sim2time(sc, sc["nsteps"]) + sg * int(sc.get("stop_extra", 0))
    setup["start"], setup["stop"] = start, stop
    rows = [dict(time=scen.sim2time(sc, r["step"]), mult=r["mult"], cols=dict(X="1", Y="1", Z="1")) for r in sc["rows"]]
    setup["release"] = dict(kind="table", rows=rows, has_position=True)
    cfgpath = d / "ladim.yaml"
    if fault == "missing_start":
        conf["time"].pop("start"); setup["start"] = None
    if fault == "missing_stop":
        conf["time"].pop("stop"); setup["stop"] = None
    if fault == "missing_dt":
        conf["time"].pop("dt"); setup["dt"] = 0
    if fault == "stop_wrong_side":
        conf["time"]["stop"] = lab.tstr(start - sg * 3 * scen.DT); setup["stop"] = start - sg * 3 * scen.DT
    if fault == "release_without_position":
        rws = [dict(release_time=scen.sim2time(sc, r["step"]), mult=r["mult"], Z=r["Z"]) for r in sc["rows"]]
        lab.write_release(d / "release.rls", rws)
        setup["release"]["has_position"] = False
    if fault in ("release_with_x_only", "release_with_y_only", "release_with_lon_only"):
        # half a position is no position
        col = dict(release_with_x_only="X", release_with_y_only="Y", release_with_lon_only="lon")[fault]
        rws = [dict(release_time=scen.sim2time(sc, r["step"]), mult=r["mult"], Z=r["Z"], **{col: r["X"] if col != "Y" else r["Y"]}) for r in sc["rows"]]
        lab.write_release(d / "release.rls", rws)
        setup["release"]["has_position"] = False
    if fault == "no_grid_file":
        conf["grid"] = dict(module="ladim.ROMS", filename=str(d / "nosuch_grid.nc")); setup["grid_file_exists"] = False; setup["grid_has_module_and_file"] = True
    if fault == "no_forcing_file":
        conf["forcing"]["filename"] = str(d / "nosuch_*.nc")
        conf["grid"] = dict(module="ladim.ROMS", filename=names[0]); setup["grid_has_module_and_file"] = True
        setup["forcing_files"] = []
    if fault == "no_release_file":
        os.remove(d / "release.rls"); setup["release"] = dict(kind="missing")
    if fault == "empty_release_file_name":
        conf["release"]["release_file"] = ""; setup["release"] = dict(kind="none")
    if fault == "no_config_file":
        cfgpath = d / "nosuch.yaml"; setup["config_exists"] = False
    for sec in ("time", "tracker", "release", "output", "forcing"):
        if fault == f"no_{sec}_section":
            conf.pop(sec); setup[f"has_{sec}"] = False
    if fault == "no_forcing_section_explicit_grid":
        conf["grid"] = dict(module="ladim.ROMS", filename=names[0]); conf.pop("forcing")
        setup["has_forcing"] = False; setup["grid_has_module_and_file"] = True
    if fault == "illegal_subgrid_order":
        conf["grid"] = dict(module="ladim.ROMS", filename=names[0], subgrid=[6, 3, 1, 8]); setup["subgrid"] = [6, 3, 1, 8]; setup["grid_has_module_and_file"] = True
    if fault == "illegal_subgrid_edge":
        conf["grid"] = dict(module="ladim.ROMS", filename=names[0], subgrid=[0, 8, 1, 8]); setup["subgrid"] = [0, 8, 1, 8]; setup["grid_has_module_and_file"] = True
    if fault == "bad_version":
        conf["version"] = 7; setup["version_ok"] = False
    if fault != "no_config_file":
        with open(d / "ladim.yaml", "w") as f:
            yaml.safe_dump(conf, f)
    return cfgpath, dict(setup, op="validate"), fault


def run_case(job):
    use_repo()
    sc, fault = job
    with lab.scratch() as d:
        cfgpath, rq, eff = apply_fault(sc, fault, d)
        status = lab.run(str(cfgpath), d)
        outs = glob.glob(str(Path(d) / "out*.nc"))
        nrec = 0
        for f in outs:
            try:
                nrec += len(lab.read_out(f)["time"])
            except Exception:  # noqa: BLE001
                nrec += 0
        return dict(status=status, out_files=len(outs), records=nrec, request=rq, fault=eff)


def run_plugin_missing(sc):
    """A valid run with the IBM plug-in given by path; then the plug-in file is removed and the same set-up is
    started again in the same process: a missing file must stop the second run at start-up."""
    use_repo()
    with lab.scratch() as d:
        conf = scen.write(sc, d)
        with open(d / "ladim.yaml", "w") as f:
            yaml.safe_dump(conf, f)
        first = lab.run(str(d / "ladim.yaml"), d)
        for f in glob.glob(str(Path(d) / "out*.nc")):
            os.remove(f)
        os.remove(conf["ibm"]["module"])
        second = lab.run(str(d / "ladim.yaml"), d)
        nrec = 0
        for f in glob.glob(str(Path(d) / "out*.nc")):
            try:
                nrec += len(lab.read_out(f)["time"])
            except Exception:  # noqa: BLE001
                pass
        return dict(first=first, second=second, records=nrec)


def run_warm_wrong_side(sc):
    """A valid run, then continuations from its output whose stop lies on the wrong side of the restart time."""
    use_repo()
    from harness.props import c08
    with lab.scratch() as d:
        conf = scen.write(sc, d)
        st = lab.run(conf, d)
        files = scen.read_outputs(d, sc)
        if st != "ok" or not files:
            return dict(base=st, tries=[])
        fk = files[0]
        at, _ = c08.abs_times(fk)
        sg = -1 if sc["rev"] else 1
        tries = []
        for delta in (3 * scen.DT, scen.DT, scen.DT // 2, 1):
            wd = d / f"w{delta}"
            wd.mkdir()
            conf2 = scen.write(sc, wd, out_name="cont.nc", warm=dict(filename=str(d / fk["name"]),
                               variables=(["age"] if sc["age"] else []) + (["release_time"] if sc["pvars"] else [])))
            conf2["time"]["stop"] = lab.tstr(at[-1] - sg * delta)
            st2 = lab.run(conf2, wd)
            nrec = 0
            for f in glob.glob(str(wd / "cont*.nc")):
                try:
                    nrec += len(lab.read_out(f)["time"])
                except Exception:  # noqa: BLE001
                    pass
            tries.append(dict(stop_before_restart_by=delta, status=st2, records=nrec))
        return dict(base="ok", restart_time=at[-1], tries=tries)


def run(ctx: Ctx):
    use_repo()
    bs = bases(ctx.seed + 1)
    if ctx.thorough:
        bs += bases(ctx.seed + 2) + bases(ctx.seed + 3)
    jobs = [(sc, f) for sc in bs for f in FAULTS]
    res = pmap(run_case, jobs)
    want = driver([g["request"] for g in res])
    for (sc, fault), g, w in zip(jobs, res, want):
        case = dict(fault=fault, base=dict(rev=sc["rev"], forcing_files=len(sc["cuts"]) + 1, continuous=sc["continuous"], seed=sc["seed"]),
                    setup={k: v for k, v in g["request"].items() if k not in ("op",)})
        ctx.case("fault", [sc["seed"], fault], sample=dict(case, implementation=g["status"], model=w), nontrivial=True)
        ctx.count("fault:" + fault); ctx.count("model:" + (w.get("error", "accepts") + ("@" + w["stage"] if "stage" in w else "")))
        refused_model = "error" in w
        refused_impl = g["status"] != "ok"
        if refused_model and not refused_impl:
            ctx.violation("failing-input", "fault", case, dict(implementation="ran to the end", records=g["records"], model=w,
                          theorem="Ladim.C20.validate_sound (a set-up the decision function refuses cannot be simulated faithfully)"),
                          tags=dict(first="not-refused", fault=fault))
        elif refused_impl and g["records"] > 0:
            ctx.violation("failing-input", "fault", case, dict(implementation=g["status"], records=g["records"], note="an output record was written before the error"),
                          tags=dict(first="record-before-refusal", fault=fault))
        elif refused_impl and not refused_model:
            ctx.violation("failing-input" if fault in ("none", "none-equivalent") or g["fault"] == "none-equivalent" else "tie-broken", "fault", case,
                          dict(implementation=g["status"], model="accepts", note="a valid set-up was refused" if fault == "none" else "the model accepts this set-up"),
                          tags=dict(first="refused-valid", fault=fault))
        elif refused_impl and refused_model:
            kind = g["status"].split(":")[0]
            if kind != w["error"]:
                ctx.violation("tie-broken", "fault", case, dict(implementation=g["status"], model=w, correspondence="kind of stop at start-up (exit code / exception class)"))
            elif g["out_files"] > 0:
                ctx.violation("tie-broken", "fault", case, dict(implementation=g["status"], out_files=g["out_files"], correspondence="Output is constructed last: no file exists after a refusal"))

    # ---- a plug-in file that has disappeared since an earlier run of the same process
    pres = pmap(run_plugin_missing, bs)
    for sc, g in zip(bs, pres):
        case = dict(fault="plugin_file_removed_between_two_runs", base=dict(rev=sc["rev"], continuous=sc["continuous"], seed=sc["seed"]))
        ctx.case("plugin-missing", [sc["seed"]], sample=dict(case, result=g), nontrivial=True)
        if g["first"] != "ok":
            ctx.violation("tie-broken", "plugin-missing", case, dict(first_run=g["first"])); continue
        if g["second"] == "ok" or g["records"] > 0:
            ctx.violation("failing-input", "plugin-missing", case, dict(second_run=g["second"], records=g["records"],
                          note="the IBM module file named in the configuration does not exist any more; the run must stop at start-up and write no record",
                          theorem="Ladim.C20.refuses_missing_files_sections"), tags=dict(first="not-refused", fault="plugin_file_removed"))

    # ---- a continuation whose stop lies on the wrong side of the restart time, by several steps, one step, half a step, a second
    wcases = [scen.gen(ctx.seed * 1000 + 2900 + k, rev=bool(k % 2), layout="sparse", numrec=[0, 2][k % 2], period=1, nsteps=5, kills=False, continuous=bool(k % 3 == 1),
                       land=False, subgrid="none") for k in range(8 if ctx.thorough else 3)]
    for sc, g in zip(wcases, pmap(run_warm_wrong_side, wcases)):
        case = dict(fault="continuation_with_stop_on_the_wrong_side", base=dict(rev=sc["rev"], continuous=sc["continuous"], seed=sc["seed"]))
        ctx.case("warm-wrong-side", [sc["seed"]], sample=dict(case, result=g), nontrivial=True)
        if g["base"] != "ok":
            ctx.violation("tie-broken", "warm-wrong-side", case, dict(base_run=g["base"])); continue
        for t in g["tries"]:
            if t["status"] == "ok" or t["records"] > 0:
                ctx.violation("failing-input", "warm-wrong-side", dict(case, stop_before_restart_by_seconds=t["stop_before_restart_by"]),
                              dict(status=t["status"], records=t["records"], note="the stop time lies on the wrong side of the (restart) start time: the run must stop with an error",
                                   theorem="Ladim.C20.refuses_wrong_side / Ladim.Simulation.refuses_wrong_side"), tags=dict(first="not-refused", fault="stop_wrong_side_warm"))
                break
