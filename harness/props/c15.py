"""C15 — depth stays within the water column.  Tracker.update with vertical diffusion (scripted
draws) and/or vertical advection (scripted w), variable bathymetry, start depths 0, h and between,
all horizontal schemes; compared with Ladim.Model.Tracker (`moveV`, `reflect`); the property's
statement evaluated on the implementation for every step whose displacement is below the depth."""
from __future__ import annotations

import numpy as np

from harness import trk
from harness.common import Ctx, driver, pmap, use_repo


def run(ctx: Ctx):
    use_repo()
    n = 1200 if ctx.thorough else 150
    cases = []
    for k in range(n):
        c = trk.random_case(ctx.seed * 100000 + 50000 + k, vertical=(k % 5 != 0), diffusion=(k % 4 == 0), nsteps=4, fast=False)
        if k % 6 == 1:
            c["grid"]["hc"] = 10.0     # critical depth above the depth of the shallowest cells (8 m)
        if k % 4 == 2:
            c["rev"] = True            # backward in time (the vertical advection is reversed by the tracker)
        cases.append(c)
    got = pmap(trk.run_tracker, cases)
    want = driver([trk.model_request(c) for c in cases])
    for c, g, w in zip(cases, got, want):
        vert = ("Dz" in c) or c.get("vertadv", False)
        ctx.case("vertical", [c["seed"], c["scheme"], c["dt"], c.get("Dz", 0), c.get("vertadv", False)],
                 sample=trk.small(c) | dict(particles=c["particles"][:2], draws="…", w="…"), nontrivial=vert)
        ctx.count("vertdiff:" + str("Dz" in c)); ctx.count("vertadv:" + str(c.get("vertadv", False))); ctx.count("reversed:" + str(bool(c.get("rev"))))
        # the property on the implementation's output
        i0, i1, j0, j1 = g["limits"]
        H = np.array(c["grid"]["h"])[j0:j1, i0:i1]      # the bathymetry of the file, not what the grid object holds now
        prev = dict(X=[p[0] for p in c["particles"]], Y=[p[1] for p in c["particles"]], Z=[p[2] for p in c["particles"]])
        bad = []
        npart = len(c["particles"])
        for n_, s in enumerate(g["steps"]):
            if "error" in s:
                bad.append(f"step {n_}: raised {s['error']}"); break
            draws = list(c["draws"][n_]) if c.get("draws") else []
            off = 2 * npart if "D" in c else 0
            for k in range(npart):
                h = float(H[int(np.round(prev["Y"][k])) - j0, int(np.round(prev["X"][k])) - i0])
                disp = 0.0
                if "Dz" in c:
                    disp += (2 * c["Dz"] / c["dt"]) ** 0.5 * draws[off + k] * c["dt"]
                if c.get("vertadv"):
                    disp += (-1 if c.get("rev") else 1) * c["w"][n_][k] * c["dt"]
                z = s["Z"][k]
                if not vert:
                    if z != prev["Z"][k]:
                        bad.append(f"step {n_} particle {k}: depth changed from {prev['Z'][k]} to {z} with vertical motion off")
                elif abs(disp) < h and 0 <= prev["Z"][k] <= h:
                    ctx.count("in-scope-moves")
                    if not (0.0 <= z <= h):
                        bad.append(f"step {n_} particle {k}: depth {z} outside [0, {h}] after a displacement of {disp} from {prev['Z'][k]}")
                else:
                    ctx.count("out-of-scope-moves")
            prev = s
        if bad:
            ctx.violation("failing-input", "vertical", trk.small(c), dict(broken=bad[:5], theorem="Ladim.C15.depth_in_column / depth_unchanged_when_off"),
                          tags=dict(first="column"))
            continue
        d = trk.compare_steps(g, w, rel=1e-11, abs_=1e-11)
        if d:
            kind = "failing-input" if d.get("what") == "Z" else "tie-broken"
            ctx.violation(kind, "vertical", trk.small(c), dict(d, theorem="Ladim.C15.reflect_spec (reflecting boundaries at the surface and at the depth of the start cell)"),
                          tags=dict(first=d.get("what")))

    # ---- whole simulations that move particles in the vertical only, over a bottom of varying depth, while the
    # population turns over (a death and a release in the same step leave the particle count unchanged): each particle
    # is reflected at the bottom of its own cell
    from harness import scen
    ne = 30 if ctx.thorough else 8
    ecases = []
    for k in range(ne):
        sc = scen.gen(ctx.seed * 100000 + 15500 + k, scheme="", vertadv=True, kills=False, land=False, continuous=False, layout="sparse", rev=False,
                      nsteps=8, period=1, numrec=0, subgrid="none", scalars=bool(k % 2))
        h = np.array(sc["h"])
        # three cells of different depth
        cells = []
        for j in range(2, sc["jmax"] - 2):
            for i in range(2, sc["imax"] - 2):
                if all(h[j, i] != h[jj, ii] for jj, ii in cells):
                    cells.append((j, i))
                if len(cells) == 3:
                    break
            if len(cells) == 3:
                break
        if len(cells) < 3:
            continue
        W = np.array(sc["W"]); W[...] = 3.0 / scen.DT          # sinking, 3 m per step
        sc["W"] = W.tolist()
        r0 = dict(sc["rows"][0])
        mk = lambda c, step: dict(r0, step=step, mult=1, X=float(c[1]), Y=float(c[0]), Z=float(h[c]) - 2.0)   # noqa: E731
        sc["rows"] = [mk(cells[0], 0), mk(cells[1], 0), mk(cells[2], 2), mk(cells[0], 4)]
        sc["kill"] = {"1": [0], "3": [1]}       # dies during step 1 / 3, replaced by the release of step 2 / 4
        ecases.append(sc)
    scen.e2e_stream(ctx, "whole-run-vertical", ecases, "Ladim.C15.depth_in_column (reflection at the depth of the particle's own cell, every step)")
