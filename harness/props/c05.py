"""C05 — particle identity: ladim.state.State vs Ladim.Model.State on op sequences
(exhaustive up to a length over a small alphabet, seeded random beyond)."""
from __future__ import annotations

import itertools
from fractions import Fraction

from harness.common import Ctx, driver, use_repo, val_s

EXTRA_I = ["age", "stage"]
EXTRA_P = ["w0", "tag"]


def new_state():
    from ladim.state import State
    return State(instance_variables=dict(age=float, stage=int), particle_variables=dict(w0=float, tag=int),
                 default_values=dict(age=0.0, stage=1, tag=7))


DEFAULTS = dict(age=0, stage=1, tag=7)


def snap(st):
    out = dict(pid=[int(p) for p in st.pid], npid=int(st.npid), ivars={}, pvars={})
    for v in st.instance_variables:
        if v == "pid":
            continue
        out["ivars"][v] = [val_s(x) for x in st.variables[v]]
    for v in st.particle_variables:
        out["pvars"][v] = [val_s(x) for x in st.variables[v]]
    return out


def apply_impl(st, op):
    import numpy as np
    k = op["op"]
    if k == "append":
        args = {}
        for name, v in op["args"].items():
            if isinstance(v, list):
                args[name] = np.array([float("nan") if x == "nan" else x for x in v], dtype=float) if name not in ("stage", "tag") else np.array(v, dtype=int)
            else:
                args[name] = float(Fraction(v)) if isinstance(v, str) else v
        st.append(**args)
    elif k == "kill":
        m = np.array(op["mask"], dtype=bool)
        if op.get("style") == "setitem":
            alive = st.alive.copy()
            alive[m] = False
            st["alive"] = alive
        else:
            st.alive[m] = False
    elif k == "compactify":
        st.compactify()
    elif k == "set":
        if op.get("copy_from"):
            st[op["var"]] = st[op["copy_from"]]          # assignment from another state variable
        elif op.get("inplace_add") is not None:
            st[op["var"]] += op["inplace_add"]           # the in-place idiom of trackers and IBMs
        else:
            st[op["var"]] = op["vals"]
    else:
        raise RuntimeError(k)


class Gen:
    """Builds concrete ops while tracking the particle count its own ops imply."""

    def __init__(self, rng):
        self.rng = rng
        self.n = 0          # particles in the arrays
        self.alive = []     # generator's view
        self.ctr = 0

    def fresh(self):
        self.ctr += 1
        return self.ctr

    def make(self, kind):
        r = self.rng
        if kind == "A1":
            self._grow(1)
            return dict(op="append", args=dict(X=self.fresh(), Y=2, Z="1/2"))
        if kind == "A2":
            self._grow(2)
            return dict(op="append", args=dict(X=[self.fresh(), self.fresh()], Y=[3, 4], Z=[5, 6], age=[1, 2], w0="3/4", stage=[2, 3]))
        if kind == "A3":
            self._grow(3)
            return dict(op="append", args=dict(X=[self.fresh(), self.fresh(), self.fresh()], Y=1, Z=[9], tag=[1, 2, 3], w0=[1, 2, 3]))
        if kind == "A0":
            return dict(op="append", args=dict(X=[], Y=[], Z=[]))
        if kind == "Anan":
            self._grow(1)
            return dict(op="append", args=dict(X=self.fresh(), Y=0, Z=0, active=0))  # w0 has no default: NaN
        if kind in ("K", "Ks"):
            m = [r.random() < 0.4 for _ in range(self.n)]
            if self.n and not any(m):
                m[r.randrange(self.n)] = True
            self.alive = [a and not k for a, k in zip(self.alive, m)]
            return dict(op="kill", mask=m, style="setitem" if kind == "Ks" else "inplace")
        if kind == "Klast":
            m = [False] * self.n
            if self.n:
                m[-1] = True
                self.alive[-1] = False
            return dict(op="kill", mask=m, style="inplace")
        if kind == "C":
            self.alive = [a for a in self.alive if a]
            self.n = len(self.alive)
            return dict(op="compactify")
        if kind == "S":
            return dict(op="set", var="X", vals=[100 + self.fresh() for _ in range(self.n)])
        if kind == "Sage":
            return dict(op="set", var="age", vals=[self.fresh() for _ in range(self.n)])
        if kind == "Scopy":
            return dict(op="set", var="age", vals=None, copy_from="X")      # vals filled from the state at run time
        if kind == "Iadd":
            return dict(op="set", var="X", vals=None, inplace_add=1)
        if kind == "Sw":
            return dict(op="set", var="w0", vals=None)  # filled from current npid at run time
        if kind == "Epid":
            return dict(op="append", args=dict(pid=5, X=1, Y=1, Z=1))
        if kind == "Ename":
            return dict(op="append", args=dict(X=1, Y=1, Z=1, nosuch=1))
        if kind == "Eshape":
            return dict(op="append", args=dict(X=[1, 2], Y=[1, 2, 3], Z=1))
        raise RuntimeError(kind)

    def _grow(self, k):
        self.n += k
        self.alive += [True] * k


ALPHA_CORE = ["A1", "A2", "A3", "K", "Klast", "C", "S", "Anan", "Eshape"]
ALPHA_ALL = ALPHA_CORE + ["A0", "Ks", "Sage", "Epid", "Ename", "Scopy", "Iadd"]


def run_sequence(ctx: Ctx, kinds):
    g = Gen(ctx.rng)
    st = new_state()
    ops = []
    got = []
    for k in kinds:
        op = g.make(k)
        if op.get("copy_from"):
            op["vals"] = [val_s(x) for x in st.variables[op["copy_from"]]]
        elif op.get("inplace_add") is not None:
            op["vals"] = [val_s(float(x) + op["inplace_add"]) for x in st.variables[op["var"]]]
        try:
            apply_impl(st, op)
            got.append(snap(st))
        except Exception as e:  # noqa: BLE001
            got.append({"error": type(e).__name__})
        ops.append(op)
    return ops, got


def norm_snap(s):
    if "error" in s:
        return s
    return dict(pid=s["pid"], npid=s["npid"], ivars={k: list(v) for k, v in sorted(s["ivars"].items())},
                pvars={k: list(v) for k, v in sorted(s["pvars"].items())})


def monitors(prev, cur, op):
    """The property's invariants evaluated on the implementation's own snapshots."""
    bad = []
    n = len(cur["pid"])
    for v, col in cur["ivars"].items():
        if len(col) != n:
            bad.append(f"instance array {v} has length {len(col)} != {n}")
    if any(b <= a for a, b in zip(cur["pid"], cur["pid"][1:])):
        bad.append("pids not strictly increasing")
    if any(p >= cur["npid"] for p in cur["pid"]):
        bad.append("pid >= npid")
    if any(p < k for k, p in enumerate(cur["pid"])):
        bad.append("pid[k] < k")
    if prev is not None and "error" not in prev:
        if cur["npid"] < prev["npid"]:
            bad.append("npid decreased (pid reuse)")
        new = [p for p in cur["pid"] if p not in set(prev["pid"])]
        if any(p < prev["npid"] for p in new):
            bad.append("a pid was reused")
        if op["op"] == "compactify":
            alive = [a != "0" for a in prev["ivars"]["alive"]]
            if cur["pid"] != [p for p, a in zip(prev["pid"], alive) if a]:
                bad.append("compactify is not the order-preserving filter of the living")
        # every surviving particle keeps its own instance values unless the op assigns that variable
        pos_prev = {p: i for i, p in enumerate(prev["pid"])}
        for i, p in enumerate(cur["pid"]):
            if p in pos_prev:
                for v in cur["ivars"]:
                    if op["op"] == "set" and op["var"] == v:
                        continue
                    if op["op"] == "kill" and v == "alive":
                        continue
                    if i < len(cur["ivars"][v]) and pos_prev[p] < len(prev["ivars"][v]) and cur["ivars"][v][i] != prev["ivars"][v][pos_prev[p]]:
                        bad.append(f"instance value {v} of pid {p} changed")
        for v, col in cur["pvars"].items():
            if op["op"] == "set" and op["var"] == v:
                continue
            if col[: len(prev["pvars"][v])] != prev["pvars"][v]:
                bad.append(f"particle variable {v} changed for an existing pid")
    return bad


def run(ctx: Ctx):
    use_repo()
    seqs = []
    L = 5 if ctx.thorough else 4
    for n in range(1, L + 1):
        alpha = ALPHA_CORE if n >= 4 else ALPHA_ALL
        for tup in itertools.product(alpha, repeat=n):
            if n >= 4 and tup[0] not in ("A1", "A2", "A3"):
                continue  # a sequence that starts on an empty state adds little at this length
            seqs.append(list(tup))
    nrand = 4000 if ctx.thorough else 500
    for _ in range(nrand):
        n = ctx.rng.randrange(5, 25)
        seqs.append([ctx.rng.choice(ALPHA_ALL) for _ in range(n)])
    reqs = []
    runs = []
    for kinds in seqs:
        ops, got = run_sequence(ctx, kinds)
        runs.append((kinds, ops, got))
        reqs.append(dict(op="state", extraI=EXTRA_I, extraP=EXTRA_P, defaults=DEFAULTS,
                         ops=[{k: v for k, v in o.items() if k not in ("style", "copy_from", "inplace_add")} for o in ops]))
    want = driver(reqs)
    for (kinds, ops, got), w in zip(runs, want):
        nontrivial = any(k in ("K", "Ks", "Klast") for k in kinds) and "C" in kinds
        ctx.case("ops", kinds, sample=dict(ops=ops[:6], final=got[-1]), nontrivial=nontrivial or len(kinds) <= 3)
        for k in kinds:
            ctx.count("op:" + k)
        prev = None
        for i, (g, m) in enumerate(zip(got, w)):
            gg, mm = norm_snap(g), norm_snap(m)
            if "error" in gg or "error" in mm:
                if gg.get("error") != mm.get("error"):
                    if ("error" in gg) != ("error" in mm):
                        ctx.violation("tie-broken", "ops-errors", dict(kinds=kinds[: i + 1], ops=ops[: i + 1]),
                                      dict(step=i, implementation=gg if "error" in gg else "accepted", model=mm if "error" in mm else "accepted",
                                           correspondence="which argument sets State.append refuses"))
                        break
                continue
            bad = monitors(prev, gg, ops[i])
            if bad:
                ctx.violation("failing-input", "ops", dict(kinds=kinds[: i + 1], ops=ops[: i + 1]),
                              dict(step=i, broken_invariants=bad[:5], implementation=gg, theorem="Ladim.C05.wf_preserved / pid_fresh / compactify_is_filter"),
                              tags=dict(first=bad[0].split(" ")[0]))
                break
            if gg != mm:
                ctx.violation("failing-input", "ops", dict(kinds=kinds[: i + 1], ops=ops[: i + 1]),
                              dict(step=i, implementation=gg, model=mm, theorem="Ladim.C05.values_follow_particle (the model state is the specified state)"),
                              tags=dict(first="state-differs"))
                break
            prev = gg

    # ---- identifiers across a warm start: the continuation never hands out a pid the first leg has used
    from harness.props import c08
    from harness.common import pmap
    wcases = c08.corpus_recorded_then_dead() + [c08.make_base(ctx.seed * 100000 + 5500 + k) for k in range(24 if ctx.thorough else 6)]
    for sc, g in zip(wcases, pmap(c08.run_base_and_restarts, wcases)):
        if g["status"] != "ok":
            continue
        npid_at = {e["step"]: e["npid"] for e in g["ibm"]["log"]}
        for rs in g["restarts"]:
            fk = g["files"][rs["k"]]
            at, _ = c08.abs_times(fk)
            rstep = abs(int(round((at[-1] - sc["start"]) / c08.scen.DT)))
            used = set(p for f in g["files"][: rs["k"] + 1] for p in f["pid"])      # every pid the files up to the restart show
            pos = len(fk["pid"]) - fk["count"][-1] if fk["count"] else 0
            survivors = set(fk["pid"][pos:])
            case = dict(scenario=c08.scen.brief(sc), restart_from=fk["name"], at_step=rstep)
            ctx.case("warm-pids", [sc["seed"], rs["k"]], sample=case, nontrivial=True)
            if rs["status"] != "ok":
                continue
            unrecorded = npid_at.get(rstep, 0) > max(fk["pid"] + [-1]) + 1
            bad = []
            for f in rs["files"]:
                if "unreadable" in f:
                    continue
                p_ = 0
                for n, c in enumerate(f["count"]):
                    pids = f["pid"][p_:p_ + c]; p_ += c
                    if any(b <= a for a, b in zip(pids, pids[1:])) or any(q < k_ for k_, q in enumerate(pids)):
                        bad.append(f"{f['name']} record {n}: pids {pids} not strictly increasing with pid[k] >= k")
                    reused = [q for q in pids if q in used and q not in survivors]
                    if reused:
                        bad.append(f"{f['name']} record {n}: pids {reused} belonged to particles that were dead at the restart and are handed out again")
            if bad:
                ctx.violation("failing-input", "warm-pids", case, dict(broken=bad[:3], theorem="Ladim.C05.pid_never_reused / Ladim.C08.npid_from_record"),
                              tags=dict(first="pid-reuse", unrecorded_highest_pid=bool(unrecorded), particle_variables=bool(sc["pvars"])))

    # ---- per-particle values addressed by identifier in every file of a split output (the last file shorter)
    from harness import scen
    ne = 24 if ctx.thorough else 6
    ecases = [scen.gen(ctx.seed * 100000 + 5800 + k, layout="sparse", pvars=True, numrec=3, period=1, nsteps=[8, 7, 5][k % 3], kills=bool(k % 2),
                       continuous=False, rev=bool(k % 4 == 3), speed=0.25) for k in range(ne)]
    scen.e2e_stream(ctx, "whole-run-split-pvars", ecases, "Ladim.C06.pvars_complete / Ladim.C05.values_follow_* (particle variables at index pid in every file)")

    # ---- the output module given a state that still holds dead particles (no removal in between): a record holds exactly the
    # living particles, in order, with their own values; the dead are gone from the state afterwards (sparse layout)
    import numpy as np
    from ladim.out_netcdf import Output
    from ladim.state import State
    from ladim.timekeeper import TimeKeeper
    from harness import lab
    rr = np.random.RandomState(ctx.seed + 57)
    for k in range(40 if ctx.thorough else 10):
        n0 = int(rr.randint(2, 7)); n1 = int(rr.randint(0, 4))
        dead1 = sorted(set(int(x) for x in rr.randint(0, n0, size=int(rr.randint(1, n0)))))
        dead2 = sorted(set(int(x) for x in rr.randint(0, n0 + n1, size=int(rr.randint(0, 3)))))
        case = dict(first_release=n0, killed_before_record_1=dead1, second_release=n1, killed_before_record_2=dead2)
        ctx.case("write-with-dead", [k, n0, str(dead1), n1, str(dead2)], sample=case, nontrivial=True)
        with lab.scratch() as d:
            class _Rel:
                total_particle_count = n0 + n1
            st = State()
            tk = TimeKeeper(start="2020-01-01 12", stop="2020-01-02 12", dt=1800)
            out = Output(modules=dict(time=tk, release=_Rel(), grid=None, state=st), filename=d / "o.nc", output_period=np.timedelta64(1800, "s"),
                         instance_variables=dict(pid=dict(encoding=dict(datatype="i4"), attributes={}), X=dict(encoding=dict(datatype="f8"), attributes={})))
            alive_now = {}
            expect = []
            st.append(X=100.0 + np.arange(n0), Y=1.0, Z=1.0)
            for p_ in range(n0):
                alive_now[p_] = 100.0 + p_
            try:
                out.write(st); expect.append(dict(alive_now))
                a = st.alive.copy(); a[np.isin(st.pid, dead1)] = False; st["alive"] = a
                for p_ in dead1:
                    alive_now.pop(p_, None)
                out.write(st); expect.append(dict(alive_now))
                if n1:
                    st.append(X=200.0 + np.arange(n1), Y=1.0, Z=1.0)
                    for q in range(n1):
                        alive_now[n0 + q] = 200.0 + q
                a = st.alive.copy(); a[np.isin(st.pid, dead2)] = False; st["alive"] = a
                for p_ in dead2:
                    alive_now.pop(p_, None)
                out.write(st); expect.append(dict(alive_now))
                out.close()
                recs = lab.records(lab.read_out(d / "o.nc"), vars_=("pid", "X"))
                got = [dict(zip(r_["pid"], r_["X"])) for r_ in recs]
                bad = None
                if got != expect:
                    bad = dict(what="records", implementation=[sorted(g_.items()) for g_ in got], expected=[sorted(e_.items()) for e_ in expect])
                elif any(list(r_["pid"]) != sorted(r_["pid"]) for r_ in recs):
                    bad = dict(what="identifiers not increasing in a record", implementation=[r_["pid"] for r_ in recs])
            except Exception as e:  # noqa: BLE001
                bad = dict(what="raised", implementation=type(e).__name__ + ": " + str(e)[:100])
            if bad:
                ctx.violation("failing-input", "write-with-dead", case, dict(bad, theorem="Ladim.C05.compactify_is_filter / Ladim.C06.record_faithful (a record holds exactly the living particles)"),
                              tags=dict(first="write-with-dead"))

    # ---- a release file that is not ordered in time: the rows of two release times listed alternately, many of each.
    # Identifiers follow the release order: time first, then the position in the file.
    icases = []
    for k in range(8 if ctx.thorough else 3):
        sc = scen.gen(ctx.seed * 100000 + 5900 + k, layout="sparse", pvars=True, numrec=0, period=1, nsteps=5, kills=False, continuous=False,
                      rev=False, speed=0.25, land=False, subgrid="none")
        r0 = sc["rows"][0]
        later = [2, 3, 1][k % 3]
        rows = []
        for n in range(24 + 5 * k):
            rows.append(dict(r0, step=0, mult=1, X=2.0 + 0.125 * (n % 40), Y=3.0 + 0.25 * (n % 7)))
            rows.append(dict(r0, step=later, mult=1 + (n % 2), X=6.0 - 0.0625 * (n % 32), Y=4.0 + 0.125 * (n % 11)))
        sc["rows"] = rows
        icases.append(sc)
    scen.e2e_stream(ctx, "whole-run-unordered-release-file", icases, "Ladim.C05.values_follow_append / Ladim.C14.run_refines_spec (numbered in release order: time first, then the position in the file)")

    # ---- a name declared both as an instance variable and as a particle variable: the state refuses the declaration;
    # if it ever accepts one, the invariants must hold for it like for any other
    from ladim.state import State
    import numpy as _np
    for tag, iv, pv in (("X0 twice", dict(age=float, X0=float), dict(X0=float)), ("Z as particle variable", dict(age=float), dict(Z=float))):
        ctx.case("overlapping-declaration", [tag], sample=dict(instance_variables=list(iv), particle_variables=list(pv)), nontrivial=True)
        try:
            st = State(instance_variables=iv, particle_variables=pv, default_values=dict(age=0.0))
        except TypeError:
            ctx.count("overlap:refused"); continue
        except Exception as e:  # noqa: BLE001
            ctx.violation("tie-broken", "overlapping-declaration", dict(case=tag), dict(implementation=type(e).__name__, expected="TypeError")); continue
        bad = []
        try:
            name = list(pv)[0]
            st.append(X=_np.array([1.0, 2.0, 3.0]), Y=1.0, Z=_np.array([5.0, 6.0, 7.0]), **({name: _np.array([10.0, 20.0, 30.0])} if name != "Z" else {}))
            st.alive[1] = False
            st.compactify()
            for v in st.particle_variables:
                if len(st.variables[v]) != st.npid:
                    bad.append(f"particle variable {v} has {len(st.variables[v])} values, {st.npid} pids have been handed out")
            for v in st.instance_variables:
                if len(st.variables[v]) != len(st.pid):
                    bad.append(f"instance array {v} has length {len(st.variables[v])} != {len(st.pid)}")
        except Exception as e:  # noqa: BLE001
            bad.append(f"raised {type(e).__name__} in append/compactify")
        if bad:
            ctx.violation("failing-input", "overlapping-declaration", dict(case=tag, instance_variables=list(iv), particle_variables=list(pv)),
                          dict(broken=bad[:3], note="the declaration was accepted and the arrays are no longer aligned with the identifiers",
                               theorem="Ladim.C05.wf_preserved"), tags=dict(first="overlap"))
