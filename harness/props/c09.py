"""C09 — particles stay in the water inside the domain; the dead stay dead.
Tracker.update iterated on grids with islands and one-cell channels, polynomial flows of up to
~2.5 cells per step towards land and every open boundary, all schemes, diffusion on (scripted
draws) or off, subgrids, inactive and already-dead particles in the arrays; compared step by step
with Ladim.Model.Tracker (`moveH`), and the property's invariant evaluated on the implementation."""
from __future__ import annotations

from harness import trk
from harness.common import Ctx, driver, pmap, use_repo


def run(ctx: Ctx):
    use_repo()
    n = 1500 if ctx.thorough else 160
    cases = [trk.random_case(ctx.seed * 100000 + k, diffusion=(k % 2 == 0), nsteps=6) for k in range(n)]
    got = pmap(trk.run_tracker, cases)
    want = driver([trk.model_request(c) for c in cases])
    for c, g, w in zip(cases, got, want):
        deaths = sum(1 for s in g["steps"][-1:] if "alive" in s for a, p in zip(s["alive"], c["particles"]) if p[3] and not a)
        ctx.case("tracker", [c["seed"], c["scheme"], c["dt"], c.get("D", 0)], sample=trk.small(c) | dict(particles=c["particles"][:2], draws="…"),
                 nontrivial=True)
        ctx.count("scheme:" + c["scheme"]); ctx.count("diffusion:" + str("D" in c)); ctx.count("subgrid:" + str(c["subgrid"] is not None))
        ctx.count("deaths", deaths)
        bad = trk.invariant_monitor(c, g)
        if bad:
            ctx.violation("failing-input", "tracker", trk.small(c), dict(broken=bad[:5], theorem="Ladim.C09.alive_inside_sea / dead_stay_dead / inactive_fixed"),
                          tags=dict(first=bad[0].split(": ")[-1][:30]))
            continue
        d = trk.compare_steps(g, w, rel=1e-11, abs_=1e-11)
        if d:
            ctx.violation("failing-input", "tracker", trk.small(c), dict(d, theorem="Ladim.C09.out_of_grid_dies / land_cancel (the model's step is the specified step)"),
                          tags=dict(first=d.get("what")))
