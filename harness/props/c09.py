"""C09 — particles stay in the water inside the domain; the dead stay dead.
Tracker.update iterated on grids with islands and one-cell channels, polynomial flows of up to
~2.5 cells per step towards land and every open boundary, all schemes, diffusion on (scripted
draws) or off, subgrids, inactive and already-dead particles in the arrays; compared step by step
with Ladim.Model.Tracker (`moveH`), and the property's invariant evaluated on the implementation."""
from __future__ import annotations

from harness import lab, trk
from harness.common import Ctx, driver, pmap, use_repo


def edge_cases():
    """Moves of exactly one cell that end exactly on a cell edge n + 1/2 with land on one side: the cell of a position
    is the one numpy's rounding (half to even) gives, for the land test as for everything else."""
    import numpy as np
    from fractions import Fraction
    out = []
    k = 0
    for scheme in ("EF", "RK2", "RK4"):
        for axis in ("x", "y"):
            for landcell, start, direction in ((2, 3.5, -1), (5, 3.5, 1), (4, 5.5, -1), (7, 5.5, 1)):
                gs = trk.grid_spec(900 + k, imax=12, jmax=12, land=False, dx=128.0, varh=False)
                gs["dx"] = np.full_like(gs["dx"], 128.0)
                if axis == "x":
                    gs["mask"][:, landcell] = 0
                    parts = [[start, 4.0 + 0.25 * j, 1.0, 1, 1] for j in range(4)]
                    cu, cv = [str(Fraction(2 * direction))] + ["0"] * 6, ["0"] * 7
                else:
                    gs["mask"][landcell, :] = 0
                    parts = [[4.0 + 0.25 * j, start, 1.0, 1, 1] for j in range(4)]
                    cu, cv = ["0"] * 7, [str(Fraction(2 * direction))] + ["0"] * 6
                out.append(dict(grid=gs, subgrid=None, scheme=scheme, dt=64, cu=cu, cv=cv, particles=parts, nsteps=2, seed=900 + k, edge=True))
                k += 1
    return out


def run(ctx: Ctx):
    use_repo()
    n = 1500 if ctx.thorough else 160
    cases = [trk.random_case(ctx.seed * 100000 + k, diffusion=(k % 2 == 0), nsteps=6) for k in range(n)] + edge_cases()
    got = pmap(trk.run_tracker, cases)
    want = driver([trk.model_request(c) for c in cases])
    for c, g, w in zip(cases, got, want):
        deaths = sum(1 for s in g["steps"][-1:] if "alive" in s for a, p in zip(s["alive"], c["particles"]) if p[3] and not a)
        ctx.case("tracker", [c["seed"], c["scheme"], c["dt"], c.get("D", 0)], sample=trk.small(c) | dict(particles=c["particles"][:2], draws="…"),
                 nontrivial=True)
        ctx.count("edge-tie cases" if c.get("edge") else "random cases")
        ctx.count("scheme:" + c["scheme"]); ctx.count("diffusion:" + str("D" in c)); ctx.count("subgrid:" + str(c["subgrid"] is not None))
        ctx.count("deaths", deaths)
        bad = trk.invariant_monitor(c, g)
        if bad:
            ctx.violation("failing-input", "tracker", trk.small(c), dict(broken=bad[:5], theorem="Ladim.C09.alive_inside_sea / dead_stay_dead / inactive_fixed"),
                          tags=dict(first=bad[0].split(": ")[-1][:30]))
            continue
        d = trk.compare_steps(g, w, rel=1e-11, abs_=1e-11)
        if d:
            ctx.violation("failing-input", "tracker", trk.small(c), dict(d, theorem="Ladim.C09.out_of_grid_dies / land_cancel (the model's step is the specified step)"),
                          tags=dict(first=d.get("what")))

    # ---- whole simulations: several release times with deaths in between; a pid that has left the records never comes back
    from harness import scen

    def contiguous(sc, real):
        bad = []
        seen, gone = set(), set()
        pos = 0
        for f in real["files"]:
            if "unreadable" in f:
                continue
            p = 0
            for n in range(len(f["time"])):
                if sc["layout"] == "sparse":
                    c = f["count"][n]
                    pids = set(f["pid"][p:p + c]); p += c
                else:
                    # dense layout: the particles of a record are those with a value at [time, pid]
                    pids = {q for q, x in enumerate(f["X"][n]) if x is not None}
                    c = len(pids)
                back = pids & gone
                if back:
                    bad.append(f"{f['name']} record {n}: pids {sorted(back)} had left the records and are back")
                if len(pids) != c:
                    bad.append(f"{f['name']} record {n}: a pid occurs twice")
                gone |= (seen - pids); seen |= pids
        return bad

    ne = 40 if ctx.thorough else 10
    ecases = []
    for k in range(ne):
        sc = scen.gen(ctx.seed * 100000 + 9500 + k, layout="dense" if k % 4 == 3 else "sparse", kills=True, speed=[1.0, 2.0][k % 2], continuous=False, nsteps=10, period=1,
                      scheme=["EF", "RK2", "RK4"][k % 3], rev=False, numrec=0)
        r0 = sc["rows"][0]
        # three release times; the particles of the second one are killed before the third
        sc["rows"] = [dict(r0, step=0, mult=2), dict(r0, step=3, mult=2), dict(r0, step=6, mult=2)]
        sc["kill"] = {"1": [1], "4": [2, 3]}
        if k % 3 == 0:
            sc["kill"] = {"1": [0, 1], "4": [2, 3]}       # everybody dead at the same time, twice, before the next release
        ecases.append(sc)
    scen.e2e_stream(ctx, "whole-run-deaths", ecases, "Ladim.C09.dead_stay_dead / Ladim.Whole.records_valid", monitor=contiguous)

    # ---- deaths in the very step of a warm start: a particle that dies there appears in no record of the restarted run
    from harness.props import c08
    from harness.common import pmap as _pmap
    wcases = [scen.gen(ctx.seed * 100000 + 9800 + k, rev=False, layout="sparse", numrec=[2, 1, 3][k % 3], period=1, nsteps=8, kills=True, speed=2.0,
                       continuous=False, scheme=["EF", "RK2", "RK4"][k % 3]) for k in range(20 if ctx.thorough else 6)]
    for sc, g in zip(wcases, _pmap(c08.run_base_and_restarts, wcases)):
        if g["status"] != "ok":
            continue
        base_recs = c08.records_of(g["files"], sc)
        for rs in g["restarts"]:
            fk = g["files"][rs["k"]]
            case = dict(scenario=scen.brief(sc), restart_from=fk["name"])
            ctx.case("warm-deaths", [sc["seed"], rs["k"]], sample=case, nontrivial=True)
            if rs["status"] != "ok":
                continue
            bad = []
            for t, rec in sorted(c08.records_of(rs["files"], sc).items()):
                if t in base_recs:
                    ghosts = sorted(set(rec["pid"]) - set(base_recs[t]["pid"]))
                    if ghosts:
                        bad.append(f"time {t}: pids {ghosts} are in the restarted run's record, the uninterrupted run has them dead or gone")
            if bad:
                ctx.violation("failing-input", "warm-deaths", case, dict(broken=bad[:3], theorem="Ladim.C09.dead_stay_dead / Ladim.SimWarm.restart_sim"),
                              tags=dict(first="ghost"))

    # ---- flag columns in the release file, whole runs against the model (`Sim.rowToRP` reads `active` and `alive`): particles that
    # are kept but not moved, and particles that are dead on arrival (they use up an identifier and appear in no record)
    fcases = []
    for k in range(12 if ctx.thorough else 4):
        sc = scen.gen(ctx.seed * 100000 + 9900 + k, layout=["sparse", "dense"][k % 2], kills=False, speed=1.0, continuous=bool(k % 4 == 3), nsteps=6, period=1,
                      scheme=["EF", "RK2", "RK4"][k % 3], rev=bool(k % 4 == 2), numrec=0)
        r0 = sc["rows"][0]
        sc["rows"] = [dict(r0, step=0, mult=1, active=[1, 0][k % 2]), dict(r0, step=0, mult=2, active=[0, 1][k % 2], X=r0["X"] + 0.25),
                      dict(r0, step=0, mult=1, active=1, alive=[1, 0][(k // 2) % 2], Y=r0["Y"] + 0.25), dict(r0, step=2, mult=1, active=0), dict(r0, step=2, mult=1, active=1)]
        if sc["continuous"]:
            sc["freq"] = 2
        fcases.append(sc)
    scen.e2e_stream(ctx, "whole-run-flags", fcases, "Ladim.C09.inactive_fixed / dead_stay_dead for particles flagged in the release table (Ladim.Sim.flagOf)")

    # ---- flags given in the release file: a column `active` of zeros and ones (F24).  The particles with 0 are kept where they
    # are, each of the others moves with the flow — whatever the order of the rows
    for k, flags in enumerate([[1, 0, 1], [0, 1, 1], [1, 1, 0, 0, 1], [0, 0, 1]]):
        with lab.scratch() as d:
            lab.make_grid_forcing(d / "forcing.nc", [0, 3600], imax=14, jmax=10, N=3, u=lambda t, kk, j, i: 0.25 + 0 * kk, v=lambda t, kk, j, i: 0.125 + 0 * kk)
            rows = [dict(release_time=0, mult=1, X=3.0 + 0.5 * n, Y=2.0 + 0.75 * n, Z=1.0, active=f) for n, f in enumerate(flags)]
            lab.write_release(d / "release.rls", rows)
            conf = lab.base_conf(d, 0, 1800, 300, 300, str(d / "forcing.nc"), advection=["EF", "RK4"][k % 2])
            status = lab.run(conf, d)
            case = dict(release_file_columns=["release_time", "mult", "X", "Y", "Z", "active"], active=flags, scheme=["EF", "RK4"][k % 2])
            ctx.case("release-file-flags", [k, str(flags)], sample=case, nontrivial=True)
            if status != "ok":
                ctx.violation("failing-input", "release-file-flags", case, dict(status=status), tags=dict(first="status")); continue
            recs = lab.records(lab.read_out(d / "out.nc"))
            first, last = recs[0], recs[-1]
            bad = []
            for n, f in enumerate(flags):
                if n not in first["pid"] or n not in last["pid"]:
                    bad.append(f"particle {n} is missing from a record"); continue
                a, b = first["pid"].index(n), last["pid"].index(n)
                moved = (first["X"][a], first["Y"][a]) != (last["X"][b], last["Y"][b])
                if f == 0 and moved:
                    bad.append(f"particle {n} is not active and was moved from {(first['X'][a], first['Y'][a])} to {(last['X'][b], last['Y'][b])}")
                if f == 1 and not moved:
                    bad.append(f"particle {n} is active and was held at {(first['X'][a], first['Y'][a])} in a flow of 0.25 m/s")
            if bad:
                ctx.violation("failing-input", "release-file-flags", case, dict(broken=bad, theorem="Ladim.C09.inactive_fixed"), tags=dict(first="flags"))
