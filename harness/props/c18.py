"""C18 — one simulation, three spellings.  Generated simulations expressible in the version-1
vocabulary (discrete/continuous release, extra release columns, particle variables, diffusion
coefficient, subgrid, IBM with variables, extra forcing) are written as a version-2 YAML file, a
version-2 TOML file and a legacy version-1 YAML file; (a) ladim.configure.configure() on each file
is compared with Ladim.Model.Config (`configure`); (b) the three runs' output files are compared
with each other; (c) omitted optional sections / the grid section vs explicit ones (literal and
wildcard forcing file name) give the same output."""
from __future__ import annotations

import copy
import glob as globmod
import json
import os
from pathlib import Path

import numpy as np
import yaml

from harness import lab, scen
from harness.common import Ctx, driver, pmap, use_repo


def toml_dumps(d, prefix=""):
    """Minimal TOML writer for nested dicts of scalars / lists / dicts."""
    lines, tables = [], []
    for k, v in d.items():
        if isinstance(v, dict):
            tables.append((k, v))
        else:
            lines.append(f"{k} = {toml_val(v)}")
    out = "\n".join(lines)
    for k, v in tables:
        name = f"{prefix}{k}"
        out += f"\n[{name}]\n" + toml_dumps(v, name + ".")
    return out


def toml_val(v):
    if isinstance(v, bool):
        return "true" if v else "false"
    if isinstance(v, (int, float)):
        return repr(v)
    if isinstance(v, str):
        return json.dumps(v)
    if isinstance(v, (list, tuple)):
        return "[" + ", ".join(toml_val(x) for x in v) + "]"
    raise TypeError(type(v))


def spelled(seconds, how):
    """the same period written as a number of seconds, as [value, unit] or as an ISO 8601 duration"""
    if how == 1:
        return [seconds // 3600, "h"] if seconds % 3600 == 0 else ([seconds // 60, "m"] if seconds % 60 == 0 else [seconds, "s"])
    if how == 2:
        h, m, sec = seconds // 3600, (seconds // 60) % 60, seconds % 60
        return "PT" + (f"{h}H" if h else "") + (f"{m}M" if m else "") + (f"{sec}S" if sec or not (h or m) else "")
    return seconds


def build(sc, d):
    """Write the input files and return the three configurations (v2 dict, v1 dict)."""
    d = Path(d)
    conf2 = scen.write(sc, d)                     # canonical v2 (with header in the release file)
    ff = sorted(globmod.glob(str(d / "forcing_*.nc")))
    if len(ff) >= 2 and sc.get("_unpadded"):
        # file numbers without leading zeros: forcing_10.nc comes before forcing_2.nc in the (lexicographic) order of the forcing
        # module, and holds the earliest frames; the later files describe another grid metric, which nobody may read: the grid of a
        # run without a grid section is that of the *first* forcing file, in the forcing module's order
        from netCDF4 import Dataset
        for n, f in enumerate(ff):
            new = d / f"forcing_{10 if n == 0 else n + 1}.nc"
            os.rename(f, new)
            if n > 0:
                with Dataset(new, "a") as nc:
                    nc.variables["pm"][:] = nc.variables["pm"][:] * 0.5
                    nc.variables["pn"][:] = nc.variables["pn"][:] * 0.5
        if "grid" in conf2 and "filename" in conf2["grid"]:
            conf2["grid"]["filename"] = str(d / "forcing_10.nc")
    if sc.get("_gridfile"):
        # a grid file of its own (the geometry of the forcing files with another metric), named in the configuration: in the legacy
        # vocabulary under `files.gridfile`
        import shutil
        from netCDF4 import Dataset
        gf = d / "grid_only.nc"
        shutil.copy(sorted(globmod.glob(str(d / "forcing_*.nc")))[0], gf)
        with Dataset(gf, "a") as nc:
            nc.variables["pm"][:] = nc.variables["pm"][:] * 0.5
            nc.variables["pn"][:] = nc.variables["pn"][:] * 0.5
        conf2["grid"] = dict(module="ladim.ROMS", filename=str(gf))
    # release file without header for the v1 spelling (names come from the configuration)
    names = ["release_time", "mult", "X", "Y", "Z"]
    rows = [dict(release_time=scen.sim2time(sc, x["step"]), mult=x["mult"], X=x["X"], Y=x["Y"], Z=x["Z"]) for x in sc["rows"]]
    lab.write_release(d / "release_nohdr.rls", rows, header=False, cols=names)
    ivars = (["age"] if sc["age"] else []) + scen.extra_forcing(sc)
    out_iv = ["pid", "X", "Y", "Z"] + (["age"] if sc["age"] else []) + (["temp"] if sc["scalars"] else [])
    # v2 spelled to mean exactly what the v1 vocabulary can say
    conf2["state"] = dict(instance_variables={v: "float" for v in ivars}, particle_variables=dict(release_time="time") if sc["pvars"] else {},
                          default_values={v: 0 for v in ivars})
    conf2["release"] = dict(release_file=str(d / "release_nohdr.rls"), names=names)
    if sc["continuous"]:
        conf2["release"].update(continuous=True, release_frequency=sc["freq"] * scen.DT)
    if sc.get("_D"):
        conf2["tracker"]["diffusion"] = sc["_D"]
    ibm_opts = {k: v for k, v in conf2["ibm"].items() if k != "module"}
    v1 = dict(
        time_control=dict(start_time=conf2["time"]["start"], stop_time=conf2["time"]["stop"]),
        files=dict(particle_release_file=str(d / "release_nohdr.rls"), output_file=conf2["output"]["filename"]),
        gridforce=dict(module="ladim.ROMS", input_file=conf2["forcing"]["filename"]),
        ibm=dict(ibm_module=conf2["ibm"]["module"], variables=ivars, **ibm_opts),
        particle_release=dict(variables=names, particle_variables=["release_time"] if sc["pvars"] else [], release_time="time"),
        output_variables=dict(outper=conf2["output"]["output_period"], instance=out_iv, particle=["release_time"] if sc["pvars"] else []),
        numerics=dict(dt=scen.DT, advection=sc["scheme"], diffusion=sc.get("_D", 0.0)),
    )
    if sc["rev"]:
        v1 = None   # time reversal is not in the v1 vocabulary
        return conf2, v1
    if sc.get("_gridfile"):
        v1["files"]["gridfile"] = conf2["grid"]["filename"]
    if sc["subgrid"]:
        v1["gridforce"]["subgrid"] = list(sc["subgrid"])
        v1["gridforce"]["gridfile"] = conf2["grid"]["filename"]
    if scen.extra_forcing(sc):
        v1["gridforce"]["extra_forcing"] = scen.extra_forcing(sc)
    if sc["continuous"]:
        v1["particle_release"].update(release_type="continuous", release_frequency=sc["freq"] * scen.DT)
    shared = sc.get("seed", 0) % 3 == 1
    if shared:
        # X, Y and Z described once in the file and referred to (a YAML anchor with aliases): still three variables
        for v in ("X", "Y", "Z"):
            conf2["output"]["instance_variables"][v] = dict(encoding=dict(datatype="f8"), attributes=dict(units="grid units"))
    pos = dict(ncformat="f8", units="grid units")
    for v in out_iv:
        enc = conf2["output"]["instance_variables"][v]
        v1["output_variables"][v] = pos if shared and v in ("X", "Y", "Z") else dict(ncformat=enc["encoding"]["datatype"], **enc["attributes"])
    if sc["pvars"]:
        enc = conf2["output"]["particle_variables"]["release_time"]
        v1["output_variables"]["release_time"] = dict(ncformat=enc["encoding"]["datatype"], **enc["attributes"])
    return conf2, v1


def canon(x):
    """configuration tree -> JSON-able canonical form"""
    import numpy as _np
    if isinstance(x, dict):
        return {str(k): canon(v) for k, v in x.items()}
    if isinstance(x, (list, tuple)):
        return [canon(v) for v in x]
    if isinstance(x, Path):
        return str(x)
    if isinstance(x, (_np.integer,)):
        return int(x)
    if isinstance(x, (_np.floating,)):
        return float(x)
    if isinstance(x, (bool, int, float, str)) or x is None:
        return x
    return str(x)


def numeq(a, b):
    """model tree (numbers as rational strings) vs implementation tree"""
    from fractions import Fraction
    if isinstance(a, dict) and isinstance(b, dict):
        return set(a) == set(b) and all(numeq(a[k], b[k]) for k in a)
    if isinstance(a, list) and isinstance(b, list):
        return len(a) == len(b) and all(numeq(x, y) for x, y in zip(a, b))
    if isinstance(b, bool) or isinstance(a, bool):
        return a == b
    if isinstance(b, (int, float)) and isinstance(a, str):
        try:
            return Fraction(a) == Fraction(b)
        except ValueError:
            return False
    return a == b


def run_case(sc):
    use_repo()
    from ladim.configure import configure
    out = dict(runs={}, trees={}, globs={})
    with lab.scratch() as d:
        conf2, v1 = build(sc, d)
        spellings = {}
        # ---- variants of the v2 spelling: optional sections omitted / explicit; grid omitted
        base = copy.deepcopy(conf2)
        base["output"]["filename"] = str(d / "out_v2yaml.nc")
        spellings["v2yaml"] = ("yaml", base)
        t = copy.deepcopy(conf2); t["output"]["filename"] = str(d / "out_v2toml.nc")
        spellings["v2toml"] = ("toml", t)
        if v1 is not None:
            w = copy.deepcopy(v1); w["files"]["output_file"] = str(d / "out_v1.nc")
            spellings["v1yaml"] = ("yaml", w)
        if not sc["subgrid"] and not sc.get("_gridfile"):
            g = copy.deepcopy(conf2); g.pop("grid", None); g["output"]["filename"] = str(d / "out_nogrid.nc")
            spellings["v2_no_grid_section"] = ("yaml", g)
        # the version key in its spellings (2, 2.0, "2.0", "2"); all mean version 2
        for tag, ver, fmt in (("v2toml_version_string", "2.0", "toml"), ("v2yaml_version_float", 2.0, "yaml"), ("v2yaml_version_str", "2", "yaml")):
            vv = copy.deepcopy(conf2); vv["version"] = ver; vv["output"]["filename"] = str(d / f"out_{tag}.nc")
            spellings[tag] = (fmt, vv)
        # the same run in other words: periods as ISO 8601 durations / [value, unit], keys that have their default value left out
        rs = copy.deepcopy(conf2); rs["output"]["filename"] = str(d / "out_respelled.nc")
        rs["time"]["dt"] = spelled(scen.DT, 2)
        rs["output"]["output_period"] = spelled(sc["period"] * scen.DT, 1 if sc["seed"] % 2 else 2)
        if not rs["output"].get("numrec"):
            rs["output"].pop("numrec", None)
        if rs["output"].get("layout") == "sparse":
            rs["output"].pop("layout", None)
        if not rs["time"].get("time_reversal"):
            rs["time"].pop("time_reversal", None)
        if rs["release"].get("continuous"):
            rs["release"]["release_frequency"] = spelled(sc["freq"] * scen.DT, 2 if sc["seed"] % 2 else 1)
        else:
            rs["release"].pop("continuous", None); rs["release"].pop("release_frequency", None)
        spellings["v2_respelled"] = ("yaml", rs)
        e = copy.deepcopy(conf2); e["warm_start"] = {}; e["output"]["filename"] = str(d / "out_explicit.nc")
        e.setdefault("grid", dict(module="ladim.ROMS", filename=sorted(globmod.glob(str(d / "forcing_*.nc")))[0]))
        spellings["v2_explicit_sections"] = ("yaml", e)
        # a forcing module that is NOT the built-in one: the defaulted grid must come from it
        if not sc["subgrid"] and not sc.get("_gridfile"):
            (d / "halfmetric_roms.py").write_text(
                "from ladim.ROMS import Grid as _G, Forcing\n"
                "class Grid(_G):\n"
                "    def metric(self, X, Y):\n"
                "        A, B = super().metric(X, Y)\n"
                "        return 2 * A, 2 * B\n")
            um = copy.deepcopy(conf2); um.pop("grid", None)
            um["forcing"]["module"] = str(d / "halfmetric_roms.py")
            um["output"]["filename"] = str(d / "out_usermod_nogrid.nc")
            spellings["usermodule_no_grid_section"] = ("yaml", um)
            ue = copy.deepcopy(um)
            ue["grid"] = dict(module=str(d / "halfmetric_roms.py"), filename=sorted(globmod.glob(str(d / "forcing_*.nc")))[0])
            ue["output"]["filename"] = str(d / "out_usermod_explicit.nc")
            spellings["usermodule_explicit_grid"] = ("yaml", ue)
        if not sc["subgrid"]:
            # a different data set (other grid metric) configured and run earlier in the same process, grid section
            # omitted there too: nothing of it may be left in the configuration of the runs that follow
            od = d / "other"; od.mkdir()
            sc2 = copy.deepcopy(sc); sc2["dx"] = (np.array(sc["dx"]) * 4.0).tolist()
            oconf = scen.write(sc2, od); oconf.pop("grid", None)
            with open(od / "other.yaml", "w") as f:
                yaml.safe_dump(oconf, f)
            lab.run(str(od / "other.yaml"), od)
        pattern = conf2["forcing"]["filename"]
        out["globs"] = {pattern: sorted(globmod.glob(pattern))}
        for name, (fmt, conf) in spellings.items():
            p = d / f"{name}.{'toml' if fmt == 'toml' else 'yaml'}"
            if fmt == "toml":
                p.write_text(toml_dumps(conf))
            else:
                with open(p, "w") as f:
                    yaml.safe_dump(conf, f)
            out["trees"][name] = dict(parsed=canon(conf))
            try:
                out["trees"][name]["configured"] = canon(configure(p))
            except SystemExit as ex:
                out["trees"][name]["configured"] = dict(error=f"exit{ex.code}")
            except Exception as ex:  # noqa: BLE001
                out["trees"][name]["configured"] = dict(error=type(ex).__name__)
            st = lab.run(str(p), d)
            files = scen.read_outputs(d, sc, pattern=Path(conf["output"]["filename"] if "output" in conf else conf["files"]["output_file"]).stem + "*.nc")
            for f in files:
                f.pop("name", None)
            out["runs"][name] = dict(status=st, files=files)
    return out



# ---------------------------------------------------------------- parameters the modules derive from the configuration

PERIODS = {   # seconds -> spellings
    60: [60, [60, "s"], [1, "m"], "PT1M", "PT60S", "PT0H1M"],
    120: [120, [2, "m"], "PT2M", "PT1M60S", [120, "s"]],
    3600: [3600, [1, "h"], "PT1H", "PT60M", [60, "m"]],
    180: [180, [3, "m"], "PT3M"],
}
BAD_PERIODS = [1.5, "1M", "PT", "P1D", [1, "x"], [1.5, "m"], ["1", "m"], [1, "m", 2], "PT1.5M", None, "PT5"]


def params_cases(seed, n):
    r = np.random.RandomState(seed)
    cases = []
    for k in range(n):
        c = dict(k=k)
        c["dt"] = PERIODS[60][r.randint(len(PERIODS[60]))]
        opsec = int(r.choice([60, 120, 180, 3600]))
        c["output_period"] = PERIODS[opsec][r.randint(len(PERIODS[opsec]))]
        c["rev"] = [None, False, True][r.randint(3)]
        c["reference"] = bool(r.rand() < 0.3)
        c["numrec"] = [None, 0, 3, 1][r.randint(4)]
        c["layout"] = [None, "sparse", "dense"][r.randint(3)]
        c["skip_initial"] = [None, True, False][r.randint(3)]
        c["advection"] = [None, "EF", "RK2", "RK4", "bogus", ""][r.randint(6)]
        c["diffusion"] = [None, 0, 0.5, 2][r.randint(4)]
        c["vertdiff"] = [None, 0.0, 0.001][r.randint(3)]
        c["vertical_advection"] = [None, True, False][r.randint(3)]
        c["continuous"] = [None, False, True, True][r.randint(4)]
        c["release_frequency"] = PERIODS[120][r.randint(len(PERIODS[120]))] if c["continuous"] else ([None, 120][r.randint(2)])
        c["extra_forcing"] = [None, ["temp"], []][r.randint(3)]
        c["subgrid"] = [None, [2, 9, 1, 7], [1, 10, 2, 8]][r.randint(3)]
        c["version1"] = bool(k % 5 == 4)
        if c["version1"]:      # what the legacy vocabulary cannot say is left at its default
            c.update(rev=None, vertdiff=None, vertical_advection=None, numrec=None, layout=None, skip_initial=None)
            if c["extra_forcing"] == []:
                c["extra_forcing"] = None
        if k % 6 == 5:          # one malformed or missing period
            which = ["dt", "output_period", "release_frequency"][r.randint(3)]
            c[which] = BAD_PERIODS[r.randint(len(BAD_PERIODS))] if r.rand() < 0.8 else 0
            if which == "release_frequency":
                c["continuous"] = True
        cases.append(c)
    return cases


def params_conf(c, d):
    """the version-2 configuration of a parameter case (all files exist)"""
    start, stop = (0, 600) if not c["rev"] else (600, 0)
    conf = lab.base_conf(d, start, stop, c["dt"], c["output_period"], str(Path(d) / "forcing*.nc"),
                         extra_forcing=c["extra_forcing"] or None)
    if c["extra_forcing"] == []:
        conf["forcing"]["extra_forcing"] = []
    if c["extra_forcing"]:
        conf["state"]["instance_variables"]["temp"] = "float"
    conf["tracker"] = {}
    for key in ("advection", "diffusion", "vertdiff", "vertical_advection"):
        if c[key] is not None:
            conf["tracker"][key] = c[key]
    if c["vertical_advection"]:
        conf["forcing"].setdefault("extra_forcing", [])
        if "w" not in conf["forcing"]["extra_forcing"]:
            conf["forcing"]["extra_forcing"] = list(conf["forcing"]["extra_forcing"]) + ["w"]
        conf["state"]["instance_variables"]["w"] = "float"
    if c["rev"] is not None:
        conf["time"]["time_reversal"] = c["rev"]
    if c["reference"]:
        conf["time"]["reference"] = lab.tstr(-3600)
    for key in ("numrec", "layout", "skip_initial"):
        if c[key] is not None:
            conf["output"][key] = c[key]
    if c["continuous"] is not None:
        conf["release"]["continuous"] = c["continuous"]
    if c["release_frequency"] is not None:
        conf["release"]["release_frequency"] = c["release_frequency"]
    if c["subgrid"]:
        conf["grid"] = dict(module="ladim.ROMS", filename=str(Path(d) / "forcing.nc"), subgrid=list(c["subgrid"]))
    return conf


def params_v1(c, conf2, d):
    """the same set-up in the legacy vocabulary, where it can be said there"""
    v1 = dict(
        time_control=dict(start_time=conf2["time"]["start"], stop_time=conf2["time"]["stop"]),
        files=dict(particle_release_file=conf2["release"]["release_file"], output_file=conf2["output"]["filename"]),
        gridforce=dict(module="ladim.ROMS", input_file=conf2["forcing"]["filename"]),
        particle_release=dict(variables=["release_time", "X", "Y", "Z"], release_time="time"),
        output_variables=dict(outper=c["output_period"], instance=["pid", "X", "Y", "Z"], particle=[]),
        numerics=dict(dt=c["dt"], advection=c["advection"] if c["advection"] is not None else "EF", diffusion=c["diffusion"] or 0.0),
    )
    if c["reference"]:
        v1["time_control"]["reference_time"] = conf2["time"]["reference"]
    if c["subgrid"]:
        v1["gridforce"]["subgrid"] = list(c["subgrid"]); v1["gridforce"]["gridfile"] = conf2["grid"]["filename"]
    if conf2["forcing"].get("extra_forcing"):
        v1["gridforce"]["extra_forcing"] = list(conf2["forcing"]["extra_forcing"])
    if c["continuous"]:
        v1["particle_release"].update(release_type="continuous", release_frequency=c["release_frequency"])
    for v in ("pid", "X", "Y", "Z"):
        enc = conf2["output"]["instance_variables"][v]
        v1["output_variables"][v] = dict(ncformat=enc["encoding"]["datatype"], **enc["attributes"])
    return v1


def run_params(c):
    """configure() + Model(): the attributes the modules ended up with"""
    use_repo()
    from ladim.configure import configure
    from ladim.model import Model
    with lab.scratch() as d:
        lab.make_grid_forcing(d / "forcing.nc", [-600, 0, 600, 1200], imax=12, jmax=10, N=3,
                              scal=dict(temp=lambda t, k, j, i: 5.0 + 0 * k, w=lambda t, k, j, i: 0.0 * k))
        lab.write_release(d / "release.rls", [dict(release_time=0 if not c["rev"] else 600, X=5.0, Y=5.0, Z=2.0),
                                             dict(release_time=120 if not c["rev"] else 480, X=6.0, Y=5.0, Z=2.0)])
        conf = params_conf(c, d)
        v1ok = c["version1"] and not c["rev"] and c["vertdiff"] is None and c["vertical_advection"] is None and c["numrec"] is None \
            and c["layout"] is None and c["skip_initial"] is None
        if v1ok:
            conf = params_v1(c, conf, d)
            # the legacy vocabulary names the columns in the configuration: the file has no header line
            lab.write_release(d / "release.rls", [dict(release_time=0, X=5.0, Y=5.0, Z=2.0), dict(release_time=120, X=6.0, Y=5.0, Z=2.0)],
                              header=False, cols=["release_time", "X", "Y", "Z"])
        p = d / "conf.yaml"
        with open(p, "w") as f:
            yaml.safe_dump(conf, f)
        pattern = str(Path(d) / "forcing*.nc")
        out = dict(parsed=canon(conf), globs={pattern: sorted(globmod.glob(pattern))}, version1=bool(v1ok))
        cwd = os.getcwd(); os.chdir(d)
        try:
            config = configure(p)
            m = Model(config)
            o = m.output
            sec = lambda td: int(td / np.timedelta64(1, "s"))
            out["got"] = dict(
                dt=sec(m.timer.dt), rev=bool(m.timer.time_reversal), has_ref=bool(m.timer.reference_time != m.timer.min_time),
                advection=m.tracker.advection, diffusion=bool(m.tracker.diffusion), vertdiff=bool(m.tracker.vertdiff),
                vertadv=bool(m.tracker.vertical_advection), out_period=sec(o.output_period), out_period_step=int(o.output_period_step),
                multifile=bool(o.multifile), numrec=int(o.numrec), layout=o.layout, skip_initial=bool(o.skip_initial),
                continuous=hasattr(m.release, "release_frequency"),
                rel_freq=sec(m.release.release_frequency) if hasattr(m.release, "release_frequency") else None,
                extra_forcing=list(m.force.extra_forcing),
                limits=[int(m.grid.i0), int(m.grid.i1), int(m.grid.j0), int(m.grid.j1)])
            try:
                o.close(); m.force.close()
            except Exception:  # noqa: BLE001
                pass
        except SystemExit as e:
            out["got"] = dict(error=f"exit{e.code}")
        except Exception as e:  # noqa: BLE001
            out["got"] = dict(error=type(e).__name__)
        finally:
            os.chdir(cwd)
        return out


def run(ctx: Ctx):
    use_repo()
    n = 120 if ctx.thorough else 16
    cases = []
    for k in range(n):
        sc = scen.gen(ctx.seed * 100000 + 18000 + k, rev=False, layout="sparse", numrec=0, vertadv=False, kills=(k % 2 == 0), files=[1, 2][k % 2])
        if k % 6 == 5:
            # several steps in a flow, every step recorded, two forcing files with unpadded numbers (see build)
            sc = scen.gen(ctx.seed * 100000 + 18000 + k, rev=False, layout="sparse", numrec=0, vertadv=False, kills=False, files=2, nsteps=6, period=1,
                          speed=1.0, land=False, subgrid="none")
            sc["_unpadded"] = True
        if k % 8 == 2:
            # a grid file of its own, with another metric than the forcing files (see build)
            sc = scen.gen(ctx.seed * 100000 + 18000 + k, rev=False, layout="sparse", numrec=0, vertadv=False, kills=False, files=[1, 2][(k // 8) % 2], nsteps=6,
                          period=1, speed=1.0, land=False, subgrid="none")
            sc["_gridfile"] = True
        if k % 3 == 0:
            sc["_D"] = 0.0
        cases.append(sc)
    res = pmap(run_case, cases, chunksize=1)
    reqs, meta = [], []
    for sc, g in zip(cases, res):
        for name, t in g["trees"].items():
            parsed = copy.deepcopy(t["parsed"])
            reqs.append(dict(op="configure", config=parsed, glob=g["globs"]))
            meta.append((sc, name, t))
    want = driver(reqs, par=False)
    for (sc, name, t), w in zip(meta, want):
        ctx.case("configure:" + name, [sc["seed"], name], sample=dict(spelling=name, parsed_keys=sorted(t["parsed"].keys())))
        impl = t["configured"]
        if "error" in w or "error" in impl:
            if ("error" in w) != ("error" in impl):
                ctx.violation("tie-broken", "configure", dict(scenario=scen.brief(sc), spelling=name), dict(implementation=impl if "error" in impl else "accepted", model=w))
            continue
        if not numeq(w["ok"], impl):
            diff = [k for k in set(w["ok"]) | set(impl) if not numeq(w["ok"].get(k), impl.get(k))]
            ctx.violation("tie-broken", "configure", dict(scenario=scen.brief(sc), spelling=name),
                          dict(sections_that_differ=diff, implementation={k: impl.get(k) for k in diff}, model={k: w["ok"].get(k) for k in diff},
                               correspondence="ladim.configure.configure vs Ladim.configure"))
    for sc, g in zip(cases, res):
        ref = g["runs"]["v2yaml"]
        ctx.case("three-spellings", [sc["seed"]], sample=dict(scenario=scen.brief(sc), spellings=sorted(g["runs"])))
        if ref["status"] != "ok":
            ctx.violation("failing-input", "three-spellings", scen.brief(sc), dict(v2yaml_status=ref["status"]), tags=dict(first="status")); continue
        for name, r in g["runs"].items():
            if name in ("v2yaml", "usermodule_explicit_grid"):
                continue
            ctx.count("spelling:" + name)
            if name == "usermodule_no_grid_section":
                ref_ = g["runs"]["usermodule_explicit_grid"]
                if r["status"] != "ok" or ref_["status"] != "ok" or r["files"] != ref_["files"]:
                    ctx.violation("failing-input", "three-spellings", dict(scenario=scen.brief(sc), spelling=name),
                                  dict(status=[r["status"], ref_["status"]], note="forcing module given by path (a Grid with another metric); the omitted grid section must use it",
                                       explicit_grid=str(ref_["files"])[:300], omitted_grid=str(r["files"])[:300], theorem="Ladim.C18.grid_default_from_forcing"),
                                  tags=dict(first=name))
                continue
            if r["status"] != "ok" or r["files"] != ref["files"]:
                what = "status" if r["status"] != "ok" else next((k for k in ref["files"][0] if r["files"] and r["files"][0].get(k) != ref["files"][0].get(k)), "files")
                ctx.violation("failing-input", "three-spellings", dict(scenario=scen.brief(sc), spelling=name),
                              dict(status=r["status"], first_difference=what, reference=str(ref["files"])[:400], this=str(r["files"])[:400],
                                   theorem="Ladim.C18.v1_eq_v2 / defaults_are_empty_sections / grid_default_from_forcing"),
                              tags=dict(first=name))

    # ---- from the configuration file to the output files, through the model (Ladim.runFile): the model is given the parsed
    # configuration and the data of the run; what the request says about time step, direction, scheme, output period, layout,
    # records per file, release mode and subgrid is scrambled on purpose — the model must take all of that from the configuration
    reqs, meta = [], []
    for sc, g in zip(cases, res):
        if sc.get("_D") or sc.get("_gridfile"):        # (the request carries the metric of the forcing files)
            continue
        for name in ("v2yaml", "v2toml", "v1yaml", "v2_respelled", "v2_no_grid_section", "v2_explicit_sections"):
            if name not in g["runs"] or name not in g["trees"]:
                continue
            rq = scen.request(sc)
            rq["op"] = "run_cfg"
            rq["extra_forcing"] = sorted(rq["scalars"].keys())
            rq["time"].update(dt=7, rev=not sc["rev"])
            rq["tracker"].update(scheme="none", vertadv=not sc["vertadv"])
            rq["output"].update(period=97, numrec=5, layout="dense" if sc["layout"] == "sparse" else "sparse")
            rq["release"].update(continuous=not sc["continuous"], freq=13)
            rq.pop("subgrid", None)
            rq["config"] = g["trees"][name]["parsed"]
            rq["glob"] = g["globs"]
            reqs.append(rq); meta.append((sc, name, g["runs"][name]))
    want = driver(reqs)
    for (sc, name, r), w in zip(meta, want):
        case = dict(scenario=scen.brief(sc), spelling=name)
        ctx.case("run-from-config", [sc["seed"], name], sample=case, nontrivial=True)
        ctx.count("run-from-config:" + name)
        if "error" in w:
            if r["status"] == "ok":
                ctx.violation("tie-broken", "run-from-config", case, dict(model=w, implementation="ok"))
            continue
        if r["status"] != "ok":
            ctx.violation("failing-input", "run-from-config", case, dict(status=r["status"], theorem="Ladim.SimConfig.accepted_config_run"), tags=dict(first="status"))
            continue
        files = [dict(f, name=wf["name"]) for f, wf in zip(r["files"], w["files"])] if len(r["files"]) == len(w["files"]) else [dict(f, name="?") for f in r["files"]]
        diffs = scen.compare_files(sc, files, w["files"])
        if diffs:
            ctx.violation("failing-input", "run-from-config", case,
                          dict(differences=[dict(what=a, implementation=str(x)[:300], model=str(y)[:300]) for a, x, y in diffs[:3]],
                               theorem="Ladim.SimConfig.v1_v2_same_run / spelled_*_same_run / omitted_means_default (Ladim.runFile)"),
                          tags=dict(first=name))

    # ---- the parameters the modules derive from the configuration (period spellings, defaults of omitted keys)
    pcases = params_cases(ctx.seed + 1800, 300 if ctx.thorough else 60)
    pres = pmap(run_params, pcases, warm=False)
    pwant = driver([dict(op="params", config=g["parsed"], glob=g["globs"]) for g in pres], par=False)
    for c, g, w in zip(pcases, pres, pwant):
        small = {k: v for k, v in c.items()}
        ctx.case("params", [str(sorted((k, str(v)) for k, v in c.items()))], sample=dict(case=small, implementation=g["got"], model=w))
        ctx.count("params:" + ("v1" if g["version1"] else "v2"))
        got = g["got"]
        if "error" in w or "error" in got:
            ctx.count("params:refused")
            if w.get("error", "ok")[:5] != got.get("error", "ok")[:5]:
                ctx.violation("tie-broken", "params", small, dict(implementation=got, model=w,
                              correspondence="which configurations the module constructors refuse, and how (Ladim.Params.ofCfg)"))
            continue
        bad = []
        for key in ("dt", "rev", "advection", "diffusion", "vertdiff", "vertadv", "out_period", "out_period_step", "multifile", "numrec", "layout",
                    "skip_initial", "continuous", "rel_freq", "extra_forcing"):
            if got[key] != w[key]:
                bad.append(dict(parameter=key, implementation=got[key], model=w[key]))
        if c["reference"] != got["has_ref"]:
            bad.append(dict(parameter="reference", implementation=got["has_ref"], expected=c["reference"]))
        lim = w["subgrid"] if w["subgrid"] is not None else [1, 11, 1, 9]
        if got["limits"] != lim:
            bad.append(dict(parameter="subgrid", implementation=got["limits"], model=lim))
        # the statement: every spelling of the same period gives the same parameters
        sec = {str(v): k for k, vs in PERIODS.items() for v in vs}
        if str(c["dt"]) in sec and got["dt"] != sec[str(c["dt"])]:
            bad.append(dict(parameter="dt", implementation=got["dt"], spelled=c["dt"], means=sec[str(c["dt"])]))
        if str(c["output_period"]) in sec and abs(got["out_period"]) != sec[str(c["output_period"])]:
            bad.append(dict(parameter="output_period", implementation=got["out_period"], spelled=c["output_period"], means=sec[str(c["output_period"])]))
        if bad:
            ctx.violation("failing-input", "params", small, dict(differences=bad[:4], theorem="Ladim.ParamsProps.spellings_same_params / defaults / v1_eq_v2_params"),
                          tags=dict(first=bad[0]["parameter"]))
