"""C18 — one simulation, three spellings.  Generated simulations expressible in the version-1
vocabulary (discrete/continuous release, extra release columns, particle variables, diffusion
coefficient, subgrid, IBM with variables, extra forcing) are written as a version-2 YAML file, a
version-2 TOML file and a legacy version-1 YAML file; (a) ladim.configure.configure() on each file
is compared with Ladim.Model.Config (`configure`); (b) the three runs' output files are compared
with each other; (c) omitted optional sections / the grid section vs explicit ones (literal and
wildcard forcing file name) give the same output."""
from __future__ import annotations

import copy
import glob as globmod
import json
import os
from pathlib import Path

import numpy as np
import yaml

from harness import lab, scen
from harness.common import Ctx, driver, pmap, use_repo


def toml_dumps(d, prefix=""):
    """Minimal TOML writer for nested dicts of scalars / lists / dicts."""
    lines, tables = [], []
    for k, v in d.items():
        if isinstance(v, dict):
            tables.append((k, v))
        else:
            lines.append(f"{k} = {toml_val(v)}")
    out = "\n".join(lines)
    for k, v in tables:
        name = f"{prefix}{k}"
        out += f"\n[{name}]\n" + toml_dumps(v, name + ".")
    return out


def toml_val(v):
    if isinstance(v, bool):
        return "true" if v else "false"
    if isinstance(v, (int, float)):
        return repr(v)
    if isinstance(v, str):
        return json.dumps(v)
    if isinstance(v, (list, tuple)):
        return "[" + ", ".join(toml_val(x) for x in v) + "]"
    raise TypeError(type(v))


def build(sc, d):
    """Write the input files and return the three configurations (v2 dict, v1 dict)."""
    d = Path(d)
    conf2 = scen.write(sc, d)                     # canonical v2 (with header in the release file)
    # release file without header for the v1 spelling (names come from the configuration)
    names = ["release_time", "mult", "X", "Y", "Z"]
    rows = [dict(release_time=scen.sim2time(sc, x["step"]), mult=x["mult"], X=x["X"], Y=x["Y"], Z=x["Z"]) for x in sc["rows"]]
    lab.write_release(d / "release_nohdr.rls", rows, header=False, cols=names)
    ivars = (["age"] if sc["age"] else []) + scen.extra_forcing(sc)
    out_iv = ["pid", "X", "Y", "Z"] + (["age"] if sc["age"] else []) + (["temp"] if sc["scalars"] else [])
    # v2 spelled to mean exactly what the v1 vocabulary can say
    conf2["state"] = dict(instance_variables={v: "float" for v in ivars}, particle_variables=dict(release_time="time") if sc["pvars"] else {},
                          default_values={v: 0 for v in ivars})
    conf2["release"] = dict(release_file=str(d / "release_nohdr.rls"), names=names)
    if sc["continuous"]:
        conf2["release"].update(continuous=True, release_frequency=sc["freq"] * scen.DT)
    if sc.get("_D"):
        conf2["tracker"]["diffusion"] = sc["_D"]
    ibm_opts = {k: v for k, v in conf2["ibm"].items() if k != "module"}
    v1 = dict(
        time_control=dict(start_time=conf2["time"]["start"], stop_time=conf2["time"]["stop"]),
        files=dict(particle_release_file=str(d / "release_nohdr.rls"), output_file=conf2["output"]["filename"]),
        gridforce=dict(module="ladim.ROMS", input_file=conf2["forcing"]["filename"]),
        ibm=dict(ibm_module=conf2["ibm"]["module"], variables=ivars, **ibm_opts),
        particle_release=dict(variables=names, particle_variables=["release_time"] if sc["pvars"] else [], release_time="time"),
        output_variables=dict(outper=conf2["output"]["output_period"], instance=out_iv, particle=["release_time"] if sc["pvars"] else []),
        numerics=dict(dt=scen.DT, advection=sc["scheme"], diffusion=sc.get("_D", 0.0)),
    )
    if sc["rev"]:
        v1 = None   # time reversal is not in the v1 vocabulary
        return conf2, v1
    if sc["subgrid"]:
        v1["gridforce"]["subgrid"] = list(sc["subgrid"])
        v1["gridforce"]["gridfile"] = conf2["grid"]["filename"]
    if scen.extra_forcing(sc):
        v1["gridforce"]["extra_forcing"] = scen.extra_forcing(sc)
    if sc["continuous"]:
        v1["particle_release"].update(release_type="continuous", release_frequency=sc["freq"] * scen.DT)
    for v in out_iv:
        enc = conf2["output"]["instance_variables"][v]
        v1["output_variables"][v] = dict(ncformat=enc["encoding"]["datatype"], **enc["attributes"])
    if sc["pvars"]:
        enc = conf2["output"]["particle_variables"]["release_time"]
        v1["output_variables"]["release_time"] = dict(ncformat=enc["encoding"]["datatype"], **enc["attributes"])
    return conf2, v1


def canon(x):
    """configuration tree -> JSON-able canonical form"""
    import numpy as _np
    if isinstance(x, dict):
        return {str(k): canon(v) for k, v in x.items()}
    if isinstance(x, (list, tuple)):
        return [canon(v) for v in x]
    if isinstance(x, Path):
        return str(x)
    if isinstance(x, (_np.integer,)):
        return int(x)
    if isinstance(x, (_np.floating,)):
        return float(x)
    if isinstance(x, (bool, int, float, str)) or x is None:
        return x
    return str(x)


def numeq(a, b):
    """model tree (numbers as rational strings) vs implementation tree"""
    from fractions import Fraction
    if isinstance(a, dict) and isinstance(b, dict):
        return set(a) == set(b) and all(numeq(a[k], b[k]) for k in a)
    if isinstance(a, list) and isinstance(b, list):
        return len(a) == len(b) and all(numeq(x, y) for x, y in zip(a, b))
    if isinstance(b, bool) or isinstance(a, bool):
        return a == b
    if isinstance(b, (int, float)) and isinstance(a, str):
        try:
            return Fraction(a) == Fraction(b)
        except ValueError:
            return False
    return a == b


def run_case(sc):
    use_repo()
    from ladim.configure import configure
    out = dict(runs={}, trees={}, globs={})
    with lab.scratch() as d:
        conf2, v1 = build(sc, d)
        spellings = {}
        # ---- variants of the v2 spelling: optional sections omitted / explicit; grid omitted
        base = copy.deepcopy(conf2)
        base["output"]["filename"] = str(d / "out_v2yaml.nc")
        spellings["v2yaml"] = ("yaml", base)
        t = copy.deepcopy(conf2); t["output"]["filename"] = str(d / "out_v2toml.nc")
        spellings["v2toml"] = ("toml", t)
        if v1 is not None:
            w = copy.deepcopy(v1); w["files"]["output_file"] = str(d / "out_v1.nc")
            spellings["v1yaml"] = ("yaml", w)
        if not sc["subgrid"]:
            g = copy.deepcopy(conf2); g.pop("grid", None); g["output"]["filename"] = str(d / "out_nogrid.nc")
            spellings["v2_no_grid_section"] = ("yaml", g)
        e = copy.deepcopy(conf2); e["warm_start"] = {}; e["output"]["filename"] = str(d / "out_explicit.nc")
        e.setdefault("grid", dict(module="ladim.ROMS", filename=sorted(globmod.glob(str(d / "forcing_*.nc")))[0]))
        spellings["v2_explicit_sections"] = ("yaml", e)
        # a forcing module that is NOT the built-in one: the defaulted grid must come from it
        if not sc["subgrid"]:
            (d / "halfmetric_roms.py").write_text(
                "from ladim.ROMS import Grid as _G, Forcing\n"
                "class Grid(_G):\n"
                "    def metric(self, X, Y):\n"
                "        A, B = super().metric(X, Y)\n"
                "        return 2 * A, 2 * B\n")
            um = copy.deepcopy(conf2); um.pop("grid", None)
            um["forcing"]["module"] = str(d / "halfmetric_roms.py")
            um["output"]["filename"] = str(d / "out_usermod_nogrid.nc")
            spellings["usermodule_no_grid_section"] = ("yaml", um)
            ue = copy.deepcopy(um)
            ue["grid"] = dict(module=str(d / "halfmetric_roms.py"), filename=sorted(globmod.glob(str(d / "forcing_*.nc")))[0])
            ue["output"]["filename"] = str(d / "out_usermod_explicit.nc")
            spellings["usermodule_explicit_grid"] = ("yaml", ue)
        pattern = conf2["forcing"]["filename"]
        out["globs"] = {pattern: sorted(globmod.glob(pattern))}
        for name, (fmt, conf) in spellings.items():
            p = d / f"{name}.{'toml' if fmt == 'toml' else 'yaml'}"
            if fmt == "toml":
                p.write_text(toml_dumps(conf))
            else:
                with open(p, "w") as f:
                    yaml.safe_dump(conf, f)
            out["trees"][name] = dict(parsed=canon(conf))
            try:
                out["trees"][name]["configured"] = canon(configure(p))
            except SystemExit as ex:
                out["trees"][name]["configured"] = dict(error=f"exit{ex.code}")
            st = lab.run(str(p), d)
            files = scen.read_outputs(d, sc, pattern=Path(conf["output"]["filename"] if "output" in conf else conf["files"]["output_file"]).stem + "*.nc")
            for f in files:
                f.pop("name", None)
            out["runs"][name] = dict(status=st, files=files)
    return out


def run(ctx: Ctx):
    use_repo()
    n = 120 if ctx.thorough else 16
    cases = []
    for k in range(n):
        sc = scen.gen(ctx.seed * 100000 + 18000 + k, rev=False, layout="sparse", numrec=0, vertadv=False, kills=(k % 2 == 0), files=[1, 2][k % 2])
        if k % 3 == 0:
            sc["_D"] = 0.0
        cases.append(sc)
    res = pmap(run_case, cases, chunksize=1)
    reqs, meta = [], []
    for sc, g in zip(cases, res):
        for name, t in g["trees"].items():
            parsed = copy.deepcopy(t["parsed"])
            reqs.append(dict(op="configure", config=parsed, glob=g["globs"]))
            meta.append((sc, name, t))
    want = driver(reqs, par=False)
    for (sc, name, t), w in zip(meta, want):
        ctx.case("configure:" + name, [sc["seed"], name], sample=dict(spelling=name, parsed_keys=sorted(t["parsed"].keys())))
        impl = t["configured"]
        if "error" in w or "error" in impl:
            if ("error" in w) != ("error" in impl):
                ctx.violation("tie-broken", "configure", dict(scenario=scen.brief(sc), spelling=name), dict(implementation=impl if "error" in impl else "accepted", model=w))
            continue
        if not numeq(w["ok"], impl):
            diff = [k for k in set(w["ok"]) | set(impl) if not numeq(w["ok"].get(k), impl.get(k))]
            ctx.violation("tie-broken", "configure", dict(scenario=scen.brief(sc), spelling=name),
                          dict(sections_that_differ=diff, implementation={k: impl.get(k) for k in diff}, model={k: w["ok"].get(k) for k in diff},
                               correspondence="ladim.configure.configure vs Ladim.configure"))
    for sc, g in zip(cases, res):
        ref = g["runs"]["v2yaml"]
        ctx.case("three-spellings", [sc["seed"]], sample=dict(scenario=scen.brief(sc), spellings=sorted(g["runs"])))
        if ref["status"] != "ok":
            ctx.violation("failing-input", "three-spellings", scen.brief(sc), dict(v2yaml_status=ref["status"]), tags=dict(first="status")); continue
        for name, r in g["runs"].items():
            if name in ("v2yaml", "usermodule_explicit_grid"):
                continue
            ctx.count("spelling:" + name)
            if name == "usermodule_no_grid_section":
                ref_ = g["runs"]["usermodule_explicit_grid"]
                if r["status"] != "ok" or ref_["status"] != "ok" or r["files"] != ref_["files"]:
                    ctx.violation("failing-input", "three-spellings", dict(scenario=scen.brief(sc), spelling=name),
                                  dict(status=[r["status"], ref_["status"]], note="forcing module given by path (a Grid with another metric); the omitted grid section must use it",
                                       explicit_grid=str(ref_["files"])[:300], omitted_grid=str(r["files"])[:300], theorem="Ladim.C18.grid_default_from_forcing"),
                                  tags=dict(first=name))
                continue
            if r["status"] != "ok" or r["files"] != ref["files"]:
                what = "status" if r["status"] != "ok" else next((k for k in ref["files"][0] if r["files"] and r["files"][0].get(k) != ref["files"][0].get(k)), "files")
                ctx.violation("failing-input", "three-spellings", dict(scenario=scen.brief(sc), spelling=name),
                              dict(status=r["status"], first_difference=what, reference=str(ref["files"])[:400], this=str(r["files"])[:400],
                                   theorem="Ladim.C18.v1_eq_v2 / defaults_are_empty_sections / grid_default_from_forcing"),
                              tags=dict(first=name))
