"""C06 — output records are faithful snapshots in a well-formed ragged or dense file.
End-to-end runs (deaths by IBM and by leaving the grid, late releases, empty records, highest pids
dead at the end, time-typed particle variable, both layouts, several reference times) read back
and compared with (a) the per-step state snapshots of a recording IBM, retrieved through
particle_count exactly as the format documentation prescribes, and (b) the virtual files of
Ladim.Model.Output fed by Ladim.Model.Run."""
from __future__ import annotations

import numpy as np

from harness import scen
from harness.common import Ctx, driver, pmap, use_repo
from harness.props import c08


def special_cases(seed):
    out = []
    # everybody dies: empty records in the middle and at the end, highest pids dead
    sc = scen.gen(seed + 1, rev=False, layout="sparse", nsteps=6, period=1, numrec=0, continuous=False, kills=False, land=False, speed=0.25)
    total = sum(x["mult"] for x in sc["rows"])
    sc["kill"] = {"2": list(range(total))}
    out.append(sc)
    sc = scen.gen(seed + 2, rev=False, layout="sparse", nsteps=6, period=2, numrec=2, continuous=False, kills=False, land=False, speed=0.25)
    total = sum(x["mult"] for x in sc["rows"])
    sc["kill"] = {"1": [total - 1], "3": [max(0, total - 2)]}
    out.append(sc)
    sc = scen.gen(seed + 3, rev=False, layout="dense", nsteps=5, period=1, numrec=0, continuous=False, kills=False, land=False, speed=0.25)
    total = sum(x["mult"] for x in sc["rows"])
    sc["kill"] = {"1": [0, total - 1]}
    out.append(sc)
    return out


def monitor(sc, real):
    """The property, directly on the implementation: record n of the file(s) equals the state the
    recording IBM saw … one step earlier (records are written before the move), for the living."""
    bad = []
    if real["status"] != "ok":
        return [f"run ended with {real['status']}"]
    for f in real["files"]:
        if "unreadable" in f:
            bad.append(f"{f['name']} is not readable")
        elif sc["layout"] == "sparse":
            if sum(f["count"]) != f["inst_dim"]:
                bad.append(f"{f['name']}: counts sum to {sum(f['count'])}, instance dimension is {f['inst_dim']}")
            pos = 0
            for n, c in enumerate(f["count"]):
                pids = f["pid"][pos:pos + c]
                if any(b <= a for a, b in zip(pids, pids[1:])) or any(p < k for k, p in enumerate(pids)):
                    bad.append(f"{f['name']} record {n}: pids {pids} not strictly increasing with pid[k] >= k")
                pos += c
    return bad


def run(ctx: Ctx):
    use_repo()
    n = 400 if ctx.thorough else 60
    cases = special_cases(ctx.seed * 1000) + [scen.gen(ctx.seed * 100000 + k) for k in range(n)]
    for k, sc in enumerate(cases):
        if k % 4 == 1:
            sc["reference_s"] = sc["start"] - 3600
            sc["reference"] = scen.lab.tstr(sc["reference_s"])
        if k % 4 == 3:
            # a reference time decades away (1970-01-01T00:00:07): record times near 1e9 s, not multiples of 64 s
            sc["reference_s"] = -scen.lab.T0_S + 7
            sc["reference"] = scen.lab.tstr(sc["reference_s"])
    got = pmap(scen.run_real, cases)
    want = driver([scen.request(sc) for sc in cases])
    for sc, g, w in zip(cases, got, want):
        deaths = sum(len(v) for v in sc["kill"].values())
        ctx.case("run", [sc["seed"], sc["layout"], sc["rev"], sc["period"], sc["numrec"]], sample=scen.brief(sc), nontrivial=True)
        ctx.count("layout:" + sc["layout"]); ctx.count("dir:" + ("reversed" if sc["rev"] else "forward")); ctx.count("ibm-kills", deaths)
        if "error" in w:
            ctx.violation("tie-broken", "run", scen.brief(sc), dict(model=w, implementation=g["status"]))
            continue
        bad = monitor(sc, g)
        if bad:
            ctx.violation("failing-input", "run", scen.brief(sc), dict(broken=bad[:5], theorem="Ladim.C06.record_faithful / counts_sum"), tags=dict(first=bad[0][:20]))
            continue
        diffs = scen.compare_files(sc, g["files"], w["files"])
        if diffs:
            ctx.violation("failing-input", "run", scen.brief(sc),
                          dict(differences=[dict(what=a, implementation=str(b)[:400], model=str(c)[:400]) for a, b, c in diffs[:4]],
                               theorem="Ladim.C06.record_faithful / pvars_complete / dense_faithful (records = living particles of the model state)"),
                          tags=dict(first=diffs[0][0].split(" ")[-1], layout=sc["layout"]))

    # records of warm-started runs: the first record of such a run is not taken at step 0
    nw = 40 if ctx.thorough else 8
    wcases = [c08.make_base(ctx.seed * 100000 + 600 + k) for k in range(nw)]
    res = pmap(c08.run_base_and_restarts, wcases)
    reqs, meta = [], []
    for sc, g in zip(wcases, res):
        if g["status"] != "ok" or not g["restarts"]:
            continue
        base_recs = c08.records_of(g["files"], sc)
        npid_at = {e["step"]: e["npid"] for e in g["ibm"]["log"]}
        for rs in g["restarts"][:2]:
            fk = g["files"][rs["k"]]
            at, _ = c08.abs_times(fk)
            rstep = abs(int(round((at[-1] - sc["start"]) / scen.DT)))
            if rs["status"] != "ok" or npid_at.get(rstep, 0) > max(fk["pid"] + [-1]) + 1:
                continue   # restart itself, and the unrecorded-pid finding, are C08's business
            sc2, rq = c08.warm_request(sc, g, rs["k"], base_recs)
            reqs.append(rq); meta.append((sc2, rs, dict(scenario=scen.brief(sc), restart_from=fk["name"], at_step=rstep)))
    want = driver(reqs)
    for (sc2, rs, case), w in zip(meta, want):
        ctx.case("warm-run", [sc2["seed"], case["restart_from"]], sample=case, nontrivial=True)
        if "error" in w:
            ctx.violation("tie-broken", "warm-run", case, dict(model=w)); continue
        bad = monitor(sc2, dict(status="ok", files=rs["files"]))
        diffs = scen.compare_files(sc2, rs["files"], w["files"])
        if bad or diffs:
            ctx.violation("failing-input", "warm-run", case,
                          dict(broken=bad[:3], differences=[dict(what=a, implementation=str(x)[:300], model=str(y)[:300]) for a, x, y in diffs[:3]],
                               theorem="Ladim.C06.record_faithful (records of a warm-started run)"),
                          tags=dict(first=(bad[0][:20] if bad else diffs[0][0].split(" ")[-1])))
