"""C16 — longitude/latitude and grid coordinates are mutually consistent; the 2-D sampler.
(a) ladim.sample.sample2D on random fields/masks/substitute values (0.0 included) against
Ladim.Model.Sample.sample2D; (b) bilin_inv on affine grids (exact) and on polar-stereographic and
rotated grids of 0.8–20 km resolution against the model's Newton iteration, with the a-posteriori
residual and the round trip as monitors; (c) Grid.xy2ll / ll2xy on subgrids; (d) release by
lon/lat and lon/lat output end to end."""
from __future__ import annotations

import math
from fractions import Fraction

import numpy as np

from harness import lab
from harness.common import Ctx, driver, pmap, parse_rat, rat_s, use_repo, close


def polar_grid(imax, jmax, dx, xp, yp, ylon=58.0, lat0=60.0):
    """lon/lat of a polar-stereographic grid (sphere), shape (jmax, imax)."""
    R = 6371000.0
    i, j = np.meshgrid(np.arange(imax), np.arange(jmax))
    x = (i - xp) * dx
    y = (j - yp) * dx
    r = np.hypot(x, y)
    k = R * (1 + math.sin(math.radians(lat0)))
    lat = 90.0 - 2.0 * np.degrees(np.arctan(r / k))
    lon = ylon + np.degrees(np.arctan2(x, -y))
    return lon, lat


def f2(a):
    return [[rat_s(x) for x in row] for row in a]


def sample2d_cases(ctx: Ctx):
    r = np.random.RandomState(ctx.seed + 61)
    cases = []
    for k in range(400 if ctx.thorough else 80):
        jmax, imax = int(r.randint(2, 7)), int(r.randint(2, 8))
        F = r.randint(-40, 41, size=(jmax, imax)) / 4.0
        mask = None
        if k % 3 == 1:
            mask = (r.rand(jmax, imax) < 0.6).astype(float)
        elif k % 3 == 2:
            mask = np.zeros((jmax, imax))
        undef = float(r.choice([0.0, -999.0, 7.5]))
        outside = [None, 0.0, -1.0, 99.5][k % 4]
        pts = []
        for _ in range(10):
            x = float(r.choice([r.randint(0, (imax - 1) * 8) / 8.0, imax - 1, 0.0, -0.125, imax - 0.5, imax - 1 - 1 / 64]))
            y = float(r.choice([r.randint(0, (jmax - 1) * 8) / 8.0, jmax - 1, 0.0, -2.0, jmax + 1.0, jmax - 1 - 1 / 64]))
            pts.append((x, y))
        if mask is not None and mask.sum() > 0:
            # a hair's breadth from a masked node, towards a valid one: the valid node is the only one that counts,
            # however small its weight
            eps = float(r.choice([2.0 ** -30, 2.0 ** -40, 2.0 ** -17]))
            for j in range(jmax):
                for i in range(imax - 1):
                    if mask[j, i] == 0 and mask[j, i + 1] == 1 and len(pts) < 14:
                        pts.append((i + eps, float(j)))
                    if mask[j, i] == 1 and mask[j, i + 1] == 0 and len(pts) < 14:
                        pts.append((i + 1 - eps, float(j)))
        cases.append(dict(F=F, mask=mask, undef=undef, outside=outside, pts=pts))
    return cases


def run_bilin(job):
    use_repo()
    from ladim.sample import bilin_inv, sample2D
    lon, lat = job["lon"], job["lat"]
    out = []
    for (f, g) in job["targets"]:
        try:
            y, x = bilin_inv(np.array(f), np.array(g), lon, lat)
            res = sample2D(lon, np.array(float(x)), np.array(float(y)), outside_value=-9999.0), sample2D(lat, np.array(float(x)), np.array(float(y)), outside_value=-9999.0)
            out.append(dict(x=float(x), y=float(y), resid=float((res[0] - f) ** 2 + (res[1] - g) ** 2)))
        except Exception as e:  # noqa: BLE001
            out.append(dict(error=type(e).__name__))
    # vectorised call with all targets at once
    try:
        fs = np.array([t[0] for t in job["targets"]]); gs = np.array([t[1] for t in job["targets"]])
        Y, X = bilin_inv(fs, gs, lon, lat)
        vec = dict(x=[float(v) for v in X], y=[float(v) for v in Y])
    except Exception as e:  # noqa: BLE001
        vec = dict(error=type(e).__name__)
    return dict(single=out, vector=vec)


def run_e2e(job):
    """release by lon/lat and lon/lat output through a whole run on a polar-stereographic grid"""
    use_repo()
    from ladim.sample import sample2D
    lon, lat = job["lon"], job["lat"]
    jmax, imax = lon.shape
    with lab.scratch() as d:
        mask = np.ones((jmax, imax))
        for (lj, li) in job.get("land", []):
            mask[lj, li] = 0
        lab.make_grid_forcing(d / "f.nc", [0, 6400], imax=imax, jmax=jmax, N=2, lon=lon, lat=lat, dx=job["dx"], mask=mask,
                              u=lambda t, k, j, i: 0.25 * job["dx"] / 64 + 0 * k, v=lambda t, k, j, i: -0.125 * job["dx"] / 64 + 0 * k)
        rows = [dict(release_time=0, lon=float(lo), lat=float(la), Z=1.0) for lo, la in job["targets"]]
        lab.write_release(d / "release.rls", rows)
        conf = lab.base_conf(d, 0, 64 * 4, 64, 64, str(d / "f.nc"), advection="EF", layout=job["layout"], subgrid=job.get("subgrid"),
                             ivars=dict(lon="float", lat="float"), out_ivars=("pid", "X", "Y", "Z", "lon", "lat"), numrec=job.get("numrec", 0))
        st = lab.run(conf, d)
        if st != "ok":
            return dict(status=st)
        import glob
        res = dict(status=st, lon_err=0.0, lat_err=0.0, n=0, files=0)
        for fn in sorted(glob.glob(str(d / "out*.nc"))):      # every file of a split output
            o = lab.read_out(fn)
            if job["layout"] == "sparse":
                X, Y, LON, LAT = (np.ma.filled(np.ma.asarray(o[v], dtype=float), np.nan) for v in ("X", "Y", "lon", "lat"))
                n0 = int(o["particle_count"][0]) if len(o["particle_count"]) else 0
            else:
                ok_ = ~np.isnan(o["X"]) & (np.abs(o["X"]) < 1e30)
                X, Y, LON, LAT = (np.ma.filled(np.ma.asarray(o[v], dtype=float), np.nan)[ok_] for v in ("X", "Y", "lon", "lat"))
                n0 = len(rows)
            if len(X):
                okp = np.isfinite(X) & np.isfinite(Y) & (X >= 0) & (Y >= 0) & (X <= imax - 1) & (Y <= jmax - 1)
                if not okp.all():
                    res["lon_err"] = res["lat_err"] = float("inf")      # a record position that is not a position
                    X, Y, LON, LAT = X[okp], Y[okp], LON[okp], LAT[okp]
                elon = sample2D(lon, X, Y, outside_value=np.nan); elat = sample2D(lat, X, Y, outside_value=np.nan)
                le, la = np.abs(LON - elon), np.abs(LAT - elat)
                if len(le):
                    res["lon_err"] = max(res["lon_err"], float(np.max(np.where(np.isnan(le), np.inf, le))))
                    res["lat_err"] = max(res["lat_err"], float(np.max(np.where(np.isnan(la), np.inf, la))))
            if res["files"] == 0:
                res["first"] = [[float(X[k]), float(Y[k])] for k in range(min(n0, len(X)))]
            res["n"] += int(len(X)); res["files"] += 1
        return res


def run(ctx: Ctx):
    use_repo()
    from ladim.sample import sample2D
    # ---------------- (a) the 2-D sampler
    cases = sample2d_cases(ctx)
    reqs = []
    for c in cases:
        rq = dict(op="sample2d", F=f2(c["F"]), undef=rat_s(c["undef"]), points=[[rat_s(x), rat_s(y)] for x, y in c["pts"]])
        if c["mask"] is not None:
            rq["mask"] = f2(c["mask"])
        if c["outside"] is not None:
            rq["outside"] = rat_s(c["outside"])
        reqs.append(rq)
    want = driver(reqs)
    for c, w in zip(cases, want):
        small = dict(F=c["F"].tolist(), mask=None if c["mask"] is None else c["mask"].tolist(), undef=c["undef"], outside=c["outside"])
        for (x, y), m in zip(c["pts"], w):
            ctx.case("sample2D", [str(small), x, y], sample=dict(small, point=[x, y], model=m))
            ctx.count("outside_value:" + str(c["outside"])); ctx.count("mask:" + ("none" if c["mask"] is None else ("all-masked" if c["mask"].sum() == 0 else "partial")))
            try:
                g = float(sample2D(c["F"], np.array(x), np.array(y), mask=c["mask"], undef_value=c["undef"], outside_value=c["outside"]))
            except ValueError:
                g = "ValueError"
            except IndexError:
                g = "IndexError"
            mm = m if isinstance(m, str) and m.endswith("Error") else float(parse_rat(m))
            ok = (g == mm) if isinstance(g, str) or isinstance(mm, str) else close(g, mm, rel=1e-12, abs_=1e-12)
            if not ok:
                ctx.violation("failing-input", "sample2D", dict(small, point=[x, y]), dict(implementation=g, model=mm,
                              theorem="Ladim.C16.sample2D_* (exact on bilinear fields, convex, masked nodes ignored, outside value returned)"),
                              tags=dict(first="sample2D", outside=str(c["outside"])))
                break
    # ---------------- (b) bilin_inv: affine (exact) and curved grids
    r = np.random.RandomState(ctx.seed + 62)
    jobs = []
    for k in range(40 if ctx.thorough else 10):
        jmax, imax = int(r.randint(4, 9)), int(r.randint(4, 10))
        a, b, c_, d_ = (float(x) / 8 for x in r.randint(1, 9, size=4))
        j, i = np.meshgrid(np.arange(jmax), np.arange(imax), indexing="ij")
        lon = 5.0 + a * i - b * j / 4
        lat = 60.0 + c_ * i / 4 + d_ * j
        tg = []
        for _ in range(8):
            x = r.randint(0, (imax - 1) * 16) / 16.0; y = r.randint(0, (jmax - 1) * 16) / 16.0
            tg.append((float(5.0 + a * x - b * y / 4), float(60.0 + c_ * x / 4 + d_ * y), x, y))
        jobs.append(dict(kind="affine", lon=lon, lat=lat, targets=[(t[0], t[1]) for t in tg], truth=[(t[2], t[3]) for t in tg]))
    for k in range(24 if ctx.thorough else 6):
        dx = [20000.0, 4000.0, 800.0][k % 3]
        imax, jmax = [(60, 50), (120, 90), (90, 70)][k % 3]
        lon, lat = polar_grid(imax, jmax, dx, xp=float(r.uniform(-200, 400)) * 4000 / dx + imax / 2, yp=float(r.uniform(500, 1500)) * 4000 / dx,
                              ylon=float(r.uniform(0, 80)))
        tg = []
        for _ in range(10):
            x = float(r.uniform(0.6, imax - 1.6)); y = float(r.uniform(0.6, jmax - 1.6))
            if _ < 4:   # near the far edges
                x = float(r.choice([r.uniform(0.1, 2), r.uniform(imax - 3, imax - 1.1)])); y = float(r.choice([r.uniform(0.1, 2), r.uniform(jmax - 3, jmax - 1.1)]))
            tg.append((float(sample2D(lon, np.array(x), np.array(y))), float(sample2D(lat, np.array(x), np.array(y))), x, y))
        jobs.append(dict(kind=f"polar-stereographic {dx:.0f} m", lon=lon, lat=lat, targets=[(t[0], t[1]) for t in tg], truth=[(t[2], t[3]) for t in tg], dx=dx))
    res = pmap(run_bilin, jobs, warm=False)
    reqs = [dict(op="bilininv", F=f2(j_["lon"]), G=f2(j_["lat"]), tol="1/10000000", maxiter=7, exact=(j_["kind"] == "affine"),
                 targets=[[rat_s(f), rat_s(g)] for f, g in j_["targets"]]) for j_ in jobs]
    want = driver(reqs, par=True)
    for job, g, w in zip(jobs, res, want):
        for k, ((f, gg), (tx, ty)) in enumerate(zip(job["targets"], job["truth"])):
            case = dict(grid=job["kind"], shape=list(job["lon"].shape), target=[f, gg], true_position=[tx, ty])
            ctx.case("bilin_inv", [job["kind"], f, gg], sample=dict(case, implementation=g["single"][k]))
            ctx.count("grid:" + job["kind"].split(" ")[0])
            s = g["single"][k]
            if "error" in s:
                ctx.violation("failing-input", "bilin_inv", case, dict(implementation=s["error"], theorem="Ladim.C16.bilin_inv_in_bounds"), tags=dict(first="bilin_inv-raises"))
                continue
            # the function returns (y, x) in its own (transposed) convention: x along axis 0
            bad = []
            if s["resid"] >= 1e-7 * 1.0001:
                bad.append(f"squared lon/lat residual {s['resid']:.3e} not below the tolerance 1e-7")
            px, py = s["x"], s["y"]      # ll2xy convention: Y, X = bilin_inv(...): x along columns, y along rows
            if job["kind"] == "affine" and (abs(px - tx) > 1e-9 or abs(py - ty) > 1e-9):
                bad.append(f"affine grid: inverse is not exact: ({px}, {py}) vs ({tx}, {ty})")
            if bad:
                ctx.violation("failing-input", "bilin_inv", case, dict(broken=bad, implementation=s, theorem="Ladim.C16.bilin_inv_affine_exact / bilin_inv_converged_residual"),
                              tags=dict(first="bilin_inv"))
                continue
            m = w[k]
            if m == "IndexError":
                ctx.violation("tie-broken", "bilin_inv", case, dict(model="IndexError", implementation=s)); continue
            mx, my = float(parse_rat(m[0])), float(parse_rat(m[1]))
            # the model returns (first-axis, second-axis) coordinates = (Y, X)
            if abs(mx - s["y"]) > 1e-6 or abs(my - s["x"]) > 1e-6:
                ctx.violation("tie-broken", "bilin_inv", case, dict(implementation=[s["y"], s["x"]], model=[mx, my],
                              correspondence="Newton iterates of bilin_inv vs Ladim.bilinInvStep (rounded between iterations)"))
        if "error" in g["vector"]:
            ctx.violation("failing-input", "bilin_inv-vectorised", dict(grid=job["kind"], targets=job["targets"]), dict(implementation=g["vector"]["error"]), tags=dict(first="bilin_inv-raises"))
        elif all("error" not in s_ for s_ in g["single"]):
            # the model is the iteration for one target; a call with several targets is that, target by target
            ctx.case("bilin_inv-vectorised", [job["kind"], len(job["targets"])], nontrivial=True)
            vx, vy = g["vector"]["x"], g["vector"]["y"]
            dif = [k_ for k_, s_ in enumerate(g["single"]) if (s_["x"], s_["y"]) != (vx[k_], vy[k_])]
            if dif:
                k_ = dif[0]
                ctx.violation("tie-broken", "bilin_inv-vectorised", dict(grid=job["kind"], targets=job["targets"]),
                              dict(target=k_, alone=[g["single"][k_]["x"], g["single"][k_]["y"]], with_the_others=[vx[k_], vy[k_]],
                                   correspondence="bilin_inv on several targets vs Ladim.bilinInv target by target (each target stops on its own residual)"))
    # ---------------- (c) Grid.xy2ll / ll2xy round trip on (sub)grids, (d) end to end
    ejobs = []
    for k in range(12 if ctx.thorough else 4):
        dx = [4000.0, 800.0, 20000.0][k % 3]
        imax, jmax = 40, 30
        lon, lat = polar_grid(imax, jmax, dx, xp=float(r.uniform(-100, 200)) * 4000 / dx, yp=float(r.uniform(600, 1200)) * 4000 / dx, ylon=float(r.uniform(0, 60)) if k % 4 != 3 else float(r.uniform(178, 184)))   # every fourth grid lies across the date line
        sub = None if k % 2 == 0 else [3, 35, 2, 27]
        lo = (sub or [1, imax - 1, 1, jmax - 1])
        tg = []
        for _ in range(6):
            x = float(r.uniform(lo[0] + 1.0, lo[1] - 2.5)); y = float(r.uniform(lo[2] + 1.0, lo[3] - 2.5))
            tg.append((float(sample2D(lon, np.array(x), np.array(y))), float(sample2D(lat, np.array(x), np.array(y))), x, y))
        ejobs.append(dict(lon=lon, lat=lat, dx=dx, subgrid=sub, layout=["sparse", "dense"][k % 2], targets=[(t[0], t[1]) for t in tg], truth=[(t[2], t[3]) for t in tg],
                          numrec=[0, 0, 2, 1][k % 4]))
    # land cells next to the particles: lon/lat are coordinates of the grid, land or sea — the particle's lon/lat is the
    # bilinear interpolation of all four corner nodes also in a cell with a land corner
    lon_c, lat_c = polar_grid(40, 30, 4000.0, xp=60.0, yp=900.0, ylon=30.0)
    land = [(12, 14), (12, 15), (20, 25)]
    pts = [(13.4, 11.6), (15.6, 12.45), (14.45, 12.55), (24.4, 19.6), (25.55, 20.45), (8.3, 6.2)]   # sea cells around the land cells
    tg = [(float(sample2D(lon_c, np.array(x), np.array(y))), float(sample2D(lat_c, np.array(x), np.array(y))), x, y) for x, y in pts]
    for lay in ("sparse", "dense"):
        ejobs.append(dict(lon=lon_c, lat=lat_c, dx=4000.0, subgrid=None, layout=lay, targets=[(t[0], t[1]) for t in tg],
                          truth=[(t[2], t[3]) for t in tg], numrec=0, land=land))
    # a grid whose longitudes run continuously past 180 degrees
    lon_d, lat_d = polar_grid(40, 30, 10000.0, xp=20.0, yp=300.0, ylon=181.0)
    tg = []
    for _ in range(6):
        x = float(r.uniform(2.0, 36.5)); y = float(r.uniform(2.0, 26.5))
        tg.append((float(sample2D(lon_d, np.array(x), np.array(y))), float(sample2D(lat_d, np.array(x), np.array(y))), x, y))
    ejobs.append(dict(lon=lon_d, lat=lat_d, dx=10000.0, subgrid=None, layout="sparse", targets=[(t[0], t[1]) for t in tg], truth=[(t[2], t[3]) for t in tg], numrec=0))
    # split output with lon/lat in the records, sparse layout
    ejobs.append(dict(ejobs[0], layout="sparse", numrec=2))
    ejobs.append(dict(ejobs[1], layout="sparse", numrec=1))
    eres = pmap(run_e2e, ejobs)
    for job, g in zip(ejobs, eres):
        case = dict(dx=job["dx"], subgrid=job["subgrid"], layout=job["layout"], numrec=job.get("numrec", 0), targets=job["targets"])
        ctx.case("lonlat-end-to-end", [job["dx"], str(job["subgrid"]), job["layout"], job.get("numrec", 0)], sample=dict(case, result=g))
        if g.get("status") != "ok":
            ctx.violation("failing-input", "lonlat-end-to-end", case, dict(status=g.get("status")), tags=dict(first="status")); continue
        bad = []
        if g["lon_err"] > 1e-9 or g["lat_err"] > 1e-9:
            bad.append(f"lon/lat in the output are not the bilinear interpolation at the record position (max error {g['lon_err']:.2e}, {g['lat_err']:.2e})")
        # cells are at most ~ dx metres; tolerance 1e-7 deg² => 3.2e-4 deg ~ 35 m
        cell_tol = 3.2e-4 * 111000.0 / job["dx"] * 1.5
        for (px, py), (tx, ty) in zip(g["first"], job["truth"]):
            if abs(px - tx) > cell_tol or abs(py - ty) > cell_tol:
                bad.append(f"release by lon/lat starts at ({px}, {py}), the position with that lon/lat is ({tx}, {ty})")
        if bad:
            ctx.violation("failing-input", "lonlat-end-to-end", case, dict(broken=bad[:4], theorem="Ladim.C16.output_lonlat_is_sample / ll2xy residual"), tags=dict(first="lonlat"))
