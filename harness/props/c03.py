"""C03 — forcing in time.  The real ladim.ROMS.Forcing is stepped over synthetic files for every
frame layout / file partition / start offset / direction up to a bound (plus seeded random larger
ones); the velocity at fractions 0, ½, 1 of a step and the scalar field at a probe particle are
compared with the Lean time machine (Ladim.Model.Forcing) and with its specification
(`interpFrames`, `latestFrame`)."""
from __future__ import annotations

import itertools
import os
from fractions import Fraction

import numpy as np

from harness import lab
from harness.common import Ctx, driver, pmap, parse_rat, use_repo, close

DT = 64
FRACS = [Fraction(0), Fraction(1, 2048), Fraction(1, 512), Fraction(1, 2), Fraction(1)]


def frame_values(nf, seed):
    """Distinct dyadic values per frame (u), (v), (scalar)."""
    r = np.random.RandomState(seed)
    u = [int(x) / 8.0 for x in r.permutation(64)[:nf] - 32]
    v = [int(x) / 16.0 + 5 for x in r.permutation(64)[:nf]]
    s = [int(x) / 2.0 + 100 for x in r.permutation(64)[:nf]]
    return u, v, s


def build(case):
    """frames: list of (step relative to start, file, idx) and the per-file tables."""
    gaps, cuts, off = case["gaps"], case["cuts"], case["offset"]
    fsteps = [0]
    for g in gaps:
        fsteps.append(fsteps[-1] + g)
    fsteps = [s - off for s in fsteps]       # steps relative to the start
    files = []
    cur = [0]
    for k in range(1, len(fsteps)):
        if k in cuts:
            files.append(cur); cur = []
        cur.append(k)
    files.append(cur)
    return fsteps, files


def run_case(case):
    use_repo()
    from ladim.ROMS import Forcing, Grid
    from ladim.state import State
    from ladim.timekeeper import TimeKeeper
    fsteps, files = build(case)
    nf = len(fsteps)
    U, V, S = frame_values(nf, case["vseed"])
    sg = -1 if case["rev"] else 1
    nsteps = case["nsteps"]
    with lab.scratch() as d:
        names = []
        for k, members in enumerate(files):
            # in a reversed run simulation order is descending time: file names are given in *time* order
            names.append(d / f"f_{k:03d}.nc")
        order = list(range(len(files)))
        if case["rev"]:
            # time-ascending file order is the reverse of simulation order
            names = names[::-1]
        for k, members in enumerate(files):
            times = [sg * fsteps[m] * DT for m in members]
            mem = members
            if case["rev"]:
                times = times[::-1]; mem = members[::-1]
            uu = {t: U[m] for t, m in zip(times, mem)}
            vv = {t: V[m] for t, m in zip(times, mem)}
            ss = {t: S[m] for t, m in zip(times, mem)}
            # storage differs from file to file: float, or packed int16 with its own scale factor
            scale = [None, 1.0 / 16, 1.0 / 64, None, 1.0 / 32][(case["vseed"] + k) % 5]
            lab.make_grid_forcing(names[k], times, scale_uv=scale,
                                  u=lambda t, kk, j, i, uu=uu: uu[t] + 0 * kk,
                                  v=lambda t, kk, j, i, vv=vv: vv[t] + 0 * kk,
                                  scal=dict(temp=lambda t, kk, j, i, ss=ss: ss[t] + 0 * kk) if case["scalar"] else None,
                                  dx=128.0)
        try:
            tk = TimeKeeper(start=lab.tstr(0), stop=lab.tstr(sg * max(nsteps, 1) * DT), dt=DT, time_reversal=case["rev"])
            grid = Grid(filename=min(names))
            st = State(instance_variables=dict(temp=float) if case["scalar"] else None)
            st.append(X=np.array([3.0, 6.5]), Y=np.array([4.0, 5.25]), Z=np.array([5.0, 20.0]))
            modules = dict(time=tk, grid=grid, state=st)
            forcing = Forcing(modules=modules, filename=str(d / "f_*.nc"), extra_forcing=["temp"] if case["scalar"] else None)
        except SystemExit as e:
            return dict(error=f"exit{e.code}")
        except Exception as e:  # noqa: BLE001
            return dict(error=type(e).__name__ + ":" + str(e)[:100])
        out = []
        try:
            for n in range(nsteps):
                tk.update()
                forcing.update()
                vel = []
                for f in FRACS:
                    u_, v_ = forcing.velocity(st.X, st.Y, st.Z, fractional_step=float(f))
                    vel.append([[float(x) for x in u_], [float(x) for x in v_]])
                rec = dict(vel=vel, var_u=[float(x) for x in forcing.variables["u"]])
                if case["scalar"]:
                    rec["temp"] = [float(x) for x in st["temp"]]
                out.append(rec)
            forcing.close()
        except Exception as e:  # noqa: BLE001
            return dict(error=type(e).__name__ + ":" + str(e)[:100], steps=out)
        return dict(steps=out)


def requests(case):
    fsteps, files = build(case)
    U, V, S = frame_values(len(fsteps), case["vseed"])
    frames = []
    tabU, tabV, tabS = [], [], []
    for k, members in enumerate(files):
        # position of a frame inside its file: files hold their frames in ascending *time*
        order = members[::-1] if case["rev"] else members
        tabU.append([str(Fraction(U[m])) for m in order])
        tabV.append([str(Fraction(V[m])) for m in order])
        tabS.append([str(Fraction(S[m])) for m in order])
        for m in members:
            frames.append([fsteps[m], k, order.index(m)])
    base = dict(op="forcing", frames=frames, valS=tabS, scalar=case["scalar"], nsteps=case["nsteps"],
                fracs=[str(f) for f in FRACS])
    return dict(base, valU=tabU), dict(base, valU=tabV)


def cases(ctx: Ctx):
    out = []
    gapset = (1, 2, 3, 4) if ctx.thorough else (1, 2, 3)
    maxnf = 5 if ctx.thorough else 4
    k = 0
    for nf in range(2, maxnf + 1):
        for gaps in itertools.product(gapset, repeat=nf - 1):
            if nf == maxnf and not ctx.thorough and sum(gaps) > 7:
                continue
            for ncut in range(0, nf):
                for cuts in itertools.combinations(range(1, nf), ncut):
                    total = sum(gaps)
                    for off in range(0, gaps[0] + (1 if nf > 2 else 0)):
                        # start `off` steps after the first frame; run as far as the frames reach
                        nsteps = total - off
                        if nsteps < 1:
                            continue
                        k += 1
                        for rev in (False, True):
                            scalar = (k + rev) % 2 == 0
                            if not ctx.thorough and nf == maxnf and (k % 3):
                                continue
                            out.append(dict(gaps=list(gaps), cuts=list(cuts), offset=off, nsteps=nsteps,
                                            rev=rev, scalar=scalar, vseed=k % 17))
    r = ctx.rng
    for _ in range(600 if ctx.thorough else 60):
        nf = r.randrange(3, 9)
        gaps = [r.choice([1, 1, 2, 3, 4, 5, 8]) for _ in range(nf - 1)]
        cuts = sorted(r.sample(range(1, nf), r.randrange(0, nf)))
        off = r.randrange(0, gaps[0] + gaps[1]) if r.random() < 0.5 else r.randrange(0, gaps[0] + 1)
        nsteps = r.randrange(1, sum(gaps) - off + 1)
        out.append(dict(gaps=gaps, cuts=cuts, offset=off, nsteps=nsteps, rev=r.random() < 0.5,
                        scalar=r.random() < 0.7, vseed=r.randrange(1000)))
    return out


def run(ctx: Ctx):
    use_repo()
    cs = cases(ctx)
    got = pmap(run_case, cs)
    reqs = []
    for c in cs:
        a, b = requests(c)
        reqs += [a, b]
    want = driver(reqs)
    for k, (c, g) in enumerate(zip(cs, got)):
        wu, wv = want[2 * k], want[2 * k + 1]
        ctx.case("layout", [c[x] for x in ("gaps", "cuts", "offset", "nsteps", "rev", "scalar")],
                 sample=dict(case=c, model_first_step=wu["steps"][:1]), nontrivial=True)
        ctx.count("files:%d" % (len(c["cuts"]) + 1))
        ctx.count("dir:" + ("reversed" if c["rev"] else "forward"))
        ctx.count("gap1:" + str(1 in c["gaps"]))
        sg = -1.0 if c["rev"] else 1.0
        if "error" in g and "steps" not in g or "error" in wu:
            if ("error" in g) != ("error" in wu):
                ctx.violation("failing-input", "layout", c, dict(implementation=g.get("error", "ran"), model=wu.get("error", "ran"),
                              note="a layout the forcing covers must run; one it does not cover must not"), tags=dict(first="status"))
            continue
        bad = None
        where = "model"
        steps = g.get("steps", [])
        if len(steps) < c["nsteps"]:
            bad = dict(step=len(steps), what="stopped", implementation=g.get("error"), model="runs")
        for n, rec in enumerate(steps):
            if bad:
                break
            for fi, f in enumerate(FRACS):
                for comp, w in ((0, wu), (1, wv)):
                    m = float(parse_rat(w["steps"][n]["vel"][fi])) * sg
                    spec = w["spec"][n][fi]
                    for pv in rec["vel"][fi][comp]:
                        if not close(pv, m, rel=2e-6, abs_=2e-6):
                            # does the specification itself (interpolation at n+f) disagree as well?
                            sp_ok = spec is not None and FRACS[fi] != Fraction(1, 2048) and close(pv, float(parse_rat(spec)) * sg, rel=2e-6, abs_=2e-6)
                            bad = dict(step=n, frac=str(f), component="uv"[comp], implementation=pv, model=m,
                                       spec=None if spec is None else float(parse_rat(spec)) * sg)
                            where = "model-only" if sp_ok else "spec"
                            break
                    if bad:
                        break
                if bad:
                    break
            if not bad and c["scalar"]:
                m = float(parse_rat(wu["steps"][n]["scal"]))
                for pv in rec["temp"]:
                    if pv != m:
                        bad = dict(step=n, what="scalar", implementation=pv, model=m, spec=wu["spec_scal"][n])
                        where = "spec"
        if bad:
            kind = "failing-input" if where == "spec" or "what" in bad else "tie-broken"
            ctx.violation(kind, "layout", c, dict(bad, theorem="Ladim.C03.u_eq_interp / velocity_frac / scalar_latest"),
                          tags=dict(first=str(bad.get("what", "velocity")), rev=c["rev"]))

    # ---- whole simulations whose first release is later than the start (the forcing must march in time from the start
    # of the run, particles or not), frames several steps apart, one or several files, both directions
    from harness import scen
    ne = 40 if ctx.thorough else 10
    ecases = [scen.gen(ctx.seed * 100000 + 3500 + k, first_release=[2, 3, 1][k % 3], nsteps=[6, 8, 10][k % 3], kills=False, continuous=bool(k % 4 == 1),
                       rev=bool(k % 2), layout="sparse", scheme=["EF", "RK2", "RK4"][k % 3], late_release=False) for k in range(ne)]
    scen.e2e_stream(ctx, "whole-run-late-release", ecases, "Ladim.WholeForcing.oracle_space_time / force_latest (fields of step n whatever the particle count)")
