"""Synthetic ROMS grid/forcing files, release files, configurations; in-process runs of
ladim.main.main on the working tree under test; reading output files back."""
from __future__ import annotations

import contextlib
import gc
import io
import logging
import os
import shutil
import tempfile
from pathlib import Path

import numpy as np
import yaml
from netCDF4 import Dataset

T0 = np.datetime64("2000-01-01T00:00:00")
T0_S = 946684800


def tstr(sec) -> str:
    return str(T0 + np.timedelta64(int(sec), "s"))


_scratch_depth = [0]


@contextlib.contextmanager
def scratch():
    """A scratch directory.  A process gets the *same* path every time (one per nesting depth), emptied in between:
    the set-ups that follow each other in a worker process have the same file names and other contents, as when a user
    regenerates a set-up in place and runs it again — nothing the program remembers about a path may outlive the file."""
    base = Path(tempfile.gettempdir()) / f"ladimverif_p{os.getpid()}"
    d = base / f"d{_scratch_depth[0]}"
    shutil.rmtree(d, ignore_errors=True)
    d.mkdir(parents=True)
    _scratch_depth[0] += 1
    try:
        yield d
    finally:
        _scratch_depth[0] -= 1
        shutil.rmtree(d, ignore_errors=True)
        if _scratch_depth[0] == 0:
            shutil.rmtree(base, ignore_errors=True)


def make_grid_forcing(fname, times_s, imax=12, jmax=10, N=3, h=None, mask=None,
                      u=None, v=None, scal=None, dx=100.0, hc=0.0, t0=T0, write_grid=True,
                      lon=None, lat=None, Cs_r=None, Cs_w=None, vtransform=None, scale_uv=None,
                      w=None, time_units=None, angle=None, scal_pack=None, time_ref_s=None):
    """Write one ROMS-like file.

    times_s: seconds since t0 of the frames in this file.
    u(t, k, j, i) / v(...) / scal[name](...): vectorised functions of frame time and node
    indices (file indices of the u-, v- and rho-arrays) returning the node values.
    scale_uv: if given, u and v are stored packed as int16 with this scale_factor.
    """
    nc = Dataset(fname, "w")
    nc.createDimension("xi_rho", imax); nc.createDimension("eta_rho", jmax)
    nc.createDimension("xi_u", imax - 1); nc.createDimension("eta_u", jmax)
    nc.createDimension("xi_v", imax); nc.createDimension("eta_v", jmax - 1)
    nc.createDimension("s_rho", N); nc.createDimension("s_w", N + 1)
    nc.createDimension("ocean_time", None)
    tv = nc.createVariable("ocean_time", "f8", ("ocean_time",))
    if time_ref_s is not None:
        # the file counts its time from its own reference (time_ref_s seconds after t0), as files written by separate model runs do
        tv.units = f"seconds since {str(t0 + np.timedelta64(int(time_ref_s), 's')).replace('T', ' ')}"
        tv[:] = np.array(times_s, float) - float(time_ref_s)
    else:
        tv.units = time_units or f"seconds since {str(t0).replace('T', ' ')}"
        tv[:] = np.array(times_s, float)
    if write_grid:
        H = np.full((jmax, imax), 50.0) if h is None else np.broadcast_to(np.asarray(h, float), (jmax, imax))
        M = np.ones((jmax, imax)) if mask is None else np.asarray(mask, float)
        DX = np.broadcast_to(np.asarray(dx, float), (jmax, imax))
        nc.createVariable("h", "f8", ("eta_rho", "xi_rho"))[:] = H
        nc.createVariable("mask_rho", "f8", ("eta_rho", "xi_rho"))[:] = M
        nc.createVariable("pm", "f8", ("eta_rho", "xi_rho"))[:] = 1.0 / DX
        nc.createVariable("pn", "f8", ("eta_rho", "xi_rho"))[:] = 1.0 / DX
        nc.createVariable("angle", "f8", ("eta_rho", "xi_rho"))[:] = 0.0 if angle is None else angle
        jj, ii = np.meshgrid(np.arange(jmax), np.arange(imax), indexing="ij")
        LON = 5.0 + 0.125 * ii + 0.015625 * jj if lon is None else np.asarray(lon, float)
        LAT = 60.0 + 0.0625 * jj - 0.0078125 * ii if lat is None else np.asarray(lat, float)
        nc.createVariable("lon_rho", "f8", ("eta_rho", "xi_rho"))[:] = LON
        nc.createVariable("lat_rho", "f8", ("eta_rho", "xi_rho"))[:] = LAT
        nc.createVariable("hc", "f8", ())[...] = hc
        nc.createVariable("Cs_r", "f8", ("s_rho",))[:] = (-1.0 + (np.arange(N) + 0.5) / N) if Cs_r is None else Cs_r
        nc.createVariable("Cs_w", "f8", ("s_w",))[:] = (-1.0 + np.arange(N + 1) / N) if Cs_w is None else Cs_w
        if vtransform is not None:
            nc.createVariable("Vtransform", "i4", ())[...] = vtransform
    # scale_uv: one factor for both components, or a pair (factor of u, factor of v) as per-variable packing produces
    su, sv = (scale_uv if isinstance(scale_uv, (tuple, list)) else (scale_uv, scale_uv)) if scale_uv else (None, None)
    if scale_uv:
        U = nc.createVariable("u", "i2", ("ocean_time", "s_rho", "eta_u", "xi_u"))
        V = nc.createVariable("v", "i2", ("ocean_time", "s_rho", "eta_v", "xi_v"))
        for X, sc_ in ((U, su), (V, sv)):
            X.scale_factor = np.float32(sc_); X.add_offset = np.float32(0.0)
            X.set_auto_maskandscale(False)
    else:
        U = nc.createVariable("u", "f4", ("ocean_time", "s_rho", "eta_u", "xi_u"))
        V = nc.createVariable("v", "f4", ("ocean_time", "s_rho", "eta_v", "xi_v"))
    for n, t in enumerate(times_s):
        k, j, i = np.meshgrid(np.arange(N), np.arange(jmax), np.arange(imax - 1), indexing="ij")
        val = (u(t, k, j, i) if u else 0 * k) + 0.0 * k
        U[n] = np.rint(val / su).astype("i2") if scale_uv else val
        k, j, i = np.meshgrid(np.arange(N), np.arange(jmax - 1), np.arange(imax), indexing="ij")
        val = (v(t, k, j, i) if v else 0 * k) + 0.0 * k
        V[n] = np.rint(val / sv).astype("i2") if scale_uv else val
    allscal = dict(scal or {})
    if w is not None:
        allscal["w"] = w
    for name, f in allscal.items():
        # scal_pack[name] = (scale_factor, add_offset, storage type): the file holds (value - add_offset) / scale_factor
        sf, off, typ = (scal_pack or {}).get(name, (None, None, "f4"))
        S = nc.createVariable(name, typ, ("ocean_time", "s_rho", "eta_rho", "xi_rho"))
        if sf is not None:
            S.scale_factor = np.float32(sf); S.add_offset = np.float32(off)
            S.set_auto_maskandscale(False)
        for n, t in enumerate(times_s):
            k, j, i = np.meshgrid(np.arange(N), np.arange(jmax), np.arange(imax), indexing="ij")
            val = f(t, k, j, i) + 0.0 * k
            S[n] = val if sf is None else ((val - off) / sf).astype(typ)
    nc.close()


def write_release(fname, rows, header=True, cols=None):
    """rows: list of dicts with release_time (seconds since T0, or a string) and columns."""
    cols = cols or list(rows[0].keys())
    with open(fname, "w") as f:
        if header:
            f.write(" ".join(cols) + "\n")
        for r in rows:
            out = []
            for c in cols:
                x = r[c]
                if c == "release_time" and not isinstance(x, str):
                    x = tstr(x)
                elif isinstance(x, float):
                    x = repr(x)
                out.append(str(x))
            f.write(" ".join(out) + "\n")


def base_conf(d, start_s, stop_s, dt, outper, forcing_pattern, gridfile=None, advection="EF",
              reversed_=False, numrec=0, layout="sparse", extra_forcing=None, ibm=None,
              ivars=None, pvars=None, defaults=None, out_ivars=("pid", "X", "Y", "Z"), out_pvars=(),
              release=None, tracker=None, reference=None, subgrid=None, out_name="out.nc",
              warm_start=None, f4=()):
    conf = dict(
        version=2,
        time=dict(dt=dt, start=tstr(start_s), stop=tstr(stop_s)),
        forcing=dict(module="ladim.ROMS", filename=str(forcing_pattern)),
        release=dict(release_file=str(Path(d) / "release.rls")),
        state=dict(instance_variables=dict(ivars or {}), particle_variables=dict(pvars or {}),
                   default_values=dict(defaults or {})),
        tracker=dict(advection=advection),
        output=dict(filename=str(Path(d) / out_name), output_period=outper, layout=layout,
                    instance_variables={}, particle_variables={}),
    )
    if gridfile is not None:
        conf["grid"] = dict(module="ladim.ROMS", filename=str(gridfile))
    if reversed_:
        conf["time"]["time_reversal"] = True
    if reference is not None:
        conf["time"]["reference"] = reference
    if numrec:
        conf["output"]["numrec"] = numrec
    if extra_forcing:
        conf["forcing"]["extra_forcing"] = list(extra_forcing)
    if subgrid:
        conf.setdefault("grid", dict(module="ladim.ROMS", filename=str(gridfile or forcing_pattern)))
        conf["grid"]["subgrid"] = list(subgrid)
    if ibm:
        conf["ibm"] = ibm
    if release:
        conf["release"].update(release)
    if tracker:
        conf["tracker"].update(tracker)
    if warm_start:
        conf["warm_start"] = warm_start
    enc = dict(pid="i4", alive="i1", active="i1")
    for v in out_ivars:
        dt_ = "f4" if v in f4 else enc.get(v, "f8")
        conf["output"]["instance_variables"][v] = dict(encoding=dict(datatype=dt_), attributes=dict(long_name=v))
    for v in out_pvars:
        att = dict(long_name=v)
        if v == "release_time":
            att["units"] = "seconds since reference_time"
        conf["output"]["particle_variables"][v] = dict(encoding=dict(datatype="f8"), attributes=att)
    return conf


def run(conf, d, name="ladim.yaml", fmt="yaml"):
    """Run ladim.main.main on `conf` in directory d. Returns 'ok', 'exit<code>' or the exception class name."""
    from ladim.main import main
    if isinstance(conf, (dict,)):
        p = Path(d) / name
        with open(p, "w") as f:
            yaml.safe_dump(conf, f)
    else:
        p = Path(conf)        # an existing (or deliberately missing) configuration file
    logging.disable(logging.CRITICAL)
    cwd = os.getcwd()
    os.chdir(d)
    try:
        with contextlib.redirect_stdout(io.StringIO()):
            main(str(p), loglevel=logging.ERROR)
        return "ok"
    except SystemExit as e:
        return f"exit{e.code}"
    except Exception as e:  # noqa: BLE001
        return type(e).__name__
    finally:
        os.chdir(cwd)
        # a run that died in the time loop leaves its output data set open (and its records unflushed) until the
        # objects of the run are collected: what the interpreter would write at exit must be on disk before anyone counts records
        gc.collect()
        # drop handlers that main() installs on every call
        root = logging.getLogger()
        for h in list(root.handlers):
            root.removeHandler(h)


def read_out(fname):
    with Dataset(fname) as nc:
        nc.set_auto_mask(False)
        out = {k: nc.variables[k][:].copy() for k in nc.variables}
        out["_units"] = nc.variables["time"].units
        out["_dims"] = {k: len(v) for k, v in nc.dimensions.items()}
        out["_fill"] = {k: getattr(nc.variables[k], "_FillValue", None) for k in nc.variables}
        out["_attrs"] = {k: {a: nc.variables[k].getncattr(a) for a in nc.variables[k].ncattrs()} for k in nc.variables}
    return out


def records(o, vars_=("pid", "X", "Y", "Z")):
    """Records of a sparse file, retrieved as the format documentation prescribes."""
    pc = o["particle_count"]
    ends = np.cumsum(pc)
    starts = ends - pc
    recs = []
    for n in range(len(pc)):
        recs.append(dict(time=float(o["time"][n]),
                         **{v: o[v][starts[n]:ends[n]].tolist() for v in vars_ if v in o}))
    return recs


REC_IBM = '''
"""IBM plug-in that records the state after every step (and can age / kill particles)."""
import json
import numpy as np

LOG = []


class IBM:
    def __init__(self, modules, **kw):
        self.modules = modules
        self.kill = {int(k): v for k, v in (kw.get("kill") or {}).items()}   # step -> [pids]
        self.age = kw.get("age", False)
        self.logfile = kw.get("logfile")
        self.log = []
        self.closed = 0

    def update(self):
        st = self.modules["state"]
        step = int(self.modules["time"].step)
        if self.age and "age" in st.variables:
            st["age"] = st.age + 1.0
        if step in self.kill:
            alive = st.alive.copy()
            alive[np.isin(st.pid, self.kill[step])] = False
            st["alive"] = alive
        rec = dict(step=step, time=str(self.modules["time"].time))
        for v in st.instance_variables:
            a = st.variables[v]
            rec[v] = [float(x) if a.dtype.kind == "f" else int(x) for x in a] if a.dtype.kind != "M" else [str(x) for x in a]
        rec["npid"] = int(st.npid)
        self.log.append(rec)

    def close(self):
        self.closed += 1
        if self.logfile:
            with open(self.logfile, "w") as f:
                json.dump(dict(log=self.log, closed=self.closed), f)
'''


def write_rec_ibm(d, name="rec_ibm.py"):
    p = Path(d) / name
    p.write_text(REC_IBM)
    return p
