"""Runs under NUMBA_BOUNDSCHECK=1 (set before numba is imported): end-to-end scenarios and direct
kernel calls; reports every exception.  stdin: JSON job; stdout: JSON result."""
import json
import os
import sys

assert os.environ.get("NUMBA_BOUNDSCHECK") == "1"
sys.path.insert(0, "/verif")

import numpy as np  # noqa: E402

from harness import lab, scen  # noqa: E402
from harness.common import pmap, use_repo  # noqa: E402


def run_scen(job):
    use_repo()
    sc = scen.gen(job["seed"], **job["opts"])
    if job.get("diffusion"):
        sc["_D"] = job["diffusion"]
    if job.get("vinfo"):
        sc["rows"][0] = dict(sc["rows"][0], Z=0.0)          # a particle at the very surface
    with lab.scratch() as d:
        conf = scen.write(sc, d)
        if job.get("vinfo"):
            # the vertical grid described in the configuration instead of being read from the grid file
            import glob as _glob
            g_ = conf.get("grid") or dict(module="ladim.ROMS", filename=sorted(_glob.glob(str(d / "forcing_*.nc")))[0])
            g_["Vinfo"] = dict(N=sc["N"], hc=0.0, theta_s=5.0, theta_b=0.4)
            conf["grid"] = g_
        if job.get("diffusion"):
            conf["tracker"]["diffusion"] = job["diffusion"]
        if job.get("vertdiff"):
            conf["tracker"]["vertdiff"] = job["vertdiff"]
        import logging
        from ladim.main import main
        import yaml
        p = d / "ladim.yaml"
        with open(p, "w") as f:
            yaml.safe_dump(conf, f)
        logging.disable(logging.CRITICAL)
        cwd = os.getcwd(); os.chdir(d)
        try:
            main(str(p), loglevel=logging.ERROR)
            status = "ok"
        except SystemExit as e:
            status = f"exit{e.code}"
        except Exception as e:  # noqa: BLE001
            status = type(e).__name__ + ": " + str(e)[:120]
        finally:
            os.chdir(cwd)
            root = logging.getLogger()
            for h in list(root.handlers):
                root.removeHandler(h)
        ok_inside = True
        log = None
        if (d / "ibm_log.json").exists():
            log = json.loads((d / "ibm_log.json").read_text())
        return dict(status=status, brief=scen.brief(sc), steps=len(log["log"]) if log else 0)


def run_seq(jobs):
    """Several simulations one after the other in the same process (grids of different extent): nothing a run
    leaves behind may reach the next one."""
    return [run_scen(j) for j in jobs]


def run_lonlat(job):
    """A release given by longitude/latitude on a loaded window with unequal offsets, bounds-checked."""
    from harness.props.c16 import polar_grid, run_e2e
    from ladim.sample import sample2D
    use_repo()
    r = np.random.RandomState(job["seed"])
    dx = job["dx"]; imax, jmax = 40, 30
    lon, lat = polar_grid(imax, jmax, dx, xp=float(r.uniform(-100, 200)) * 4000 / dx, yp=float(r.uniform(600, 1200)) * 4000 / dx, ylon=float(r.uniform(0, 60)))
    sub = job["subgrid"]
    tg = []
    for _ in range(6):
        # also close to the northern and eastern edges of the window
        x = float(r.uniform(sub[0] + 1.0, sub[1] - 2.5)); y = float(r.uniform(sub[2] + 1.0, sub[3] - 2.5))
        tg.append((float(sample2D(lon, np.array(x), np.array(y))), float(sample2D(lat, np.array(x), np.array(y)))))
    try:
        g = run_e2e(dict(lon=lon, lat=lat, dx=dx, subgrid=sub, layout="sparse", targets=tg, numrec=0))
        return dict(status=g.get("status"))
    except Exception as e:  # noqa: BLE001
        return dict(status=type(e).__name__ + ": " + str(e)[:120])


def run_kernel(job):
    """Direct kernel calls at valid-region and clipped positions on a random window."""
    use_repo()
    from ladim.ROMS import sample3D, sample3DUV, z2s
    r = np.random.RandomState(job["seed"])
    N = job["N"]
    jmax, imax = int(r.randint(3, 9)), int(r.randint(3, 10))
    U = r.rand(N, jmax, imax + 1); V = r.rand(N, jmax + 1, imax); S = r.rand(N, jmax, imax)
    h = r.uniform(5, 100, size=(jmax, imax))
    zr = np.sort(-h[None, :, :] * r.rand(N, 1, 1), axis=0) if N > 1 else -h[None, :, :] * 0.5
    n = 200
    # local coordinates: valid region (0.5, imax-1.5), clip box [0.01, imax-1.01]
    X0 = r.uniform(0.5 + 1e-9, imax - 1.5 - 1e-9, n) if imax > 2 else np.full(n, 0.75)
    Y0 = r.uniform(0.5 + 1e-9, jmax - 1.5 - 1e-9, n) if jmax > 2 else np.full(n, 0.75)
    X = np.concatenate([X0[: n // 2], r.choice([0.01, imax - 1.01, 0.5, imax - 1.5], n - n // 2)])
    Y = np.concatenate([Y0[: n // 2], r.choice([0.01, jmax - 1.01, 0.5, jmax - 1.5], n - n // 2)])
    Z = r.choice([0.0, -1.0, 1e6, 3.0, 50.0], n)
    try:
        K, A = z2s(zr, X0, Y0, Z)
        sample3DUV(U, V, X, Y, K, A)
        sample3D(S, X0, Y0, K, A, method="nearest")
        return dict(status="ok", N=N, shape=[jmax, imax])
    except Exception as e:  # noqa: BLE001
        return dict(status=type(e).__name__ + ": " + str(e)[:100], N=N, shape=[jmax, imax], seed=job["seed"])


def main_():
    job = json.loads(sys.stdin.read())
    out = dict(scen=pmap(run_scen, job["scen"]), kernel=pmap(run_kernel, job["kernel"], warm=False),
               seq=pmap(run_seq, job.get("seq", []), chunksize=1), lonlat=pmap(run_lonlat, job.get("lonlat", [])))
    print("@@RESULT@@" + json.dumps(out))


if __name__ == "__main__":
    main_()
