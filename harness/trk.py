"""Function-grain harness around ladim.tracker.Tracker.update: real ROMS Grid built from a
synthetic file, real State, a plug-in forcing whose velocity is a polynomial in (x, y, fraction
of the step), a scripted random generator.  Shared by C01, C09, C11, C15."""
from __future__ import annotations

from fractions import Fraction

import numpy as np

from harness import lab
from harness.common import parse_rat, rat_s, use_repo


def poly(c, frac, X, Y):
    c0, cx, cy, ct, cxy, cxx, ctt = c
    return c0 + cx * X + cy * Y + ct * frac + cxy * X * Y + cxx * X * X + ctt * frac * frac


class PolyForcing:
    def __init__(self, cu, cv, w=None):
        self.cu, self.cv = [float(Fraction(x)) for x in cu], [float(Fraction(x)) for x in cv]
        self.variables = {"w": w}
        self.calls = []

    def velocity(self, X, Y, Z, fractional_step=0, method="bilinear"):
        self.calls.append(float(fractional_step))
        return poly(self.cu, fractional_step, X, Y) + 0.0 * X, poly(self.cv, fractional_step, X, Y) + 0.0 * X

    def update(self):
        pass

    def close(self):
        pass


class ScriptedRNG:
    """rng.normal(size=n) hands out the scripted numbers in order and logs the request sizes."""

    def __init__(self, numbers):
        self.numbers = list(numbers)
        self.pos = 0
        self.requests = []

    def normal(self, size=None, **kw):
        n = int(size)
        self.requests.append(n)
        out = np.array(self.numbers[self.pos:self.pos + n], dtype=float)
        if len(out) < n:
            out = np.concatenate([out, np.zeros(n - len(out))])
        self.pos += n
        return out


def grid_spec(seed, imax=12, jmax=10, land=True, dx=None, varh=True):
    """A small grid: mask with islands / a one-cell channel, variable depth, dyadic metric."""
    r = np.random.RandomState(seed)
    mask = np.ones((jmax, imax))
    if land:
        for _ in range(r.randint(0, 6)):
            mask[r.randint(1, jmax - 1), r.randint(1, imax - 1)] = 0
        if r.rand() < 0.4:
            j = r.randint(3, jmax - 3)
            mask[j, :] = 0
            mask[j, r.randint(2, imax - 2)] = 1
    h = r.choice([8.0, 16.0, 32.0, 64.0], size=(jmax, imax)) if varh else np.full((jmax, imax), 64.0)
    if dx is None:
        dx = float(r.choice([16.0, 128.0, 1024.0, 4096.0]))
    DX = np.full((jmax, imax), dx)
    if r.rand() < 0.5:
        DX = DX * r.choice([1.0, 2.0, 0.5], size=(jmax, imax))
    return dict(imax=imax, jmax=jmax, mask=mask, h=h, dx=DX, N=3, hc=0.0)


def file_json(gs):
    f2 = lambda a: [[rat_s(x) for x in row] for row in a]  # noqa: E731
    N = gs["N"]
    return dict(h=f2(gs["h"]), mask=f2(gs["mask"]), dx=f2(gs["dx"]), hc=rat_s(gs["hc"]),
                Cs_r=[rat_s(-1.0 + (k + 0.5) / N) for k in range(N)], vtransform=1)


def run_tracker(case):
    """case: grid seed/spec, subgrid, scheme, dt, D, Dz, vertadv, cu, cv, particles [x,y,z,alive,active],
    draws per step (list of lists: U block, V block, W block as consumed), w per step per particle, nsteps.
    Returns per step the particle arrays + rng request log + forcing call log."""
    use_repo()
    from ladim.ROMS import Grid
    from ladim.state import State
    from ladim.timekeeper import TimeKeeper
    from ladim.tracker import Tracker
    gs = case["grid"]
    with lab.scratch() as d:
        f = d / "grid.nc"
        lab.make_grid_forcing(f, [0], imax=gs["imax"], jmax=gs["jmax"], N=gs["N"], h=gs["h"], mask=gs["mask"], dx=gs["dx"], hc=gs["hc"])
        grid = Grid(filename=f, subgrid=case.get("subgrid"))
    if case.get("rev"):     # a backward run: the tracker itself reverses the vertical velocity
        tk = TimeKeeper(start=lab.tstr(10 ** 6), stop=lab.tstr(0), dt=case["dt"], time_reversal=True)
    else:
        tk = TimeKeeper(start=lab.tstr(0), stop=lab.tstr(10 ** 6), dt=case["dt"])
    st = State()
    P = np.array(case["particles"], dtype=float)
    st.append(X=P[:, 0], Y=P[:, 1], Z=P[:, 2])
    st["alive"] = P[:, 3] != 0
    st["active"] = P[:, 4] != 0
    force = PolyForcing(case["cu"], case["cv"])
    modules = dict(state=st, time=tk, grid=grid, forcing=force)
    trk = Tracker(advection=case["scheme"], diffusion=case.get("D", 0.0), vertdiff=case.get("Dz", 0.0),
                  vertical_advection=case.get("vertadv", False), modules=modules)
    out = []
    for n in range(case["nsteps"]):
        rng = ScriptedRNG(case["draws"][n] if case.get("draws") else [])
        trk.rng = rng
        if case.get("w"):
            force.variables["w"] = np.array(case["w"][n], dtype=float)
        force.calls = []
        try:
            trk.update()
        except Exception as e:  # noqa: BLE001
            out.append(dict(error=type(e).__name__ + ": " + str(e)[:80]))
            break
        out.append(dict(X=[float(x) for x in st.X], Y=[float(x) for x in st.Y], Z=[float(x) for x in st.Z],
                        alive=[bool(x) for x in st.alive], active=[bool(x) for x in st.active],
                        rng=list(rng.requests), fracs=list(force.calls)))
    lim = [int(grid.i0), int(grid.i1), int(grid.j0), int(grid.j1)]
    return dict(steps=out, limits=lim, M=grid.M.tolist(), H=np.asarray(grid.H).tolist())


def model_request(case):
    """The same case for the Lean model; diffusive/vertical velocities are passed as the exact
    values the implementation computed them to be (stddev·draw as a float)."""
    npart = len(case["particles"])
    forc = []
    dt = float(case["dt"])
    D, Dz = float(case.get("D", 0.0)), float(case.get("Dz", 0.0))
    for n in range(case["nsteps"]):
        draws = list(case["draws"][n]) if case.get("draws") else []
        pos = 0
        du = dv = wd = [0.0] * npart
        if D > 0:
            sd = (2 * D / dt) ** 0.5
            du = [sd * x for x in draws[pos:pos + npart]]; pos += npart
            dv = [sd * x for x in draws[pos:pos + npart]]; pos += npart
        if Dz > 0:
            sd = (2 * Dz / dt) ** 0.5
            wd = [sd * x for x in draws[pos:pos + npart]]; pos += npart
        wa = case["w"][n] if case.get("w") else [0.0] * npart
        if case.get("rev"):
            wa = [-x for x in wa]
        forc.append([[rat_s(a), rat_s(b), rat_s(c), rat_s(d_)] for a, b, c, d_ in zip(du, dv, wd, wa)])
    rq = dict(op="tracker", file=file_json(case["grid"]), scheme=case["scheme"] or "none", dt=rat_s(case["dt"]),
              vertadv=bool(case.get("vertadv", False)), vertdiff=Dz > 0, u=[str(Fraction(x)) for x in case["cu"]],
              v=[str(Fraction(x)) for x in case["cv"]],
              particles=[[rat_s(v) for v in p] for p in case["particles"]], forc=forc)
    if case.get("subgrid"):
        rq["subgrid"] = list(case["subgrid"])
    return rq


def compare_steps(got, want, rel=1e-11, abs_=1e-11):
    """First difference between the implementation's and the model's per-step particle states."""
    for n, (g, w) in enumerate(zip(got["steps"], want)):
        if "error" in g:
            return dict(step=n, what="raised", implementation=g["error"], model="runs" if "IndexError" not in w else "IndexError")
        for k, wp in enumerate(w):
            if wp == "IndexError":
                return dict(step=n, particle=k, what="model reads outside an array", implementation=[g["X"][k], g["Y"][k]])
            mx, my, mz = (float(parse_rat(wp[i])) for i in range(3))
            if g["alive"][k] != wp[3] or g["active"][k] != wp[4]:
                return dict(step=n, particle=k, what="alive/active", implementation=[g["alive"][k], g["active"][k]], model=[wp[3], wp[4]])
            for name, a, b in (("X", g["X"][k], mx), ("Y", g["Y"][k], my), ("Z", g["Z"][k], mz)):
                if abs(a - b) > abs_ + rel * max(abs(a), abs(b)):
                    return dict(step=n, particle=k, what=name, implementation=a, model=b)
    if len(got["steps"]) != len(want):
        return dict(what="number of steps", implementation=len(got["steps"]), model=len(want))
    return None


# ------------------------------------------------------------------ case generation

def sea_positions(gs, sub, r, n):
    """Random dyadic positions in sea cells of the valid region of the subgrid."""
    i0, i1, j0, j1 = sub
    out = []
    tries = 0
    while len(out) < n and tries < 2000:
        tries += 1
        x = r.randint(int((i0 + 0.5) * 16) + 1, int((i1 - 1.5) * 16)) / 16.0
        y = r.randint(int((j0 + 0.5) * 16) + 1, int((j1 - 1.5) * 16)) / 16.0
        ci, cj = int(np.round(x)), int(np.round(y))
        if gs["mask"][cj, ci] > 0:
            out.append((x, y))
    return out


def random_case(seed, schemes=("EF", "RK2", "RK4"), diffusion=False, vertical=False, nsteps=5, npart=14, subgrids=True, fast=True):
    r = np.random.RandomState(seed)
    dims = [(12, 10), (9, 13), (11, 11), (10, 14)][seed % 4]     # wide, tall, square
    gs = grid_spec(seed, imax=dims[0], jmax=dims[1], land=True)
    imax, jmax = gs["imax"], gs["jmax"]
    sub = None
    eff = (1, imax - 1, 1, jmax - 1)
    if subgrids and r.rand() < 0.5:
        a = r.randint(1, 3); b = r.randint(imax - 3, imax)
        c = r.randint(1, 3); d_ = r.randint(jmax - 3, jmax)
        sub = [int(a), int(b), int(c), int(d_)]
        eff = tuple(sub)
    pos = sea_positions(gs, eff, r, npart)
    if not pos:
        gs["mask"][:] = 1
        pos = sea_positions(gs, eff, r, npart)
    scheme = str(r.choice(schemes))
    dt = int(2 ** r.randint(2, 8))
    dxv = float(np.min(gs["dx"]))
    speed = float(r.choice([0.2, 0.6, 2.5] if fast else [0.2, 0.5])) * dxv / dt      # up to ~2.5 cells per step
    q = lambda: Fraction(int(r.randint(-16, 17)), 16)  # noqa: E731
    cu = [q() * Fraction(speed), q() * Fraction(speed) / 8, q() * Fraction(speed) / 8, q() * Fraction(speed) / 4, 0, 0, 0]
    cv = [q() * Fraction(speed), q() * Fraction(speed) / 8, q() * Fraction(speed) / 8, q() * Fraction(speed) / 4, 0, 0, 0]
    parts = []
    for (x, y) in pos:
        cj, ci = int(np.round(y)), int(np.round(x))
        h = float(gs["h"][cj, ci])
        z = float(r.choice([0.0, h, h / 2, h / 4, 1.0]))
        alive = 1
        active = 1 if r.rand() < 0.85 else 0
        if r.rand() < 0.1:
            alive = 0
        parts.append([x, y, z, alive, active])
    case = dict(grid=gs, subgrid=sub, scheme=scheme, dt=dt, cu=[str(c) for c in cu], cv=[str(c) for c in cv],
                particles=parts, nsteps=nsteps, seed=seed)
    draws = [[] for _ in range(nsteps)]
    n = len(parts)
    if diffusion:
        s = float(r.choice([0.25, 1.0, 4.0])) * dxv / dt / 4      # stddev, exactly representable
        case["D"] = s * s * dt / 2.0
        for k in range(nsteps):
            draws[k] += [float(x) / 8 for x in r.randint(-24, 25, size=2 * n)]
    if vertical:
        if r.rand() < 0.7:
            s = float(r.choice([0.125, 0.5, 1.0]))
            case["Dz"] = s * s * dt / 2.0
            for k in range(nsteps):
                draws[k] += [float(x) / 8 for x in r.randint(-24, 25, size=n)]
        if r.rand() < 0.7:
            case["vertadv"] = True
            case["w"] = [[float(x) / 64 for x in r.randint(-48, 49, size=n)] for _ in range(nsteps)]
            # keep |w dt| moderate
            case["w"] = [[w * 8.0 / dt for w in row] for row in case["w"]]
    if diffusion or vertical:
        case["draws"] = draws
    return case


def small(case):
    """A compact, replayable description of a case (the grid is regenerated from its seed)."""
    return {k: v for k, v in case.items() if k != "grid"} | dict(grid="harness.trk.grid_spec(seed, land=True)")


def invariant_monitor(case, res):
    """C09's statements on the implementation's own output."""
    bad = []
    i0, i1, j0, j1 = res["limits"]
    M = np.array(res["M"])
    prev = dict(X=[p[0] for p in case["particles"]], Y=[p[1] for p in case["particles"]],
                alive=[bool(p[3]) for p in case["particles"]], active=[bool(p[4]) for p in case["particles"]])
    for n, s in enumerate(res["steps"]):
        if "error" in s:
            bad.append(f"step {n}: raised {s['error']}")
            break
        for k in range(len(s["X"])):
            x, y = s["X"][k], s["Y"][k]
            if not (np.isfinite(x) and np.isfinite(y)):
                bad.append(f"step {n} particle {k}: position not finite")
                continue
            inside = (i0 + 0.5 < x < i1 - 1.5) and (j0 + 0.5 < y < j1 - 1.5)
            if s["alive"][k] and prev["alive"][k] and prev["active"][k]:
                if not inside:
                    bad.append(f"step {n} particle {k}: alive outside the valid region at ({x}, {y})")
                elif M[int(np.round(y)) - j0, int(np.round(x)) - i0] < 1:
                    bad.append(f"step {n} particle {k}: alive on land at ({x}, {y})")
            if s["alive"][k] and not prev["alive"][k]:
                bad.append(f"step {n} particle {k}: a dead particle became alive")
            if not prev["active"][k] and (x != prev["X"][k] or y != prev["Y"][k]):
                bad.append(f"step {n} particle {k}: an inactive particle was moved")
        prev = s
    return bad
