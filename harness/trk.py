"""Function-grain harness around ladim.tracker.Tracker.update: real ROMS Grid built from a
synthetic file, real State, a plug-in forcing whose velocity is a polynomial in (x, y, fraction
of the step), a scripted random generator.  Shared by C01, C09, C11, C15."""
from __future__ import annotations

from fractions import Fraction

import numpy as np

from harness import lab
from harness.common import parse_rat, rat_s, use_repo


def poly(c, frac, X, Y):
    c0, cx, cy, ct, cxy, cxx, ctt = c
    return c0 + cx * X + cy * Y + ct * frac + cxy * X * Y + cxx * X * X + ctt * frac * frac


class PolyForcing:
    def __init__(self, cu, cv, w=None):
        self.cu, self.cv = [float(Fraction(x)) for x in cu], [float(Fraction(x)) for x in cv]
        self.variables = {"w": w}
        self.calls = []

    def velocity(self, X, Y, Z, fractional_step=0, method="bilinear"):
        self.calls.append(float(fractional_step))
        return poly(self.cu, fractional_step, X, Y) + 0.0 * X, poly(self.cv, fractional_step, X, Y) + 0.0 * X

    def update(self):
        pass

    def close(self):
        pass


class ScriptedRNG:
    """rng.normal(size=n) hands out the scripted numbers in order and logs the request sizes."""

    def __init__(self, numbers):
        self.numbers = list(numbers)
        self.pos = 0
        self.requests = []

    def normal(self, size=None, **kw):
        n = int(size)
        self.requests.append(n)
        out = np.array(self.numbers[self.pos:self.pos + n], dtype=float)
        if len(out) < n:
            out = np.concatenate([out, np.zeros(n - len(out))])
        self.pos += n
        return out


def grid_spec(seed, imax=12, jmax=10, land=True, dx=None, varh=True):
    """A small grid: mask with islands / a one-cell channel, variable depth, dyadic metric."""
    r = np.random.RandomState(seed)
    mask = np.ones((jmax, imax))
    if land:
        for _ in range(r.randint(0, 6)):
            mask[r.randint(1, jmax - 1), r.randint(1, imax - 1)] = 0
        if r.rand() < 0.4:
            j = r.randint(3, jmax - 3)
            mask[j, :] = 0
            mask[j, r.randint(2, imax - 2)] = 1
    h = r.choice([8.0, 16.0, 32.0, 64.0], size=(jmax, imax)) if varh else np.full((jmax, imax), 64.0)
    if dx is None:
        dx = float(r.choice([16.0, 128.0, 1024.0, 4096.0]))
    DX = np.full((jmax, imax), dx)
    if r.rand() < 0.5:
        DX = DX * r.choice([1.0, 2.0, 0.5], size=(jmax, imax))
    return dict(imax=imax, jmax=jmax, mask=mask, h=h, dx=DX, N=3, hc=0.0)


def file_json(gs):
    f2 = lambda a: [[rat_s(x) for x in row] for row in a]  # noqa: E731
    N = gs["N"]
    return dict(h=f2(gs["h"]), mask=f2(gs["mask"]), dx=f2(gs["dx"]), hc=rat_s(gs["hc"]),
                Cs_r=[rat_s(-1.0 + (k + 0.5) / N) for k in range(N)], vtransform=1)


def run_tracker(case):
    """case: grid seed/spec, subgrid, scheme, dt, D, Dz, vertadv, cu, cv, particles [x,y,z,alive,active],
    draws per step (list of lists: U block, V block, W block as consumed), w per step per particle, nsteps.
    Returns per step the particle arrays + rng request log + forcing call log."""
    use_repo()
    from ladim.ROMS import Grid
    from ladim.state import State
    from ladim.timekeeper import TimeKeeper
    from ladim.tracker import Tracker
    gs = case["grid"]
    with lab.scratch() as d:
        f = d / "grid.nc"
        lab.make_grid_forcing(f, [0], imax=gs["imax"], jmax=gs["jmax"], N=gs["N"], h=gs["h"], mask=gs["mask"], dx=gs["dx"], hc=gs["hc"])
        grid = Grid(filename=f, subgrid=case.get("subgrid"))
    tk = TimeKeeper(start=lab.tstr(0), stop=lab.tstr(10 ** 6), dt=case["dt"])
    st = State()
    P = np.array(case["particles"], dtype=float)
    st.append(X=P[:, 0], Y=P[:, 1], Z=P[:, 2])
    st["alive"] = P[:, 3] != 0
    st["active"] = P[:, 4] != 0
    force = PolyForcing(case["cu"], case["cv"])
    modules = dict(state=st, time=tk, grid=grid, forcing=force)
    trk = Tracker(advection=case["scheme"], diffusion=case.get("D", 0.0), vertdiff=case.get("Dz", 0.0),
                  vertical_advection=case.get("vertadv", False), modules=modules)
    out = []
    for n in range(case["nsteps"]):
        rng = ScriptedRNG(case["draws"][n] if case.get("draws") else [])
        trk.rng = rng
        if case.get("w"):
            force.variables["w"] = np.array(case["w"][n], dtype=float)
        force.calls = []
        try:
            trk.update()
        except Exception as e:  # noqa: BLE001
            out.append(dict(error=type(e).__name__ + ": " + str(e)[:80]))
            break
        out.append(dict(X=[float(x) for x in st.X], Y=[float(x) for x in st.Y], Z=[float(x) for x in st.Z],
                        alive=[bool(x) for x in st.alive], active=[bool(x) for x in st.active],
                        rng=list(rng.requests), fracs=list(force.calls)))
    lim = [int(grid.i0), int(grid.i1), int(grid.j0), int(grid.j1)]
    return dict(steps=out, limits=lim, M=grid.M.tolist(), H=np.asarray(grid.H).tolist())


def model_request(case):
    """The same case for the Lean model; diffusive/vertical velocities are passed as the exact
    values the implementation computed them to be (stddev·draw as a float)."""
    npart = len(case["particles"])
    forc = []
    dt = float(case["dt"])
    D, Dz = float(case.get("D", 0.0)), float(case.get("Dz", 0.0))
    for n in range(case["nsteps"]):
        draws = list(case["draws"][n]) if case.get("draws") else []
        pos = 0
        du = dv = wd = [0.0] * npart
        if D > 0:
            sd = (2 * D / dt) ** 0.5
            du = [sd * x for x in draws[pos:pos + npart]]; pos += npart
            dv = [sd * x for x in draws[pos:pos + npart]]; pos += npart
        if Dz > 0:
            sd = (2 * Dz / dt) ** 0.5
            wd = [sd * x for x in draws[pos:pos + npart]]; pos += npart
        wa = case["w"][n] if case.get("w") else [0.0] * npart
        forc.append([[rat_s(a), rat_s(b), rat_s(c), rat_s(d_)] for a, b, c, d_ in zip(du, dv, wd, wa)])
    rq = dict(op="tracker", file=file_json(case["grid"]), scheme=case["scheme"] or "none", dt=rat_s(case["dt"]),
              vertadv=bool(case.get("vertadv", False)), vertdiff=Dz > 0, u=[str(Fraction(x)) for x in case["cu"]],
              v=[str(Fraction(x)) for x in case["cv"]],
              particles=[[rat_s(v) for v in p] for p in case["particles"]], forc=forc)
    if case.get("subgrid"):
        rq["subgrid"] = list(case["subgrid"])
    return rq


def compare_steps(got, want, rel=1e-11, abs_=1e-11):
    """First difference between the implementation's and the model's per-step particle states."""
    for n, (g, w) in enumerate(zip(got["steps"], want)):
        if "error" in g:
            return dict(step=n, what="raised", implementation=g["error"], model="runs" if "IndexError" not in w else "IndexError")
        for k, wp in enumerate(w):
            if wp == "IndexError":
                return dict(step=n, particle=k, what="model reads outside an array", implementation=[g["X"][k], g["Y"][k]])
            mx, my, mz = (float(parse_rat(wp[i])) for i in range(3))
            if g["alive"][k] != wp[3] or g["active"][k] != wp[4]:
                return dict(step=n, particle=k, what="alive/active", implementation=[g["alive"][k], g["active"][k]], model=[wp[3], wp[4]])
            for name, a, b in (("X", g["X"][k], mx), ("Y", g["Y"][k], my), ("Z", g["Z"][k], mz)):
                if abs(a - b) > abs_ + rel * max(abs(a), abs(b)):
                    return dict(step=n, particle=k, what=name, implementation=a, model=b)
    if len(got["steps"]) != len(want):
        return dict(what="number of steps", implementation=len(got["steps"]), model=len(want))
    return None
