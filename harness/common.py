"""Shared machinery of every check: Lean build + axiom audit, the model driver, evidence,
replays, known findings, VIOLATION reporting.

Exit codes of a check: 0 = property held on everything explored (known findings are printed),
1 = a VIOLATION line was printed, 2 = the machinery itself failed (timeout, broken Lean build,
harness error) — never a verdict about /repo.
"""
from __future__ import annotations

import hashlib
import json
import os
import random
import re
import subprocess
import sys
import time
import traceback
from fractions import Fraction
from pathlib import Path

VERIF = Path(__file__).resolve().parent.parent
LEAN = VERIF / "lean"
REPO = Path(os.environ.get("LADIM_REPO", "/repo"))
DRIVER = LEAN / ".lake" / "build" / "bin" / "driver"
ALLOWED_AXIOMS = {"propext", "Classical.choice", "Quot.sound"}
FORBIDDEN = re.compile(r"\bsorry\b|\badmit\b|^\s*axiom\s|native_decide|bv_decide|implemented_by|\bunsafe\s|maxHeartbeats\s+0\b")

TRUSTED_BASE = [
    "Lean 4.33.0 kernel (thorough tier: re-checked by leanchecker)",
    "Mathlib v4.33.0 as a library of kernel-checked statements",
    "axioms allowed in property theorems: propext, Classical.choice, Quot.sound (audited by #print axioms on every run)",
    "the hand-written Lean model of the anchored Python code, tied to /repo only by the correspondence check of this run "
    "(the same inputs are run through /repo's working tree in-process and through the model's executable definitions)",
    "exact rationals stand for IEEE doubles: rounding in numpy/numba is outside the theorems",
    "numpy, numba, pandas, netCDF4, PyYAML, tomli behave as documented (exercised, not proved)",
]


def use_repo():
    """Make `import ladim` resolve to the working tree under test."""
    p = str(REPO)
    if sys.path[0] != p:
        sys.path.insert(0, p)
    os.environ.setdefault("NUMBA_DISABLE_PERFORMANCE_WARNINGS", "1")
    import logging
    logging.disable(logging.CRITICAL)


# ---------------------------------------------------------------- rationals

def frac(x) -> Fraction:
    """Exact rational of a Python/numpy number (floats are converted exactly)."""
    import numpy as np
    if isinstance(x, Fraction):
        return x
    if isinstance(x, (bool, np.bool_)):
        return Fraction(int(x))
    if isinstance(x, (int, np.integer)):
        return Fraction(int(x))
    return Fraction(float(x))


def rat_s(x) -> str:
    """Wire form of an exact rational."""
    f = frac(x)
    return str(f.numerator) if f.denominator == 1 else f"{f.numerator}/{f.denominator}"


def val_s(x):
    import math
    import numpy as np
    if isinstance(x, (float, np.floating)) and math.isnan(float(x)):
        return "nan"
    return rat_s(x)


def parse_rat(s) -> Fraction | None:
    if s is None:
        return None
    if isinstance(s, int):
        return Fraction(s)
    if s == "nan":
        return None
    return Fraction(s)


def close(a, b, rel=1e-9, abs_=1e-12) -> bool:
    a = float(a); b = float(b)
    return abs(a - b) <= abs_ + rel * max(abs(a), abs(b))


# ---------------------------------------------------------------- Lean side

class MachineryError(Exception):
    pass


def run_cmd(cmd, cwd=None, timeout=3600, input_=None):
    p = subprocess.run(cmd, cwd=cwd, capture_output=True, text=True, timeout=timeout, input=input_)
    return p.returncode, p.stdout, p.stderr


_built = False


def lean_build():
    """`lake build` (a no-op when nothing changed)."""
    global _built
    if _built:
        return
    rc, out, err = run_cmd(["lake", "build"], cwd=LEAN, timeout=7200)
    if rc != 0:
        raise MachineryError("lake build failed:\n" + out[-4000:] + err[-2000:])
    if not DRIVER.exists():
        raise MachineryError("driver executable missing after lake build")
    _built = True


def lean_sources():
    """The Lean files that are part of the build: everything reachable from the library root
    and the driver through `import Ladim.…` lines."""
    seen, todo = {}, [LEAN / "Ladim.lean", LEAN / "Driver.lean"]
    while todo:
        f = todo.pop()
        if f in seen or not f.exists():
            continue
        seen[f] = True
        for m in re.findall(r"^import\s+(Ladim(?:\.\w+)+)", f.read_text(), re.M):
            todo.append(LEAN / (m.replace(".", "/") + ".lean"))
    return sorted(seen)


def strip_comments(text: str) -> str:
    # nested block comments
    out = []
    depth = 0
    i = 0
    while i < len(text):
        if text.startswith("/-", i):
            depth += 1; i += 2; continue
        if text.startswith("-/", i) and depth:
            depth -= 1; i += 2; continue
        if depth == 0:
            out.append(text[i])
        elif text[i] == "\n":
            out.append("\n")
        i += 1
    text = "".join(out)
    return "\n".join(line.split("--", 1)[0] for line in text.split("\n"))


def grep_forbidden():
    hits = []
    for f in lean_sources():
        src = strip_comments(f.read_text())
        for n, line in enumerate(src.split("\n"), 1):
            if FORBIDDEN.search(line):
                hits.append(f"{f.relative_to(LEAN)}:{n}: {line.strip()}")
    return hits


def obligations_for(prop: str):
    table = json.loads((LEAN / "obligations.json").read_text())
    return table.get(prop, {"modules": [], "theorems": []})


def audit_axioms(prop: str):
    """#print axioms of every property theorem; returns (obligations, discharged, detail)."""
    ob = obligations_for(prop)
    thms = ob["theorems"]
    if not thms:
        return 0, 0, {}
    lines = [f"import {m}" for m in ob["modules"]]
    lines += [f"#print axioms {t}" for t in thms]
    auditf = LEAN / f".audit_{prop}_{os.getpid()}.lean"
    auditf.write_text("\n".join(lines) + "\n")
    try:
        rc, out, err = run_cmd(["lake", "env", "lean", str(auditf.name)], cwd=LEAN, timeout=1800)
    finally:
        auditf.unlink(missing_ok=True)
    text = out + err
    detail = {}
    for t in thms:
        m = re.search(r"'" + re.escape(t) + r"' depends on axioms: \[([^\]]*)\]", text, re.S)
        if m:
            ax = {a.strip() for a in m.group(1).replace("\n", " ").split(",") if a.strip()}
            detail[t] = sorted(ax)
        elif re.search(r"'" + re.escape(t) + r"' does not depend on any axioms", text):
            detail[t] = []
        else:
            detail[t] = None
    discharged = sum(1 for t in thms if detail[t] is not None and set(detail[t]) <= ALLOWED_AXIOMS)
    if discharged != len(thms):
        bad = {t: detail[t] for t in thms if detail[t] is None or not set(detail[t]) <= ALLOWED_AXIOMS}
        raise MachineryError(f"axiom audit failed for {prop}: {bad}\n{text[-3000:]}")
    return len(thms), discharged, detail


def leanchecker(prop: str):
    ob = obligations_for(prop)
    if not ob["modules"]:
        return True, ""
    rc, out, err = run_cmd(["lake", "env", "leanchecker", *ob["modules"]], cwd=LEAN, timeout=3600)
    return rc == 0, (out + err)[-2000:]


def driver(requests: list[dict], timeout=1800, par=None) -> list:
    """Run a batch of requests through the compiled model driver (large batches are split over
    several driver processes)."""
    lean_build()
    if not requests:
        return []
    if par is None:
        par = len(requests) >= 32
    if par and len(requests) > 1:
        from concurrent.futures import ThreadPoolExecutor
        n = min(16, os.cpu_count() or 4, len(requests))
        chunks = [requests[i::n] for i in range(n)]
        with ThreadPoolExecutor(n) as ex:
            parts = list(ex.map(lambda c: driver(c, timeout=timeout, par=False), chunks))
        out = [None] * len(requests)
        for i, part in enumerate(parts):
            out[i::n] = part
        return out
    inp = "\n".join(json.dumps(r, separators=(",", ":")) for r in requests) + "\n"
    p = subprocess.run([str(DRIVER)], input=inp, capture_output=True, text=True, timeout=timeout)
    if p.returncode != 0:
        raise MachineryError(f"driver exited {p.returncode}: {p.stderr[-2000:]}")
    lines = [l for l in p.stdout.split("\n") if l.strip()]
    if len(lines) != len(requests):
        raise MachineryError(f"driver returned {len(lines)} lines for {len(requests)} requests")
    res = [json.loads(l) for l in lines]
    for rq, r in zip(requests, res):
        if isinstance(r, dict) and "driver_error" in r:
            raise MachineryError(f"driver error {r['driver_error']} on {json.dumps(rq)[:600]}")
    return res


# ---------------------------------------------------------------- the check context

class Ctx:
    def __init__(self, prop: str, tier: str, seed: int):
        self.prop = prop
        self.tier = tier
        self.seed = seed
        self.rng = random.Random(f"{prop}-{seed}")
        self.t0 = time.time()
        self.evaluations = 0
        self.traces = 0
        self.nontrivial = set()
        self.samples = []
        self.hist = {}
        self.streams = {}
        self.violations = []       # dicts: kind, stream, tags, case, detail
        self.assumptions = []
        self.notes = {}
        self.known = json.loads((VERIF / "known_findings.json").read_text()) if (VERIF / "known_findings.json").exists() else []
        self.thorough = tier == "thorough"

    # -- bookkeeping
    def count(self, key, n=1):
        self.hist[key] = self.hist.get(key, 0) + n

    def case(self, stream: str, signature, sample=None, nontrivial=True):
        """Register one evaluated case (an input run through the implementation and the model)."""
        self.evaluations += 1
        self.traces += 1
        self.streams[stream] = self.streams.get(stream, 0) + 1
        if nontrivial:
            h = hashlib.sha1(json.dumps([stream, signature], sort_keys=True, default=str).encode()).hexdigest()
            self.nontrivial.add(h)
        if sample is not None and sum(1 for s in self.samples if s.get("stream") == stream) < 2:
            self.samples.append({"stream": stream, "case": sample})

    def violation(self, kind: str, stream: str, case, detail, tags=None):
        """kind: 'failing-input' (the property fails on the real code for this input) or
        'tie-broken' (model and code differ where the property is not decided by the difference)."""
        v = dict(kind=kind, stream=stream, case=case, detail=detail, tags=tags or {})
        if kind == "failing-input" and self._matches_known(v) is not None:
            # hits of a listed finding never crowd out other violations
            if sum(1 for x in self.violations if x.get("_known")) < 3:
                self.violations.append(dict(v, _known=True))
            return
        # separate budgets: broken ties must not crowd out failing inputs (which take precedence)
        if sum(1 for x in self.violations if not x.get("_known") and x["kind"] == kind) < 50:
            self.violations.append(v)

    def time_left(self, budget):
        return budget - (time.time() - self.t0)

    # -- finishing
    def _matches_known(self, v):
        for k in self.known:
            if k.get("status") != "known" or k.get("property") != self.prop:
                continue
            sig = k.get("signature", {})
            tags = dict(v["tags"]); tags.setdefault("stream", v["stream"])
            if all(tags.get(a) == b for a, b in sig.items()):
                return k
        return None

    def finish(self, obligations: int, discharged: int, axioms: dict, extra_cov=None) -> int:
        wall = time.time() - self.t0
        printed_known = set()
        real = []
        for v in self.violations:
            if v["kind"] == "failing-input":
                k = self._matches_known(v)
                if k is not None:
                    if k["id"] not in printed_known:
                        print(f"KNOWN-FINDING: property={self.prop} {k['what']}")
                        printed_known.add(k["id"])
                    continue
            real.append(v)
        # a failing input takes precedence over a broken tie
        real.sort(key=lambda v: 0 if v["kind"] == "failing-input" else 1)
        rc = 0
        if real:
            v = real[0]
            rdir = VERIF / "replays" / self.prop
            rdir.mkdir(parents=True, exist_ok=True)
            body = dict(property=self.prop, kind=v["kind"], stream=v["stream"], tags=v["tags"],
                        case=v["case"], detail=v["detail"], seed=self.seed, tier=self.tier,
                        theorems=obligations_for(self.prop)["theorems"],
                        note=("the property fails on the implementation for this input" if v["kind"] == "failing-input"
                              else "the correspondence between the Lean model and the implementation no longer checks on this "
                                   "input; the search found no input on which the property itself fails"),
                        other_violations=len(real) - 1)
            h = hashlib.sha1(json.dumps(body, sort_keys=True, default=str).encode()).hexdigest()[:12]
            path = rdir / f"{h}.json"
            path.write_text(json.dumps(body, indent=1, default=str))
            tail = "" if v["kind"] == "failing-input" else " no-failing-input-found"
            print(f"VIOLATION property={self.prop} replay={path}{tail}")
            rc = 1
        cov = dict(
            obligations=obligations, discharged=discharged,
            checker_cmd=f"cd /verif/lean && lake build && lake env lean <#print axioms of {obligations} theorems>"
                        + (" && lake env leanchecker <property modules>" if self.thorough else ""),
            trusted_base=TRUSTED_BASE,
            theorems=axioms,
            evaluations=self.evaluations, distinct_nontrivial=len(self.nontrivial),
            traces_validated_against_impl=self.traces,
            rule="each case is one input / op sequence / scenario run through /repo's code and through the Lean model's "
                 "executable definitions; distinct = distinct (stream, input signature); non-trivial = exercises the "
                 "anchored mechanism (trivial ones are not counted)",
            samples=self.samples[:12], streams=self.streams, histogram=self.hist, exhaustive=False,
        )
        cov.update(self.notes)
        if extra_cov:
            cov.update(extra_cov)
        ev = dict(property_id=self.prop, tier=self.tier, seed=self.seed, level="proof", coverage=cov,
                  assumptions=self.assumptions or TRUSTED_BASE, wall_s=round(wall, 2),
                  violations=len(real))
        (VERIF / "evidence").mkdir(exist_ok=True)
        (VERIF / "evidence" / f"{self.prop}.json").write_text(json.dumps(ev, indent=1, default=str))
        print(f"{self.prop} {self.tier}: {discharged}/{obligations} theorems, {self.evaluations} cases "
              f"({len(self.nontrivial)} distinct non-trivial), {len(real)} violations, {wall:.1f}s")
        return rc


def main_for(prop: str, body, argv=None):
    """Entry used by ./check: build + audit, run `body(ctx)`, finish."""
    import argparse
    ap = argparse.ArgumentParser()
    ap.add_argument("--tier", default=os.environ.get("VERIF_TIER", "quick"))
    ap.add_argument("--replay", default=None)
    a = ap.parse_args(argv)
    seed = int(os.environ.get("VERIF_SEED", "0") or 0)
    replay = None
    if a.replay:
        # every case is generated deterministically from (property, seed, tier): replaying a
        # violation means re-running the check with the seed and tier recorded in the replay file
        replay = json.loads(Path(a.replay).read_text())
        seed = int(replay.get("seed", seed))
        a.tier = replay.get("tier", a.tier)
        print(f"replaying {a.replay}: property={replay.get('property')} stream={replay.get('stream')} seed={seed} tier={a.tier}")
    ctx = Ctx(prop, a.tier, seed)
    try:
        lean_build()
        hits = grep_forbidden()
        if hits:
            raise MachineryError("forbidden tokens in Lean sources:\n" + "\n".join(hits))
        ob, dis, axioms = audit_axioms(prop)
        if ctx.thorough:
            ok, msg = leanchecker(prop)
            if not ok:
                raise MachineryError("leanchecker rejected the property modules:\n" + msg)
            ctx.notes["leanchecker"] = "accepted"
        ctx.replay = replay
        body(ctx)
        return ctx.finish(ob, dis, axioms)
    except MachineryError as e:
        print(f"MACHINERY-ERROR property={prop}: {e}", file=sys.stderr)
        return 2
    except subprocess.TimeoutExpired as e:
        print(f"MACHINERY-TIMEOUT property={prop}: {e}", file=sys.stderr)
        return 2
    except Exception:
        traceback.print_exc()
        print(f"MACHINERY-ERROR property={prop}: harness exception", file=sys.stderr)
        return 2


# ---------------------------------------------------------------- parallel map

def _warm_ladim():
    """Import ladim and JIT-compile the numba kernels once in the parent, so forked workers
    inherit the compiled code."""
    use_repo()
    import numpy as np
    import ladim.ROMS as R
    import ladim.tracker as T
    z = np.linspace(-1, 0, 3)[:, None, None] * np.ones((3, 4, 4)) * 10
    X = np.array([1.5]); Y = np.array([1.5]); Z = np.array([2.0])
    # best effort: these are private helpers; if one has another shape now it is compiled at its first real use instead
    for warm in (lambda: R.sample3DUV(np.zeros((3, 4, 5)), np.zeros((3, 5, 4)), X, Y, *R.z2s(z, X, Y, Z)),
                 lambda: T.RKstep(X, Y, X, Y, 0.5, X, Y),
                 lambda: T.clip(X.copy(), Y.copy(), 0.0, 1.0, 0.0, 1.0),
                 lambda: T.RK4avg(X, X, X, X)):
        try:
            warm()
        except Exception:  # noqa: BLE001
            pass


def pmap(func, items, nproc=None, warm=True, chunksize=None):
    """Ordered parallel map with forked workers (each inherits the imported, JIT-warmed ladim)."""
    import multiprocessing as mp
    items = list(items)
    if not items:
        return []
    if warm:
        _warm_ladim()
    # at most half as many workers as items: every worker runs several set-ups one after the other in one process (and in
    # the same scratch path, see lab.scratch), so whatever a run leaves behind in the process meets a later, different run
    nproc = nproc or min(16, os.cpu_count() or 4, max(1, (len(items) + 1) // 2))
    if nproc == 1 or len(items) < 4:
        return [func(x) for x in items]
    ctx = mp.get_context("fork")
    with ctx.Pool(nproc) as pool:
        return pool.map(func, items, chunksize=chunksize or max(1, len(items) // (nproc * 8)))
