"""Run-grain scenarios: a whole simulation (synthetic ROMS grid/forcing files, release file,
configuration, scripted recording IBM given by path) run through ladim.main.main on the working
tree under test, and the same scenario as a request for the Lean `run` op (Ladim.Model.Run
instantiated with the component models).  All numbers are dyadic with few bits (power-of-two
dt, dx, level spacing, frame gaps), so that every float operation on the decision path of EF and
RK2 is exact and the comparison is bit for bit; RK4's `/6` is the only rounding."""
from __future__ import annotations

import glob
import json
import os
import re
from fractions import Fraction
from pathlib import Path

import numpy as np

from harness import lab
from harness.common import parse_rat, rat_s, use_repo, val_s

DT = 64


def gen(seed, rev=None, layout=None, scheme=None, nsteps=None, numrec=None, period=None, continuous=None,
        kills=True, subgrid=None, scalars=True, vertadv=None, land=True, files=None, age=True, speed=None,
        late_release=True, pvars=True, first_release=0, frame_gaps=None):
    r = np.random.RandomState(seed)
    imax, jmax = [(12, 10), (9, 13), (11, 11), (10, 12)][seed % 4]     # wide, tall, square
    N = int(r.choice([2, 4]))
    h = r.choice([16.0, 32.0, 64.0], size=(jmax, imax))
    mask = np.ones((jmax, imax))
    if land:
        for _ in range(r.randint(0, 5)):
            mask[r.randint(1, jmax - 1), r.randint(1, imax - 1)] = 0
        if r.rand() < 0.3:
            j = r.randint(3, jmax - 3)
            mask[j, :] = 0
            mask[j, r.randint(3, imax - 3)] = 1
    dx = np.full((jmax, imax), 128.0)
    if r.rand() < 0.4:
        dx = dx * r.choice([1.0, 2.0, 0.5], size=(jmax, imax))
    rev = bool(r.rand() < 0.3) if rev is None else rev
    nsteps = int(r.randint(2, 11)) if nsteps is None else nsteps
    sub = subgrid
    if sub is None and r.rand() < 0.35:
        sub = [int(r.randint(1, 3)), int(r.randint(imax - 3, imax)), int(r.randint(1, 3)), int(r.randint(jmax - 3, jmax))]
    if sub == "none":
        sub = None
    # forcing frames in simulation steps: first at or before 0, last at or after nsteps
    gaps = []
    first = -int(r.choice([0, 0, 1, 2, 3]))
    fsteps = [first]
    while fsteps[-1] < nsteps:
        gap = int(r.choice([1, 2, 4, 4, 8]))
        # frame_gaps: the distances between consecutive frames (in steps), cycled, instead of random ones
        fsteps.append(fsteps[-1] + (gap if frame_gaps is None else int(frame_gaps[(len(fsteps) - 1) % len(frame_gaps)])))
    nf = len(fsteps)
    nfiles = int(r.randint(1, min(3, nf) + 1)) if files is None else min(files, nf)
    cuts = sorted(r.choice(range(1, nf), nfiles - 1, replace=False).tolist()) if nfiles > 1 else []
    sp = float(r.choice([0.25, 1.0, 2.0])) if speed is None else speed
    U = (r.randint(-8, 9, size=(nf, N, jmax, imax - 1)) / 8.0) * sp
    V = (r.randint(-8, 9, size=(nf, N, jmax - 1, imax)) / 8.0) * sp
    T = r.randint(0, 64, size=(nf, N, jmax, imax)) / 2.0
    vertadv = bool(r.rand() < 0.3) if vertadv is None else vertadv
    W = r.randint(-8, 9, size=(nf, N, jmax, imax)) / 64.0
    scheme = str(r.choice(["EF", "RK2", "RK4"])) if scheme is None else scheme
    layout = str(r.choice(["sparse", "sparse", "dense"])) if layout is None else layout
    period = int(r.choice([1, 1, 2, 3])) if period is None else period
    numrec = int(r.choice([0, 0, 1, 2, 3])) if numrec is None else numrec
    continuous = bool(r.rand() < 0.3) if continuous is None else continuous
    # release rows (simulation steps), sea cells of the valid region
    eff = sub or [1, imax - 1, 1, jmax - 1]
    rows = []
    freq = int(r.choice([1, 2])) if continuous else 1
    if first_release * freq >= nsteps:
        first_release = 0            # keep the first release inside the window
    rtimes = [first_release * freq] + ([int(x) * freq for x in sorted(set(r.randint(1, max(2, nsteps // freq + 1), size=r.randint(0, 3)).tolist()))] if late_release else [])
    for t in rtimes:
        for _ in range(int(r.choice([1, 2, 3]))):
            for _try in range(50):
                x = r.randint(int((eff[0] + 0.5) * 16) + 1, int((eff[1] - 1.5) * 16)) / 16.0
                y = r.randint(int((eff[2] + 0.5) * 16) + 1, int((eff[3] - 1.5) * 16)) / 16.0
                if mask[int(np.round(y)), int(np.round(x))] > 0:
                    break
            else:
                mask[:] = 1
            hh = h[int(np.round(y)), int(np.round(x))]
            rows.append(dict(step=t, mult=int(r.choice([1, 1, 2, 3])), X=x, Y=y, Z=float(r.randint(0, int(hh) * 4 + 1)) / 4.0))
    kill = {}
    if kills:
        total = sum(x["mult"] for x in rows)
        for _ in range(r.randint(0, 3)):
            kill.setdefault(str(int(r.randint(0, nsteps))), []).append(int(r.randint(0, max(1, total))))
    return dict(seed=seed, imax=imax, jmax=jmax, N=N, h=h.tolist(), mask=mask.tolist(), dx=dx.tolist(), subgrid=sub,
                rev=rev, nsteps=nsteps, start=int(r.choice([0, 128, 6400])), fsteps=fsteps, cuts=cuts,
                U=U.tolist(), V=V.tolist(), T=T.tolist(), W=W.tolist(), scalars=scalars, vertadv=vertadv, scheme=scheme,
                layout=layout, period=period, numrec=numrec, continuous=continuous, freq=freq, rows=rows, kill=kill,
                age=age, pvars=pvars, reference=None, outname="out.nc")


def files_of(sc):
    """frame members of each forcing file, in simulation order"""
    files, cur = [], [0]
    for k in range(1, len(sc["fsteps"])):
        if k in sc["cuts"]:
            files.append(cur); cur = []
        cur.append(k)
    files.append(cur)
    return files


def sim2time(sc, step):
    t = sc["start"] + (-1 if sc["rev"] else 1) * step * DT
    return int(t) if t == int(t) else t


def extra_forcing(sc):
    ef = []
    if sc["scalars"]:
        ef.append("temp")
    if sc["vertadv"]:
        ef.append("w")
    return ef


def write(sc, d, warm=None, out_name=None, shift=0):
    """Write forcing/release files and return the configuration dict."""
    d = Path(d)
    files = files_of(sc)
    names = [d / f"forcing_{k:03d}.nc" for k in range(len(files))]
    if sc["rev"]:
        names = names[::-1]
    U, V, T, W = (np.array(sc[k]) for k in ("U", "V", "T", "W"))
    sg = -1.0 if sc["rev"] else 1.0
    for k, members in enumerate(files):
        mem = members[::-1] if sc["rev"] else members
        # "frame_off" seconds (0 <= off < DT) after its step in simulation order: the frame still belongs to that step
        foff = (-1 if sc["rev"] else 1) * int(sc.get("frame_off", 0))
        # (a first frame exactly at the start stays there: the forcing must cover the start)
        times = [sim2time(sc, sc["fsteps"][m]) + shift + (0 if (m == 0 and sc["fsteps"][0] == 0) else foff) for m in mem]
        idx = {t: m for t, m in zip(times, mem)}
        scal = {}
        if sc["scalars"]:
            scal["temp"] = lambda t, kk, j, i, idx=idx: T[idx[t]][kk, j, i]
        if sc["vertadv"]:
            scal["w"] = lambda t, kk, j, i, idx=idx: W[idx[t]][kk, j, i]
        # in a reversed run the code negates the sampled velocity: the file holds the physical field
        lab.make_grid_forcing(names[k], times, imax=sc["imax"], jmax=sc["jmax"], N=sc["N"], h=np.array(sc["h"]),
                              mask=np.array(sc["mask"]), dx=np.array(sc["dx"]), hc=0.0,
                              u=lambda t, kk, j, i, idx=idx: U[idx[t]][kk, j, i],
                              v=lambda t, kk, j, i, idx=idx: V[idx[t]][kk, j, i], scal=scal,
                              # every file with its own time reference (shortly before its first frame), if the scenario says so
                              time_ref_s=(min(times) - 17 - 3600 * k) if sc.get("own_time_reference") else None)
    rows = []
    for x in sc["rows"]:
        row = dict(release_time=sim2time(sc, x["step"]) + shift, mult=x["mult"], X=x["X"], Y=x["Y"], Z=x["Z"])
        for flag in ("active", "alive"):          # flag columns of the release file (0/1), if the scenario has them
            if any(flag in y for y in sc["rows"]):
                row[flag] = int(x.get(flag, 1))
        rows.append(row)
    lab.write_release(d / "release.rls", rows)
    ibm_path = lab.write_rec_ibm(d)
    ivars = {}
    defaults = {}
    if sc["age"]:
        ivars["age"] = "float"; defaults["age"] = 0.0
    for nm in extra_forcing(sc):
        ivars[nm] = "float"
    out_iv = ["pid", "X", "Y", "Z"] + (["age"] if sc["age"] else []) + (["temp"] if sc["scalars"] else [])
    if sc.get("out_flags"):
        out_iv += ["alive", "active"]        # the flags written to the output too (as 8-bit integers: netCDF has no booleans)
    # "stop_extra": seconds beyond the last whole step (the run has floor(duration / dt) steps all the same)
    sgn = -1 if sc["rev"] else 1
    conf = lab.base_conf(d, sc["start"] + shift, sim2time(sc, sc["nsteps"]) + shift + sgn * int(sc.get("stop_extra", 0)), DT, sc["period"] * DT + int(sc.get("period_extra", 0)), str(d / "forcing_*.nc"),
                         advection=sc["scheme"], reversed_=sc["rev"], numrec=sc["numrec"], layout=sc["layout"],
                         extra_forcing=extra_forcing(sc),
                         ibm=dict(module=str(ibm_path), kill=sc["kill"], age=sc["age"], logfile=str(d / "ibm_log.json")),
                         ivars=ivars, pvars=dict(release_time="time") if sc["pvars"] else None, defaults=defaults,
                         out_ivars=out_iv, out_pvars=("release_time",) if sc["pvars"] else (),
                         release=dict(continuous=True, release_frequency=sc["freq"] * DT) if sc["continuous"] else None,
                         tracker=dict(vertical_advection=True) if sc["vertadv"] else None,
                         subgrid=sc["subgrid"], out_name=out_name or sc["outname"], reference=sc.get("reference"))
    if sc["subgrid"]:
        conf["grid"] = dict(module="ladim.ROMS", filename=str(min(names)), subgrid=list(sc["subgrid"]))
    if warm:
        conf["warm_start"] = warm
    return conf


def numkey(f):
    m = re.search(r"_(\d+)\.nc$", f)
    return (int(m.group(1)) if m else -1, f)


def read_outputs(d, sc, pattern="out*.nc"):
    files = []
    for f in sorted(glob.glob(str(Path(d) / pattern)), key=numkey):
        try:
            o = lab.read_out(f)
        except Exception as e:  # noqa: BLE001
            files.append(dict(name=Path(f).name, unreadable=type(e).__name__))
            continue
        fr = dict(name=Path(f).name, time=[float(t) for t in o["time"]], units=o["_units"],
                  particle_dim=int(o["_dims"]["particle"]))
        vars_ = [v for v in ("X", "Y", "Z", "age", "temp", "lon", "lat") if v in o]
        if sc["layout"] == "sparse":
            fr["count"] = [int(x) for x in o["particle_count"]]
            fr["pid"] = [int(x) for x in o["pid"]]
            fr["inst_dim"] = int(o["_dims"]["particle_instance"])
            for v in vars_:
                fr[v] = [float(x) for x in o[v]]
        else:
            for v in vars_:
                fr[v] = [[None if (x != x or abs(x) > 1e30) else float(x) for x in row] for row in o[v]]
        if "release_time" in o:
            fr["release_time"] = [None if x != x else float(x) for x in o["release_time"]]
        files.append(fr)
    return files


def run_real(sc, warm_from=None):
    """Run the scenario on the real code; returns status, output files, IBM log."""
    use_repo()
    with lab.scratch() as d:
        conf = write(sc, d)
        status = lab.run(conf, d)
        files = read_outputs(d, sc)
        log = None
        if (d / "ibm_log.json").exists():
            log = json.loads((d / "ibm_log.json").read_text())
        return dict(status=status, files=files, ibm=log)


def f3(a):
    return [[[rat_s(x) for x in row] for row in plane] for plane in a]


def f2(a):
    return [[rat_s(x) for x in row] for row in a]


def request(sc, warm=None, start_step=0):
    """The scenario for the Lean model.  `start_step`/`warm`: a warm start at that step of the
    original scenario (steps are renumbered from the new start)."""
    N = sc["N"]
    filej = dict(h=f2(sc["h"]), mask=f2(sc["mask"]), dx=f2(sc["dx"]), hc="0",
                 Cs_r=[rat_s(-1.0 + (k + 0.5) / N) for k in range(N)], vtransform=1)
    files = files_of(sc)
    frames, tabU, tabV, tabT, tabW = [], [], [], [], []
    sgn = -1.0 if sc["rev"] else 1.0
    for k, members in enumerate(files):
        order = members[::-1] if sc["rev"] else members
        tabU.append([f3(np.array(sc["U"][m])) for m in order])
        tabV.append([f3(np.array(sc["V"][m])) for m in order])
        tabT.append([f3(sc["T"][m]) for m in order])
        tabW.append([f3(sc["W"][m]) for m in order])
        for m in members:
            frames.append([sc["fsteps"][m] - start_step, k, order.index(m)])
    rows = []
    for x in sc["rows"]:
        cols = dict(X=val_s(x["X"]), Y=val_s(x["Y"]), Z=val_s(x["Z"]))
        for flag in ("active", "alive"):
            if any(flag in y for y in sc["rows"]):
                cols[flag] = str(int(x.get(flag, 1)))
        rows.append(dict(time=sim2time(sc, x["step"]), mult=x["mult"], cols=cols))
    ivars = []
    if sc["age"]:
        ivars.append(["age", "0"])
    for nm in extra_forcing(sc):
        ivars.append([nm, "nan"])
    scal = {}
    if sc["scalars"]:
        scal["temp"] = tabT
    if sc["vertadv"]:
        scal["w"] = tabW
    start = sim2time(sc, start_step)
    stop = sim2time(sc, sc["nsteps"]) + (-1 if sc["rev"] else 1) * int(sc.get("stop_extra", 0))      # as in write()
    kill = {str(int(k) - start_step): v for k, v in sc["kill"].items()}
    out_iv = ["pid", "X", "Y", "Z"] + (["age"] if sc["age"] else []) + (["temp"] if sc["scalars"] else [])
    rq = dict(op="run", time=dict(start=start, stop=stop, dt=DT, rev=sc["rev"], ref=sc.get("reference_s")),
              file=filej, frames=frames, U=tabU, V=tabV, scalars=scal, extra_forcing=extra_forcing(sc),
              release=dict(continuous=sc["continuous"], freq=sc["freq"] * DT, rows=rows, warm=warm is not None),
              ivars=ivars, pvars=["release_time"] if sc["pvars"] else [],
              tracker=dict(scheme=sc["scheme"], vertadv=sc["vertadv"]),
              ibm=dict(age=sc["age"], kill=kill),
              output=dict(period=sc["period"], numrec=sc["numrec"], layout=sc["layout"], stem=Path(sc["outname"]).stem,
                          suffix=".nc", ivars=out_iv, pvars=["release_time"] if sc["pvars"] else []))
    if sc["subgrid"]:
        rq["subgrid"] = list(sc["subgrid"])
    if warm is not None:
        rq["warm"] = warm
    return rq


def compare_files(sc, real_files, model_files, tol=1e-9, start=None):
    """Differences between the real output files and the model's virtual files."""
    diffs = []
    if isinstance(model_files, dict):
        return [("model output error", model_files, None)]
    if [f["name"] for f in real_files] != [f["name"] for f in model_files]:
        return [("file names", [f["name"] for f in real_files], [f["name"] for f in model_files])]
    for g, w in zip(real_files, model_files):
        if "unreadable" in g:
            diffs.append((g["name"] + " unreadable", g["unreadable"], None)); continue
        wt = [float(parse_rat(t)) for t in w["time"]]
        if g["time"] != wt:
            diffs.append((g["name"] + " time", g["time"], wt))
        def num(v):
            return None if v in (None, "nan") else float(parse_rat(v))
        if sc["layout"] == "sparse":
            if g["count"] != w["count"]:
                diffs.append((g["name"] + " particle_count", g["count"], w["count"])); continue
            if g["pid"] != w["pid"]:
                diffs.append((g["name"] + " pid", g["pid"], w["pid"])); continue
            if sum(g["count"]) != g["inst_dim"]:
                diffs.append((g["name"] + " instance dimension", g["inst_dim"], sum(g["count"])))
            for v, col in w["inst"].items():
                if v not in g:
                    diffs.append((g["name"] + f" variable {v} missing", None, None)); continue
                mv = [num(x) for x in col]
                t = 1e-4 if v == "temp" else tol
                if len(mv) != len(g[v]) or any(abs(a - b) > t * max(1.0, abs(b)) for a, b in zip(g[v], mv)):
                    diffs.append((g["name"] + " " + v, g[v], mv))
        else:
            npart = g["particle_dim"]
            for v in (w["dense"][0].keys() if w["dense"] else []):
                rowsm = []
                for rec in w["dense"]:
                    row = [num(x) for x in rec[v]]
                    rowsm.append(row + [None] * (npart - len(row)))
                gr = g.get(v)
                ok = gr is not None and len(gr) == len(rowsm) and all(
                    len(a) == len(b) and all((x is None) == (y is None) and (x is None or abs(x - y) <= tol * max(1.0, abs(y))) for x, y in zip(a, b))
                    for a, b in zip(gr, rowsm))
                if not ok:
                    diffs.append((g["name"] + f" {v}[time,pid]", gr, rowsm))
        if sc["pvars"]:
            wn = w["pvarN"]
            wp = [num(x) for x in w["pvars"].get("release_time", [])] if wn is not None else []
            if g.get("release_time", []) != wp:
                diffs.append((g["name"] + " release_time", g.get("release_time"), wp))
    return diffs


def brief(sc):
    """A compact description for evidence/replays (the arrays are regenerated from the seed)."""
    keep = ("seed", "rev", "nsteps", "start", "fsteps", "cuts", "scheme", "layout", "period", "numrec", "continuous", "freq",
            "rows", "kill", "subgrid", "N", "scalars", "vertadv", "age", "pvars")
    return {k: sc[k] for k in keep} | dict(arrays="harness.scen.gen(seed, …) regenerates grid, mask, bathymetry and forcing fields")


def e2e_stream(ctx, stream, cases, theorem, monitor=None, kind="failing-input"):
    """Run whole simulations of the scenarios on the real code and through the model (`Sim.run`),
    compare the output files; `monitor(sc, real)` may add statements checked on the real output alone."""
    from harness.common import driver, pmap
    got = pmap(run_real, cases)
    want = driver([request(sc) for sc in cases])
    for sc, g, w in zip(cases, got, want):
        ctx.case(stream, [sc["seed"], sc["scheme"], sc["layout"], sc["rev"], sc.get("frame_off", 0), str(sc["rows"])[:80]], sample=brief(sc), nontrivial=True)
        if "error" in w:
            if g["status"] == "ok":
                ctx.violation("tie-broken", stream, brief(sc), dict(model=w, implementation="ok"))
            continue
        if g["status"] != "ok":
            ctx.violation(kind, stream, brief(sc), dict(status=g["status"], theorem=theorem), tags=dict(first="status")); continue
        bad = monitor(sc, g) if monitor else []
        if bad:
            ctx.violation(kind, stream, brief(sc), dict(broken=bad[:4], theorem=theorem), tags=dict(first=bad[0][:20])); continue
        diffs = compare_files(sc, g["files"], w["files"])
        if diffs:
            ctx.violation(kind, stream, brief(sc),
                          dict(differences=[dict(what=a, implementation=str(x)[:300], model=str(y)[:300]) for a, x, y in diffs[:3]], theorem=theorem),
                          tags=dict(first=diffs[0][0].split(" ")[-1]))
