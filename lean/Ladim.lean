import Ladim.Model.Basic
import Ladim.Model.Time
import Ladim.Model.State
import Ladim.Model.Output
import Ladim.Props.C13
import Ladim.Props.C13Parser
import Ladim.Props.C05
