import Ladim.Model.Grid
/-
L1 — `ladim/tracker.py`: one particle through `Tracker.update`.

The forcing enters as an oracle `vel frac x y : Option (Rat × Rat)` ("velocity at this position,
this fraction of a step ahead"; `none` = the sampler read outside its arrays), so every
statement about the tracker holds for every forcing, analytic plug-ins included.
-/

namespace Ladim

inductive Scheme | none | EF | RK2 | RK4
  deriving DecidableEq, Repr

abbrev VelOracle := Rat → Rat → Rat → Option (Rat × Rat)

structure TrkCfg where
  scheme : Scheme
  dt : Rat
  vertAdv : Bool
  vertDiff : Bool
  deriving Repr

/-- horizontal part of the state of one particle -/
structure Part where
  x : Rat
  y : Rat
  z : Rat
  alive : Bool
  active : Bool
  deriving Repr, DecidableEq

/-- `clip` (in place in the code): towards the forcing domain, 0.01 inside the limits -/
def clip1 (lo hi v : Rat) : Rat := max (min v hi) lo

/-- `RKstep`: a partial forward step -/
def rkStep (x y u v frac dtdx dtdy : Rat) : Rat × Rat := (x + frac * u * dtdx, y + frac * v * dtdy)

/-- `RK4avg` -/
def rk4avg (a b c d : Rat) : Rat := (a + 2 * b + 2 * c + d) / 6

/-- stage position: partial step, then clipped into `[xmin+0.01, xmax-0.01] × [ymin+0.01, ymax-0.01]` -/
def stage (g : GridM) (x y u v frac dtdx dtdy : Rat) : Rat × Rat :=
  let (x1, y1) := rkStep x y u v frac dtdx dtdy
  (clip1 (g.xmin + 1/100) (g.xmax - 1/100) x1, clip1 (g.ymin + 1/100) (g.ymax - 1/100) y1)

/-- the advective velocity of the chosen scheme (`Tracker.EF/RK2/RK4`) -/
def advect (s : Scheme) (g : GridM) (vel : VelOracle) (x y dtdx dtdy : Rat) : Option (Rat × Rat) :=
  match s with
  | .none => some (0, 0)
  | .EF => vel 0 x y
  | .RK2 => do
    let (u, v) ← vel 0 x y
    let (x1, y1) := stage g x y u v (1/2) dtdx dtdy
    vel (1/2) x1 y1
  | .RK4 => do
    let (u1, v1) ← vel 0 x y
    let (x1, y1) := stage g x y u1 v1 (1/2) dtdx dtdy
    let (u2, v2) ← vel (1/2) x1 y1
    let (x2, y2) := stage g x y u2 v2 (1/2) dtdx dtdy
    let (u3, v3) ← vel (1/2) x2 y2
    let (x3, y3) := stage g x y u3 v3 1 dtdx dtdy
    let (u4, v4) ← vel 1 x3 y3
    pure (rk4avg u1 u2 u3 u4, rk4avg v1 v2 v3 v4)

/-- the horizontal move of one particle.  `du dv` are the diffusive velocity components
    (0 when diffusion is off).  Order as in the code: proposed position, kill if outside the
    grid, restore the inactive, cancel a move onto land. -/
def moveH (cfg : TrkCfg) (g : GridM) (vel : VelOracle) (du dv : Rat) (p : Part) : Option Part := do
  let dx ← g.metric p.x p.y
  let (ua, va) ← advect cfg.scheme g vel p.x p.y (cfg.dt / dx) (cfg.dt / dx)
  let x1 := p.x + (ua + du) * cfg.dt / dx
  let y1 := p.y + (va + dv) * cfg.dt / dx
  let out := !(g.ingrid x1 y1)
  let alive := p.alive && !out
  let active := p.active && !out
  let (x2, y2) := if active then (x1, y1) else (p.x, p.y)
  let sea ← g.atsea x2 y2
  let (x3, y3) := if sea then (x2, y2) else (p.x, p.y)
  pure { p with x := x3, y := y3, alive := alive, active := active }

/-- reflecting boundaries at the surface and at the bottom `h` -/
def reflect (h z : Rat) : Rat :=
  let z1 := if z < 0 then -z else z
  if h < z1 then 2 * h - z1 else z1

/-- the vertical move: `wdiff` diffusive and `wadv` advective vertical velocity; the depth `h`
    is that of the cell occupied when the step began -/
def moveV (cfg : TrkCfg) (g : GridM) (wdiff wadv : Rat) (x0 y0 : Rat) (z : Rat) : Option Rat :=
  if cfg.vertDiff || cfg.vertAdv then do
    let h ← g.depth x0 y0
    let z1 := if cfg.vertDiff then z + wdiff * cfg.dt else z
    let z2 := if cfg.vertAdv then z1 + wadv * cfg.dt else z1
    pure (reflect h z2)
  else some z

/-- `Tracker.diffuse` / `diffuse_vert`: the diffusive velocity made from one standard normal
    draw `xi` (generic: run at `Float` against the code, reasoned about at `ℝ` in `Props.C11`) -/
def diffVel {α : Type} [VOps α] (D dt xi : α) : α :=
  VOps.sqrt (VOps.ofNat 2 * D / dt) * xi

/-- the displacement that velocity causes in one step, in grid units (`dx` = metric of the
    particle's cell; for the vertical use `dx = 1`) -/
def diffDisp {α : Type} [VOps α] (D dt dx xi : α) : α :=
  diffVel D dt xi * dt / dx

/-! the layout of one step's stream of standard normal draws: `rng.normal(size=n)` for U, then
    for V (horizontal diffusion on), then for W (vertical diffusion on) -/

def drawU (_n k : Nat) : Nat := k
def drawV (n k : Nat) : Nat := n + k
def drawW (n k : Nat) (hdiff : Bool) : Nat := (if hdiff then 2 * n else 0) + k
def drawsPerStep (n : Nat) (hdiff vdiff : Bool) : Nat := (if hdiff then 2 * n else 0) + (if vdiff then n else 0)

/-- `Tracker.update` for one particle -/
def trackerStep (cfg : TrkCfg) (g : GridM) (vel : VelOracle) (du dv wdiff wadv : Rat) (p : Part) :
    Option Part := do
  let p1 ← moveH cfg g vel du dv p
  let z ← moveV cfg g wdiff wadv p.x p.y p.z
  pure { p1 with z := z }

end Ladim
