import Ladim.Model.Basic
/-
L1 — `ladim/timekeeper.py`: the `TimeKeeper` clock and `normalize_period`.

Times are `Int` seconds (np.datetime64[s]); `dt` is `Int` seconds (np.timedelta64[s]).
`//` is `Int.fdiv`.  Errors are explicit: `exit3` = `SystemExit(3)`.
-/

namespace Ladim

structure TK where
  start : Int
  stop : Int
  dt : Int
  ref : Int
  rev : Bool
  nsteps : Int
  step : Int
  time : Int
  deriving Repr, DecidableEq, Inhabited

namespace TK

/-- direction sign: `+1` forward, `-1` reversed -/
def sgn (rev : Bool) : Int := if rev then -1 else 1

/-- `TimeKeeper.step2time` -/
def step2time (tk : TK) (n : Int) : Int :=
  if tk.rev then tk.start - n * tk.dt else tk.start + n * tk.dt

/-- `TimeKeeper.time2step` (`//` is floor division) -/
def time2step (tk : TK) (t : Int) : Int :=
  if tk.rev then Int.fdiv (tk.start - t) tk.dt else Int.fdiv (t - tk.start) tk.dt

/-- `TimeKeeper.__init__`.  `none` for start/stop and `0` for dt model the falsy
    arguments the code tests with `if not …`. -/
def init (start stop : Option Int) (dt : Int) (ref : Option Int) (rev : Bool) : Except Refusal TK :=
  match start, stop with
  | none, _ => .error .exit3
  | _, none => .error .exit3
  | some s, some e =>
    if dt = 0 then .error .exit3 else
    let duration := e - s
    if rev != decide (duration < 0) then .error .exit3 else
    let minT := min s e
    let r := match ref with | some r => r | none => minT
    let tk0 : TK := { start := s, stop := e, dt := dt, ref := r, rev := rev,
                      nsteps := Int.fdiv duration.natAbs dt, step := -1, time := 0 }
    .ok { tk0 with time := tk0.step2time (-1) }

def minTime (tk : TK) : Int := min tk.start tk.stop
def maxTime (tk : TK) : Int := max tk.start tk.stop

/-- `TimeKeeper.update` -/
def update (tk : TK) : TK :=
  { tk with step := tk.step + 1,
            time := if tk.rev then tk.time - tk.dt else tk.time + tk.dt }

/-- iterate `update` -/
def updates (tk : TK) : Nat → TK
  | 0 => tk
  | n + 1 => (tk.updates n).update

/-- seconds in a CF unit character as used by `np.timedelta64(1, unit)` -/
def unitSeconds : String → Option Int
  | "s" => some 1 | "m" => some 60 | "h" => some 3600 | "D" => some 86400 | _ => none

/-- `TimeKeeper.nctime(unit)` -/
def nctime (tk : TK) (unit : String) : Option Rat :=
  match unitSeconds unit with
  | some u => some (((tk.time - tk.ref : Int) : Rat) / ((u : Int) : Rat))
  | none => none

/-- `TimeKeeper.step2nctime(step, unit)` -/
def step2nctime (tk : TK) (n : Int) (unit : String) : Option Rat :=
  match unitSeconds unit with
  | some u => some (((tk.step2time n - tk.ref : Int) : Rat) / ((u : Int) : Rat))
  | none => none

end TK

/-! ### `normalize_period` -/

/-- the argument kinds `normalize_period` distinguishes -/
inductive PeriodIn
  | secs (n : Int)                 -- int, np.timedelta64[s], datetime.timedelta (whole seconds)
  | pair (v : Int) (unit : String) -- list [int, str]
  | badPair                        -- list of another shape / element types
  | iso (s : String)               -- str
  | other                          -- anything else (tuple, float, None, …)

/-- seconds of the numpy units the model covers for `[value, unit]` -/
def pairUnitSeconds : String → Option Int
  | "s" => some 1 | "m" => some 60 | "h" => some 3600 | "D" => some 86400 | "W" => some 604800
  | _ => none

def digitsToNat (ds : List Char) : Nat :=
  ds.foldl (fun acc c => 10 * acc + (c.toNat - '0'.toNat)) 0

/-- one optional regex group `(\d+c)?` at the head of `cs` -/
def parseGroup (c : Char) (cs : List Char) : Option Nat × List Char :=
  let ds := cs.takeWhile Char.isDigit
  let rest := cs.dropWhile Char.isDigit
  match ds, rest with
  | _ :: _, r :: rest' => if r = c then (some (digitsToNat ds), rest') else (none, cs)
  | _, _ => (none, cs)

/-- `re.match(r"^PT(\d+H)?(\d+M)?(\d+S)?$", s)` followed by the "at least one group"
    test and the summation.  Python's `$` also matches before one trailing newline. -/
def parseIso (s : String) : Option Int :=
  match s.toList with
  | 'P' :: 'T' :: cs =>
    let (h, cs1) := parseGroup 'H' cs
    let (m, cs2) := parseGroup 'M' cs1
    let (sec, cs3) := parseGroup 'S' cs2
    if cs3 = [] ∨ cs3 = ['\n'] then
      match h, m, sec with
      | none, none, none => none
      | _, _, _ => some (3600 * (h.getD 0 : Int) + 60 * (m.getD 0 : Int) + (sec.getD 0 : Int))
    else none
  | _ => none

/-- `normalize_period`: seconds, or `ValueError`. -/
def normalizePeriod : PeriodIn → Except Refusal Int
  | .secs n => .ok n
  | .pair v u => match pairUnitSeconds u with
      | some k => .ok (v * k)
      | none => .error .valueError
  | .badPair => .error .valueError
  | .iso s => match parseIso s with
      | some v => .ok v
      | none => .error .valueError
  | .other => .error .valueError

end Ladim
