import Ladim.Model.Sample
import Ladim.Model.Vertical
/-
L1 — `ladim/ROMS.py` `Grid`: subgrid limits, the valid region, land masks at u- and v-points,
and the nearest-cell look-ups `metric`, `depth`, `atsea`, `ingrid`.
-/

namespace Ladim

/-- the four subgrid limits after defaulting and wrap-around of negative values;
    `none` = "Illegal subgrid specification" (`SystemExit(1)`) -/
def subgridLimits (imax0 jmax0 : Int) (sub : Option (Int × Int × Int × Int)) :
    Option (Int × Int × Int × Int) :=
  let (a, b, c, d) := match sub with
    | some s => s
    | none => (1, imax0 - 1, 1, jmax0 - 1)
  let a := if a < 0 then imax0 + a else a
  let b := if b < 0 then imax0 + b else b
  let c := if c < 0 then jmax0 + c else c
  let d := if d < 0 then jmax0 + d else d
  if 1 ≤ a ∧ a < b ∧ b ≤ imax0 - 1 ∧ 1 ≤ c ∧ c < d ∧ d ≤ jmax0 - 1 then some (a, b, c, d) else none

/-- `l[a:b]` -/
def slice {α} (l : List α) (a b : Int) : List α := (l.drop a.toNat).take (b - a).toNat

def slice2 (F : Field2) (j0 j1 i0 i1 : Int) : Field2 := (slice F j0 j1).map (slice · i0 i1)

structure GridM where
  i0 : Int
  i1 : Int
  j0 : Int
  j1 : Int
  H : Field2       -- [J, I]
  M : Field2       -- mask_rho[J, I] as 0/1
  dx : Field2      -- 1/pm[J, I]
  zr : Field3      -- z_r[:, J, I]
  deriving Repr

namespace GridM

def imax (g : GridM) : Int := g.i1 - g.i0
def jmax (g : GridM) : Int := g.j1 - g.j0
def xmin (g : GridM) : Rat := g.i0
def xmax (g : GridM) : Rat := (g.i1 - 1 : Int)
def ymin (g : GridM) : Rat := g.j0
def ymax (g : GridM) : Rat := (g.j1 - 1 : Int)

/-- `Grid.ingrid`: strictly inside the region where all look-ups and samples are defined -/
def ingrid (g : GridM) (x y : Rat) : Bool :=
  g.xmin + 1/2 < x && x < g.xmax - 1/2 && g.ymin + 1/2 < y && y < g.ymax - 1/2

/-- the cell a position is in: `round(X) - i0`, `round(Y) - j0` -/
def cellI (g : GridM) (x : Rat) : Int := roundHalfEven x - g.i0
def cellJ (g : GridM) (y : Rat) : Int := roundHalfEven y - g.j0

def metric (g : GridM) (x y : Rat) : Option Rat := get2 g.dx (g.cellJ y) (g.cellI x)
def depth (g : GridM) (x y : Rat) : Option Rat := get2 g.H (g.cellJ y) (g.cellI x)
def atsea (g : GridM) (x y : Rat) : Option Bool := (get2 g.M (g.cellJ y) (g.cellI x)).map (fun m => decide (0 < m))

end GridM

/-- land mask at u-points of a `[jmax][imax]` rho-mask: product of the two neighbours in the
    interior, the rho-value itself on the two outer columns; shape `[jmax][imax+1]` -/
def maskU (M : Field2) : Field2 :=
  M.map fun row =>
    match row with
    | [] => []
    | a :: _ => [a] ++ (row.zip row.tail).map (fun (x, y) => x * y) ++ [row.getLastD a]

/-- land mask at v-points; shape `[jmax+1][imax]` -/
def maskV (M : Field2) : Field2 :=
  match M with
  | [] => []
  | r0 :: _ =>
    [r0] ++ (M.zip M.tail).map (fun (a, b) => (a.zip b).map (fun (x, y) => x * y)) ++ [M.getLastD r0]

/-- `Forcing._read_velocity`: raw node values (already sliced to the subgrid's u- or v-window),
    optional scale factor, multiplied by the land mask at the same points -/
def readVel (raw : Field3) (scale : Option Rat) (mask : Field2) : Field3 :=
  raw.map fun plane =>
    (plane.zip mask).map fun (r, mr) =>
      (r.zip mr).map fun (x, m) => (match scale with | some s => s * x | none => x) * m

/-! ### the ROMS set-up as a whole: files → grid and sampler inputs -/

/-- what a ROMS grid/forcing file provides (whole grid, file index order) -/
structure RomsFile where
  h : Field2            -- [eta_rho][xi_rho]
  mask : Field2
  dx : Field2           -- 1/pm
  hc : Rat
  CsR : List Rat
  vtransform : Nat
  deriving Repr

/-- `z_r = sdepth(H, hc, Cs_r)`: `[k][j][i]` -/
def zRho (vt : Nat) (H : Field2) (hc : Rat) (Cs : List Rat) : Field3 :=
  let N := Cs.length
  (List.range N).zip Cs |>.map fun (k, c) =>
    H.map fun row => row.map fun h => levelDepth vt h hc (sRho N k : Rat) c

/-- `Grid.__init__`: the subgrid window of the file -/
def mkGrid (f : RomsFile) (sub : Option (Int × Int × Int × Int)) : Option GridM :=
  let jmax0 : Int := f.h.length
  let imax0 : Int := (f.h.headD []).length
  match subgridLimits imax0 jmax0 sub with
  | none => none
  | some (i0, i1, j0, j1) =>
    let H := slice2 f.h j0 j1 i0 i1
    some { i0 := i0, i1 := i1, j0 := j0, j1 := j1, H := H, M := slice2 f.mask j0 j1 i0 i1,
           dx := slice2 f.dx j0 j1 i0 i1, zr := zRho f.vtransform H f.hc f.CsR }

/-- `_read_velocity`: the u-window `[:, Ju, Iu]`, `Iu = i0-1 … i1`, scaled and masked -/
def windowU (g : GridM) (rawU : Field3) (scale : Option Rat) : Field3 :=
  readVel (rawU.map (fun P => slice2 P g.j0 g.j1 (g.i0 - 1) g.i1)) scale (maskU g.M)

/-- the v-window `[:, Jv, Iv]`, `Jv = j0-1 … j1` -/
def windowV (g : GridM) (rawV : Field3) (scale : Option Rat) : Field3 :=
  readVel (rawV.map (fun P => slice2 P (g.j0 - 1) g.j1 g.i0 g.i1)) scale (maskV g.M)

/-- `_read_field`: the rho-window `[:, J, I]` -/
def windowRho (g : GridM) (raw : Field3) : Field3 := raw.map (fun P => slice2 P g.j0 g.j1 g.i0 g.i1)

/-- level column of the particle's own cell: `z2s(z_r, round(X) - i0, round(Y) - j0, Z)` -/
def levelOf (g : GridM) (x y z : Rat) : Option (Int × Rat) :=
  z2s g.zr (g.cellI x : Int) (g.cellJ y : Int) z

/-- `Forcing.velocity` (spatial part) for one particle whose level column was fixed at
    `(x0, y0)` by `Forcing.update`, sampled at `(x, y)`; `sign = -1` in reversed time -/
def sampleVel (g : GridM) (U V : Field3) (sign : Rat) (x0 y0 z : Rat) (x y : Rat) : Option (Rat × Rat) := do
  let (K, A) ← levelOf g x0 y0 z
  let (u, v) ← sample3DUV U V (x - g.i0) (y - g.j0) K A
  pure (sign * u, sign * v)

/-- scalar forcing of one particle: the value of its own cell at level `K` -/
def sampleScalar (g : GridM) (F : Field3) (x y z : Rat) : Option Rat := do
  let (K, _) ← levelOf g x y z
  nearest F (g.cellI x : Int) (g.cellJ y : Int) K

end Ladim
