import Ladim.Model.Sample
/-
L1 — `ladim/ROMS.py` `Grid`: subgrid limits, the valid region, land masks at u- and v-points,
and the nearest-cell look-ups `metric`, `depth`, `atsea`, `ingrid`.
-/

namespace Ladim

/-- the four subgrid limits after defaulting and wrap-around of negative values;
    `none` = "Illegal subgrid specification" (`SystemExit(1)`) -/
def subgridLimits (imax0 jmax0 : Int) (sub : Option (Int × Int × Int × Int)) :
    Option (Int × Int × Int × Int) :=
  let (a, b, c, d) := match sub with
    | some s => s
    | none => (1, imax0 - 1, 1, jmax0 - 1)
  let a := if a < 0 then imax0 + a else a
  let b := if b < 0 then imax0 + b else b
  let c := if c < 0 then jmax0 + c else c
  let d := if d < 0 then jmax0 + d else d
  if 1 ≤ a ∧ a < b ∧ b ≤ imax0 - 1 ∧ 1 ≤ c ∧ c < d ∧ d ≤ jmax0 - 1 then some (a, b, c, d) else none

/-- `l[a:b]` -/
def slice {α} (l : List α) (a b : Int) : List α := (l.drop a.toNat).take (b - a).toNat

def slice2 (F : Field2) (j0 j1 i0 i1 : Int) : Field2 := (slice F j0 j1).map (slice · i0 i1)

structure GridM where
  i0 : Int
  i1 : Int
  j0 : Int
  j1 : Int
  H : Field2       -- [J, I]
  M : Field2       -- mask_rho[J, I] as 0/1
  dx : Field2      -- 1/pm[J, I]
  zr : Field3      -- z_r[:, J, I]
  deriving Repr

namespace GridM

def imax (g : GridM) : Int := g.i1 - g.i0
def jmax (g : GridM) : Int := g.j1 - g.j0
def xmin (g : GridM) : Rat := g.i0
def xmax (g : GridM) : Rat := (g.i1 - 1 : Int)
def ymin (g : GridM) : Rat := g.j0
def ymax (g : GridM) : Rat := (g.j1 - 1 : Int)

/-- `Grid.ingrid`: strictly inside the region where all look-ups and samples are defined -/
def ingrid (g : GridM) (x y : Rat) : Bool :=
  g.xmin + 1/2 < x && x < g.xmax - 1/2 && g.ymin + 1/2 < y && y < g.ymax - 1/2

/-- the cell a position is in: `round(X) - i0`, `round(Y) - j0` -/
def cellI (g : GridM) (x : Rat) : Int := roundHalfEven x - g.i0
def cellJ (g : GridM) (y : Rat) : Int := roundHalfEven y - g.j0

def metric (g : GridM) (x y : Rat) : Option Rat := get2 g.dx (g.cellJ y) (g.cellI x)
def depth (g : GridM) (x y : Rat) : Option Rat := get2 g.H (g.cellJ y) (g.cellI x)
def atsea (g : GridM) (x y : Rat) : Option Bool := (get2 g.M (g.cellJ y) (g.cellI x)).map (fun m => decide (0 < m))

end GridM

/-- land mask at u-points of a `[jmax][imax]` rho-mask: product of the two neighbours in the
    interior, the rho-value itself on the two outer columns; shape `[jmax][imax+1]` -/
def maskU (M : Field2) : Field2 :=
  M.map fun row =>
    match row with
    | [] => []
    | a :: _ => [a] ++ (row.zip row.tail).map (fun (x, y) => x * y) ++ [row.getLastD a]

/-- land mask at v-points; shape `[jmax+1][imax]` -/
def maskV (M : Field2) : Field2 :=
  match M with
  | [] => []
  | r0 :: _ =>
    [r0] ++ (M.zip M.tail).map (fun (a, b) => (a.zip b).map (fun (x, y) => x * y)) ++ [M.getLastD r0]

/-- `Forcing._read_velocity`: raw node values (already sliced to the subgrid's u- or v-window),
    optional scale factor, multiplied by the land mask at the same points -/
def readVel (raw : Field3) (scale : Option Rat) (mask : Field2) : Field3 :=
  raw.map fun plane =>
    (plane.zip mask).map fun (r, mr) =>
      (r.zip mr).map fun (x, m) => (match scale with | some s => s * x | none => x) * m

end Ladim
