import Ladim.Model.Forcing
import Ladim.Model.RunRoms
/-
L3 — the running forcing fields of a whole simulation.  `Ladim.Model.Forcing` is the time
machine of `ladim/ROMS.py` `Forcing` for one node value; here it is run for every node of the
3-D arrays and every step of the run, which gives the arrays `u`, `dU` (and the scalar
fields) that `RomsSetup` hands to the tracker and to `forcing.update`.  `ForcingSetup.toRoms`
builds the `RomsSetup` of a run from the frame table and the raw (windowed) arrays of the
frames, so that the whole-run environment contains the time machine and not a table of
precomputed fields.  `Ladim.Props.WholeForcing` proves that the velocity a particle samples in
such a run is the spatial interpolation of the temporal interpolation of the frames.
-/

namespace Ladim

namespace FM

/-- the states after the updates of steps `s`, `s+1`, … (at most `fuel` of them; stops at the
    first update that fails) -/
def scan (m : FM) (valU valS : Nat → Nat → Rat) (hasS : Bool) (s : Nat) : Nat → List FM
  | 0 => []
  | fuel + 1 =>
    match m.update valU valS hasS (s : Int) with
    | none => []
    | some m' => m' :: scan m' valU valS hasS (s + 1) fuel

end FM

/-- value of node `(k, j, i)` in frame `ix` of file `f` (0 outside the array) -/
def nodeVal (arr : Nat → Nat → Field3) (k j i : Nat) : Nat → Nat → Rat :=
  fun f ix => ((((arr f ix)[k]?).bind (·[j]?)).bind (·[i]?)).getD 0

/-- the machine states of one node after the updates of steps `0 … n-1` -/
def nodeStates (frames : List Frame) (val : Nat → Nat → Rat) (hasS : Bool) (n : Nat) : List FM :=
  match FM.init frames val val hasS with
  | none => []
  | some m0 => m0.scan val val hasS 0 n

/-- apply `f k j i` at every node of an array of the shape of `shape` -/
def mapNodes {α : Type} (shape : Field3) (f : Nat → Nat → Nat → α) : List (List (List α)) :=
  shape.zipIdx.map (fun (P, k) => P.zipIdx.map (fun (r, j) => r.zipIdx.map (fun (_, i) => f k j i)))

/-- shape of the arrays: that of the first frame -/
def shapeOf (frames : List Frame) (arr : Nat → Nat → Field3) : Field3 :=
  match frames with
  | [] => []
  | f0 :: _ => arr f0.file f0.idx

/-- per-node time machine over a whole 3-D array: for steps `0 … n-1` the pair `(u, dU)` -/
def fieldSeq (frames : List Frame) (arr : Nat → Nat → Field3) (n : Nat) : List (Field3 × Field3) :=
  let perNode := mapNodes (shapeOf frames arr) (fun k j i => nodeStates frames (nodeVal arr k j i) false n)
  (List.range n).map (fun s =>
    (perNode.map (fun P => P.map (fun r => r.map (fun l => (l[s]?.map (·.u)).getD 0))),
     perNode.map (fun P => P.map (fun r => r.map (fun l => (l[s]?.map (·.dU)).getD 0)))))

/-- the scalar field of every step `0 … n-1`, from the same machine -/
def scalarSeq (frames : List Frame) (arr : Nat → Nat → Field3) (n : Nat) : List Field3 :=
  let perNode := mapNodes (shapeOf frames arr) (fun k j i => nodeStates frames (nodeVal arr k j i) true n)
  (List.range n).map (fun s =>
    perNode.map (fun P => P.map (fun r => r.map (fun l => (l[s]?.map (·.scal)).getD 0))))

/-- the specification: the frames interpolated in time at (real) step `t`, node by node -/
def interpField (frames : List Frame) (arr : Nat → Nat → Field3) (t : Rat) : Field3 :=
  mapNodes (shapeOf frames arr) (fun k j i => (interpFrames frames (nodeVal arr k j i) t).getD 0)

/-- the specification for scalar fields: the latest frame at or before step `n` -/
def latestField (frames : List Frame) (arr : Nat → Nat → Field3) (n : Int) : Field3 :=
  mapNodes (shapeOf frames arr) (fun k j i => (latestFrame frames (nodeVal arr k j i) n).getD 0)

/-- what a whole ROMS run is made of besides the forcing fields -/
structure ForcingSetup where
  frames : List Frame
  arrU : Nat → Nat → Field3            -- windowed U of frame `ix` of file `f`
  arrV : Nat → Nat → Field3
  arrS : List (String × (Nat → Nat → Field3))
  nrun : Nat                           -- number of steps the fields are prepared for

namespace ForcingSetup

/-- the `RomsSetup` of a run whose forcing comes from the time machine -/
def toRoms (fs : ForcingSetup) (g : GridM) (sign : Rat) (cfg : TrkCfg) (releaseAt : Int → List RP)
    (ageing : Bool) (kills : Int → List Nat) (period : Int) (sparse : Bool) (rnd : Rat → Rat) : RomsSetup :=
  let useq := fieldSeq fs.frames fs.arrU fs.nrun
  let vseq := fieldSeq fs.frames fs.arrV fs.nrun
  let sseq := fs.arrS.map (fun (nm, arr) => (nm, scalarSeq fs.frames arr fs.nrun))
  { g := g,
    fieldU := fun k => useq[k]?.getD ([], []),
    fieldV := fun k => vseq[k]?.getD ([], []),
    scalars := sseq.map (fun (nm, seq) => (nm, fun k => seq[k]?.getD [])),
    sign := sign, cfg := cfg,
    releaseAt := releaseAt, ageing := ageing, kills := kills, period := period, sparse := sparse, rnd := rnd }

end ForcingSetup

end Ladim
