import Ladim.Model.Run
import Ladim.Model.Grid
import Ladim.Model.Tracker
/-
L3 — the environment of `Ladim.Model.Run` instantiated with the ROMS components: the loaded
grid, the running forcing fields of every step (produced by the time machine of
`Ladim.Model.Forcing`, node by node), the tracker of `Ladim.Model.Tracker` and a scripted IBM
(ageing, kills by pid at given steps).  This is the instantiation the correspondence check
runs against whole simulations; `Ladim.Props.Whole` discharges the hypotheses of the run-level
theorems (`Sane`, `ForceIdem`, …) for it.
-/

namespace Ladim

structure RomsSetup where
  g : GridM
  /-- velocity fields in force at step `k`: `(u, dU)` and `(v, dV)` -/
  fieldU : Nat → Field3 × Field3
  fieldV : Nat → Field3 × Field3
  /-- scalar forcing fields in force at step `k`, by name -/
  scalars : List (String × (Nat → Field3))
  sign : Rat                          -- −1 in a time-reversed run
  cfg : TrkCfg
  releaseAt : Int → List RP
  ageing : Bool
  kills : Int → List Nat              -- pids the scripted IBM kills at a step
  period : Int
  sparse : Bool
  /-- rounding applied to the coordinates after a move (`id`, or `quantize` in the driver) -/
  rnd : Rat → Rat

namespace RomsSetup

def lookupVar (l : List (String × Val)) (n : String) : Val := (PState.lookup l n).getD Val.nan

def setVar (l : List (String × Val)) (n : String) (v : Val) : List (String × Val) :=
  if l.any (·.1 == n) then l.map (fun (k, x) => if k == n then (k, v) else (k, x)) else l ++ [(n, v)]

def valRat : Val → Rat
  | .num q => q
  | .nan => 0

/-- `a + c·b`, node by node -/
def addScaled (A B : Field3) (c : Rat) : Field3 :=
  (A.zip B).map (fun (P, Q) => (P.zip Q).map (fun (r, s) => (r.zip s).map (fun (a, b) => a + c * b)))

/-- `forcing.update` for one particle: every scalar forcing variable gets the value of the
    particle's own cell and level (NaN marks a read outside the arrays, which C17 excludes) -/
def force (s : RomsSetup) (n : Int) (p : RP) : RP :=
  s.scalars.foldl (fun q (nm, seq) =>
    match sampleScalar s.g (seq n.toNat) q.x q.y q.z with
    | some v => { q with vars := setVar q.vars nm (.num v) }
    | none => { q with vars := setVar q.vars nm .nan }) p

/-- the velocity oracle of step `n` for a particle whose level column was fixed at `(x0,y0,z0)` -/
def oracle (s : RomsSetup) (n : Int) (x0 y0 z0 : Rat) : VelOracle := fun frac x y =>
  let (u, dU) := s.fieldU n.toNat
  let (v, dV) := s.fieldV n.toNat
  let U := if frac < 1/1000 then u else addScaled u dU frac
  let V := if frac < 1/1000 then v else addScaled v dV frac
  sampleVel s.g U V s.sign x0 y0 z0 x y

/-- `tracker.update` for one particle (a read outside the arrays is flagged in `__oob__`) -/
def move (s : RomsSetup) (n : Int) (p : RP) : RP :=
  let wadv := s.sign * valRat (lookupVar p.vars "w")
  match trackerStep s.cfg s.g (s.oracle n p.x p.y p.z) 0 0 0 wadv
      { x := p.x, y := p.y, z := p.z, alive := p.alive, active := p.active } with
  | some q => { p with x := s.rnd q.x, y := s.rnd q.y, z := s.rnd q.z, alive := q.alive, active := q.active }
  | none => { p with vars := setVar p.vars "__oob__" (.num 1) }

/-- the scripted IBM: ageing, then kills by pid -/
def ibm (s : RomsSetup) (n : Int) (p : RP) : RP :=
  let p1 := if s.ageing then { p with vars := setVar p.vars "age" (.num (valRat (lookupVar p.vars "age") + 1)) } else p
  if (s.kills n).contains p.pid then { p1 with alive := false } else p1

def env (s : RomsSetup) : RunEnv :=
  { release := s.releaseAt, force := s.force, move := s.move, ibm := s.ibm,
    due := fun n => Int.fmod n s.period == 0, sparse := s.sparse }

end RomsSetup
end Ladim
