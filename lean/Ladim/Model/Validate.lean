import Ladim.Model.Time
import Ladim.Model.Grid
import Ladim.Model.Release
/-
L1 — the start-up refusals of all modules as one decision function, in the order in which
`configure` and `Model.__init__` reach them:
  configure (file, version, mandatory sections) → state → time → grid → forcing → release
  → tracker → ibm → output.
`Output` is constructed last and is the only module that creates a file, so any refusal leaves
no output file behind.
-/

namespace Ladim

/-- where start-up stopped -/
inductive Stage | configure | time | grid | forcing | release | output
  deriving DecidableEq, Repr

def Stage.rank : Stage → Nat
  | .configure => 0 | .time => 1 | .grid => 2 | .forcing => 3 | .release => 4 | .output => 5

inductive RelFile
  | none                 -- release_file == "" (or the release section is empty)
  | missing              -- file not found
  | unreadable           -- read_csv raises ValueError
  | table (rows : List RRow) (hasPosition : Bool)

structure Setup where
  configExists : Bool
  versionOK : Bool
  hasTime : Bool
  hasTracker : Bool
  hasRelease : Bool
  hasOutput : Bool
  hasForcing : Bool
  gridHasModuleAndFile : Bool          -- the grid section names module and file itself
  start : Option Int
  stop : Option Int
  dt : Int
  rev : Bool
  gridFileExists : Bool
  imax0 : Int
  jmax0 : Int
  subgrid : Option (Int × Int × Int × Int)
  forcingFiles : List (List Int)       -- frame times of each matched file, files in sorted-name order
  release : RelFile
  continuous : Bool
  freq : Int

/-- all frame times in file order -/
def allFrames (s : Setup) : List Int := s.forcingFiles.flatten

/-- `scan_file_times`: strictly increasing across all files -/
def strictlySorted : List Int → Bool
  | a :: b :: t => decide (a < b) && strictlySorted (b :: t)
  | _ => true

/-- the refusal (kind, stage) of a set-up, or acceptance -/
def validate (s : Setup) : Except (Refusal × Stage) Unit :=
  if !s.configExists then .error (.exit3, .configure) else
  if !s.versionOK then .error (.exit3, .configure) else
  if !(s.hasTracker && s.hasTime && s.hasRelease && s.hasOutput) then .error (.exit3, .configure) else
  if !s.hasForcing && !s.gridHasModuleAndFile then .error (.exit3, .configure) else
  match TK.init s.start s.stop s.dt none s.rev with
  | .error e => .error (e, .time)
  | .ok tk =>
    if !s.gridFileExists then .error (.exit1, .grid) else
    match subgridLimits s.imax0 s.jmax0 s.subgrid with
    | none => .error (.exit1, .grid)
    | some _ =>
      if !s.hasForcing then .error (.keyError, .forcing) else
      if s.forcingFiles.isEmpty then .error (.exit3, .forcing) else
      if !strictlySorted (allFrames s) then .error (.exit4, .forcing) else
      match (allFrames s).head?, (allFrames s).getLast? with
      | some t0, some t1 =>
        if tk.minTime < t0 then .error (.exit3, .forcing) else
        if t1 < tk.maxTime then .error (.exit3, .forcing) else
        match s.release with
        | .none => .error (.exit3, .release)
        | .missing => .error (.exit3, .release)
        | .unreadable => .error (.exit3, .release)
        | .table rows hasPos =>
          if !hasPos then .error (.exit3, .release) else
          let c : RelCfg := { start := tk.start, stop := tk.stop, dt := tk.dt, rev := tk.rev,
                              continuous := s.continuous, freq := s.freq, warm := false, releaseTimeCol := false }
          match Rel.init c rows with
          | .error e => .error (e, .release)
          | .ok _ => .ok ()
      | _, _ => .error (.exit3, .forcing)      -- files without any frame

end Ladim
