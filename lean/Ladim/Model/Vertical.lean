import Ladim.Model.Basic
/-
L1 — the ROMS vertical grid of `ladim/ROMS.py`: `s_stretch` and `sdepth`.

The formulas are written once, generic over a type with field operations and the four
transcendental functions the code uses, and instantiated at `Float` (executed against the
code by the correspondence check) and at `ℝ` (in `Ladim.Props.C12`, for the theorems), so
that what is executed and what is proved about are the same terms.
-/

namespace Ladim

/-- the operations `s_stretch` and `sdepth` need -/
class VOps (α : Type) where
  add : α → α → α
  sub : α → α → α
  mul : α → α → α
  div : α → α → α
  ofNat : Nat → α
  sinh : α → α
  cosh : α → α
  tanh : α → α
  exp : α → α
  sqrt : α → α

namespace VOps
variable {α : Type} [VOps α]
instance : Add α := ⟨VOps.add⟩
instance : Sub α := ⟨VOps.sub⟩
instance : Mul α := ⟨VOps.mul⟩
instance : Div α := ⟨VOps.div⟩
end VOps

open VOps in
section
variable {α : Type} [VOps α]

local notation "𝟙" => (VOps.ofNat 1 : α)
local notation "𝟘" => (VOps.ofNat 0 : α)
local notation "½" => (VOps.div (VOps.ofNat 1) (VOps.ofNat 2) : α)

/-- unstretched coordinate of rho-level `k` of `N`: `-1 + (k + 0.5)/N` -/
def sRho (N k : Nat) : α := (𝟘 - 𝟙) + (½ + VOps.ofNat k) / VOps.ofNat N

/-- unstretched coordinate of w-level `k` of `N+1` levels: `linspace(-1, 0, N+1)[k] = -1 + k/N` -/
def sW (N k : Nat) : α := (𝟘 - 𝟙) + (VOps.ofNat k : α) / VOps.ofNat N

/-- Vstretching = 1 (Song & Haidvogel 1994) at coordinate `S` -/
def stretch1 (θs θb S : α) : α :=
  let cff1 := 𝟙 / VOps.sinh θs
  let cff2 := ½ / VOps.tanh (½ * θs)
  (𝟙 - θb) * cff1 * VOps.sinh (θs * S) + θb * (cff2 * VOps.tanh (θs * (S + ½)) - ½)

/-- Vstretching = 2 (Shchepetkin 2005) at coordinate `S` (with `a = b = 1`) -/
def stretch2 (θs θb S : α) : α :=
  let csur := (𝟙 - VOps.cosh (θs * S)) / (VOps.cosh θs - 𝟙)
  let cbot := VOps.sinh (θb * (S + 𝟙)) / VOps.sinh θb - 𝟙
  let mu := (S + 𝟙) * (𝟙 + (𝟙 - (S + 𝟙)))
  mu * csur + (𝟙 - mu) * cbot

/-- Vstretching = 4 (Shchepetkin 2010) at coordinate `S` -/
def stretch4 (θs θb S : α) : α :=
  let c := (𝟙 - VOps.cosh (θs * S)) / (VOps.cosh θs - 𝟙)
  (VOps.exp (θb * c) - 𝟙) / (𝟙 - VOps.exp (𝟘 - θb))

/-- `s_stretch(N, theta_s, theta_b, stagger, Vstretching)` -/
def sStretch (N : Nat) (θs θb : α) (w : Bool) (vstretching : Nat) : Option (List α) :=
  let S : List α := if w then (List.range (N + 1)).map (sW N) else (List.range N).map (sRho N)
  match vstretching with
  | 1 => some (S.map (stretch1 θs θb))
  | 2 => some (S.map (stretch2 θs θb))
  | 4 => some (S.map (stretch4 θs θb))
  | _ => none

/-- one level of `sdepth`: depth of the level with unstretched coordinate `S` and stretching
    value `C` over bottom depth `H`, for `Vtransform` 1 or 2 -/
def levelDepth (vtransform : Nat) (H Hc S C : α) : α :=
  if vtransform = 1 then Hc * (S - C) + C * H
  else (Hc * S + C * H) / (𝟙 + Hc / H)

/-- `sdepth(H, Hc, C, stagger, Vtransform)` over one column of depth `H`
    (`stagger = "w"` uses `linspace(-1, 0, len C)`) -/
def sdepthCol (vtransform : Nat) (H Hc : α) (C : List α) (w : Bool) : List α :=
  let N := C.length
  (List.range N).zip C |>.map fun (k, c) =>
    levelDepth vtransform H Hc (if w then sW (N - 1) k else sRho N k) c

end

/-- exact rationals have the field operations; the transcendental ones are never used by
    `sdepth`/`levelDepth` (only by `s_stretch`, which is run at `Float`) -/
instance : VOps Rat where
  add := (· + ·)
  sub := (· - ·)
  mul := (· * ·)
  div := (· / ·)
  ofNat := fun n => (n : Rat)
  sinh := id
  cosh := id
  tanh := id
  exp := id
  sqrt := id

instance : VOps Float where
  add := (· + ·)
  sub := (· - ·)
  mul := (· * ·)
  div := (· / ·)
  ofNat := fun n => n.toFloat
  sinh := Float.sinh
  cosh := Float.cosh
  tanh := Float.tanh
  exp := Float.exp
  sqrt := Float.sqrt

end Ladim
