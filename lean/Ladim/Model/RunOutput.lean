import Ladim.Model.Run
import Ladim.Model.Output
/-
L3 — what `Output.write` reads from the state of `Ladim.Model.Run` when a record is due, and the
output files of a whole run: the records of the time loop fed through the output module.
-/

namespace Ladim

structure OutSpec where
  names : List String                          -- requested instance variables other than pid
  pnames : List String                         -- requested particle variables
  time : Int → Rat                             -- `timer.nctime()` at a step
  refT : Rat                                   -- reference time (time-typed particle variables are stored as offsets)
  pvTable : List (List (String × Val))         -- particle-variable values by pid
  npidAt : Int → Nat                           -- pids handed out up to and including a step

namespace OutSpec

def lookupV (l : List (String × Val)) (n : String) : Val := (PState.lookup l n).getD Val.nan

/-- the column of one instance variable over the particles of a record -/
def colOf (parts : List RP) (nm : String) : Column :=
  parts.map (fun p => match nm with
    | "X" => Val.num p.x | "Y" => Val.num p.y | "Z" => Val.num p.z
    | "alive" => Val.num (if p.alive then 1 else 0) | "active" => Val.num (if p.active then 1 else 0)
    | _ => lookupV p.vars nm)

/-- the snapshot `Output.write` takes of the state at step `st` -/
def snapshotOf (o : OutSpec) (st : Int) (parts : List RP) : Snapshot :=
  { time := o.time st,
    pid := parts.map (·.pid), alive := parts.map (·.alive),
    cols := o.names.map (fun nm => (nm, colOf parts nm)),
    npid := o.npidAt st,
    pvars := o.pnames.map (fun nm => (nm, (o.pvTable.take (o.npidAt st)).map (fun l =>
      match lookupV l nm with
      | .num q => if nm == "release_time" then Val.num (q - o.refT) else Val.num q
      | .nan => Val.nan))) }

/-- the output files of a run whose time loop produced `records` -/
def runFiles (o : OutSpec) (layout : Layout) (nsteps periodStep numrec : Int) (stem suffix : String)
    (records : List (Int × List RP)) (warm : Bool) : Except (Int × Refusal) (List VFile) :=
  let snap (st : Int) : Snapshot := o.snapshotOf st ((records.lookup st).getD [])
  let o0 := Out.init layout periodStep (Out.predictRecords nsteps periodStep warm) numrec stem suffix
  let steps := if warm then Out.stepRange 1 (nsteps.toNat - 1) else Out.stepRange 0 nsteps.toNat
  match Out.runSteps o0 snap steps with
  | .ok out => .ok out.close.files
  | .error e => .error e

end OutSpec
end Ladim
