import Ladim.Model.State
/-
L3 — `ladim/model.py` + `ladim/main.py`: the time loop that strings the modules together.

The modules enter through an environment `RunEnv` of per-step functions, so that every
statement about the loop holds for every forcing, tracker set-up and IBM with the stated
interface.  The correspondence check instantiates it with the component models
(`Release`, `Forcing` + `Grid` sampling, `Tracker`) and a scripted IBM.

Order inside one `Model.update` (step `n`):
  [sparse layout: drop the dead] → time → release → forcing → output (if `n ≥ 0` and due)
  → tracker → IBM.
-/

namespace Ladim

/-- one particle in the state arrays -/
structure RP where
  pid : Nat
  x : Rat
  y : Rat
  z : Rat
  alive : Bool
  active : Bool
  vars : List (String × Val)        -- other instance variables (age, temp, …)
  pvars : List (String × Val)       -- this particle's particle-variable values
  deriving Repr, DecidableEq

structure RunEnv where
  release : Int → List RP           -- the rows released at a step (their `pid` is assigned by the loop)
  force : Int → RP → RP             -- `forcing.update`: forcing-derived variables of one particle
  move : Int → RP → RP              -- `tracker.update` for one particle
  ibm : Int → RP → RP               -- `ibm.update` for one particle
  due : Int → Bool                  -- `step % output_period_step == 0`
  sparse : Bool

inductive Call | time | release | forcing | output | tracker | ibm
  deriving DecidableEq, Repr

structure RState where
  parts : List RP
  npid : Nat
  log : List (Int × Call)           -- call log (step, module)
  records : List (Int × List RP)    -- (step, what `Output.write` was given)
  deriving Repr

namespace RunEnv

/-- hand out pids `npid, npid+1, …` -/
def assignPids (npid : Nat) (rows : List RP) : List RP :=
  (rows.zipIdx).map (fun (p, i) => { p with pid := npid + i })

/-- `release.update(); forcing.update(); tracker.update(); ibm.update()` and the output in
    between — the body of `Model.update` after the clock has advanced to `n` -/
def stepBody (env : RunEnv) (n : Int) (withOutput : Bool) (s : RState) : RState :=
  let parts0 := if env.sparse then s.parts.filter (·.alive) else s.parts
  let new := assignPids s.npid (env.release n)
  let parts1 := parts0 ++ new
  let parts2 := parts1.map (env.force n)
  let doOut := withOutput && decide (0 ≤ n) && env.due n
  -- `Output.write` compactifies in the sparse layout (a no-op here: nobody died since the start of the step)
  let parts3 := if doOut && env.sparse then parts2.filter (·.alive) else parts2
  let parts4 := parts3.map (env.move n)
  let parts5 := parts4.map (env.ibm n)
  { parts := parts5, npid := s.npid + new.length,
    log := s.log ++ [(n, Call.release), (n, Call.forcing)] ++ (if doOut then [(n, Call.output)] else [])
             ++ [(n, Call.tracker), (n, Call.ibm)],
    records := if doOut then s.records ++ [(n, parts3)] else s.records }

/-- `Model.update`: advance the clock, then the body -/
def update (env : RunEnv) (n : Int) (s : RState) : RState :=
  stepBody env n true { s with log := s.log ++ [(n, Call.time)] }

/-- steps `first … first+k-1` -/
def updates (env : RunEnv) (first : Int) : Nat → RState → RState
  | 0, s => s
  | k + 1, s => updates env (first + 1) k (env.update first s)

def empty : RState := { parts := [], npid := 0, log := [], records := [] }

/-- a cold-start run: `for step in range(Nsteps): model.update()` -/
def coldRun (env : RunEnv) (nsteps : Nat) : RState := env.updates 0 nsteps empty

/-- a warm-started run: the state comes from the last record of a file (`warm_start`), the
    constructor performs step 0 without clock update and without output, then the loop runs
    steps `1 … Nsteps-1` -/
def warmRun (env : RunEnv) (nsteps : Nat) (parts : List RP) (npid : Nat) : RState :=
  let s0 : RState := { parts := parts, npid := npid, log := [], records := [] }
  env.updates 1 (nsteps - 1) (stepBody env 0 false s0)

/-! ### the per-particle specification -/

/-- what one step does to one particle between two record moments:
    tracker, IBM of step `n`, then the forcing of step `n+1` -/
def advance1 (env : RunEnv) (n : Int) (p : RP) : RP := env.force (n + 1) (env.ibm n (env.move n p))

/-- a particle released at step `k`, as it stands when the record of step `k + m` is due -/
def advance (env : RunEnv) (k : Int) (p : RP) : Nat → RP
  | 0 => env.force k p
  | m + 1 => advance1 env (k + m) (advance env k p m)

/-- all particles released at steps `0 … n`, in release order, with the step they were released at -/
def releasedUpTo (env : RunEnv) (n : Nat) : List (Int × RP) :=
  (List.range (n + 1)).flatMap (fun (k : Nat) => (env.release (k : Int)).map (fun p => ((k : Int), p)))

/-- the record of step `n` according to the specification: every particle released so far,
    numbered in release order, advanced on its own, the dead ones left out -/
def specRecord (env : RunEnv) (n : Nat) : List RP :=
  (((releasedUpTo env n).zipIdx).map
    (fun ((k, p), i) => advance env k { p with pid := i } (n - k.toNat))).filter (·.alive)

end RunEnv
end Ladim
