/-
L0 — numeric helpers shared by every model file.  Mathlib-free (core `Rat`, `Int`, `List`).

Fidelity notes
* `pyTrunc`      : Python `int(x)` / numpy `astype(int)` on a float: truncation toward zero.
* `roundHalfEven`: numpy `round`/`around` (round half to even).
* `Int.fdiv`/`Int.fmod` are Python/numpy `//` and `%` on integers (floor division,
  sign-of-divisor modulo); they are used explicitly wherever the code uses `//` or `%`.
* `searchsortedLeft`: numpy `searchsorted(a, v)` (side="left") on a sorted list.
-/

namespace Ladim

/-- how the real code stops: `SystemExit(n)` or an exception class -/
inductive Refusal
  | exit1 | exit3 | exit4 | valueError | indexError | keyError | typeError | runtimeError | other
  deriving DecidableEq, Repr, Inhabited

def Refusal.toString : Refusal → String
  | .exit1 => "exit1" | .exit3 => "exit3" | .exit4 => "exit4"
  | .valueError => "ValueError" | .indexError => "IndexError" | .keyError => "KeyError"
  | .typeError => "TypeError" | .runtimeError => "RuntimeError" | .other => "other"


/-- Python `int(x)` on a real number: truncation toward zero. -/
def pyTrunc (x : Rat) : Int :=
  if 0 ≤ x then x.floor else -((-x).floor)

/-- numpy `round` / `around`: round half to even. -/
def roundHalfEven (x : Rat) : Int :=
  let f := x.floor
  let d := x - (f : Rat)
  if d < 1/2 then f
  else if 1/2 < d then f + 1
  else if f % 2 = 0 then f else f + 1

def clampR (lo hi x : Rat) : Rat := max (min x hi) lo

/-- numpy `searchsorted(a, v)` (left): number of leading elements `< v` for sorted `a`.
    Defined as the first index whose element is `≥ v` (or the length). -/
def searchsortedLeft : List Rat → Rat → Nat
  | [], _ => 0
  | a :: as, v => if a < v then searchsortedLeft as v + 1 else 0

/-- sum of a list of naturals -/
def sumNat (l : List Nat) : Nat := l.foldl (· + ·) 0

/-- `np.arange(a, b, step)` for integers with `step ≠ 0`, with fuel for totality. -/
def arangeInt (a b step : Int) : List Int :=
  if step > 0 then
    if a < b then (List.range ((b - a + step - 1) / step).toNat).map (fun (k : Nat) => a + step * (k : Int)) else []
  else if step < 0 then
    if b < a then (List.range ((a - b + (-step) - 1) / (-step)).toNat).map (fun (k : Nat) => a + step * (k : Int)) else []
  else []

/-- `2^e` for an integer exponent -/
def pow2 (e : Int) : Rat := if 0 ≤ e then ((2 ^ e.toNat : Nat) : Rat) else 1 / ((2 ^ (-e).toNat : Nat) : Rat)

/-- round a rational to about 54 significant bits (within one unit in the last place of the
    nearest IEEE double).  Used only by the run-grain driver, between steps, to keep exact
    arithmetic bounded: the trilinear interpolation triples the bit length of a position at every
    Runge–Kutta stage, so exact positions cannot be carried through many steps. -/
def quantize (q : Rat) : Rat :=
  if q = 0 then 0 else
  let e : Int := (Nat.log2 q.num.natAbs : Int) - (Nat.log2 q.den : Int) - 53
  (roundHalfEven (q / pow2 e) : Rat) * pow2 e

end Ladim
