import Ladim.Model.Params
import Ladim.Model.Simulation
/-
L4 — from the configuration file to the simulation.  `Ladim.Model.Simulation` describes a run by
the *numbers* its modules work with; `Ladim.Model.Params` derives those numbers from the configured
tree (`configure` → keyword arguments → defaults, period spellings, derived quantities).  Here the
two are joined: `Sim.ofParams` puts the parameters of a configuration together with what the run
reads from its data files and scripts (`SimData`: dates, grid file, forcing frames, release table,
state declaration, scripted IBM, restart state), and `runFile` is the whole way from the text of a
configuration file (either version) to the output files.

The driver op `run_cfg` evaluates `runFile` on the configuration the real program is given, so the
model itself interprets `time.dt`, `output.output_period`, `numrec`, `layout`, `advection`,
`release_frequency`, `extra_forcing`, `subgrid`, … (spelled, defaulted or omitted) instead of being
handed their values by the harness.
-/

namespace Ladim

/-- what a run reads from its data files and scripts, as opposed to its configuration file;
    `start`, `stop`, `ref` are the configured dates as numpy parses them (seconds) -/
structure SimData where
  start : Int
  stop : Int
  ref : Option Int
  file : RomsFile
  frames : List Frame
  rawU : Nat → Nat → Field3
  rawV : Nat → Nat → Field3
  rawS : List (String × (Nat → Nat → Field3))      -- every scalar field the forcing files hold
  rows : List RRow
  pvNames : List String
  ivDefaults : List (String × Val)
  ageing : Bool
  kills : Int → List Nat
  stem : String
  suffix : String
  outIv : List String
  outPv : List String
  warm : Option WarmState

/-- the advection scheme named in the configuration (`Params.ofCfg` has mapped unknown names to "") -/
def schemeOf : String → Scheme
  | "EF" => .EF
  | "RK2" => .RK2
  | "RK4" => .RK4
  | _ => .none

/-- the loaded window: `[i0, i1, j0, j1]`; anything else is not a window (the grid refuses it) -/
def subOf : Option (List Int) → Option (Int × Int × Int × Int)
  | some [a, b, c, d] => some (a, b, c, d)
  | _ => none

namespace Params

/-- the deterministic part of the model: no random walk -/
def deterministic (p : Params) : Bool := !p.diffusion && !p.vertDiff

end Params

namespace Sim

/-- the simulation of a configuration's parameters on given data -/
def ofParams (d : SimData) (p : Params) : Sim :=
  { start := d.start, stop := d.stop, dt := p.dt, rev := p.rev, ref := d.ref,
    file := d.file, sub := subOf p.subgrid,
    frames := d.frames, rawU := d.rawU, rawV := d.rawV,
    -- of the scalar fields in the files, those named in `extra_forcing` are read
    rawS := d.rawS.filter (fun e => p.extraForcing.contains e.1),
    continuous := p.continuous, freq := p.relFreq.getD 0, rows := d.rows,
    pvNames := d.pvNames, ivDefaults := d.ivDefaults,
    scheme := schemeOf p.advection, vertAdv := p.vertAdv,
    ageing := d.ageing, kills := d.kills,
    period := p.outPeriodStep, sparse := p.layout != "dense",
    numrec := if p.multifile then p.numrec else 0,
    stem := d.stem, suffix := d.suffix, outIv := d.outIv, outPv := d.outPv,
    warm := d.warm }

/-- the data of a simulation (forgetting what the configuration decides) -/
def data (s : Sim) : SimData :=
  { start := s.start, stop := s.stop, ref := s.ref, file := s.file, frames := s.frames,
    rawU := s.rawU, rawV := s.rawV, rawS := s.rawS, rows := s.rows, pvNames := s.pvNames,
    ivDefaults := s.ivDefaults, ageing := s.ageing, kills := s.kills, stem := s.stem, suffix := s.suffix,
    outIv := s.outIv, outPv := s.outPv, warm := s.warm }

/-- from the content of a configuration file (either version) -/
def ofFile (glob : String → List String) (c : Cfg) (d : SimData) : Except Refusal Sim :=
  (Params.ofFile glob c).map (ofParams d)

end Sim

/-- configuration file → output files -/
def runFile (glob : String → List String) (c : Cfg) (d : SimData) (rnd : Rat → Rat) : Except Refusal SimResult :=
  match Sim.ofFile glob c d with
  | .error e => .error e
  | .ok s => s.run rnd

/-- configured (version 2) tree → output files -/
def runCfg (conf : Cfg) (d : SimData) (rnd : Rat → Rat) : Except Refusal SimResult :=
  match Params.ofCfg conf with
  | .error e => .error e
  | .ok p => (Sim.ofParams d p).run rnd

end Ladim
