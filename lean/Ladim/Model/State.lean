import Ladim.Model.Basic
/-
L1 — `ladim/state.py`: the struct-of-arrays particle store.

A value is a rational or NaN (booleans are 0/1, integers and times are integral rationals;
dtype coercion is not what any property is about).  A variable is a named column.
`pid` is kept apart as a column of naturals, exactly as the code handles it apart.
-/

namespace Ladim

inductive Val
  | num (q : Rat)
  | nan
  deriving DecidableEq, Repr, Inhabited

abbrev Column := List Val

/-- argument of `append`: a scalar (broadcast) or an array -/
inductive Arg
  | scalar (v : Val)
  | array (vs : List Val)
  deriving Repr

def Arg.size : Arg → Option Nat
  | .scalar _ => none
  | .array vs => some vs.length

structure PState where
  pid : List Nat
  ivars : List (String × Column)      -- instance variables other than pid (incl. X,Y,Z,active,alive)
  pvars : List (String × Column)      -- particle variables
  defaults : List (String × Val)
  npid : Nat
  deriving Repr

namespace PState

/-- the mandatory instance variables besides `pid`, in the code's order -/
def mandatory : List String := ["X", "Y", "Z", "active", "alive"]

/-- `State.__init__` (the default-value quality control is modelled in `Validate`) -/
def init (extraI extraP : List String) (defaults : List (String × Val)) : PState :=
  let inames := mandatory ++ extraI.filter (fun n => !(mandatory.contains n) && n != "pid")
  { pid := [],
    ivars := inames.map (fun n => (n, [])),
    pvars := extraP.map (fun n => (n, [])),
    defaults := [("alive", Val.num 1), ("active", Val.num 1)].filter (fun d => !(defaults.any (·.1 == d.1))) ++ defaults,
    npid := 0 }

def lookup (l : List (String × α)) (n : String) : Option α :=
  (l.find? (·.1 == n)).map (·.2)

def stateVars (s : PState) : List String := s.ivars.map (·.1) ++ s.pvars.map (·.1)

/-- numpy broadcasting of 1-D/scalar arguments: the common size, or failure.
    Sizes 1 broadcast against anything; all-scalar gives size 1. -/
def broadcastSize (sizes : List (Option Nat)) : Option Nat :=
  sizes.foldl (fun acc sz =>
    match acc, sz with
    | none, _ => none
    | some a, none => some a
    | some a, some b =>
        if a = b then some a else if a = 1 then some b else if b = 1 then some a else none)
    (some 1)

def expandArg (n : Nat) : Arg → Column
  | .scalar v => List.replicate n v
  | .array vs => if vs.length = n then vs else List.replicate n (vs.headD Val.nan)

/-- `State.append(**args)` -/
def append (s : PState) (args : List (String × Arg)) : Except Refusal PState :=
  let svars := s.stateVars
  if args.any (fun a => !(svars.contains a.1)) then .error .valueError else
  -- value for every state variable: explicit argument, else default, else NaN
  let valueOf (n : String) : Arg :=
    match lookup args n with
    | some a => a
    | none => match lookup s.defaults n with
      | some v => .scalar v
      | none => .scalar Val.nan
  -- note: defaults of variables are part of the broadcast even when overridden? No:
  -- `dict(self.default_values, **args)` — an argument replaces the default.
  let vals := svars.map (fun n => (n, valueOf n))
  match broadcastSize (vals.map (·.2.size)) with
  | none => .error .valueError
  | some n =>
    .ok { s with
      pid := s.pid ++ (List.range n).map (· + s.npid),
      npid := s.npid + n,
      ivars := s.ivars.map (fun (nm, col) => (nm, col ++ expandArg n (valueOf nm))),
      pvars := s.pvars.map (fun (nm, col) => (nm, col ++ expandArg n (valueOf nm))) }

def aliveCol (s : PState) : Column := (lookup s.ivars "alive").getD []

def isTrue : Val → Bool
  | .num q => q != 0
  | .nan => true

/-- boolean-mask selection `arr[mask]` for equally long lists -/
def maskSel {α} : List α → List Bool → List α
  | a :: as, b :: bs => if b then a :: maskSel as bs else maskSel as bs
  | _, _ => []

/-- `State.compactify()` -/
def compactify (s : PState) : PState :=
  let alive := s.aliveCol.map isTrue
  if alive.all id then s else
  { s with pid := maskSel s.pid alive,
           ivars := s.ivars.map (fun (nm, col) => (nm, maskSel col alive)) }

/-- `state[var] = values` (no length check in the code; the model records what it is given) -/
def setitem (s : PState) (var : String) (vals : Column) : Except Refusal PState :=
  if s.ivars.any (·.1 == var) then
    .ok { s with ivars := s.ivars.map (fun (nm, col) => if nm == var then (nm, vals) else (nm, col)) }
  else if s.pvars.any (·.1 == var) then
    .ok { s with pvars := s.pvars.map (fun (nm, col) => if nm == var then (nm, vals) else (nm, col)) }
  else .error .keyError

/-- `state.alive[mask] = False` : mark the particles at the given positions dead -/
def kill (s : PState) (mask : List Bool) : PState :=
  let f (col : Column) : Column := (col.zip (mask ++ List.replicate (col.length - mask.length) false)).map
      (fun (v, m) => if m then Val.num 0 else v)
  { s with ivars := s.ivars.map (fun (nm, col) => if nm == "alive" then (nm, f col) else (nm, col)) }

def len (s : PState) : Nat := s.pid.length

end PState
end Ladim
