import Ladim.Model.Basic
/-
L1 — the time machine of `ladim/ROMS.py` `Forcing`: which frame of which file is read when,
and the running fields `u`, `u_new`, `dU` and the scalar fields.

Everything the code does to the 3-D arrays is pointwise, so the machine is written for one
node value (`Rat`); the driver runs it for every node.  The frame table is the list of
`(step, file, index-in-file)` triples in the order `forcing_steps` produces them (sorted by
step).  `val file idx` is the content of that frame of that file: a read returns the content
of frame `idx` of *whichever file is open*, so "every read returns the frame it asked for" is
a theorem about `selectFile`, not an assumption.
-/

namespace Ladim

structure Frame where
  step : Int
  file : Nat
  idx : Nat
  deriving Repr, DecidableEq

structure FM where
  frames : List Frame
  u : Rat
  unew : Rat
  dU : Rat
  scal : Rat
  openFile : Option Nat
  reads : List (Int × Nat × Nat)      -- log: (step asked for, file open at the read, index read)
  deriving Repr

namespace FM

def frameOf (frames : List Frame) (step : Int) : Option Frame := frames.find? (·.step == step)

/-- `steps.index(step)` -/
def indexOf (frames : List Frame) (step : Int) : Option Nat := frames.findIdx? (·.step == step)

/-- `_select_file` + read of one variable at the frame of `step`:
    returns the value read and the machine with the file hand-over done and the read logged -/
def read (m : FM) (val : Nat → Nat → Rat) (step : Int) : Option (Rat × FM) :=
  match frameOf m.frames step with
  | none => none                                   -- KeyError in the code
  | some fr =>
    let openF := match m.openFile with
      | some f => if f = fr.file then f else fr.file   -- switch file when it is another one
      | none => fr.file                               -- first read opens the file
    some (val openF fr.idx, { m with openFile := some openF, reads := m.reads ++ [(step, openF, fr.idx)] })

/-- `Forcing.__init__`: pre-roll to step −1.  `valU`/`valS` give the node value of the velocity
    component / scalar field in frame `idx` of file `file`. -/
def init (frames : List Frame) (valU valS : Nat → Nat → Rat) (hasScalar : Bool) : Option FM :=
  let neg := (frames.filter (·.step < 0)).map (·.step)
  let prestep : Int := neg.foldl max (neg.headD 0)     -- max of the negative steps, else 0
  match indexOf frames prestep with
  | none => none                                       -- ValueError: 0 is not in list
  | some i =>
    match frames[i + 1]? with
    | none => none                                     -- IndexError
    | some nxt =>
      let m0 : FM := { frames := frames, u := 0, unew := 0, dU := 0, scal := 0, openFile := none, reads := [] }
      match m0.read valU prestep with
      | none => none
      | some (u0, m1) =>
        match m1.read valU nxt.step with
        | none => none
        | some (u1, m2) =>
          let dU := (u1 - u0) / ((nxt.step - prestep : Int) : Rat)
          let unew := if prestep = 0 then u0 else u1
          let u := u0 - ((prestep + 1 : Int) : Rat) * dU
          if hasScalar then
            match m2.read valS prestep with
            | none => none
            | some (s0, m3) => some { m3 with u := u, unew := unew, dU := dU, scal := s0 }
          else some { m2 with u := u, unew := unew, dU := dU }

/-- `Forcing.update` at model step `step` (the fields part) -/
def update (m : FM) (valU valS : Nat → Nat → Rat) (hasScalar : Bool) (step : Int) : Option FM :=
  match indexOf m.frames step with
  | some i =>
    -- a frame step: take over the frame, re-read the scalars, look ahead to the next frame
    let m1 : FM := { m with u := m.unew }
    let m2? : Option FM :=
      if hasScalar then (m1.read valS step).map (fun (s, m') => { m' with scal := s }) else some m1
    match m2? with
    | none => none
    | some m2 =>
      match m2.frames[i + 1]? with
      | none => some m2
      | some nxt =>
        match m2.read valU nxt.step with
        | none => none
        | some (un, m3) =>
          some { m3 with unew := un, dU := (un - m3.u) / ((nxt.step - step : Int) : Rat) }
  | none => some { m with u := m.u + m.dU }

/-- `Forcing.velocity(…, fractional_step)` (the field used, before spatial sampling) -/
def velocity (m : FM) (frac : Rat) : Rat :=
  if frac < 1/1000 then m.u else m.u + frac * m.dU

/-- run the updates of steps `0 … n-1` -/
def run (m : FM) (valU valS : Nat → Nat → Rat) (hasScalar : Bool) : Nat → Option FM
  | 0 => some m
  | n + 1 => (run m valU valS hasScalar n).bind (fun m' => m'.update valU valS hasScalar (n : Int))

end FM

/-! ### the specification -/

/-- piecewise-linear interpolation of the frame values at (real) step `t`, `frames` sorted:
    uses the last frame at or before `t` and the first one after it -/
def interpFrames (frames : List Frame) (val : Nat → Nat → Rat) (t : Rat) : Option Rat :=
  let before := frames.filter (fun f => (f.step : Rat) ≤ t)
  let after := frames.filter (fun f => t < (f.step : Rat))
  match before.getLast?, after.head? with
  | some a, some b =>
    some (val a.file a.idx + (t - a.step) * ((val b.file b.idx - val a.file a.idx) / ((b.step - a.step : Int) : Rat)))
  | some a, none => if (a.step : Rat) = t then some (val a.file a.idx) else none
  | none, _ => none

/-- the latest frame at or before step `n` -/
def latestFrame (frames : List Frame) (val : Nat → Nat → Rat) (n : Int) : Option Rat :=
  ((frames.filter (fun f => f.step ≤ n)).getLast?).map (fun a => val a.file a.idx)

end Ladim
