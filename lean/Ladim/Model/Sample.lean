import Ladim.Model.Basic
/-
L1 — the sampling kernels of `ladim/ROMS.py` (`z2s`, `trilinear`, `sample3D`, `sample3DUV`)
and `ladim/sample.py` (`sample2D`, `bilin_inv`), over exact rationals, with *checked* array
access: an index outside an array gives `none`, so "the kernels never read outside" is a
statement about the model ("the result is `some …`"), not an assumption.

Arrays are nested lists in C order: a 3-D field is `[k][j][i]`, a 2-D field `[j][i]`.
-/

namespace Ladim

abbrev Field2 := List (List Rat)
abbrev Field3 := List (List (List Rat))

/-- checked element access with an integer index (negative or too large → `none`;
    Python/numba would wrap a negative index around or read foreign memory) -/
def getI {α} (l : List α) (i : Int) : Option α :=
  if 0 ≤ i then l[i.toNat]? else none

def get2 (F : Field2) (j i : Int) : Option Rat := (getI F j).bind (getI · i)
def get3 (F : Field3) (k j i : Int) : Option Rat := (getI F k).bind (fun P => (getI P j).bind (getI · i))

/-- the vertical column `z_rho[:, J, I]` -/
def column (zr : Field3) (j i : Int) : Option (List Rat) := zr.mapM (fun P => get2 P j i)

/-- `z2s_kernel` for one particle, on its own column `zr` (bottom to top) and depth `Z`
    (positive downwards): level index `K` and weight `A`. -/
def z2sCol (zr : List Rat) (Z : Rat) : Option (Int × Rat) :=
  let k := searchsortedLeft zr (-Z)
  if k = zr.length then some ((k : Int) - 1, 0)
  else if 0 < k then
    match zr[k]?, zr[k - 1]? with
    | some a, some b => some ((k : Int), (a + Z) / (a - b))
    | _, _ => none
  else some (1, 1)

/-- `z2s(z_rho, X, Y, Z)` for one particle: the column of the cell `round(X), round(Y)` -/
def z2s (zr : Field3) (x y Z : Rat) : Option (Int × Rat) :=
  (column zr (roundHalfEven y) (roundHalfEven x)).bind (z2sCol · Z)

/-- `trilinear(F, X, Y, K, A)` for one particle -/
def trilinear (F : Field3) (x y : Rat) (K : Int) (A : Rat) : Option Rat := do
  let i := pyTrunc x
  let j := pyTrunc y
  let p := x - i
  let q := y - j
  let f000 ← get3 F (K - 1) j i
  let f100 ← get3 F K j i
  let f001 ← get3 F (K - 1) (j + 1) i
  let f101 ← get3 F K (j + 1) i
  let f010 ← get3 F (K - 1) j (i + 1)
  let f110 ← get3 F K j (i + 1)
  let f011 ← get3 F (K - 1) (j + 1) (i + 1)
  let f111 ← get3 F K (j + 1) (i + 1)
  let f00 := A * f000 + (1 - A) * f100
  let f01 := A * f001 + (1 - A) * f101
  let f10 := A * f010 + (1 - A) * f110
  let f11 := A * f011 + (1 - A) * f111
  pure ((1 - p) * (1 - q) * f00 + p * (1 - q) * f10 + (1 - p) * q * f01 + p * q * f11)

/-- `sample3D(F, X, Y, K, A, method="nearest")` for one particle: `F[K, round Y, round X]` -/
def nearest (F : Field3) (x y : Rat) (K : Int) : Option Rat :=
  get3 F K (roundHalfEven y) (roundHalfEven x)

/-- `sample3DUV(U, V, X, Y, K, A)`: the u-array is staggered half a cell in x, the v-array in y -/
def sample3DUV (U V : Field3) (x y : Rat) (K : Int) (A : Rat) : Option (Rat × Rat) := do
  let u ← trilinear U (x + 1/2) y K A
  let v ← trilinear V x (y + 1/2) K A
  pure (u, v)

/-! ### `sample.py` -/

inductive S2Result
  | value (v : Rat)
  | raised             -- ValueError("point outside grid")
  | indexError         -- an array access outside the arrays
  deriving Repr, DecidableEq

/-- `sample2D(F, X, Y, mask, undef_value, outside_value)` for one point.
    `F` is `[j][i]` with shape `(jmax, imax)`. -/
def sample2D (F : Field2) (x y : Rat) (mask : Option Field2) (undef : Rat) (outside : Option Rat) :
    S2Result :=
  let jmax : Int := F.length
  let imax : Int := (F.headD []).length
  let out := x < 0 || x ≥ imax - 1 || y < 0 || y ≥ jmax - 1
  if out && outside.isNone then .raised else
  let i := if out then 0 else pyTrunc x
  let j := if out then 0 else pyTrunc y
  -- P and Q are computed from the *unclamped* truncation, as in the code
  let p := x - pyTrunc x
  let q := y - pyTrunc y
  let w00 := (1 - p) * (1 - q)
  let w01 := (1 - p) * q
  let w10 := p * (1 - q)
  let w11 := p * q
  match get2 F j i, get2 F (j + 1) i, get2 F j (i + 1), get2 F (j + 1) (i + 1) with
  | some f00, some f01, some f10, some f11 =>
    let r : Option (Rat × Rat × Rat × Rat × Rat) :=
      match mask with
      | none => some (w00, w01, w10, w11, 1)
      | some M =>
        match get2 M j i, get2 M (j + 1) i, get2 M j (i + 1), get2 M (j + 1) (i + 1) with
        | some m00, some m01, some m10, some m11 =>
          let a := m00 * w00; let b := m01 * w01; let c := m10 * w10; let d := m11 * w11
          some (a, b, c, d, a + b + c + d)
        | _, _, _, _ => none
    match r with
    | none => .indexError
    | some (a, b, c, d, sw) =>
      let sw' := if sw = 0 then -1 else sw
      let res := if sw' ≤ 0 then undef else (a * f00 + b * f01 + c * f10 + d * f11) / sw'
      match outside with
      | some ov => .value (if out then ov else res)
      | none => .value res
  | _, _, _, _ => .indexError

/-- bilinear estimate used inside `bilin_inv` (note the transposed index order `F[i, j]`) -/
def bilinAt (F : Field2) (i j : Int) (p q : Rat) : Option Rat := do
  let f00 ← get2 F i j
  let f10 ← get2 F (i + 1) j
  let f01 ← get2 F i (j + 1)
  let f11 ← get2 F (i + 1) (j + 1)
  pure ((1 - p) * (1 - q) * f00 + p * (1 - q) * f10 + (1 - p) * q * f01 + p * q * f11)

/-- one Newton–Raphson iteration of `bilin_inv` for one target `(f, g)`:
    `none` = out-of-range access; `some (x', y', H)` with `H` the squared residual *before* the step.
    The cell index is clamped to `[0, n-2]` (extrapolating from the edge cells). -/
def bilinInvStep (F G : Field2) (f g x y : Rat) : Option (Rat × Rat × Rat) := do
  let imax : Int := F.length
  let jmax : Int := (F.headD []).length
  let i := max 0 (min (pyTrunc x) (imax - 2))
  let j := max 0 (min (pyTrunc y) (jmax - 2))
  let p := x - i
  let q := y - j
  let Fs ← bilinAt F i j p q
  let Gs ← bilinAt G i j p q
  let H := (Fs - f) * (Fs - f) + (Gs - g) * (Gs - g)
  let f00 ← get2 F i j; let f10 ← get2 F (i + 1) j; let f01 ← get2 F i (j + 1); let f11 ← get2 F (i + 1) (j + 1)
  let g00 ← get2 G i j; let g10 ← get2 G (i + 1) j; let g01 ← get2 G i (j + 1); let g11 ← get2 G (i + 1) (j + 1)
  let Fx := (1 - q) * (f10 - f00) + q * (f11 - f01)
  let Fy := (1 - p) * (f01 - f00) + p * (f11 - f10)
  let Gx := (1 - q) * (g10 - g00) + q * (g11 - g01)
  let Gy := (1 - p) * (g01 - g00) + p * (g11 - g10)
  let det := Fx * Gy - Fy * Gx
  pure (x - (Gy * (Fs - f) - Fy * (Gs - g)) / det, y - (-Gx * (Fs - f) + Fx * (Gs - g)) / det, H)

/-- `bilin_inv(f, g, F, G, maxiter, tol)` for a single target: iterate from the grid centre,
    stop as soon as the squared residual is below `tol` -/
def bilinInv (F G : Field2) (f g : Rat) (maxiter : Nat) (tol : Rat) : Option (Rat × Rat) :=
  let imax : Int := F.length
  let jmax : Int := (F.headD []).length
  let rec go (n : Nat) (x y : Rat) : Option (Rat × Rat) :=
    match n with
    | 0 => some (x, y)
    | n + 1 =>
      match bilinInvStep F G f g x y with
      | none => none
      | some (x', y', H) => if H < tol then some (x, y) else go n x' y'
  go maxiter ((1 / 2 : Rat) * imax) ((1 / 2 : Rat) * jmax)

end Ladim
