import Ladim.Model.Basic
/-
L1 — `ladim/analytical.py`: the velocity helpers for analytically defined (steady) currents.
`f x y` is the user's `sample_func`.
-/

namespace Ladim

abbrev SampleFn := Rat → Rat → Rat × Rat

/-- `get_velocity1`: Euler forward -/
def getVelocity1 (f : SampleFn) (x y : Rat) : Rat × Rat := f x y

/-- `get_velocity2` with scheme parameter `s` (`s = 1/2` midpoint, `2/3` Ralston, `1` Heun) -/
def getVelocity2 (f : SampleFn) (x y dt s : Rat) : Rat × Rat :=
  let m := 1 / (2 * s)
  let (u0, v0) := f x y
  let (u1, v1) := f (x + s * dt * u0) (y + s * dt * v0)
  ((1 - m) * u0 + m * u1, (1 - m) * v0 + m * v1)

/-- `get_velocity4`: classical Runge–Kutta -/
def getVelocity4 (f : SampleFn) (x y dt : Rat) : Rat × Rat :=
  let (u0, v0) := f x y
  let (u1, v1) := f (x + (1/2) * dt * u0) (y + (1/2) * dt * v0)
  let (u2, v2) := f (x + (1/2) * dt * u1) (y + (1/2) * dt * v1)
  let (u3, v3) := f (x + dt * u2) (y + dt * v2)
  ((u0 + 2 * u1 + 2 * u2 + u3) / 6, (v0 + 2 * v1 + 2 * v2 + v3) / 6)

end Ladim
