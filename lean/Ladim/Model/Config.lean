import Ladim.Model.Basic
/-
L1 — `ladim/configure.py`: configuration trees, the version dispatch, `configure_v2`
(defaulting of optional sections, grid from forcing, wildcard → first sorted match) and
`configure_v1` (translation of the legacy vocabulary).

The YAML/TOML parsers are trusted: the model starts from the parsed tree.  `glob` is a
parameter (`pattern ↦ sorted matches`).  The warm-start branch of `configure_v2` reads a file;
it is modelled in `Run.warmRun`, not here.
-/

namespace Ladim

inductive Cfg
  | null
  | bool (b : Bool)
  | num (q : Rat)
  | str (s : String)
  | list (l : List Cfg)
  | dict (l : List (String × Cfg))
  deriving Repr, Inhabited

namespace Cfg

def get? (c : Cfg) (k : String) : Option Cfg :=
  match c with
  | .dict l => (l.find? (·.1 == k)).map (·.2)
  | _ => none

def has (c : Cfg) (k : String) : Bool := (c.get? k).isSome

/-- `d[k] = v` (replace in place, or append at the end as Python dicts do) -/
def set (c : Cfg) (k : String) (v : Cfg) : Cfg :=
  match c with
  | .dict l => if l.any (·.1 == k) then .dict (l.map (fun p => if p.1 == k then (k, v) else p)) else .dict (l ++ [(k, v)])
  | other => other

def erase (c : Cfg) (k : String) : Cfg :=
  match c with
  | .dict l => .dict (l.filter (·.1 != k))
  | other => other

def isNull : Cfg → Bool
  | .null => true
  | _ => false

def strVal? : Cfg → Option String
  | .str s => some s
  | _ => none

def items : Cfg → List (String × Cfg)
  | .dict l => l
  | _ => []

def listItems : Cfg → List Cfg
  | .list l => l
  | _ => []

/-- Python truthiness of a parsed value -/
def truthy : Cfg → Bool
  | .null => false
  | .bool b => b
  | .num q => q != 0
  | .str s => s != ""
  | .list l => !l.isEmpty
  | .dict l => !l.isEmpty

def emptyDict : Cfg := .dict []

end Cfg

open Cfg

/-- the first file to use for the grid: a wildcard pattern is replaced by its first sorted
    match (kept as it is when nothing matches), a literal name is kept -/
def gridFileFrom (glob : String → List String) (filename : String) : String :=
  if filename.contains '*' || filename.contains '?' then
    match glob filename with
    | f :: _ => f
    | [] => filename
  else filename

/-- `configure_v2` (without the warm-start branch); `keyError k` = a mandatory key is missing -/
def configureV2 (glob : String → List String) (c0 : Cfg) : Except String Cfg := do
  let c := if c0.has "state" then c0 else c0.set "state" emptyDict
  let c := if c.has "grid" then c else c.set "grid" emptyDict
  let c := if c.has "ibm" then c else c.set "ibm" emptyDict
  let c := if c.has "warm_start" then c else c.set "warm_start" emptyDict
  -- tracker is mandatory (may be empty)
  let c ← match c.get? "tracker" with
    | none => throw "tracker"
    | some t => pure (if t.isNull then c.set "tracker" emptyDict else c)
  -- time is mandatory
  if !c.has "time" then throw "time"
  -- release is mandatory (an empty one gets an empty file name, refused later)
  let c ← match c.get? "release" with
    | none => throw "release"
    | some r => pure (if r.isNull then c.set "release" (.dict [("release_file", .str "")]) else c)
  if !c.has "output" then throw "output"
  let grid := (c.get? "grid").getD emptyDict
  -- grid module and file default to those of the forcing
  let grid ← if grid.has "module" then pure grid else
    match c.get? "forcing" with
    | none => throw "forcing"
    | some f => match f.get? "module" with
      | none => throw "module"
      | some m => pure (grid.set "module" m)
  let grid ← if grid.has "filename" then pure grid else
    match c.get? "forcing" with
    | none => throw "forcing"
    | some f => match f.get? "filename" with
      | none => throw "filename"
      | some fn => pure (grid.set "filename" (.str (gridFileFrom glob ((fn.strVal?).getD ""))))
  pure (c.set "grid" grid)

/-- `configure_v1`: translation of a legacy (version 1) tree; `none` = a KeyError in the code -/
def configureV1 (glob : String → List String) (c : Cfg) : Option Cfg := do
  let tc ← c.get? "time_control"
  let numerics ← c.get? "numerics"
  let gf ← c.get? "gridforce"
  let files := (c.get? "files").getD emptyDict
  let pr ← c.get? "particle_release"
  let ov ← c.get? "output_variables"
  -- time
  let time := Cfg.dict ([("start", ← tc.get? "start_time"), ("stop", ← tc.get? "stop_time"), ("dt", ← numerics.get? "dt")]
      ++ (match tc.get? "reference_time" with | some r => [("reference", r)] | none => []))
  -- grid and forcing
  let gfmod ← gf.get? "module"
  let modName : Cfg := match gfmod.strVal? with
    | some s => if (s.splitOn "ladim1.gridforce.ROMS").length > 1 then .str "ladim.ROMS" else gfmod
    | none => gfmod
  let forcingFile : Cfg := match gf.get? "input_file" with
    | some f => f
    | none => match files.get? "input_file" with
      | some f => f
      | none => .str ""
  let gridFile0 : Cfg := match gf.get? "gridfile" with
    | some f => f
    | none => match files.get? "gridfile" with
      | some f => f
      | none => .str ""
  let gridFile : Cfg :=
    if !gridFile0.truthy && forcingFile.truthy then .str (gridFileFrom glob ((forcingFile.strVal?).getD "")) else gridFile0
  let grid := Cfg.dict ([("module", modName), ("filename", gridFile)]
      ++ (match gf.get? "subgrid" with | some s => [("subgrid", s)] | none => []))
  let forcing := Cfg.dict ([("module", modName), ("filename", forcingFile)]
      ++ (match gf.get? "extra_forcing" with | some s => [("extra_forcing", s)] | none => []))
  -- state
  let ibmVars : List String := match c.get? "ibm" with
    | some i => ((i.get? "variables").map (fun v => v.listItems.filterMap Cfg.strVal?)).getD []
    | none => []
  let relVars : List String := ((← pr.get? "variables").listItems.filterMap Cfg.strVal?)
  let pvList : List String := ((pr.get? "particle_variables").map (fun v => v.listItems.filterMap Cfg.strVal?)).getD []
  let ivars : List (String × Cfg) :=
    (ibmVars.map (fun v => (v, Cfg.str "float"))) ++
    ((relVars.filter (fun v => v == "lon" || v == "lat")).filter (fun v => !ibmVars.contains v)).map (fun v => (v, Cfg.str "float"))
  let pvars : List (String × Cfg) :=
    (relVars.filter (fun v => !(["mult", "X", "Y", "Z"].contains v) && pvList.contains v)).map
      (fun v => (v, (pr.get? v).getD (.str "float")))
  let state := Cfg.dict [("instance_variables", .dict ivars), ("particle_variables", .dict pvars),
                         ("default_values", .dict (ivars.map (fun p => (p.1, Cfg.num 0))))]
  -- tracker
  let diffusion ← numerics.get? "diffusion"
  let tracker := Cfg.dict ([("advection", ← numerics.get? "advection")]
      ++ (if diffusion.truthy then [("diffusion", diffusion)] else []))
  -- release
  let continuous := match pr.get? "release_type" with
    | some (.str "continuous") => true
    | _ => false
  let release ← (do
    let base := [("release_file", ← files.get? "particle_release_file"), ("names", ← pr.get? "variables")]
    if continuous then
      pure (Cfg.dict (base ++ [("continuous", .bool true), ("release_frequency", ← pr.get? "release_frequency")]))
    else pure (Cfg.dict base))
  -- ibm
  let ibm : Cfg := match c.get? "ibm" with
    | some i => .dict (i.items.filterMap (fun p =>
        if p.1 == "ibm_module" then some ("module", p.2) else if p.1 == "variables" then none else some p))
    | none => emptyDict
  -- output
  let outVar (v : String) : Option (String × Cfg) := do
    let d ← ov.get? v
    let fmt ← d.get? "ncformat"
    pure (v, .dict [("encoding", .dict [("datatype", fmt)]), ("attributes", d.erase "ncformat")])
  let inst ← ((← ov.get? "instance").listItems.filterMap Cfg.strVal?).mapM outVar
  let part ← ((← ov.get? "particle").listItems.filterMap Cfg.strVal?).mapM outVar
  let output := Cfg.dict [("filename", ← files.get? "output_file"), ("output_period", ← ov.get? "outper"),
      ("instance_variables", .dict inst), ("particle_variables", .dict part),
      ("ncargs", .dict [("data_model", (ov.get? "format").getD (.str "NETCDF3_CLASSIC"))])]
  pure (Cfg.dict ([("time", time), ("grid", grid), ("forcing", forcing), ("state", state), ("tracker", tracker),
      ("release", release), ("ibm", ibm)] ++ (if c.has "warm_start" then [] else [("warm_start", emptyDict)]) ++ [("output", output)]))

/-- `configure`: version dispatch.  `Except` error = exit code 3 -/
def configure (glob : String → List String) (c : Cfg) : Except String Cfg :=
  let version : String := match c.get? "version" with
    | some (.num q) => toString q.num      -- integers only (str(2) = "2")
    | some (.str s) => s
    | some _ => "?"
    | none => "0"
  let version := if version == "0" then (if c.has "time_control" then "1" else "2") else version
  match version.toList.head? with
  | some '2' => configureV2 glob c
  | some '1' => match configureV1 glob c with
      | some r => .ok r
      | none => .error "KeyError"
  | _ => .error "version"

end Ladim
