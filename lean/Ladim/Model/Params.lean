import Ladim.Model.Config
import Ladim.Model.Time
/-
L2 — from the configured tree to the numbers the modules work with: what
`Model.__init__` → `init_module(name, conf[name])` → `TimeKeeper`, `Tracker`, `Output`,
`ParticleReleaser`, `Forcing`, `Grid` make of their keyword arguments (defaults for omitted
keys, the spellings of a period, derived quantities).  The start/stop/reference *dates* are
parsed by numpy and are not modelled here; everything that is arithmetic or defaulting is.
`Ladim.Props.Params` states that the three spellings of a period give the same parameters,
that omitted keys mean the documented defaults, and that the legacy vocabulary gives the same
parameters as its version-2 translation.
-/

namespace Ladim

/-- a configuration value as `normalize_period` sees it (YAML/TOML scalars: a whole number is an
    `int`, `true`/`false` are `int`s too in Python, a fractional number is a `float`) -/
def periodOf : Cfg → PeriodIn
  | .num q => if q.den = 1 then .secs q.num else .other
  | .bool b => .secs (if b then 1 else 0)
  | .list [.num v, .str u] => if v.den = 1 then .pair v.num u else .badPair
  | .list _ => .badPair
  | .str s => .iso s
  | _ => .other

structure Params where
  dt : Int                       -- seconds
  rev : Bool
  hasRef : Bool
  advection : String
  diffusion : Bool               -- horizontal diffusion on (coefficient > 0)
  vertDiff : Bool
  vertAdv : Bool
  outPeriod : Int                -- seconds, negative in reversed time
  outPeriodStep : Int            -- output period in model steps
  multifile : Bool
  numrec : Int                   -- records per file (999999 in single-file mode)
  layout : String
  skipInitial : Bool
  continuous : Bool
  relFreq : Option Int           -- normalised only when the release is continuous
  extraForcing : List String
  subgrid : Option (List Int)
  deriving Repr, DecidableEq

namespace Params

def getD (c : Cfg) (k : String) (d : Cfg) : Cfg := (c.get? k).getD d

def numPos : Cfg → Bool
  | .num q => 0 < q
  | .bool b => b
  | _ => false

def intList : Cfg → Option (List Int)
  | .list l => l.mapM (fun x => match x with | .num q => if q.den = 1 then some q.num else none | _ => none)
  | _ => none

def strList : Cfg → List String
  | .list l => l.filterMap Cfg.strVal?
  | _ => []

/-- the parameters of a run from its configured (version 2) tree; refusals:
    `exit3` a missing (falsy) time step, `valueError` a malformed period -/
def ofCfg (conf : Cfg) : Except Refusal Params := do
  let time := getD conf "time" Cfg.emptyDict
  let tracker := getD conf "tracker" Cfg.emptyDict
  let output := getD conf "output" Cfg.emptyDict
  let release := getD conf "release" Cfg.emptyDict
  let forcing := getD conf "forcing" Cfg.emptyDict
  let grid := getD conf "grid" Cfg.emptyDict
  -- TimeKeeper
  let dtc := getD time "dt" .null
  if !dtc.truthy then throw .exit3
  let dt ← normalizePeriod (periodOf dtc)
  let rev := (getD time "time_reversal" (.bool false)).truthy
  -- Tracker
  let adv0 := ((getD tracker "advection" (.str "")).strVal?).getD ""
  let adv := if ["EF", "RK2", "RK4"].contains adv0 then adv0 else ""     -- an unknown scheme means no advection (a warning)
  -- Output
  let op ← normalizePeriod (periodOf (getD output "output_period" .null))
  let numrec : Int := match getD output "numrec" (.num 0) with
    | .num q => q.num
    | _ => 0
  -- ParticleReleaser
  let continuous := (getD release "continuous" (.bool false)).truthy
  -- a continuous release with frequency 0 cannot be laid out on a time axis (`np.arange` with step 0: ValueError)
  let relFreq ← if continuous then
      (match normalizePeriod (periodOf (getD release "release_frequency" (.num 0))) with
       | .ok f => if f = 0 then .error .valueError else .ok (some f)
       | .error e => .error e)
    else pure none
  pure {
    dt := dt, rev := rev, hasRef := (getD time "reference" .null).truthy,
    advection := adv,
    diffusion := numPos (getD tracker "diffusion" (.num 0)),
    vertDiff := numPos (getD tracker "vertdiff" (.num 0)),
    vertAdv := (getD tracker "vertical_advection" (.bool false)).truthy,
    outPeriod := if rev then -op else op,
    outPeriodStep := Int.fdiv op dt,
    multifile := numrec != 0,
    numrec := if numrec != 0 then numrec else 999999,
    layout := ((getD output "layout" (.str "sparse")).strVal?).getD "sparse",
    skipInitial := (getD output "skip_initial" (.bool false)).truthy,
    continuous := continuous, relFreq := relFreq,
    extraForcing := strList (getD forcing "extra_forcing" (.list [])),
    subgrid := match grid.get? "subgrid" with
      | some s => intList s
      | none => none }

/-- from a raw configuration file content (either version) -/
def ofFile (glob : String → List String) (c : Cfg) : Except Refusal Params :=
  match configure glob c with
  | .ok conf => ofCfg conf
  | .error _ => .error .exit3

end Params
end Ladim
