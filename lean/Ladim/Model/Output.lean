import Ladim.Model.State
/-
L1 — `ladim/out_netcdf.py`: the output module with *virtual* NetCDF files.

Library assumption (trusted, exercised by the correspondence check): a netCDF4 variable on an
unlimited dimension grows on write and reads back `_FillValue` where nothing was written;
writing to a closed dataset raises `RuntimeError`.
-/

namespace Ladim

/-- what `Output.write` reads from the model state when a record is due -/
structure Snapshot where
  time : Rat                          -- `timer.nctime()`
  pid : List Nat
  alive : List Bool
  cols : List (String × Column)       -- requested instance variables other than pid (lon/lat included)
  npid : Nat
  pvars : List (String × Column)      -- requested particle variables (time-typed already as offsets)
  deriving Repr

inductive Layout | sparse | dense
  deriving DecidableEq, Repr

/-- a virtual output file -/
structure VFile where
  name : String
  time : List Rat
  count : List Nat                               -- sparse: particle_count
  pid : List Nat                                 -- sparse: concatenated pid
  inst : List (String × Column)                  -- sparse: concatenated instance variables
  dense : List (List (String × List (Option Val))) -- dense: per record, per variable, per position
  pvarN : Option Nat                             -- `some n`: particle variables written for pids < n
  pvars : List (String × Column)
  closed : Bool
  deriving Repr

structure Out where
  layout : Layout
  periodStep : Int
  numRecords : Int
  numrec : Int
  multifile : Bool
  stem : String
  suffix : String
  width : Nat
  fileNo : Nat                    -- number of the next file name to hand out
  recordCount : Int
  localRecordCount : Int
  localNumRecords : Int
  localInstanceCount : Nat
  cur : VFile                     -- the file held in `self.nc`
  done : List VFile               -- earlier files, oldest first
  deriving Repr

/-! ### file names -/

def padNat (w n : Nat) : String :=
  let s := toString n
  String.ofList (List.replicate (w - s.length) '0') ++ s

/-- split a stem at a trailing `_<digits>`: `(base, number, width)` -/
def splitStem (stem : String) : Option (String × Nat × Nat) :=
  let cs := stem.toList.reverse
  let ds := cs.takeWhile Char.isDigit
  match ds, cs.dropWhile Char.isDigit with
  | _ :: _, '_' :: rest => some (String.ofList rest.reverse, digitsToNatRev ds, ds.length)
  | _, _ => none
where
  digitsToNatRev (ds : List Char) : Nat :=
    ds.reverse.foldl (fun acc c => 10 * acc + (c.toNat - '0'.toNat)) 0

/-- the `k`-th name produced by `filename_generator` for `stem ++ suffix` -/
def genName (stem suffix : String) (k : Nat) : String :=
  match splitStem stem with
  | some (base, n0, w) => base ++ "_" ++ padNat w (n0 + k) ++ suffix
  | none => stem ++ "_" ++ padNat 3 k ++ suffix

def emptyFile (name : String) : VFile :=
  { name := name, time := [], count := [], pid := [], inst := [], dense := [], pvarN := none,
    pvars := [], closed := false }

/-! ### the module -/

namespace Out

/-- `create_netcdf`: the size the new file is expected to reach -/
def localNum (numrec numRecords recordCount : Int) : Int := min numrec (numRecords - recordCount)

/-- `Output.__init__`.  `numRecords` is the predicted number of records of the whole run
    (`ceil(Nsteps / period_step)`, minus the initial one when `skip_initial`). -/
def init (layout : Layout) (periodStep numRecords numrec : Int) (stem suffix : String) : Out :=
  let multifile := numrec != 0
  let numrec' := if multifile then numrec else 999999
  let name := if multifile then genName stem suffix 0 else stem ++ suffix
  { layout := layout, periodStep := periodStep, numRecords := numRecords, numrec := numrec',
    multifile := multifile, stem := stem, suffix := suffix, width := 3,
    fileNo := if multifile then 1 else 0,
    recordCount := 0, localRecordCount := 0,
    localNumRecords := localNum numrec' numRecords 0, localInstanceCount := 0,
    cur := emptyFile name, done := [] }

/-- number of records the run will write: output steps `0, p, 2p, … < nsteps`
    (after a warm start the record at step 0 is not written) -/
def predictRecords (nsteps periodStep : Int) (skipInitial : Bool) : Int :=
  (- Int.fdiv (-nsteps) periodStep) - (if skipInitial then 1 else 0)

def appendCols (a : List (String × Column)) (b : List (String × Column)) : List (String × Column) :=
  match a with
  | [] => b
  | _ => a.map (fun (n, c) => (n, c ++ (PState.lookup b n).getD []))

/-- `Output.write(state)` -/
def write (o : Out) (s : Snapshot) : Except Refusal Out :=
  if o.cur.closed then .error .runtimeError else
  let f := o.cur
  let f' : VFile :=
    match o.layout with
    | .sparse =>
      { f with time := f.time ++ [s.time], count := f.count ++ [s.pid.length],
               pid := f.pid ++ s.pid, inst := appendCols f.inst s.cols }
    | .dense =>
      { f with time := f.time ++ [s.time],
               dense := f.dense ++ [s.cols.map (fun (n, c) =>
                  (n, (c.zip s.alive).map (fun (v, a) => if a then some v else none)))] }
  let rc := o.recordCount + 1
  let lrc := o.localRecordCount + 1
  let lic := match o.layout with | .sparse => o.localInstanceCount + s.pid.length | .dense => o.localInstanceCount
  if lrc = o.localNumRecords then
    -- file finished: particle variables, close
    let f'' := { f' with pvarN := some s.npid,
                         pvars := s.pvars.map (fun (n, c) => (n, c.take s.npid)), closed := true }
    if rc < o.numRecords then
      if o.multifile then
        .ok { o with recordCount := rc, localRecordCount := 0, localInstanceCount := 0,
                     localNumRecords := localNum o.numrec o.numRecords rc,
                     cur := emptyFile (genName o.stem o.suffix o.fileNo), fileNo := o.fileNo + 1,
                     done := o.done ++ [f''] }
      else .error .other     -- `next(self.filenames)` without a generator: AttributeError
    else
      .ok { o with recordCount := rc, localRecordCount := lrc, localInstanceCount := lic, cur := f'' }
  else
    .ok { o with recordCount := rc, localRecordCount := lrc, localInstanceCount := lic, cur := f' }

/-- `Output.update`: a record is due when `step % period_step == 0` -/
def due (o : Out) (step : Int) : Bool := Int.fmod step o.periodStep == 0

/-- `Output.close` -/
def close (o : Out) : Out := { o with cur := { o.cur with closed := true } }

def files (o : Out) : List VFile := o.done ++ [o.cur]

/-- the output side of the time loop over the given steps: a record is written from
    `snap step` whenever one is due; the first failing write stops the run (with its step) -/
def runSteps (o : Out) (snap : Int → Snapshot) : List Int → Except (Int × Refusal) Out
  | [] => .ok o
  | st :: rest =>
    if o.due st then
      match o.write (snap st) with
      | .ok o' => runSteps o' snap rest
      | .error e => .error (st, e)
    else runSteps o snap rest

/-- steps `first, first+1, …, first+n-1` -/
def stepRange (first : Int) (n : Nat) : List Int := (List.range n).map (fun (k : Nat) => first + (k : Int))

/-- a cold-start run as far as the output module is concerned: steps `0 … nsteps-1`,
    then `finish()` closes the last file -/
def coldRun (layout : Layout) (nsteps periodStep numrec : Int) (stem suffix : String)
    (snap : Int → Snapshot) : Except (Int × Refusal) (List VFile) :=
  match runSteps (init layout periodStep (predictRecords nsteps periodStep false) numrec stem suffix)
      snap (stepRange 0 nsteps.toNat) with
  | .ok o => .ok o.close.files
  | .error e => .error e

/-- a warm-started run: the step-0 record is in the previous file, the loop runs steps
    `1 … nsteps-1` -/
def warmRun (layout : Layout) (nsteps periodStep numrec : Int) (stem suffix : String)
    (snap : Int → Snapshot) : Except (Int × Refusal) (List VFile) :=
  match runSteps (init layout periodStep (predictRecords nsteps periodStep true) numrec stem suffix)
      snap (stepRange 1 (nsteps.toNat - 1)) with
  | .ok o => .ok o.close.files
  | .error e => .error e

end Out

/-- retrieval of record `n` from a sparse file "as the format documentation prescribes":
    `start = Σ count[:n]`, `count = count[n]` -/
def VFile.record (f : VFile) (n : Nat) : Option (Rat × List Nat × List (String × Column)) :=
  match f.time[n]?, f.count[n]? with
  | some t, some c =>
    let start := (f.count.take n).foldl (· + ·) 0
    some (t, (f.pid.drop start).take c, f.inst.map (fun (nm, col) => (nm, (col.drop start).take c)))
  | _, _ => none

end Ladim
