import Ladim.Model.Run
import Ladim.Model.RunRoms
import Ladim.Model.RunForcing
import Ladim.Model.RunOutput
import Ladim.Model.Release
import Ladim.Model.Time
/-
L4 — a whole simulation: what `ladim.main.main` does with a configuration whose components
are the built-in ones (ROMS grid + forcing, table release, the tracker, NetCDF output) and a
scripted IBM.  `Sim` is the typed content of the set-up (configuration values, grid file,
forcing frames, release table); `Sim.run` strings the component models together exactly as
`Model.__init__` / `main` do:

  TimeKeeper → Grid → Forcing (time machine over every node) → ParticleReleaser →
  time loop (`RunEnv` instantiated by `RomsSetup`) → Output files.

The driver op `run` only parses JSON into a `Sim` and prints `Sim.run`; the correspondence
check compares that with complete runs of the real program.  `Ladim.Props.Simulation` states
the whole-run consequences of the component theorems for `Sim.run`.
-/

namespace Ladim

/-- a particle as `warm_start` restores it, and the particle-variable table of the file -/
structure WarmState where
  parts : List RP
  npid : Nat
  pvtable : List (List (String × Val))

structure Sim where
  -- time
  start : Int
  stop : Int
  dt : Int
  rev : Bool
  ref : Option Int
  -- grid
  file : RomsFile
  sub : Option (Int × Int × Int × Int)
  -- forcing: frame table and raw arrays of frame `ix` of file `f`
  frames : List Frame
  rawU : Nat → Nat → Field3
  rawV : Nat → Nat → Field3
  rawS : List (String × (Nat → Nat → Field3))
  -- release
  continuous : Bool
  freq : Int
  rows : List RRow
  pvNames : List String                       -- particle variables of the state
  ivDefaults : List (String × Val)            -- extra instance variables and their defaults
  -- tracker
  scheme : Scheme
  vertAdv : Bool
  -- scripted IBM
  ageing : Bool
  kills : Int → List Nat
  -- output
  period : Int                                -- output period in steps
  sparse : Bool
  numrec : Int
  stem : String
  suffix : String
  outIv : List String
  outPv : List String
  -- warm start
  warm : Option WarmState

structure SimResult where
  nsteps : Nat
  final : RState
  files : Except (Int × Refusal) (List VFile)

/-- tabulate `fn` over `nf × ni` once (the arrays of a frame are windowed once, not per node) -/
def tabulate (nf ni : Nat) (fn : Nat → Nat → Field3) : Nat → Nat → Field3 :=
  let tab : Array (Array Field3) :=
    ((List.range nf).map (fun fi => ((List.range ni).map (fun ix => fn fi ix)).toArray)).toArray
  fun fi ix => ((tab[fi]?).bind (·[ix]?)).getD []

namespace Sim

def lookupVal (l : List (String × Val)) (n : String) : Val := (PState.lookup l n).getD Val.nan

/-- a flag column of the release table (`active`, `alive`): absent means true, a number means
    "not zero" (NaN: true, as `bool(nan)` is) -/
def flagOf (cols : List (String × Val)) (n : String) : Bool :=
  match PState.lookup cols n with
  | some (.num q) => q != 0
  | _ => true

/-- a release row as the particle the state receives (`State.append` with the defaults; the
    columns `alive` and `active`, when the file has them, are the particle's flags) -/
def rowToRP (s : Sim) (r : RRow) : RP :=
  let get (n : String) : Rat := RomsSetup.valRat (lookupVal r.cols n)
  { pid := 0, x := get "X", y := get "Y", z := get "Z", alive := flagOf r.cols "alive",
    active := flagOf r.cols "active",
    vars := s.ivDefaults.map (fun (n, d) => (n, (PState.lookup r.cols n).getD d)),
    pvars := s.pvNames.map (fun n => (n, lookupVal r.cols n)) }

def relCfg (s : Sim) : RelCfg :=
  { start := s.start, stop := s.stop, dt := s.dt, rev := s.rev, continuous := s.continuous, freq := s.freq,
    warm := s.warm.isSome, releaseTimeCol := s.pvNames.contains "release_time" }

def trkCfg (s : Sim) : TrkCfg := { scheme := s.scheme, dt := s.dt, vertAdv := s.vertAdv, vertDiff := false }

/-- the forcing of the run on the grid `g`: every frame windowed to the subgrid -/
def forcingSetup (s : Sim) (g : GridM) (nrun : Nat) : ForcingSetup :=
  let nfiles := (s.frames.map (·.file)).foldl max 0 + 1
  let nidx := (s.frames.map (·.idx)).foldl max 0 + 1
  { frames := s.frames,
    arrU := tabulate nfiles nidx (fun fi ix => windowU g (s.rawU fi ix) none),
    arrV := tabulate nfiles nidx (fun fi ix => windowV g (s.rawV fi ix) none),
    arrS := s.rawS.map (fun (nm, t) => (nm, tabulate nfiles nidx (fun fi ix => windowRho g (t fi ix)))),
    nrun := nrun }

/-- the environment of the time loop -/
def setup (s : Sim) (g : GridM) (nrun : Nat) (relTable : List (Int × List RRow)) (rnd : Rat → Rat) : RomsSetup :=
  (s.forcingSetup g nrun).toRoms g (if s.rev then -1 else 1) s.trkCfg
    (fun n => ((relTable.lookup n).getD []).map s.rowToRP)
    s.ageing s.kills s.period s.sparse rnd

/-- what the output module is given -/
def outSpec (s : Sim) (tk : TK) (relTable : List (Int × List RRow)) : OutSpec :=
  let warmPv : List (List (String × Val)) := match s.warm with | some w => w.pvtable | none => []
  let allReleased : List RP := relTable.flatMap (fun (_, rs) => rs.map s.rowToRP)
  { names := s.outIv.filter (fun n => n != "pid"),
    pnames := s.outPv,
    time := fun st => ((tk.step2time st - tk.ref : Int) : Rat),
    refT := (tk.ref : Rat),
    pvTable := warmPv ++ allReleased.map (·.pvars),
    npidAt := fun st => warmPv.length +
      ((relTable.filter (fun (k, _) => k ≤ st)).map (fun (_, rs) => rs.length)).foldl (· + ·) 0 }

/-- the whole run; `rnd` is the rounding of the coordinates after a move (`id`, or `quantize`
    in the driver) -/
def run (s : Sim) (rnd : Rat → Rat) : Except Refusal SimResult :=
  match TK.init (some s.start) (some s.stop) s.dt s.ref s.rev with
  | .error e => .error e
  | .ok tk =>
    let nsteps := tk.nsteps.toNat
    match mkGrid s.file s.sub with
    | none => .error .exit1
    | some g =>
      match Rel.init s.relCfg s.rows with
      | .error e => .error e
      | .ok rel =>
        let nrun := nsteps + 1
        let relTable := rel.run 0 nrun
        let env := (s.setup g nrun relTable rnd).env
        let final := match s.warm with
          | none => env.coldRun nsteps
          | some w => env.warmRun nsteps w.parts w.npid
        .ok { nsteps := nsteps, final := final,
              files := (s.outSpec tk relTable).runFiles (if s.sparse then .sparse else .dense) nsteps s.period
                         s.numrec s.stem s.suffix final.records s.warm.isSome }

end Sim
end Ladim
