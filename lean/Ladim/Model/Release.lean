import Ladim.Model.Time
import Ladim.Model.State
/-
L1 — `ladim/release.py`: the particle releaser.

`pd.read_csv` is a parameter: the model starts from the typed table (rows in file order).
A row carries its release time (seconds), `mult`, and the values of the other columns
(position — already in grid coordinates, the lon/lat conversion is `Grid.ll2xy`, see C16 —
and extra columns).  pandas behaviour that the code relies on and the model states:
`index.unique()` keeps the order of first appearance; `groupby(…, sort=False)` groups rows of
equal time together, groups in order of first appearance, rows inside a group in file order;
`join` + `ffill` + `explode` in `discretize` give each tick the rows of the latest file time
that lies *on the tick grid* at or before the tick.
-/

namespace Ladim

structure RRow where
  time : Int
  mult : Nat
  cols : List (String × Val)
  deriving Repr, DecidableEq

structure RelCfg where
  start : Int
  stop : Int
  dt : Int
  rev : Bool
  continuous : Bool
  freq : Int            -- release frequency in seconds (> 0)
  warm : Bool
  releaseTimeCol : Bool -- "release_time" is a state variable: add the column
  deriving Repr

structure Rel where
  steps : List Int                 -- step of each release time, in table order
  groups : List (List RRow)        -- `_B`: the rows of each release time
  index : Nat                      -- `_index`
  total : Nat                      -- total_particle_count (without warm particles)
  deriving Repr

/-- distinct values in order of first appearance (`index.unique()`) -/
def uniqueTimes (rows : List RRow) : List Int :=
  rows.foldl (fun acc r => if acc.contains r.time then acc else acc ++ [r.time]) []

namespace Rel

/-- simulation-order comparison: `a` is strictly before `b` -/
def before (rev : Bool) (a b : Int) : Bool := if rev then b < a else a < b

/-- `discretize`: ticks `arange(first_file_time, stop, ±freq)`; every tick carries the rows
    of the latest file time on the tick grid at or before it (forward fill) -/
def discretize (c : RelCfg) (rows : List RRow) : List RRow :=
  match uniqueTimes rows with
  | [] => []
  | t0 :: _ =>
    let ticks := arangeInt t0 c.stop (if c.rev then -c.freq else c.freq)
    let fileTimes := uniqueTimes rows
    -- forward fill along the ticks
    let step (acc : List RRow × List RRow) (tick : Int) : List RRow × List RRow :=
      let cur := if fileTimes.contains tick then rows.filter (·.time == tick) else acc.2
      (acc.1 ++ cur.map (fun r => { r with time := tick }), cur)
    (ticks.foldl step ([], [])).1

/-- `ParticleReleaser.__init__` after the table has been read and positions cleaned -/
def init (c : RelCfg) (rows : List RRow) : Except Refusal Rel :=
  -- remove everything at or after the stop time (simulation order)
  let r1 := rows.filter (fun r => before c.rev r.time c.stop)
  if r1.isEmpty then .error .exit3 else
  let r2 := if c.continuous then discretize c r1 else r1
  -- remove everything before the start
  let r3 := r2.filter (fun r => !(before c.rev r.time c.start))
  -- a warm start skips the releases of the restart step itself (they are in the restart file): everything
  -- before the first time step after the restart, in simulation order
  let r4 := if c.warm then r3.filter (fun r => !(before c.rev r.time (if c.rev then c.start - c.dt else c.start + c.dt))) else r3
  if r4.isEmpty && !c.warm then .error .exit3 else
  let r5 := if c.releaseTimeCol then r4.map (fun r => { r with cols := r.cols ++ [("release_time", Val.num r.time)] }) else r4
  let times := uniqueTimes r5
  let tk : TK := { start := c.start, stop := c.stop, dt := c.dt, ref := 0, rev := c.rev, nsteps := 0, step := 0, time := 0 }
  .ok { steps := times.map tk.time2step,
        groups := times.map (fun t => r5.filter (·.time == t)),
        index := 0,
        total := (r5.map (·.mult)).foldl (· + ·) 0 }

/-- `__next__`: the rows of the next group, each repeated `mult` times, in row order -/
def expand (g : List RRow) : List RRow := g.flatMap (fun r => List.replicate r.mult r)

/-- `ParticleReleaser.update` at model step `step`: the new particles (rows), if any -/
def update (r : Rel) (step : Int) : Rel × List RRow :=
  if r.steps.contains step then
    match r.groups[r.index]? with
    | some g => ({ r with index := r.index + 1 }, expand g)
    | none => (r, [])           -- StopIteration in the code ("this should not happen")
  else (r, [])

/-- all releases of a run: steps `first … first+n-1` -/
def run (r : Rel) (first : Int) : Nat → List (Int × List RRow)
  | 0 => []
  | n + 1 =>
    let (r', out) := r.update first
    (first, out) :: run r' (first + 1) n

end Rel
end Ladim
