import Lean.Data.Json
import Ladim.Model.Basic
import Ladim.Model.Time
import Ladim.Model.State
/-
JSON helpers of the line-protocol driver.  Rationals travel as JSON integers or as strings
"n/d" (also "nan" for `Val.nan`), never as JSON floats.
-/
open Lean

namespace Drv

abbrev R := Except String

def parseRatStr (s : String) : R Rat :=
  match s.splitOn "/" with
  | [a] => match a.toInt? with
      | some n => pure (n : Rat)
      | none => throw s!"bad rational {s}"
  | [a, b] => match a.toInt?, b.toNat? with
      | some n, some d => if d = 0 then throw s!"zero denominator {s}" else pure (mkRat n d)
      | _, _ => throw s!"bad rational {s}"
  | _ => throw s!"bad rational {s}"

def getRat (j : Json) : R Rat :=
  match j with
  | .str s => parseRatStr s
  | .num n => if n.exponent = 0 then pure (n.mantissa : Rat)
              else pure (mkRat n.mantissa (10 ^ n.exponent))
  | .bool b => pure (if b then 1 else 0)
  | _ => throw s!"expected rational, got {j.compress}"

def getInt (j : Json) : R Int :=
  match j with
  | .str s => match s.toInt? with | some n => pure n | none => throw s!"bad int {s}"
  | .bool b => pure (if b then 1 else 0)
  | _ => j.getInt?

def getNat (j : Json) : R Nat := do
  let i ← getInt j
  if i < 0 then throw s!"expected nat, got {i}" else pure i.toNat

def getBool (j : Json) : R Bool :=
  match j with
  | .bool b => pure b
  | .num n => pure (n.mantissa != 0)
  | _ => throw s!"expected bool, got {j.compress}"

def fld (j : Json) (k : String) : R Json := j.getObjVal? k

def fldOpt (j : Json) (k : String) : Option Json :=
  match j.getObjVal? k with
  | .ok .null => none
  | .ok v => some v
  | .error _ => none

def getList (f : Json → R α) (j : Json) : R (List α) := do
  let a ← j.getArr?
  a.toList.mapM f

def getOptInt (j : Json) (k : String) : R (Option Int) :=
  match fldOpt j k with
  | none => pure none
  | some v => do pure (some (← getInt v))

def ratJ (q : Rat) : Json :=
  if q.den = 1 then .str (toString q.num) else .str s!"{q.num}/{q.den}"

def intJ (i : Int) : Json := .num (JsonNumber.fromInt i)
def natJ (n : Nat) : Json := .num (JsonNumber.fromNat n)
def listJ (f : α → Json) (l : List α) : Json := .arr (l.map f).toArray
def optJ (f : α → Json) : Option α → Json
  | some a => f a
  | none => .null

open Ladim in
def getVal (j : Json) : R Val :=
  match j with
  | .str "nan" => pure .nan
  | _ => do pure (.num (← getRat j))

open Ladim in
def valJ : Val → Json
  | .num q => ratJ q
  | .nan => .str "nan"

def getObjPairs (j : Json) : R (List (String × Json)) :=
  match j with
  | .obj o => pure (o.toList)
  | _ => throw "expected object"

def errJ (e : Ladim.Refusal) : Json := Json.mkObj [("error", .str e.toString)]

end Drv
