import Ladim.Driver.Util
import Ladim.Model.Run
import Ladim.Model.RunRoms
import Ladim.Model.RunForcing
import Ladim.Model.Simulation
import Ladim.Model.RunOutput
import Ladim.Model.Release
import Ladim.Model.Forcing
import Ladim.Model.Grid
import Ladim.Model.Tracker
import Ladim.Model.Output
/-
Driver op "run": instantiate `RunEnv` from a whole scenario (time, grid file, forcing frames,
release table, tracker, scripted IBM, output set-up) with the component models, run it, and
feed the records through the output model.
-/
open Lean Ladim Drv

namespace Drv

def getF3' (j : Json) : R Field3 := getList (getList (getList getRat)) j
def getF2' (j : Json) : R Field2 := getList (getList getRat) j

def addF3 (A B : Field3) (c : Rat) : Field3 :=
  (A.zip B).map (fun (P, Q) => (P.zip Q).map (fun (r, s) => (r.zip s).map (fun (a, b) => a + c * b)))

def lookupVal (l : List (String × Val)) (n : String) : Val := (PState.lookup l n).getD Val.nan
def setVal (l : List (String × Val)) (n : String) (v : Val) : List (String × Val) :=
  if l.any (·.1 == n) then l.map (fun (k, x) => if k == n then (k, v) else (k, x)) else l ++ [(n, v)]
def valRat : Val → Rat
  | .num q => q
  | .nan => 0

def getRP (j : Json) : R RP := do
  let vars ← getObjPairs (← fld j "vars")
  let pv ← getObjPairs (← fld j "pvars")
  pure { pid := ← getNat (← fld j "pid"), x := ← getRat (← fld j "X"), y := ← getRat (← fld j "Y"),
         z := ← getRat (← fld j "Z"), alive := ← getBool (← fld j "alive"), active := ← getBool (← fld j "active"),
         vars := ← vars.mapM (fun (k, v) => do pure (k, ← getVal v)),
         pvars := ← pv.mapM (fun (k, v) => do pure (k, ← getVal v)) }

def rpJ (p : RP) : Json :=
  Json.mkObj [("pid", natJ p.pid), ("X", ratJ p.x), ("Y", ratJ p.y), ("Z", ratJ p.z), ("alive", .bool p.alive),
    ("active", .bool p.active), ("vars", Json.mkObj (p.vars.map (fun (k, v) => (k, valJ v)))),
    ("pvars", Json.mkObj (p.pvars.map (fun (k, v) => (k, valJ v))))]

def callName : Call → String
  | .time => "time" | .release => "release" | .forcing => "forcing" | .output => "output"
  | .tracker => "tracker" | .ibm => "ibm"

def getFramesTable (j : Json) : R (Nat → Nat → Field3) := do
  let t ← getList (getList getF3') j
  pure (fun f i => ((t[f]?).bind (·[i]?)).getD [])

/-- the request of a whole run as a `Sim` -/
def parseSim (j : Json) : R Sim := do
  -- time
  let tj ← fld j "time"
  let start ← getInt (← fld tj "start")
  let stop ← getInt (← fld tj "stop")
  let dt ← getInt (← fld tj "dt")
  let rev ← getBool (← fld tj "rev")
  let ref ← getOptInt tj "ref"
  -- grid
  let f : RomsFile := { h := ← getF2' (← fld (← fld j "file") "h"), mask := ← getF2' (← fld (← fld j "file") "mask"),
                        dx := ← getF2' (← fld (← fld j "file") "dx"), hc := ← getRat (← fld (← fld j "file") "hc"),
                        CsR := ← getList getRat (← fld (← fld j "file") "Cs_r"),
                        vtransform := ← getNat (← fld (← fld j "file") "vtransform") }
  let sub ← match fldOpt j "subgrid" with
    | some s => do
      let l ← getList getInt s
      match l with
      | [a, b, c, d] => pure (some (a, b, c, d))
      | _ => throw "subgrid"
    | none => pure none
  -- forcing
  let frames ← getList (fun x => do
      let a ← getList getInt x
      match a with
      | [s, fi, ix] => pure ({ step := s, file := fi.toNat, idx := ix.toNat } : Frame)
      | _ => throw "frame") (← fld j "frames")
  let rawU ← getFramesTable (← fld j "U")
  let rawV ← getFramesTable (← fld j "V")
  let scalNames ← getList (fun x => x.getStr?) (← fld j "extra_forcing")
  let scalTabs ← scalNames.mapM (fun nm => do
      let t ← getFramesTable (← fld (← fld j "scalars") nm)
      pure (nm, t))
  -- release
  let rj ← fld j "release"
  let pvNames ← getList (fun x => x.getStr?) (← fld j "pvars")
  let ivDefaults ← getList (fun x => do
      let a ← x.getArr?
      match a.toList with
      | [n, v] => do pure (← n.getStr?, ← getVal v)
      | _ => throw "ivar") (← fld j "ivars")
  let rows ← getList (fun x => do
      let cols ← getObjPairs (← fld x "cols")
      pure ({ time := ← getInt (← fld x "time"), mult := ← getNat (← fld x "mult"),
              cols := ← cols.mapM (fun (k, v) => do pure (k, ← getVal v)) } : RRow)) (← fld rj "rows")
  -- tracker / ibm / output
  let trj ← fld j "tracker"
  let schemeStr ← (← fld trj "scheme").getStr?
  let scheme : Scheme := match schemeStr with
    | "EF" => Scheme.EF | "RK2" => Scheme.RK2 | "RK4" => Scheme.RK4 | _ => Scheme.none
  let ibj ← fld j "ibm"
  let killPairs ← getObjPairs (← fld ibj "kill")
  let killTab ← killPairs.mapM (fun (k, v) => do pure (k.toInt?.getD (-999), ← getList getNat v))
  let oj ← fld j "output"
  let warm ← match fldOpt j "warm" with
    | none => pure none
    | some wj => do
      let pvt ← match fldOpt wj "pvtable" with
        | some t => getList (fun x => do
              let ps ← getObjPairs x
              ps.mapM (fun (k, v) => do pure (k, ← getVal v))) t
        | none => pure []
      pure (some ({ parts := ← getList getRP (← fld wj "parts"), npid := ← getNat (← fld wj "npid"),
                    pvtable := pvt } : WarmState))
  let sim : Sim := {
    start := start, stop := stop, dt := dt, rev := rev, ref := ref,
    file := f, sub := sub, frames := frames, rawU := rawU, rawV := rawV, rawS := scalTabs,
    continuous := ← getBool (← fld rj "continuous"), freq := ← getInt (← fld rj "freq"), rows := rows,
    pvNames := pvNames, ivDefaults := ivDefaults,
    scheme := scheme, vertAdv := ← getBool (← fld trj "vertadv"),
    ageing := ← getBool (← fld ibj "age"), kills := fun n => (killTab.lookup n).getD [],
    period := ← getInt (← fld oj "period"), sparse := (← (← fld oj "layout").getStr?) != "dense",
    numrec := ← getInt (← fld oj "numrec"), stem := ← (← fld oj "stem").getStr?,
    suffix := ← (← fld oj "suffix").getStr?,
    outIv := ← getList (fun x => x.getStr?) (← fld oj "ivars"),
    outPv := ← getList (fun x => x.getStr?) (← fld oj "pvars"),
    warm := warm }
  pure sim

/-- the result of a run as JSON -/
def simOut (r : Except Refusal SimResult) : R Json :=
  match r with
  | .error e => pure (errJ e)
  | .ok res =>
  let final := res.final
  let filesJ := match res.files with
    | .error (st, e) => Json.mkObj [("error", .str e.toString), ("at_step", intJ st)]
    | .ok fs => Json.arr (fs.map (fun (vf : VFile) =>
        Json.mkObj [("name", .str vf.name), ("time", listJ ratJ vf.time), ("count", listJ natJ vf.count),
          ("pid", listJ natJ vf.pid),
          ("inst", Json.mkObj (vf.inst.map (fun (n, c) => (n, listJ valJ c)))),
          ("dense", listJ (fun rec => Json.mkObj (rec.map (fun (n, c) => (n, listJ (optJ valJ) c)))) vf.dense),
          ("pvarN", optJ natJ vf.pvarN), ("pvars", Json.mkObj (vf.pvars.map (fun (n, c) => (n, listJ valJ c)))),
          ("closed", .bool vf.closed)])).toArray
  pure (Json.mkObj [
    ("nsteps", natJ res.nsteps),
    ("records", listJ (fun (r : Int × List RP) => Json.mkObj [("step", intJ r.1), ("parts", listJ rpJ r.2)]) final.records),
    ("final", listJ rpJ final.parts), ("npid", natJ final.npid),
    ("log", listJ (fun (c : Int × Call) => Json.arr #[intJ c.1, .str (callName c.2)]) final.log),
    ("files", filesJ)])

def opRun (j : Json) : R Json := do
  let sim ← parseSim j
  simOut (sim.run quantize)

end Drv
