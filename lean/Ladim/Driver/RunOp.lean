import Ladim.Driver.Util
import Ladim.Model.Run
import Ladim.Model.RunRoms
import Ladim.Model.RunOutput
import Ladim.Model.Release
import Ladim.Model.Forcing
import Ladim.Model.Grid
import Ladim.Model.Tracker
import Ladim.Model.Output
/-
Driver op "run": instantiate `RunEnv` from a whole scenario (time, grid file, forcing frames,
release table, tracker, scripted IBM, output set-up) with the component models, run it, and
feed the records through the output model.
-/
open Lean Ladim Drv

namespace Drv

def getF3' (j : Json) : R Field3 := getList (getList (getList getRat)) j
def getF2' (j : Json) : R Field2 := getList (getList getRat) j

/-- per-node time machine over a whole 3-D array: `arr file idx` is the raw array of a frame;
    returns for steps `0 … n-1` the pair (u, dU) as arrays -/
def fieldSeq (frames : List Frame) (arr : Nat → Nat → Field3) (n : Nat) : List (Field3 × Field3) :=
  -- shape from the first frame
  match frames with
  | [] => []
  | f0 :: _ =>
    let shape := arr f0.file f0.idx
    let node (k j i : Nat) : List (Rat × Rat) :=
      let val := fun f ix => ((((arr f ix)[k]?).bind (·[j]?)).bind (·[i]?)).getD 0
      match FM.init frames val val false with
      | none => []
      | some m0 =>
        let rec go (m : FM) (s : Nat) (fuel : Nat) (acc : List (Rat × Rat)) : List (Rat × Rat) :=
          match fuel with
          | 0 => acc.reverse
          | fuel + 1 =>
            match m.update val val false (s : Int) with
            | none => acc.reverse
            | some m' => go m' (s + 1) fuel ((m'.u, m'.dU) :: acc)
        go m0 0 n []
    let perNode : List (List (List (List (Rat × Rat)))) :=
      shape.zipIdx.map (fun (P, k) => P.zipIdx.map (fun (r, j) => r.zipIdx.map (fun (_, i) => node k j i)))
    (List.range n).map (fun s =>
      (perNode.map (fun P => P.map (fun r => r.map (fun l => (l[s]?.getD (0, 0)).1))),
       perNode.map (fun P => P.map (fun r => r.map (fun l => (l[s]?.getD (0, 0)).2)))))

/-- scalar fields: the latest frame at or before the step -/
def scalarSeq (frames : List Frame) (arr : Nat → Nat → Field3) (n : Nat) : List Field3 :=
  (List.range n).map (fun (s : Nat) =>
    match (frames.filter (fun f => f.step ≤ (s : Int))).getLast? with
    | some f => arr f.file f.idx
    | none => [])

def addF3 (A B : Field3) (c : Rat) : Field3 :=
  (A.zip B).map (fun (P, Q) => (P.zip Q).map (fun (r, s) => (r.zip s).map (fun (a, b) => a + c * b)))

def lookupVal (l : List (String × Val)) (n : String) : Val := (PState.lookup l n).getD Val.nan
def setVal (l : List (String × Val)) (n : String) (v : Val) : List (String × Val) :=
  if l.any (·.1 == n) then l.map (fun (k, x) => if k == n then (k, v) else (k, x)) else l ++ [(n, v)]
def valRat : Val → Rat
  | .num q => q
  | .nan => 0

def getRP (j : Json) : R RP := do
  let vars ← getObjPairs (← fld j "vars")
  let pv ← getObjPairs (← fld j "pvars")
  pure { pid := ← getNat (← fld j "pid"), x := ← getRat (← fld j "X"), y := ← getRat (← fld j "Y"),
         z := ← getRat (← fld j "Z"), alive := ← getBool (← fld j "alive"), active := ← getBool (← fld j "active"),
         vars := ← vars.mapM (fun (k, v) => do pure (k, ← getVal v)),
         pvars := ← pv.mapM (fun (k, v) => do pure (k, ← getVal v)) }

def rpJ (p : RP) : Json :=
  Json.mkObj [("pid", natJ p.pid), ("X", ratJ p.x), ("Y", ratJ p.y), ("Z", ratJ p.z), ("alive", .bool p.alive),
    ("active", .bool p.active), ("vars", Json.mkObj (p.vars.map (fun (k, v) => (k, valJ v)))),
    ("pvars", Json.mkObj (p.pvars.map (fun (k, v) => (k, valJ v))))]

def callName : Call → String
  | .time => "time" | .release => "release" | .forcing => "forcing" | .output => "output"
  | .tracker => "tracker" | .ibm => "ibm"

def getFramesTable (j : Json) : R (Nat → Nat → Field3) := do
  let t ← getList (getList getF3') j
  pure (fun f i => ((t[f]?).bind (·[i]?)).getD [])

def opRun (j : Json) : R Json := do
  -- time
  let tj ← fld j "time"
  let start ← getInt (← fld tj "start")
  let stop ← getInt (← fld tj "stop")
  let dt ← getInt (← fld tj "dt")
  let rev ← getBool (← fld tj "rev")
  let ref ← getOptInt tj "ref"
  match TK.init (some start) (some stop) dt ref rev with
  | .error e => pure (errJ e)
  | .ok tk =>
  let nsteps := tk.nsteps.toNat
  -- grid
  let f : RomsFile := { h := ← getF2' (← fld (← fld j "file") "h"), mask := ← getF2' (← fld (← fld j "file") "mask"),
                        dx := ← getF2' (← fld (← fld j "file") "dx"), hc := ← getRat (← fld (← fld j "file") "hc"),
                        CsR := ← getList getRat (← fld (← fld j "file") "Cs_r"),
                        vtransform := ← getNat (← fld (← fld j "file") "vtransform") }
  let sub ← match fldOpt j "subgrid" with
    | some s => do
      let l ← getList getInt s
      match l with
      | [a, b, c, d] => pure (some (a, b, c, d))
      | _ => throw "subgrid"
    | none => pure none
  match mkGrid f sub with
  | none => pure (errJ .exit1)
  | some g =>
  -- forcing
  let frames ← getList (fun x => do
      let a ← getList getInt x
      match a with
      | [s, fi, ix] => pure ({ step := s, file := fi.toNat, idx := ix.toNat } : Frame)
      | _ => throw "frame") (← fld j "frames")
  let rawU ← getFramesTable (← fld j "U")
  let rawV ← getFramesTable (← fld j "V")
  let scalNames ← getList (fun x => x.getStr?) (← fld j "extra_forcing")
  let scalTabs ← scalNames.mapM (fun nm => do
      let t ← getFramesTable (← fld (← fld j "scalars") nm)
      pure (nm, t))
  let nrun := nsteps + 1
  -- window every frame once
  let nfiles := (frames.map (·.file)).foldl max 0 + 1
  let nidx := (frames.map (·.idx)).foldl max 0 + 1
  let pre (fn : Nat → Nat → Field3) : Nat → Nat → Field3 :=
    let tab : Array (Array Field3) := ((List.range nfiles).map (fun fi => ((List.range nidx).map (fun ix => fn fi ix)).toArray)).toArray
    fun fi ix => ((tab[fi]?).bind (·[ix]?)).getD []
  let winU := pre (fun fi ix => windowU g (rawU fi ix) none)
  let winV := pre (fun fi ix => windowV g (rawV fi ix) none)
  let useq := fieldSeq frames winU nrun
  let vseq := fieldSeq frames winV nrun
  let sseq := scalTabs.map (fun (nm, t) => (nm, scalarSeq frames (pre (fun fi ix => windowRho g (t fi ix))) nrun))
  let sign : Rat := if rev then -1 else 1
  -- release
  let rj ← fld j "release"
  let pvNames ← getList (fun x => x.getStr?) (← fld j "pvars")
  let ivDefaults ← getList (fun x => do
      let a ← x.getArr?
      match a.toList with
      | [n, v] => do pure (← n.getStr?, ← getVal v)
      | _ => throw "ivar") (← fld j "ivars")
  let rc : RelCfg := { start := start, stop := stop, dt := dt, rev := rev,
                       continuous := ← getBool (← fld rj "continuous"), freq := ← getInt (← fld rj "freq"),
                       warm := ← getBool (← fld rj "warm"), releaseTimeCol := pvNames.contains "release_time" }
  let rows ← getList (fun x => do
      let cols ← getObjPairs (← fld x "cols")
      pure ({ time := ← getInt (← fld x "time"), mult := ← getNat (← fld x "mult"),
              cols := ← cols.mapM (fun (k, v) => do pure (k, ← getVal v)) } : RRow)) (← fld rj "rows")
  match Rel.init rc rows with
  | .error e => pure (errJ e)
  | .ok rel =>
  let relTable := rel.run 0 nrun
  let rowToRP (r : RRow) : RP :=
    let get (n : String) : Rat := valRat (lookupVal r.cols n)
    { pid := 0, x := get "X", y := get "Y", z := get "Z", alive := true, active := true,
      vars := ivDefaults.map (fun (n, d) => (n, (PState.lookup r.cols n).getD d)),
      pvars := pvNames.map (fun n => (n, lookupVal r.cols n)) }
  -- tracker / ibm / output
  let trj ← fld j "tracker"
  let schemeStr ← (← fld trj "scheme").getStr?
  let scheme : Scheme := match schemeStr with
    | "EF" => Scheme.EF | "RK2" => Scheme.RK2 | "RK4" => Scheme.RK4 | _ => Scheme.none
  let vertAdv ← getBool (← fld trj "vertadv")
  let cfg : TrkCfg := { scheme := scheme, dt := dt, vertAdv := vertAdv, vertDiff := false }
  let ibj ← fld j "ibm"
  let doAge ← getBool (← fld ibj "age")
  let killPairs ← getObjPairs (← fld ibj "kill")
  let killTab ← killPairs.mapM (fun (k, v) => do pure (k.toInt?.getD (-999), ← getList getNat v))
  let oj ← fld j "output"
  let period ← getInt (← fld oj "period")
  let sparse := (← (← fld oj "layout").getStr?) != "dense"
  let setup : RomsSetup := {
    g := g,
    fieldU := fun k => useq[k]?.getD ([], []),
    fieldV := fun k => vseq[k]?.getD ([], []),
    scalars := sseq.map (fun (nm, seq) => (nm, fun k => seq[k]?.getD [])),
    sign := sign, cfg := cfg,
    releaseAt := fun n => ((relTable.lookup n).getD []).map rowToRP,
    ageing := doAge, kills := fun n => (killTab.lookup n).getD [],
    period := period, sparse := sparse, rnd := quantize }
  let env : RunEnv := setup.env
  let final ← match fldOpt j "warm" with
    | none => pure (env.coldRun nsteps)
    | some wj => do
      let parts ← getList getRP (← fld wj "parts")
      let npid ← getNat (← fld wj "npid")
      pure (env.warmRun nsteps parts npid)
  -- records through the output model
  let outIv ← getList (fun x => x.getStr?) (← fld oj "ivars")
  let outPv ← getList (fun x => x.getStr?) (← fld oj "pvars")
  let numrec ← getInt (← fld oj "numrec")
  let stem ← (← fld oj "stem").getStr?
  let suffix ← (← fld oj "suffix").getStr?
  let isWarm := (fldOpt j "warm").isSome
  let refT := tk.ref
  -- particle variables of every pid released so far, from the release table (and the warm file)
  let allReleased : List RP := (relTable.flatMap (fun (_, rs) => rs.map rowToRP))
  let warmPv : List (List (String × Val)) ← match fldOpt j "warm" with
    | some wj => (do
        match fldOpt wj "pvtable" with
        | some t => getList (fun x => do
              let ps ← getObjPairs x
              ps.mapM (fun (k, v) => do pure (k, ← getVal v))) t
        | none => pure [])
    | none => pure []
  let pvTable : List (List (String × Val)) := warmPv ++ allReleased.map (·.pvars)
  -- npid at the time of each record: pids handed out up to and including that step
  let npidAt (st : Int) : Nat :=
    (match fldOpt j "warm" with | some _ => warmPv.length | none => 0) +
      ((relTable.filter (fun (s, _) => s ≤ st)).map (fun (_, rs) => rs.length)).foldl (· + ·) 0
  let onames : List String := outIv.filter (fun n => n != "pid")
  let otime : Int → Rat := fun st => ((tk.step2time st - refT : Int) : Rat)
  let ospec : OutSpec := { names := onames, pnames := outPv, time := otime, refT := (refT : Rat),
                           pvTable := pvTable, npidAt := npidAt }
  let filesJ := match ospec.runFiles (if sparse then .sparse else .dense) nsteps period numrec stem suffix final.records isWarm with
    | .error (st, e) => Json.mkObj [("error", .str e.toString), ("at_step", intJ st)]
    | .ok fs => Json.arr (fs.map (fun (vf : VFile) =>
        Json.mkObj [("name", .str vf.name), ("time", listJ ratJ vf.time), ("count", listJ natJ vf.count),
          ("pid", listJ natJ vf.pid),
          ("inst", Json.mkObj (vf.inst.map (fun (n, c) => (n, listJ valJ c)))),
          ("dense", listJ (fun rec => Json.mkObj (rec.map (fun (n, c) => (n, listJ (optJ valJ) c)))) vf.dense),
          ("pvarN", optJ natJ vf.pvarN), ("pvars", Json.mkObj (vf.pvars.map (fun (n, c) => (n, listJ valJ c)))),
          ("closed", .bool vf.closed)])).toArray
  pure (Json.mkObj [
    ("nsteps", natJ nsteps),
    ("records", listJ (fun (r : Int × List RP) => Json.mkObj [("step", intJ r.1), ("parts", listJ rpJ r.2)]) final.records),
    ("final", listJ rpJ final.parts), ("npid", natJ final.npid),
    ("log", listJ (fun (c : Int × Call) => Json.arr #[intJ c.1, .str (callName c.2)]) final.log),
    ("files", filesJ)])

end Drv
