import Ladim.Model.Grid
import Mathlib.Data.Rat.Floor
import Mathlib.Tactic.Linarith
import Mathlib.Tactic.Ring
import Mathlib.Tactic.Positivity
import Mathlib.Algebra.Order.Field.Rat
import Mathlib.Data.List.Basic
/-
C02 — spatial interpolation on the C-grid.  Property theorems about `Ladim.Model.Sample`
(`trilinear`, `sample3DUV`, `nearest`) and `Ladim.Model.Grid` (`mkGrid`, `windowU/V/Rho`,
`maskU/V`, `readVel`, `sampleVel`, `sampleScalar`).

Coordinates: a particle at grid position `x` is at local position `x − i0` of the loaded
window; u-node `i` of the window sits at local `x = i − ½`, v-node `j` at local `y = j − ½`.
-/

namespace Ladim.C02
open Ladim

theorem pyTrunc_nonneg_eq (x : ℚ) (hx : 0 ≤ x) : pyTrunc x = ⌊x⌋ := by
  unfold pyTrunc; rw [if_pos hx]; rfl

/-- truncation toward zero is the floor for non-negative arguments, and leaves a fractional
    part in `[0, 1)` -/
theorem pyTrunc_frac (x : ℚ) (hx : 0 ≤ x) : 0 ≤ x - pyTrunc x ∧ x - pyTrunc x < 1 ∧ (pyTrunc x : ℚ) ≤ x := by
  rw [pyTrunc_nonneg_eq x hx]
  refine ⟨?_, ?_, ?_⟩
  · linarith [Int.floor_le x]
  · linarith [Int.lt_floor_add_one x]
  · exact Int.floor_le x

theorem trilinear_some (F : Field3) (x y : ℚ) (K : Int) (A r : ℚ)
    (h : trilinear F x y K A = some r) :
    ∃ f000 f100 f001 f101 f010 f110 f011 f111 : ℚ,
      get3 F (K - 1) (pyTrunc y) (pyTrunc x) = some f000 ∧
      get3 F K (pyTrunc y) (pyTrunc x) = some f100 ∧
      get3 F (K - 1) (pyTrunc y + 1) (pyTrunc x) = some f001 ∧
      get3 F K (pyTrunc y + 1) (pyTrunc x) = some f101 ∧
      get3 F (K - 1) (pyTrunc y) (pyTrunc x + 1) = some f010 ∧
      get3 F K (pyTrunc y) (pyTrunc x + 1) = some f110 ∧
      get3 F (K - 1) (pyTrunc y + 1) (pyTrunc x + 1) = some f011 ∧
      get3 F K (pyTrunc y + 1) (pyTrunc x + 1) = some f111 ∧
      r = (1 - (x - pyTrunc x)) * (1 - (y - pyTrunc y)) * (A * f000 + (1 - A) * f100)
        + (x - pyTrunc x) * (1 - (y - pyTrunc y)) * (A * f010 + (1 - A) * f110)
        + (1 - (x - pyTrunc x)) * (y - pyTrunc y) * (A * f001 + (1 - A) * f101)
        + (x - pyTrunc x) * (y - pyTrunc y) * (A * f011 + (1 - A) * f111) := by
  simp only [trilinear, bind, Option.bind_eq_some_iff, pure, Option.some.injEq] at h
  obtain ⟨f000, h000, f100, h100, f001, h001, f101, h101, f010, h010, f110, h110, f011, h011,
    f111, h111, hr⟩ := h
  exact ⟨f000, f100, f001, f101, f010, f110, f011, f111, h000, h100, h001, h101, h010, h110,
    h011, h111, hr.symm⟩

theorem convex2_lo (lo a b t : ℚ) (ha : lo ≤ a) (hb : lo ≤ b) (h0 : 0 ≤ t) (h1 : t ≤ 1) :
    lo ≤ t * a + (1 - t) * b := by
  nlinarith [mul_nonneg h0 (sub_nonneg.2 ha), mul_nonneg (sub_nonneg.2 h1) (sub_nonneg.2 hb)]

theorem convex2_hi (hi a b t : ℚ) (ha : a ≤ hi) (hb : b ≤ hi) (h0 : 0 ≤ t) (h1 : t ≤ 1) :
    t * a + (1 - t) * b ≤ hi := by
  nlinarith [mul_nonneg h0 (sub_nonneg.2 ha), mul_nonneg (sub_nonneg.2 h1) (sub_nonneg.2 hb)]

/-- **trilinear_convex**: the sample is a convex combination of the eight surrounding node
    values: it lies between any bounds that hold for the nodes of the array. -/
theorem trilinear_convex (F : Field3) (x y : ℚ) (K : Int) (A : ℚ) (r lo hi : ℚ)
    (hx : 0 ≤ x) (hy : 0 ≤ y) (hA0 : 0 ≤ A) (hA1 : A ≤ 1)
    (hb : ∀ k j i v, get3 F k j i = some v → lo ≤ v ∧ v ≤ hi)
    (h : trilinear F x y K A = some r) : lo ≤ r ∧ r ≤ hi := by
  obtain ⟨f000, f100, f001, f101, f010, f110, f011, f111, h000, h100, h001, h101, h010, h110,
    h011, h111, hr⟩ := trilinear_some F x y K A r h
  obtain ⟨hp0, hp1, -⟩ := pyTrunc_frac x hx
  obtain ⟨hq0, hq1, -⟩ := pyTrunc_frac y hy
  generalize x - (pyTrunc x : ℚ) = p at *
  generalize y - (pyTrunc y : ℚ) = q at *
  have b000 := hb _ _ _ _ h000
  have b100 := hb _ _ _ _ h100
  have b001 := hb _ _ _ _ h001
  have b101 := hb _ _ _ _ h101
  have b010 := hb _ _ _ _ h010
  have b110 := hb _ _ _ _ h110
  have b011 := hb _ _ _ _ h011
  have b111 := hb _ _ _ _ h111
  have e : r = q * (p * (A * f011 + (1 - A) * f111) + (1 - p) * (A * f001 + (1 - A) * f101))
      + (1 - q) * (p * (A * f010 + (1 - A) * f110) + (1 - p) * (A * f000 + (1 - A) * f100)) := by
    rw [hr]; ring
  rw [e]
  constructor
  · apply convex2_lo _ _ _ _ _ _ hq0 hq1.le <;> apply convex2_lo _ _ _ _ _ _ hp0 hp1.le <;>
      apply convex2_lo _ _ _ _ _ _ hA0 hA1 <;> simp only [b000, b100, b001, b101, b010, b110, b011, b111]
  · apply convex2_hi _ _ _ _ _ _ hq0 hq1.le <;> apply convex2_hi _ _ _ _ _ _ hp0 hp1.le <;>
      apply convex2_hi _ _ _ _ _ _ hA0 hA1 <;> simp only [b000, b100, b001, b101, b010, b110, b011, b111]

set_option linter.unusedVariables false in -- `hx`, `hy` are not needed: the identity is algebraic
/-- **exact on linear fields**: if the nodes of an array carry `a + b·i + c·j + d·ζ(k)`
    (any function `ζ` of the level), the trilinear sample at `(x, y)` with level pair `(K−1, K)`
    and weight `A` is `a + b·x + c·y + d·(A·ζ(K−1) + (1−A)·ζ(K))`. -/
theorem trilinear_exact_linear (F : Field3) (a b c d : ℚ) (ζ : Int → ℚ) (x y : ℚ) (K : Int) (A r : ℚ)
    (hx : 0 ≤ x) (hy : 0 ≤ y)
    (hlin : ∀ k j i v, get3 F k j i = some v → v = a + b * i + c * j + d * ζ k)
    (h : trilinear F x y K A = some r) :
    r = a + b * x + c * y + d * (A * ζ (K - 1) + (1 - A) * ζ K) := by
  obtain ⟨f000, f100, f001, f101, f010, f110, f011, f111, h000, h100, h001, h101, h010, h110,
    h011, h111, hr⟩ := trilinear_some F x y K A r h
  rw [hr, hlin _ _ _ _ h000, hlin _ _ _ _ h100, hlin _ _ _ _ h001, hlin _ _ _ _ h101,
    hlin _ _ _ _ h010, hlin _ _ _ _ h110, hlin _ _ _ _ h011, hlin _ _ _ _ h111]
  push_cast
  ring

/-- **u_exact_linear / v_exact_linear**: for a velocity field that is linear in the particle's
    own coordinates — u-nodes at local `x = i − ½`, v-nodes at local `y = j − ½` — the sampled
    velocity is that linear function at the particle's own position (depth through the level
    weights, which `C12.z2s_spec` equates with the clamped particle depth).  This pins the
    half-cell stagger of both arrays. -/
theorem uv_exact_linear (U V : Field3) (au bu cu du av bv cv dv : ℚ) (ζ : Int → ℚ) (x y : ℚ) (K : Int)
    (A u v : ℚ) (hx : 0 ≤ x) (hy : 0 ≤ y)
    (hU : ∀ k j i w, get3 U k j i = some w → w = au + bu * ((i : ℚ) - 1/2) + cu * j + du * ζ k)
    (hV : ∀ k j i w, get3 V k j i = some w → w = av + bv * i + cv * ((j : ℚ) - 1/2) + dv * ζ k)
    (h : sample3DUV U V x y K A = some (u, v)) :
    u = au + bu * x + cu * y + du * (A * ζ (K - 1) + (1 - A) * ζ K) ∧
    v = av + bv * x + cv * y + dv * (A * ζ (K - 1) + (1 - A) * ζ K) := by
  simp only [sample3DUV, bind, Option.bind_eq_some_iff, pure, Option.some.injEq, Prod.mk.injEq] at h
  obtain ⟨u', hu, v', hv, rfl, rfl⟩ := h
  constructor
  · have := trilinear_exact_linear U (au - bu / 2) bu cu du ζ (x + 1/2) y K A u' (by linarith) hy
      (fun k j i w hw => by rw [hU k j i w hw]; ring) hu
    rw [this]; ring
  · have := trilinear_exact_linear V (av - cv / 2) bv cv dv ζ x (y + 1/2) K A v' hx (by linarith)
      (fun k j i w hw => by rw [hV k j i w hw]; ring) hv
    rw [this]; ring

/-! ### land faces, packed storage -/

theorem mid_getElem? {α} (a0 l : α) (X : List α) (i : Nat) (v : α) (h : X[i]? = some v) :
    ([a0] ++ X ++ [l])[i + 1]? = some v := by
  have hi : i < X.length := (List.getElem?_eq_some_iff.1 h).1
  rw [List.append_assoc, List.singleton_append, List.getElem?_cons_succ,
    List.getElem?_append_left hi, h]

theorem zipmap_getElem? {α β γ} (f : α × β → γ) (r : List α) (s : List β) (i : Nat) (a : α) (b : β)
    (ha : r[i]? = some a) (hb : s[i]? = some b) : ((r.zip s).map f)[i]? = some (f (a, b)) := by
  rw [List.getElem?_map, (List.getElem?_zip_eq_some (z := (a, b))).2 ⟨ha, hb⟩]; rfl

theorem bind_some_split {α β} (o : Option α) (f : α → Option β) (b : β) (h : o.bind f = some b) :
    ∃ a, o = some a ∧ f a = some b := Option.bind_eq_some_iff.1 h

/-- element of `maskU`: interior faces carry the product of the two neighbouring cells -/
theorem maskU_interior (M : Field2) (j i : Nat) (a b : ℚ)
    (ha : (M[j]?).bind (·[i]?) = some a) (hb : (M[j]?).bind (·[i + 1]?) = some b) :
    (maskU M)[j]?.bind (·[i + 1]?) = some (a * b) := by
  obtain ⟨row, hrow, hra⟩ := bind_some_split _ _ _ ha
  rw [hrow] at hb
  simp only [Option.bind_some] at hb
  unfold maskU
  rw [List.getElem?_map, hrow]
  simp only [Option.map_some, Option.bind_some]
  cases row with
  | nil => simp at hra
  | cons a0 t =>
    apply mid_getElem?
    exact zipmap_getElem? (fun (p : ℚ × ℚ) => p.1 * p.2) _ _ i a b hra (by rw [List.getElem?_tail]; exact hb)

theorem maskV_interior (M : Field2) (j i : Nat) (a b : ℚ)
    (ha : (M[j]?).bind (·[i]?) = some a) (hb : (M[j + 1]?).bind (·[i]?) = some b) :
    (maskV M)[j + 1]?.bind (·[i]?) = some (a * b) := by
  obtain ⟨ra, hra, hraa⟩ := bind_some_split _ _ _ ha
  obtain ⟨rb, hrb, hrbb⟩ := bind_some_split _ _ _ hb
  unfold maskV
  cases M with
  | nil => simp at hra
  | cons r0 t =>
    simp only
    rw [mid_getElem? _ _ _ j _ (zipmap_getElem? _ _ _ j ra rb hra (by rw [List.getElem?_tail]; exact hrb))]
    simp only [Option.bind_some]
    exact zipmap_getElem? (fun (p : ℚ × ℚ) => p.1 * p.2) _ _ i a b hraa hrbb

/-- **landface_zero / packed storage**: a node of the field handed to the sampler is
    `scale · raw · mask` (`raw · mask` for float storage); hence zero through every face whose
    mask is zero — i.e. (by `maskU_interior`) every interior face next to a land cell — at every
    level and whatever the file contains. -/
theorem readVel_node (raw : Field3) (scale : Option ℚ) (mask : Field2) (k j i : Nat) (x m : ℚ)
    (hx : ((raw[k]?).bind (·[j]?)).bind (·[i]?) = some x)
    (hm : (mask[j]?).bind (·[i]?) = some m) :
    (((readVel raw scale mask)[k]?).bind (·[j]?)).bind (·[i]?)
      = some ((match scale with | some s => s * x | none => x) * m) := by
  obtain ⟨r, hr, hrx⟩ := bind_some_split _ _ _ hx
  obtain ⟨plane, hplane, hpr⟩ := bind_some_split _ _ _ hr
  obtain ⟨mr, hmr, hmm⟩ := bind_some_split _ _ _ hm
  unfold readVel
  rw [List.getElem?_map, hplane]
  simp only [Option.map_some, Option.bind_some]
  rw [zipmap_getElem? _ _ _ j r mr hpr hmr]
  simp only [Option.bind_some]
  rw [zipmap_getElem? _ _ _ i x m hrx hmm]
  rfl

theorem landface_zero (raw : Field3) (scale : Option ℚ) (mask : Field2) (k j i : Nat) (v : ℚ)
    (hm : (mask[j]?).bind (·[i]?) = some 0)
    (hv : (((readVel raw scale mask)[k]?).bind (·[j]?)).bind (·[i]?) = some v) : v = 0 := by
  obtain ⟨R, hR, hRv⟩ := bind_some_split _ _ _ hv
  obtain ⟨P, hP, hPR⟩ := bind_some_split _ _ _ hR
  obtain ⟨mr, hmr, hmm⟩ := bind_some_split _ _ _ hm
  unfold readVel at hP
  rw [List.getElem?_map, Option.map_eq_some_iff] at hP
  obtain ⟨plane, hplane, rfl⟩ := hP
  rw [List.getElem?_map, Option.map_eq_some_iff] at hPR
  obtain ⟨⟨r, mr'⟩, hz, rfl⟩ := hPR
  rw [List.getElem?_zip_eq_some] at hz
  obtain ⟨hr, hmr'⟩ := hz
  rw [hmr] at hmr'
  obtain rfl := Option.some.inj hmr'
  rw [List.getElem?_map, Option.map_eq_some_iff] at hRv
  obtain ⟨⟨x, m⟩, hz, rfl⟩ := hRv
  rw [List.getElem?_zip_eq_some] at hz
  obtain ⟨hx, hm'⟩ := hz
  rw [hmm] at hm'
  obtain rfl := Option.some.inj hm'
  simp

theorem roundHalfEven_intCast (n : Int) : roundHalfEven (n : ℚ) = n := by
  have hf : (n : ℚ).floor = n := by
    show ⌊(n : ℚ)⌋ = n
    exact Int.floor_intCast n
  unfold roundHalfEven
  simp only [hf, sub_self]
  rw [if_pos (by norm_num)]

/-- **scalar_own_cell**: scalar forcing is the node of the particle's own cell
    `(round y − j0, round x − i0)` at the level index `K` of its own column. -/
theorem scalar_own_cell (g : GridM) (F : Field3) (x y z v : ℚ)
    (h : sampleScalar g F x y z = some v) :
    ∃ K A, levelOf g x y z = some (K, A) ∧
      get3 F K (roundHalfEven y - g.j0) (roundHalfEven x - g.i0) = some v := by
  simp only [sampleScalar, bind, Option.bind_eq_some_iff] at h
  obtain ⟨⟨K, A⟩, hl, hn⟩ := h
  refine ⟨K, A, hl, ?_⟩
  simpa only [nearest, roundHalfEven_intCast, GridM.cellI, GridM.cellJ] using hn

/-! ### independence of the loaded sub-rectangle -/

theorem getI_slice {α} (l : List α) (a b i : Int) (ha : 0 ≤ a) (hi : 0 ≤ i ∧ i < b - a) :
    getI (slice l a b) i = getI l (a + i) := by
  unfold getI slice
  rw [if_pos hi.1, if_pos (by omega), List.getElem?_take, if_pos (by omega), List.getElem?_drop]
  congr 1
  omega

theorem getI_map {α β} (f : α → β) (l : List α) (i : Int) : getI (l.map f) i = (getI l i).map f := by
  unfold getI
  split
  · exact List.getElem?_map ..
  · rfl

/-- slicing: element `(j, i)` of the window `[j0:j1, i0:i1]` is element `(j0+j, i0+i)` of the
    whole array (inside the window) -/
theorem get2_slice2 (F : Field2) (j0 j1 i0 i1 j i : Int) (hj0 : 0 ≤ j0) (hi0 : 0 ≤ i0)
    (hj : 0 ≤ j ∧ j < j1 - j0) (hi : 0 ≤ i ∧ i < i1 - i0) :
    get2 (slice2 F j0 j1 i0 i1) j i = get2 F (j0 + j) (i0 + i) := by
  unfold get2 slice2
  rw [getI_map, getI_slice F j0 j1 j hj0 hj]
  cases getI F (j0 + j) with
  | none => rfl
  | some row => exact getI_slice row i0 i1 i hi0 hi

theorem subgridLimits_some (im jm : Int) (sub : Option (Int × Int × Int × Int)) (a b c d : Int)
    (h : subgridLimits im jm sub = some (a, b, c, d)) :
    1 ≤ a ∧ a < b ∧ b ≤ im - 1 ∧ 1 ≤ c ∧ c < d ∧ d ≤ jm - 1 := by
  unfold subgridLimits at h
  have key : ∀ t : Int × Int × Int × Int,
      (match t with
        | (a, b, c, d) =>
          have a := if a < 0 then im + a else a;
          have b := if b < 0 then im + b else b;
          have c := if c < 0 then jm + c else c;
          have d := if d < 0 then jm + d else d;
          if 1 ≤ a ∧ a < b ∧ b ≤ im - 1 ∧ 1 ≤ c ∧ c < d ∧ d ≤ jm - 1 then some (a, b, c, d) else none)
        = some (a, b, c, d) → 1 ≤ a ∧ a < b ∧ b ≤ im - 1 ∧ 1 ≤ c ∧ c < d ∧ d ≤ jm - 1 := by
    rintro ⟨a', b', c', d'⟩ ht
    simp only [Option.ite_none_right_eq_some, Option.some.injEq, Prod.mk.injEq] at ht
    obtain ⟨hc, rfl, rfl, rfl, rfl⟩ := ht
    exact hc
  exact key _ h

theorem mkGrid_some (f : RomsFile) (sub : Option (Int × Int × Int × Int)) (g : GridM)
    (hg : mkGrid f sub = some g) :
    g.M = slice2 f.mask g.j0 g.j1 g.i0 g.i1 ∧ 1 ≤ g.i0 ∧ g.i0 < g.i1 ∧ 1 ≤ g.j0 ∧ g.j0 < g.j1 := by
  unfold mkGrid at hg
  simp only at hg
  split at hg
  · exact absurd hg (by simp)
  · rename_i i0 i1 j0 j1 hs
    obtain ⟨h1, h2, -, h4, h5, -⟩ := subgridLimits_some _ _ _ _ _ _ _ hs
    obtain rfl := Option.some.inj hg
    exact ⟨rfl, h1, h2, h4, h5⟩

theorem getI_natCast {α} (l : List α) (k : Nat) : getI l (k : Int) = l[k]? := by
  unfold getI; rw [if_pos (Int.natCast_nonneg k), Int.toNat_natCast]

theorem get2_nat (F : Field2) (j i : Nat) : get2 F j i = (F[j]?).bind (·[i]?) := by
  unfold get2; simp only [getI_natCast]

theorem get3_nat (F : Field3) (k j i : Nat) :
    get3 F k j i = ((F[k]?).bind (·[j]?)).bind (·[i]?) := by
  unfold get3; simp only [getI_natCast]; cases F[k]? <;> rfl

/-- **sample_subgrid_indep (u-array)**: inside the valid region the four u-faces around a
    position are interior faces of the window, and the node the sampler sees there is the same
    number whichever legal window was loaded: `scale · rawU[k][gj][gi−1] · mask[gj][gi−1] ·
    mask[gj][gi]` at *global* cell indices. -/
theorem windowU_node (f : RomsFile) (sub : Option (Int × Int × Int × Int)) (g : GridM)
    (hg : mkGrid f sub = some g) (rawU : Field3) (scale : Option ℚ) (k : Nat) (j i : Int)
    (hj : 0 ≤ j ∧ j < g.j1 - g.j0) (hi : 1 ≤ i ∧ i < g.i1 - g.i0)
    (x ml mr : ℚ)
    (hx : ((rawU[k]?).bind (getI · (g.j0 + j))).bind (getI · (g.i0 + i - 1)) = some x)
    (hml : get2 f.mask (g.j0 + j) (g.i0 + i - 1) = some ml)
    (hmr : get2 f.mask (g.j0 + j) (g.i0 + i) = some mr) :
    get3 (windowU g rawU scale) k j i
      = some ((match scale with | some s => s * x | none => x) * (ml * mr)) := by
  obtain ⟨hM, hi0, -, hj0, -⟩ := mkGrid_some f sub g hg
  obtain ⟨jn, rfl⟩ := Int.eq_ofNat_of_zero_le hj.1
  obtain ⟨n, hn⟩ : ∃ n : Nat, i = ((n + 1 : Nat) : Int) := ⟨(i - 1).toNat, by omega⟩
  subst hn
  have hraw : (((rawU.map (fun P => slice2 P g.j0 g.j1 (g.i0 - 1) g.i1))[k]?).bind (·[jn]?)).bind
      (·[n + 1]?) = some x := by
    rw [List.getElem?_map]
    obtain ⟨row, hrow, hrx⟩ := bind_some_split _ _ _ hx
    obtain ⟨P, hP, hPr⟩ := bind_some_split _ _ _ hrow
    rw [hP]
    simp only [Option.map_some, Option.bind_some]
    rw [← get2_nat, get2_slice2 P _ _ _ _ _ _ (by omega) (by omega) hj (by omega)]
    unfold get2
    rw [hPr, Option.bind_some, ← hrx]
    congr 1
    omega
  have hmask : (maskU g.M)[jn]?.bind (·[n + 1]?) = some (ml * mr) := by
    apply maskU_interior
    · rw [← get2_nat, hM, get2_slice2 _ _ _ _ _ _ _ (by omega) (by omega) hj (by omega), ← hml]
      congr 1
      omega
    · rw [← get2_nat, hM, get2_slice2 _ _ _ _ _ _ _ (by omega) (by omega) hj (by omega), ← hmr]
  unfold windowU
  rw [get3_nat]
  exact readVel_node _ scale _ k jn (n + 1) x (ml * mr) hraw hmask

/-- the local u-index of a position in the valid region is an interior face: `1 ≤ i`, `i+1 ≤ imax−1` -/
theorem valid_u_index (g : GridM) (x : ℚ) (hlo : g.xmin + 1/2 < x) (hhi : x < g.xmax - 1/2) :
    1 ≤ pyTrunc (x - g.i0 + 1/2) ∧ pyTrunc (x - g.i0 + 1/2) + 1 < g.i1 - g.i0 := by
  simp only [GridM.xmin, GridM.xmax] at hlo hhi
  push_cast at hhi
  rw [pyTrunc_nonneg_eq _ (by linarith)]
  constructor
  · apply Int.le_floor.2
    push_cast; linarith
  · have h1 : (⌊x - (g.i0 : ℚ) + 1/2⌋ : ℚ) ≤ x - g.i0 + 1/2 := Int.floor_le _
    have h2 : ((⌊x - (g.i0 : ℚ) + 1/2⌋ + 1 : Int) : ℚ) < ((g.i1 - g.i0 : Int) : ℚ) := by
      push_cast; linarith
    exact_mod_cast h2

/-- the *global* u-face index `i0 + ⌊x − i0 + ½⌋` and the fractional weight do not depend on `i0` -/
theorem u_index_shift (x : ℚ) (i0 : Int) (h : 0 ≤ x - i0 + 1/2) (h0 : 0 ≤ x + 1/2) :
    i0 + pyTrunc (x - i0 + 1/2) = pyTrunc (x + 1/2) ∧
    (x - i0 + 1/2) - pyTrunc (x - i0 + 1/2) = (x + 1/2) - pyTrunc (x + 1/2) := by
  rw [pyTrunc_nonneg_eq _ h, pyTrunc_nonneg_eq _ h0]
  have e : x - (i0 : ℚ) + 1/2 = (x + 1/2) - i0 := by ring
  rw [e, Int.floor_sub_intCast]
  constructor
  · omega
  · push_cast; ring

/-- the cell of a particle (level column, scalar forcing, metric, depth, mask) in global
    indices does not depend on the window: `i0 + cellI = round x` -/
theorem cell_global (g : GridM) (x y : ℚ) :
    g.i0 + g.cellI x = roundHalfEven x ∧ g.j0 + g.cellJ y = roundHalfEven y := by
  unfold GridM.cellI GridM.cellJ
  constructor <;> omega

/-! non-vacuity -/
example : trilinear [[[1, 2], [3, 4]], [[5, 6], [7, 8]]] (1/2) (1/2) 1 (1/2) = some (9/2) := by
  decide +kernel

end Ladim.C02
