import Ladim.Model.Validate
import Ladim.Props.C04
import Ladim.Props.C13
import Mathlib.Tactic.Linarith
import Mathlib.Data.List.Basic
/-
C20 — impossible set-ups are refused before the simulation starts.
Property theorems about `Ladim.Model.Validate.validate`, the composition of the start-up checks
of `configure`, `TimeKeeper`, `Grid`, `scan_file_times`/`forcing_steps` and `ParticleReleaser`
in the order `Model.__init__` reaches them (`Output`, the only module that creates a file, last).
-/

namespace Ladim.C20
open Ladim

/-- the release window test of C04 for a set-up -/
def inWin (s : Setup) (t : Int) : Bool :=
  match s.start, s.stop with
  | some a, some b => !(Rel.before s.rev t a) && Rel.before s.rev t b
  | _, _ => false

/-- acceptance implies `P` (opaque to `split`) -/
def OkImp (P : Prop) (r : Except (Refusal × Stage) Unit) : Prop := r = .ok () → P

theorem imp_ite {P : Prop} {c : Prop} [Decidable c] {e : Refusal × Stage} {b : Except (Refusal × Stage) Unit}
    (hb : ¬ c → OkImp P b) : OkImp P (if c then .error e else b) := by
  by_cases hc : c
  · rw [if_pos hc]; intro h; cases h
  · rw [if_neg hc]; exact hb hc

/-- the facts the chain of checks in `validate` establishes on acceptance (continuation form) -/
theorem validate_peel (s : Setup) (P : Prop)
    (k : ∀ (tk : TK) (lim : Int × Int × Int × Int) (t0 t1 : Int) (rows : List RRow) (hasPos : Bool) (r : Rel),
      ¬ (!s.configExists) = true → ¬ (!s.versionOK) = true →
      ¬ (!(s.hasTracker && s.hasTime && s.hasRelease && s.hasOutput)) = true →
      TK.init s.start s.stop s.dt none s.rev = .ok tk →
      ¬ (!s.gridFileExists) = true →
      subgridLimits s.imax0 s.jmax0 s.subgrid = some lim →
      ¬ (!s.hasForcing) = true → ¬ s.forcingFiles.isEmpty = true →
      ¬ (!strictlySorted (allFrames s)) = true →
      (allFrames s).head? = some t0 → (allFrames s).getLast? = some t1 →
      ¬ tk.minTime < t0 → ¬ t1 < tk.maxTime →
      s.release = .table rows hasPos → ¬ (!hasPos) = true →
      Rel.init { start := tk.start, stop := tk.stop, dt := tk.dt, rev := tk.rev,
                 continuous := s.continuous, freq := s.freq, warm := false, releaseTimeCol := false } rows = .ok r →
      P) : OkImp P (validate s) := by
  unfold validate
  refine imp_ite fun hc => ?_
  refine imp_ite fun hv => ?_
  refine imp_ite fun hsec => ?_
  refine imp_ite fun hfg => ?_
  split
  · intro h; cases h
  rename_i tk htk
  refine imp_ite fun hgf => ?_
  split
  · intro h; cases h
  rename_i lim hlim
  refine imp_ite fun hforc => ?_
  refine imp_ite fun hne => ?_
  refine imp_ite fun hsort => ?_
  split
  · rename_i t0 t1 ht0 ht1
    refine imp_ite fun hmin => ?_
    refine imp_ite fun hmax => ?_
    split
    · intro h; cases h
    · intro h; cases h
    · intro h; cases h
    · rename_i rows hasPos hrel
      refine imp_ite fun hpos => ?_
      dsimp only
      split
      · intro h; cases h
      · rename_i r hr
        intro _
        exact k tk lim t0 t1 rows hasPos r hc hv hsec htk hgf hlim hforc hne hsort ht0 ht1 hmin hmax hrel hpos hr
  · intro h; cases h

/-- **validate_sound**: an accepted set-up has its configuration file, a valid version and all
    mandatory sections; start, stop and time step present with stop on the side of start the
    direction asks for; an existing grid file and a legal subgrid; at least one forcing file,
    frames strictly increasing across the files, covering `[min(start,stop), max(start,stop)]`;
    a readable release table with positions; and (discrete mode) a release row inside
    `[start, stop)`. -/
theorem validate_sound (s : Setup) (h : validate s = .ok ()) :
    s.configExists = true ∧ s.versionOK = true ∧
    s.hasTime = true ∧ s.hasTracker = true ∧ s.hasRelease = true ∧ s.hasOutput = true ∧ s.hasForcing = true ∧
    (∃ a b, s.start = some a ∧ s.stop = some b ∧ s.dt ≠ 0 ∧ (s.rev = true ↔ b < a) ∧
      s.gridFileExists = true ∧ (∃ lim, subgridLimits s.imax0 s.jmax0 s.subgrid = some lim) ∧
      s.forcingFiles ≠ [] ∧ strictlySorted (allFrames s) = true ∧
      (∃ t0 t1, (allFrames s).head? = some t0 ∧ (allFrames s).getLast? = some t1 ∧ t0 ≤ min a b ∧ max a b ≤ t1) ∧
      (∃ rows, s.release = .table rows true ∧
        (s.continuous = false → ∃ x ∈ rows, inWin s x.time = true))) := by
  refine validate_peel s _ ?_ h
  intro tk lim t0 t1 rows hasPos r hc hv hsec htk hgf hlim hforc hne hsort ht0 ht1 hmin hmax hrel hpos hr
  obtain ⟨a, b, ha, hb, hdt, hside⟩ := (C13.init_accepts_iff _ _ _ _ _).1 ⟨tk, htk⟩
  rw [ha, hb] at htk
  have st := C13.init_started htk
  simp at hc hv hsec hgf hforc hsort hpos hne
  subst hpos
  have hmn : tk.minTime = min a b := by unfold TK.minTime; rw [st.hstart, st.hstop]
  have hmx : tk.maxTime = max a b := by unfold TK.maxTime; rw [st.hstart, st.hstop]
  rw [hmn] at hmin
  rw [hmx] at hmax
  refine ⟨hc, hv, hsec.1.1.2, hsec.1.1.1, hsec.1.2, hsec.2, hforc, a, b, ha, hb, hdt, hside, hgf, ⟨lim, hlim⟩,
    hne, hsort, ⟨t0, t1, ht0, ht1, not_lt.1 hmin, not_lt.1 hmax⟩, rows, hrel, ?_⟩
  intro hcont
  obtain ⟨x, hx, hxw⟩ := (C04.init_accepts_iff _ rows hcont rfl).1 ⟨r, hr⟩
  refine ⟨x, hx, ?_⟩
  rw [← hxw]
  unfold inWin C04.inWindow
  rw [ha, hb]
  simp only [st.hstart, st.hstop, st.hrev]

/-- the stronger form of `no_record_on_refusal`: no refusal carries the output stage -/
def StageOK (r : Except (Refusal × Stage) Unit) : Prop :=
  ∀ e st, r = .error (e, st) → st ≠ Stage.output

theorem stageOK_ok : StageOK (.ok ()) := by intro e st h; cases h

theorem stageOK_err (e : Refusal) (st : Stage) (hst : st ≠ .output) : StageOK (.error (e, st)) := by
  intro e' st' h
  injection h with h
  injection h with h1 h2
  exact h2 ▸ hst

theorem stageOK_ite {c : Prop} [Decidable c] {a b : Except (Refusal × Stage) Unit}
    (ha : StageOK a) (hb : StageOK b) : StageOK (if c then a else b) := by
  by_cases hc : c
  · rw [if_pos hc]; exact ha
  · rw [if_neg hc]; exact hb

theorem validate_stageOK (s : Setup) : StageOK (validate s) := by
  unfold validate
  repeat' (first
    | exact stageOK_ok
    | (apply stageOK_err; decide)
    | apply stageOK_ite
    | split
    | dsimp only)

/-- **no_record_on_refusal**: every refusal happens at a stage before the output module is
    constructed, hence before any output file exists. -/
theorem no_record_on_refusal (s : Setup) (e : Refusal) (st : Stage) (h : validate s = .error (e, st)) :
    st.rank < Stage.output.rank := by
  have hne := validate_stageOK s e st h
  cases st <;> simp [Stage.rank] at hne ⊢

/-! ### every listed fault is refused -/

/-- a set-up that is not accepted is refused, with a kind and a stage -/
theorem refused_of_not_ok (s : Setup) (h : validate s ≠ .ok ()) : ∃ e st, validate s = .error (e, st) := by
  cases hv : validate s with
  | error p => exact ⟨p.1, p.2, rfl⟩
  | ok u => exact absurd hv h

theorem refuses_missing_time_step (s : Setup) (h : s.start = none ∨ s.stop = none ∨ s.dt = 0) :
    ∃ e st, validate s = .error (e, st) := by
  apply refused_of_not_ok
  intro hok
  obtain ⟨_, _, _, _, _, _, _, a, b, ha, hb, hdt, _⟩ := validate_sound s hok
  rcases h with h | h | h
  · rw [ha] at h; cases h
  · rw [hb] at h; cases h
  · exact hdt h

theorem refuses_wrong_side (s : Setup) (a b : Int) (ha : s.start = some a) (hb : s.stop = some b)
    (h : (s.rev = true ∧ a ≤ b) ∨ (s.rev = false ∧ b < a)) : ∃ e st, validate s = .error (e, st) := by
  apply refused_of_not_ok
  intro hok
  obtain ⟨_, _, _, _, _, _, _, a', b', ha', hb', _, hside, _⟩ := validate_sound s hok
  rw [ha] at ha'; rw [hb] at hb'
  injection ha' with ha'; injection hb' with hb'
  subst ha' hb'
  rcases h with ⟨h1, h2⟩ | ⟨h1, h2⟩
  · have := hside.1 h1; omega
  · have := hside.2 h2; rw [h1] at this; cases this

theorem refuses_uncovered (s : Setup) (a b t0 t1 : Int) (ha : s.start = some a) (hb : s.stop = some b)
    (h0 : (allFrames s).head? = some t0) (h1 : (allFrames s).getLast? = some t1)
    (h : min a b < t0 ∨ t1 < max a b) : ∃ e st, validate s = .error (e, st) := by
  apply refused_of_not_ok
  intro hok
  obtain ⟨_, _, _, _, _, _, _, a', b', ha', hb', _, _, _, _, _, _, ⟨t0', t1', h0', h1', hlo, hhi⟩, _⟩ :=
    validate_sound s hok
  rw [ha] at ha'; rw [hb] at hb'; rw [h0] at h0'; rw [h1] at h1'
  injection ha' with ha'; injection hb' with hb'; injection h0' with h0'; injection h1' with h1'
  subst ha' hb' h0' h1'
  rcases h with h | h
  · exact absurd hlo (not_le.2 h)
  · exact absurd hhi (not_le.2 h)

theorem refuses_unsorted_frames (s : Setup) (h : strictlySorted (allFrames s) = false) :
    ∃ e st, validate s = .error (e, st) := by
  apply refused_of_not_ok
  intro hok
  obtain ⟨_, _, _, _, _, _, _, a', b', _, _, _, _, _, _, _, hs, _⟩ := validate_sound s hok
  rw [h] at hs; cases hs

theorem strictlySorted_tail (x : Int) (l : List Int) (h : strictlySorted (x :: l) = true) :
    strictlySorted l = true := by
  cases l with
  | nil => rfl
  | cons y t =>
    simp only [strictlySorted, Bool.and_eq_true] at h
    exact h.2

/-- frames out of order or duplicated across (or inside) files are not strictly sorted -/
theorem unsorted_of_adjacent (l1 l2 : List Int) (a b : Int) (h : b ≤ a) :
    strictlySorted (l1 ++ a :: b :: l2) = false := by
  induction l1 with
  | nil =>
    have : ¬ a < b := not_lt.2 h
    simp [strictlySorted, this]
  | cons x l ih =>
    cases hs : strictlySorted (x :: l ++ a :: b :: l2) with
    | false => rfl
    | true =>
      rw [List.cons_append] at hs
      rw [strictlySorted_tail x _ hs] at ih
      cases ih

theorem refuses_missing_files_sections (s : Setup)
    (h : s.configExists = false ∨ s.versionOK = false ∨ s.hasTime = false ∨ s.hasTracker = false ∨
         s.hasRelease = false ∨ s.hasOutput = false ∨ s.hasForcing = false ∨ s.gridFileExists = false ∨
         s.forcingFiles = [] ∨ subgridLimits s.imax0 s.jmax0 s.subgrid = none) :
    ∃ e st, validate s = .error (e, st) := by
  apply refused_of_not_ok
  intro hok
  obtain ⟨h1, h2, h3, h4, h5, h6, h7, a', b', _, _, _, _, h8, ⟨lim, h10⟩, h9, _⟩ := validate_sound s hok
  rcases h with h | h | h | h | h | h | h | h | h | h
  · rw [h1] at h; cases h
  · rw [h2] at h; cases h
  · rw [h3] at h; cases h
  · rw [h4] at h; cases h
  · rw [h5] at h; cases h
  · rw [h6] at h; cases h
  · rw [h7] at h; cases h
  · rw [h8] at h; cases h
  · exact h9 h
  · rw [h10] at h; cases h

theorem refuses_bad_release (s : Setup)
    (h : (match s.release with
          | .none => True | .missing => True | .unreadable => True
          | .table rows hasPos => hasPos = false ∨ (s.continuous = false ∧ ∀ x ∈ rows, inWin s x.time = false))) :
    ∃ e st, validate s = .error (e, st) := by
  apply refused_of_not_ok
  intro hok
  obtain ⟨_, _, _, _, _, _, _, a', b', _, _, _, _, _, _, _, _, _, rows, hrel, hwin⟩ := validate_sound s hok
  rw [hrel] at h
  simp only at h
  rcases h with h | ⟨hc, h⟩
  · cases h
  · obtain ⟨x, hx, hxw⟩ := hwin hc
    rw [h x hx] at hxw; cases hxw

/-- an illegal subgrid: limits not inside `1 ≤ i0 < i1 ≤ imax−1` (after wrap-around of negatives) -/
theorem illegal_subgrid (imax0 jmax0 a b c d : Int) (ha : 0 ≤ a) (hb : 0 ≤ b) (hc : 0 ≤ c) (hd : 0 ≤ d)
    (h : ¬ (1 ≤ a ∧ a < b ∧ b ≤ imax0 - 1 ∧ 1 ≤ c ∧ c < d ∧ d ≤ jmax0 - 1)) :
    subgridLimits imax0 jmax0 (some (a, b, c, d)) = none := by
  unfold subgridLimits
  simp only [not_lt.2 ha, not_lt.2 hb, not_lt.2 hc, not_lt.2 hd, if_false]
  rw [if_neg h]

end Ladim.C20
