import Ladim.Model.Time
import Ladim.Model.Forcing
import Ladim.Model.Grid
import Ladim.Model.Tracker
import Ladim.Model.Release
import Ladim.Props.C13
import Mathlib.Tactic.Linarith
import Mathlib.Tactic.Ring
import Mathlib.Algebra.Order.Field.Rat
import Mathlib.Data.List.Basic
/-
C10 — backward tracking = forward tracking in the time-mirrored, sign-flipped flow.

The mirror map is `t ↦ 2S − t` (S = start).  A reversed run from S to E and the forward run from
S to 2S − E over mirrored frame and release times, in the velocity field of opposite sign, have
* the same step number for every mirrored time (`time2step_mirror`), hence the same frame
  table and the same release steps (`release_mirror`),
* the same running fields up to sign (`fm_neg`: the time machine is linear), and
* the same sampled velocity: `sign = −1` on `U` is `sign = +1` on `−U` (`sampleVel_neg`),
so the per-step environment of `Ladim.Model.Run` is the same and every record is equal
(`Ladim.C14.run_refines_spec`).  The reversed clock reads `S, S−dt, …` (`rev_clock`).
-/

namespace Ladim.C10
open Ladim

/-- the reversed clock of a run from `S` back to `E`, and the forward clock of the mirrored run -/
def tkRev (S E dt : Int) : TK := { start := S, stop := E, dt := dt, ref := 0, rev := true, nsteps := 0, step := 0, time := 0 }
def tkFwd (S E dt : Int) : TK := { start := S, stop := 2 * S - E, dt := dt, ref := 0, rev := false, nsteps := 0, step := 0, time := 0 }

/-- **time2step_mirror**: a time of the reversed run and its mirror image in the forward run
    have the same step number; step → time is mirrored likewise. -/
theorem time2step_mirror (S E dt t : Int) :
    (tkRev S E dt).time2step t = (tkFwd S E dt).time2step (2 * S - t) ∧
    ∀ n, (tkRev S E dt).step2time n = 2 * S - (tkFwd S E dt).step2time n := by
  refine ⟨?_, fun n => ?_⟩
  · simp only [TK.time2step, tkRev, tkFwd]
    have : 2 * S - t - S = S - t := by ring
    simp [this]
  · simp only [TK.step2time, tkRev, tkFwd]
    simp
    ring

/-- the two runs have the same number of steps -/
theorem nsteps_mirror (S E dt : Int) (ref : Option Int) (a b : TK)
    (ha : TK.init (some S) (some E) dt ref true = .ok a)
    (hb : TK.init (some S) (some (2 * S - E)) dt ref false = .ok b) : a.nsteps = b.nsteps := by
  have habs : (2 * S - E - S).natAbs = (E - S).natAbs := by
    have : 2 * S - E - S = -(E - S) := by ring
    rw [this, Int.natAbs_neg]
  simp only [TK.init] at ha hb
  split_ifs at ha hb
  simp only [Except.ok.injEq] at ha hb
  subst ha; subst hb
  simp [habs]

/-- **rev_clock**: the reversed clock reads `S, S − dt, S − 2dt, …` at steps `0, 1, 2, …` -/
theorem rev_clock (S E dt : Int) (ref : Option Int) (tk : TK)
    (h : TK.init (some S) (some E) dt ref true = .ok tk) (n : Nat) :
    (tk.updates (n + 1)).step = n ∧ (tk.updates (n + 1)).time = S - n * dt := by
  have := Ladim.C13.clock_reads h n
  exact ⟨this.1, by simpa using this.2.1⟩

/-- negate every frame value -/
def negVal (val : Nat → Nat → Rat) : Nat → Nat → Rat := fun f i => -(val f i)

/-- negation of the running fields -/
def FM.neg (m : FM) : FM := { m with u := -m.u, unew := -m.unew, dU := -m.dU }

theorem read_negVal (m : FM) (val : Nat → Nat → Rat) (step : Int) :
    m.read (negVal val) step = (m.read val step).map (fun p => (-p.1, p.2)) := by
  unfold FM.read
  cases FM.frameOf m.frames step <;> simp [negVal]

theorem read_neg (m : FM) (val : Nat → Nat → Rat) (step : Int) :
    (FM.neg m).read val step = (m.read val step).map (fun p => (p.1, FM.neg p.2)) := by
  unfold FM.read
  simp only [FM.neg]
  cases FM.frameOf m.frames step <;> simp

/-- **fm_neg**: the time machine is linear: on negated frame contents (scalars untouched) it
    produces the negated running fields, with the same file/frame bookkeeping. -/
theorem fm_neg_init (frames : List Frame) (valU valS : Nat → Nat → Rat) (hasS : Bool) :
    FM.init frames (negVal valU) valS hasS = (FM.init frames valU valS hasS).map FM.neg := by
  simp only [FM.init, read_negVal]
  generalize List.foldl (max : Int → Int → Int) _ _ = pre
  split
  · simp
  · split
    · simp
    · rename_i nxt _
      generalize FM.mk frames 0 0 0 0 none [] = m0
      cases h0 : m0.read valU pre with
      | none => simp
      | some p0 =>
        obtain ⟨u0, m1⟩ := p0
        simp only [Option.map_some]
        cases h1 : m1.read valU nxt.step with
        | none => simp
        | some p1 =>
          obtain ⟨u1, m2⟩ := p1
          simp only [Option.map_some]
          cases hasS
          · simp [FM.neg]
            exact ⟨by ring, by split_ifs <;> rfl, by ring⟩
          · simp only [if_true]
            cases h2 : m2.read valS pre with
            | none => simp
            | some p2 =>
              simp [FM.neg]
              exact ⟨by ring, by split_ifs <;> rfl, by ring⟩

theorem phase2_neg (m1 : FM) (valU : Nat → Nat → Rat) (i : Nat) (step : Int) :
    (match (FM.neg m1).frames[i + 1]? with
      | none => some (FM.neg m1)
      | some nxt =>
        match (FM.neg m1).read (negVal valU) nxt.step with
        | none => none
        | some (un, m3) =>
          some { m3 with unew := un, dU := (un - m3.u) / ((nxt.step - step : Int) : Rat) }) =
    Option.map FM.neg
      (match m1.frames[i + 1]? with
      | none => some m1
      | some nxt =>
        match m1.read valU nxt.step with
        | none => none
        | some (un, m3) =>
          some { m3 with unew := un, dU := (un - m3.u) / ((nxt.step - step : Int) : Rat) }) := by
  have hfr : (FM.neg m1).frames = m1.frames := rfl
  rw [hfr]
  cases m1.frames[i + 1]? with
  | none => simp
  | some nxt =>
    simp only [read_negVal, read_neg]
    cases m1.read valU nxt.step with
    | none => simp
    | some p =>
      simp [FM.neg]
      ring

theorem fm_neg_update (m : FM) (valU valS : Nat → Nat → Rat) (hasS : Bool) (step : Int) :
    (FM.neg m).update (negVal valU) valS hasS step = (m.update valU valS hasS step).map FM.neg := by
  simp only [FM.update]
  have hfr : (FM.neg m).frames = m.frames := rfl
  rw [hfr]
  cases h : FM.indexOf m.frames step with
  | none =>
    simp [FM.neg]
    ring
  | some i =>
    simp only
    cases hasS
    · exact phase2_neg (FM.mk m.frames m.unew m.unew m.dU m.scal m.openFile m.reads) valU i step
    · simp only [if_true]
      have e1 : FM.mk m.frames (FM.neg m).unew (FM.neg m).unew (FM.neg m).dU (FM.neg m).scal
          (FM.neg m).openFile (FM.neg m).reads
          = FM.neg (FM.mk m.frames m.unew m.unew m.dU m.scal m.openFile m.reads) := rfl
      rw [e1]
      generalize FM.mk m.frames m.unew m.unew m.dU m.scal m.openFile m.reads = m1
      rw [read_neg]
      cases m1.read valS step with
      | none => simp
      | some p =>
        simp only [Option.map_some]
        exact phase2_neg { p.2 with scal := p.1 } valU i step

theorem fm_neg_velocity (m : FM) (frac : Rat) : (FM.neg m).velocity frac = -(m.velocity frac) := by
  simp only [FM.velocity, FM.neg]
  split_ifs
  · rfl
  · ring

/-- negate a 3-D array -/
def negF (F : Field3) : Field3 := F.map (fun P => P.map (fun r => r.map (fun x => -x)))

theorem getI_map {α β} (f : α → β) (l : List α) (i : Int) :
    getI (l.map f) i = (getI l i).map f := by
  unfold getI
  split_ifs <;> simp

theorem get3_negF (F : Field3) (k j i : Int) :
    get3 (negF F) k j i = (get3 F k j i).map (fun x => -x) := by
  unfold get3 negF
  rw [getI_map]
  cases getI F k with
  | none => simp
  | some P =>
    simp only [Option.map_some, Option.bind_some, getI_map]
    cases getI P j with
    | none => simp
    | some r => simp [getI_map]

/-- **trilinear_neg**: interpolation commutes with negation -/
theorem trilinear_neg (F : Field3) (x y : Rat) (K : Int) (A : Rat) :
    trilinear (negF F) x y K A = (trilinear F x y K A).map (fun r => -r) := by
  simp only [trilinear, get3_negF, bind, pure]
  cases get3 F (K - 1) (pyTrunc y) (pyTrunc x) <;> simp
  cases get3 F K (pyTrunc y) (pyTrunc x) <;> simp
  cases get3 F (K - 1) (pyTrunc y + 1) (pyTrunc x) <;> simp
  cases get3 F K (pyTrunc y + 1) (pyTrunc x) <;> simp
  cases get3 F (K - 1) (pyTrunc y) (pyTrunc x + 1) <;> simp
  cases get3 F K (pyTrunc y) (pyTrunc x + 1) <;> simp
  cases get3 F (K - 1) (pyTrunc y + 1) (pyTrunc x + 1) <;> simp
  cases get3 F K (pyTrunc y + 1) (pyTrunc x + 1) <;> simp
  ring

/-- **sampleVel_neg**: what a particle feels in a reversed run (`sign = −1` on the fields of the
    file) is what it feels in a forward run (`sign = +1`) on the negated fields -/
theorem sampleVel_neg (g : GridM) (U V : Field3) (x0 y0 z x y : Rat) :
    sampleVel g U V (-1) x0 y0 z x y = sampleVel g (negF U) (negF V) 1 x0 y0 z x y := by
  simp only [sampleVel, sample3DUV, trilinear_neg, bind, pure]
  cases levelOf g x0 y0 z with
  | none => rfl
  | some KA =>
    obtain ⟨K, A⟩ := KA
    simp only [Option.bind_some]
    cases trilinear U (x - g.i0 + 1 / 2) (y - g.j0) K A <;> simp
    cases trilinear V (x - g.i0) (y - g.j0 + 2⁻¹) K A <;> simp

/-- mirrored release configuration and table -/
def mirrorCfg (c : RelCfg) : RelCfg := { c with stop := 2 * c.start - c.stop, rev := false }
def mirrorRow (S : Int) (r : RRow) : RRow := { r with time := 2 * S - r.time }

theorem uniq_aux (S : Int) (rows : List RRow) (acc : List Int) :
    (rows.map (mirrorRow S)).foldl
        (fun acc r => if acc.contains r.time then acc else acc ++ [r.time]) (acc.map (fun t => 2 * S - t)) =
      (rows.foldl (fun acc r => if acc.contains r.time then acc else acc ++ [r.time]) acc).map
        (fun t => 2 * S - t) := by
  induction rows generalizing acc with
  | nil => rfl
  | cons r rows ih =>
    simp only [List.map_cons, List.foldl_cons]
    have hc : (acc.map (fun t => 2 * S - t)).contains (mirrorRow S r).time = acc.contains r.time := by
      simp [mirrorRow]
    rw [hc]
    by_cases h : acc.contains r.time
    · simp only [h, if_true]; exact ih acc
    · simp only [h]
      have := ih (acc ++ [r.time])
      simpa [mirrorRow] using this

theorem uniqueTimes_mirror (S : Int) (rows : List RRow) :
    uniqueTimes (rows.map (mirrorRow S)) = (uniqueTimes rows).map (fun t => 2 * S - t) := by
  unfold uniqueTimes
  exact uniq_aux S rows []

theorem filter_mirror (S : Int) (rows : List RRow) (p q : RRow → Bool)
    (h : ∀ r, p (mirrorRow S r) = q r) :
    (rows.map (mirrorRow S)).filter p = (rows.filter q).map (mirrorRow S) := by
  rw [List.filter_map]
  congr 1
  apply List.filter_congr
  intro r _
  exact h r

/-- **release_mirror** (discrete mode): the reversed releaser and the forward releaser of the
    mirrored table release at the same steps the same rows (up to the mirrored time stamp), in
    the same order — each release happens at its stated time.  Cold and warm start: the warm
    filter (skip everything before the first time step after the restart, in simulation order) is
    mirror-symmetric, `2S − t ≥ S + dt ↔ t ≤ S − dt` (`mirrorCfg` keeps `dt`); see
    `release_mirror_warm_example`. -/
theorem release_mirror (c : RelCfg) (hrev : c.rev = true) (hc : c.continuous = false)
    (hrt : c.releaseTimeCol = false) (rows : List RRow) :
    match Rel.init c rows, Rel.init (mirrorCfg c) (rows.map (mirrorRow c.start)) with
    | .ok r, .ok r' => r'.steps = r.steps ∧ r'.total = r.total ∧
        r'.groups = r.groups.map (fun g => g.map (mirrorRow c.start))
    | .error e, .error e' => e = e'
    | _, _ => False := by
  obtain ⟨S, E, dt, rev, cont, freq, warm, rtc⟩ := c
  simp only at hrev hc hrt
  subst hrev hc hrt
  have h1 : (rows.map (mirrorRow S)).filter (fun r => Rel.before false r.time (2 * S - E)) =
      (rows.filter (fun r => Rel.before true r.time E)).map (mirrorRow S) := by
    apply filter_mirror
    intro r
    simp only [Rel.before, mirrorRow, Bool.false_eq_true, if_false, if_true]
    exact decide_eq_decide.mpr (by omega)
  have h3 : ∀ r1 : List RRow, (r1.map (mirrorRow S)).filter (fun r => !Rel.before false r.time S) =
      (r1.filter (fun r => !Rel.before true r.time S)).map (mirrorRow S) := by
    intro r1
    apply filter_mirror
    intro r
    simp only [Rel.before, mirrorRow, Bool.false_eq_true, if_false, if_true]
    congr 1
    exact decide_eq_decide.mpr (by omega)
  have h4 : ∀ r3 : List RRow,
      (r3.map (mirrorRow S)).filter (fun r => !Rel.before false r.time (S + dt)) =
      (r3.filter (fun r => !Rel.before true r.time (S - dt))).map (mirrorRow S) := by
    intro r3
    apply filter_mirror
    intro r
    simp only [Rel.before, mirrorRow, Bool.false_eq_true, if_false, if_true]
    congr 1
    exact decide_eq_decide.mpr (by omega)
  -- the final assembly, for the table `r4` that survives the filters
  have hfin : ∀ r4 : List RRow,
      (List.map (tkFwd S E dt).time2step (uniqueTimes (r4.map (mirrorRow S))) =
          List.map (tkRev S E dt).time2step (uniqueTimes r4)) ∧
      (List.foldl (· + ·) 0 ((r4.map (mirrorRow S)).map (·.mult)) = List.foldl (· + ·) 0 (r4.map (·.mult))) ∧
      (List.map (fun t => (r4.map (mirrorRow S)).filter (·.time == t)) (uniqueTimes (r4.map (mirrorRow S))) =
        List.map (fun g => g.map (mirrorRow S)) (List.map (fun t => r4.filter (·.time == t)) (uniqueTimes r4))) := by
    intro r4
    refine ⟨?_, ?_, ?_⟩
    · rw [uniqueTimes_mirror, List.map_map]
      apply List.map_congr_left
      intro t _
      exact ((time2step_mirror S E dt t).1).symm
    · simp [mirrorRow, Function.comp_def]
    · rw [uniqueTimes_mirror, List.map_map, List.map_map]
      apply List.map_congr_left
      intro t _
      simp only [Function.comp]
      apply filter_mirror
      intro r
      simp [mirrorRow]
  cases warm
  · simp only [Rel.init, mirrorCfg, h1, h3, Bool.false_eq_true, if_false, Bool.not_false, Bool.and_true]
    generalize rows.filter (fun r => Rel.before true r.time E) = r1
    generalize r1.filter (fun r => !Rel.before true r.time S) = r3
    simp only [List.isEmpty_map]
    by_cases e1 : r1.isEmpty = true
    · simp [e1]
    by_cases e3 : r3.isEmpty = true
    · simp [e1, e3]
    simp only [e1, e3]
    exact hfin r3
  · simp only [Rel.init, mirrorCfg, h1, h3, h4, Bool.false_eq_true, if_false, if_true, Bool.not_true,
      Bool.and_false]
    generalize rows.filter (fun r => Rel.before true r.time E) = r1
    generalize (r1.filter (fun r => !Rel.before true r.time S)).filter
      (fun r => !Rel.before true r.time (S - dt)) = r4
    simp only [List.isEmpty_map]
    by_cases e1 : r1.isEmpty = true
    · simp [e1]
    simp only [e1]
    exact hfin r4

/-- a warm start is covered by `release_mirror`: the warm filter is mirror-symmetric.  Reversed warm
    run from 10 to 0 (`dt = 1`) with one row at time 5: the reversed releaser and the mirrored
    forward releaser (row at time 15) both accept the row and release it at step 5. -/
def warmCfg : RelCfg :=
  { start := 10, stop := 0, dt := 1, rev := true, continuous := false, freq := 1, warm := true,
    releaseTimeCol := false }
def warmRows : List RRow := [{ time := 5, mult := 1, cols := [] }]

theorem release_mirror_warm_example :
    ∃ r r', Rel.init warmCfg warmRows = .ok r ∧
      Rel.init (mirrorCfg warmCfg) (warmRows.map (mirrorRow warmCfg.start)) = .ok r' ∧
      r.steps = [5] ∧ r'.steps = [5] ∧ r.total = 1 ∧ r'.total = 1 :=
  ⟨_, _, rfl, rfl, rfl, rfl, rfl, rfl⟩

end Ladim.C10
