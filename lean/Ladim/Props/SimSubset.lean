import Ladim.Props.Simulation
import Ladim.Props.Whole
import Ladim.Props.C04
import Ladim.Props.C14
/-
C14 at the level of the whole simulation: removing release rows (or, read the other way,
adding some), or reordering the rows inside the release times, leaves the records of the other
particles unchanged up to renumbering.

`C14.subset_invariant` and `C14.permutation_invariant` speak about two abstract environments
whose release functions are related step by step; here the two environments are those of two
whole simulations (`Sim.run`) that differ in their release tables only, and the step-by-step
relation is *derived* from the relation between the two tables (through `Rel.init`, the group
and index bookkeeping of `ParticleReleaser` and the `mult` expansion: `Simulation.release_schedule`).

Scope: cold start, discrete release, sparse layout, table sorted in simulation order with times on
the model time grid (the hypotheses of `release_schedule`), no scripted kills (kills are addressed
by pid, which is exactly what a renumbering changes).
-/

namespace Ladim.SimSubset
open Ladim RunEnv

/-- the same set-up with another release table -/
def withRows (s : Sim) (rows : List RRow) : Sim := { s with rows := rows }

/-- `C14.sublist_flatMap` with the pointwise relation needed for the members of the list only -/
theorem sublist_flatMap_mem {α β : Type} (l : List α) (f g : α → List β)
    (h : ∀ a ∈ l, (f a).Sublist (g a)) : (l.flatMap f).Sublist (l.flatMap g) := by
  induction l with
  | nil => simp
  | cons a l ih =>
    simp only [List.flatMap_cons]
    exact List.Sublist.append (h a (List.mem_cons_self ..))
      (ih (fun b hb => h b (List.mem_cons_of_mem _ hb)))

/-- a sublist of the list, the same function -/
theorem sublist_flatMap_left {α β : Type} {l₁ l₂ : List α} (f : α → List β)
    (h : l₁.Sublist l₂) : (l₁.flatMap f).Sublist (l₂.flatMap f) := by
  induction h with
  | slnil => simp
  | cons a _ ih =>
    simp only [List.flatMap_cons]
    exact ih.trans (List.sublist_append_right _ _)
  | cons_cons a _ ih =>
    simp only [List.flatMap_cons]
    exact List.Sublist.append (List.Sublist.refl _) ih

/-- `C14.subset_invariant` needs the step-by-step relation only for the steps up to `n` -/
theorem subset_invariant_upto (env env' : RunEnv) (hb : C14.PidBlind env) (hf : env'.force = env.force)
    (hm : env'.move = env.move) (hi : env'.ibm = env.ibm) (n : Nat)
    (hsub : ∀ k : Nat, k ≤ n → (env'.release (k : Int)).Sublist (env.release (k : Int))) :
    ((specRecord env' n).map C14.strip).Sublist ((specRecord env n).map C14.strip) := by
  rw [C14.specRecord_strip env hb, C14.specRecord_strip env' (C14.pidBlind_congr env env' hb hf hm hi)]
  simp only [C14.particle_independent env env' hf hm hi]
  apply List.Sublist.filter
  apply List.Sublist.map
  unfold releasedUpTo
  apply sublist_flatMap_mem
  intro k hk
  have hk' := List.mem_range.1 hk
  exact List.Sublist.map _ (hsub k (by omega))

theorem permutation_invariant_upto (env env' : RunEnv) (hb : C14.PidBlind env) (hf : env'.force = env.force)
    (hm : env'.move = env.move) (hi : env'.ibm = env.ibm) (n : Nat)
    (hperm : ∀ k : Nat, k ≤ n → (env'.release (k : Int)).Perm (env.release (k : Int))) :
    ((specRecord env' n).map C14.strip).Perm ((specRecord env n).map C14.strip) := by
  rw [C14.specRecord_strip env hb, C14.specRecord_strip env' (C14.pidBlind_congr env env' hb hf hm hi)]
  simp only [C14.particle_independent env env' hf hm hi]
  apply List.Perm.filter
  apply List.Perm.map
  unfold releasedUpTo
  apply List.Perm.flatMap_left
  intro k hk
  have hk' := List.mem_range.1 hk
  exact List.Perm.map _ (hperm k (by omega))

theorem simSorted_sublist (rev : Bool) (rows sub : List RRow) (h : C04.SimSorted rev rows)
    (hsub : sub.Sublist rows) : C04.SimSorted rev sub :=
  List.Pairwise.sublist hsub h

theorem onGrid_sublist (c : RelCfg) (rows sub : List RRow) (h : C04.OnGrid c rows)
    (hsub : sub.Sublist rows) : C04.OnGrid c sub :=
  fun r hr => h r (hsub.subset hr)

/-- what enters at step `k`, as a function of the table -/
def entering (s : Sim) (rows : List RRow) (k : Nat) : List RP :=
  (Rel.expand ((rows.filter (fun x => C04.inWindow s.relCfg x.time && C04.stepOf s.relCfg x.time == (k : Int))).map
    (C04.decorate s.relCfg))).map s.rowToRP

theorem entering_sublist (s : Sim) (rows sub : List RRow) (hsub : sub.Sublist rows) (k : Nat) :
    (entering s sub k).Sublist (entering s rows k) := by
  unfold entering Rel.expand
  exact List.Sublist.map _ (sublist_flatMap_left _ (List.Sublist.map _ (hsub.filter _)))

theorem entering_perm (s : Sim) (rows rows' : List RRow) (hperm : rows'.Perm rows) (k : Nat) :
    (entering s rows' k).Perm (entering s rows k) := by
  unfold entering Rel.expand
  exact List.Perm.map _ (List.Perm.flatMap_right _ (List.Perm.map _ (hperm.filter _)))

/-- two accepted runs that differ in the release table only: the same number of steps, and the
    records of a due step are the specification's records of two environments with the same forcing,
    tracker and IBM whose release functions are `entering` of the two tables -/
theorem two_runs (s : Sim) (rows' : List RRow) (rnd : Rat → Rat) (res res' : SimResult)
    (h : s.run rnd = .ok res) (h' : (withRows s rows').run rnd = .ok res')
    (hdt : 0 < s.dt) (hc : s.continuous = false) (hw : s.warm = none) (hsp : s.sparse = true)
    (hs : C04.SimSorted s.rev s.rows) (hs' : C04.SimSorted s.rev rows')
    (hg : C04.OnGrid s.relCfg s.rows) (hg' : C04.OnGrid s.relCfg rows') (hk : ∀ n, s.kills n = [])
    (n : Nat) (hn : n < res.nsteps) (hdue : Int.fmod (n : Int) s.period = 0) :
    res'.nsteps = res.nsteps ∧
    ∃ env env' : RunEnv, C14.PidBlind env ∧ env'.force = env.force ∧ env'.move = env.move ∧
      env'.ibm = env.ibm ∧
      (∀ k : Nat, k ≤ n → env.release (k : Int) = entering s s.rows k) ∧
      (∀ k : Nat, k ≤ n → env'.release (k : Int) = entering s rows' k) ∧
      ((n : Int), specRecord env n) ∈ res.final.records ∧
      ((n : Int), specRecord env' n) ∈ res'.final.records ∧
      (∀ q, ((n : Int), q) ∈ res.final.records → q = specRecord env n) ∧
      (∀ q, ((n : Int), q) ∈ res'.final.records → q = specRecord env' n) := by
  obtain ⟨tk, g, rel, hp⟩ := Simulation.run_ok s rnd res h
  obtain ⟨tk', g', rel', hp'⟩ := Simulation.run_ok (withRows s rows') rnd res' h'
  have htk' : TK.init (some s.start) (some s.stop) s.dt s.ref s.rev = .ok tk' := hp'.htk
  have hgrid' : mkGrid s.file s.sub = some g' := hp'.hgrid
  have e1 := hp.htk.symm.trans htk'
  injection e1 with e1
  subst e1
  have e2 := hp.hgrid.symm.trans hgrid'
  injection e2 with e2
  subst e2
  have hN : res'.nsteps = res.nsteps := by rw [hp.hnsteps, hp'.hnsteps]
  have hrs := Simulation.release_schedule s rnd res tk g rel hp hdt hc hw hs hg
  have hrs' := Simulation.release_schedule (withRows s rows') rnd res' tk g rel' hp' hdt hc hw hs' hg'
  have hrec := Simulation.records_are_spec s rnd res tk g rel hp hw hsp n hn hdue
  have hrec' := Simulation.records_are_spec (withRows s rows') rnd res' tk g rel' hp' hw hsp n
    (by rw [hN]; exact hn) hdue
  rw [hN] at hrs' hrec'
  refine ⟨hN, Simulation.envOf s g rel res.nsteps rnd,
    Simulation.envOf (withRows s rows') g rel' res.nsteps rnd, ?_, rfl, rfl, rfl, ?_, ?_,
    hrec.1, hrec'.1, hrec.2, hrec'.2⟩
  · exact Whole.env_pidBlind _ (fun n => hk n)
  · intro k hkn
    exact hrs k (by omega)
  · intro k hkn
    exact hrs' k (by omega)

/-- **subset_rows**: two accepted simulations that differ only in that the second has some release
    rows less.  They have the same number of steps, and at every output step `n` each has exactly one
    record; up to renumbering, the record of the smaller run is a sublist of the record of the
    larger one: every particle the two runs share has, in both, the same position, variables
    and fate. -/
theorem subset_rows (s : Sim) (sub : List RRow) (rnd : Rat → Rat) (res res' : SimResult)
    (h : s.run rnd = .ok res) (h' : (withRows s sub).run rnd = .ok res')
    (hsub : sub.Sublist s.rows)
    (hdt : 0 < s.dt) (hc : s.continuous = false) (hw : s.warm = none) (hsp : s.sparse = true)
    (hs : C04.SimSorted s.rev s.rows) (hg : C04.OnGrid s.relCfg s.rows) (hk : ∀ n, s.kills n = [])
    (n : Nat) (hn : n < res.nsteps) (hdue : Int.fmod (n : Int) s.period = 0) :
    res'.nsteps = res.nsteps ∧
    ∃ ps ps', ((n : Int), ps) ∈ res.final.records ∧ ((n : Int), ps') ∈ res'.final.records ∧
      (∀ q, ((n : Int), q) ∈ res.final.records → q = ps) ∧
      (∀ q, ((n : Int), q) ∈ res'.final.records → q = ps') ∧
      (ps'.map C14.strip).Sublist (ps.map C14.strip) := by
  obtain ⟨hN, env, env', hb, hf, hm, hi, hr, hr', h1, h2, h3, h4⟩ :=
    two_runs s sub rnd res res' h h' hdt hc hw hsp hs (simSorted_sublist _ _ _ hs hsub) hg
      (onGrid_sublist _ _ _ hg hsub) hk n hn hdue
  refine ⟨hN, specRecord env n, specRecord env' n, h1, h2, h3, h4, ?_⟩
  apply subset_invariant_upto env env' hb hf hm hi n
  intro k hkn
  rw [hr k hkn, hr' k hkn]
  exact entering_sublist s s.rows sub hsub k

/-- **permuted_rows**: two accepted simulations whose release tables are permutations of each other,
    both sorted in simulation order (so only rows of equal time change places): at every output step
    the two records are, up to renumbering, permutations of each other. -/
theorem permuted_rows (s : Sim) (rows' : List RRow) (rnd : Rat → Rat) (res res' : SimResult)
    (h : s.run rnd = .ok res) (h' : (withRows s rows').run rnd = .ok res')
    (hperm : rows'.Perm s.rows)
    (hdt : 0 < s.dt) (hc : s.continuous = false) (hw : s.warm = none) (hsp : s.sparse = true)
    (hs : C04.SimSorted s.rev s.rows) (hs' : C04.SimSorted s.rev rows')
    (hg : C04.OnGrid s.relCfg s.rows) (hk : ∀ n, s.kills n = [])
    (n : Nat) (hn : n < res.nsteps) (hdue : Int.fmod (n : Int) s.period = 0) :
    res'.nsteps = res.nsteps ∧
    ∃ ps ps', ((n : Int), ps) ∈ res.final.records ∧ ((n : Int), ps') ∈ res'.final.records ∧
      (∀ q, ((n : Int), q) ∈ res.final.records → q = ps) ∧
      (∀ q, ((n : Int), q) ∈ res'.final.records → q = ps') ∧
      (ps'.map C14.strip).Perm (ps.map C14.strip) := by
  obtain ⟨hN, env, env', hb, hf, hm, hi, hr, hr', h1, h2, h3, h4⟩ :=
    two_runs s rows' rnd res res' h h' hdt hc hw hsp hs hs' hg
      (fun r hr => hg r (hperm.subset hr)) hk n hn hdue
  refine ⟨hN, specRecord env n, specRecord env' n, h1, h2, h3, h4, ?_⟩
  apply permutation_invariant_upto env env' hb hf hm hi n
  intro k hkn
  rw [hr k hkn, hr' k hkn]
  exact entering_perm s s.rows rows' hperm k

/-! ### non-vacuity: a table, a proper sublist and a reordering of it meet the hypotheses -/

def exCfg : RelCfg := { start := 0, stop := 600, dt := 60, rev := false, continuous := false, freq := 0,
                        warm := false, releaseTimeCol := false }
def exRows : List RRow := [⟨0, 1, [("X", .num 2)]⟩, ⟨0, 2, [("X", .num 3)]⟩, ⟨120, 0, []⟩, ⟨180, 1, [("X", .num 4)]⟩]
def exSub : List RRow := [⟨0, 2, [("X", .num 3)]⟩, ⟨180, 1, [("X", .num 4)]⟩]
def exPerm : List RRow := [⟨0, 2, [("X", .num 3)]⟩, ⟨0, 1, [("X", .num 2)]⟩, ⟨120, 0, []⟩, ⟨180, 1, [("X", .num 4)]⟩]

example : C04.SimSorted false exRows ∧ C04.OnGrid exCfg exRows ∧ exSub.Sublist exRows ∧
    exPerm.Perm exRows ∧ C04.SimSorted false exPerm ∧
    (∃ r, Rel.init exCfg exRows = .ok r) ∧ (∃ r, Rel.init exCfg exSub = .ok r) := by
  refine ⟨?_, ?_, by decide, List.Perm.swap _ _ _, ?_, ?_, ?_⟩
  · simp [C04.SimSorted, exRows, Rel.before]
  · intro r hr
    simp only [exRows, List.mem_cons, List.not_mem_nil, or_false] at hr
    rcases hr with rfl | rfl | rfl | rfl <;> decide
  · simp [C04.SimSorted, exPerm, Rel.before]
  · exact (C04.init_accepts_iff exCfg exRows rfl rfl).2 ⟨⟨0, 1, [("X", .num 2)]⟩, by simp [exRows], by decide⟩
  · exact (C04.init_accepts_iff exCfg exSub rfl rfl).2 ⟨⟨0, 2, [("X", .num 3)]⟩, by simp [exSub], by decide⟩

end Ladim.SimSubset

