import Ladim.Model.Vertical
import Ladim.Model.Sample
import Mathlib.Analysis.SpecialFunctions.Trigonometric.DerivHyp
import Mathlib.Analysis.SpecialFunctions.Exp
import Mathlib.Analysis.Convex.SpecificFunctions.Basic
import Mathlib.Analysis.Convex.Deriv
import Mathlib.Tactic.Linarith
import Mathlib.Tactic.Ring
import Mathlib.Tactic.FieldSimp
import Mathlib.Tactic.Positivity
import Mathlib.Algebra.Order.Field.Rat
/-
C12 — the vertical grid.

* the stretching curves `stretch1/2/4` of `Ladim.Model.Vertical`, instantiated at `ℝ`
  (the very same generic terms that are run at `Float` against `ladim.ROMS.s_stretch`):
  they rise strictly monotonically from −1 at `S = −1` to 0 at `S = 0`;
* `levelDepth` (one level of `sdepth`) over `ℚ`: ordered, inside `[−h, 0]`, interleaving;
* `z2sCol` (the `z2s` kernel): for a strictly increasing column of `N ≥ 2` levels the result
  is a valid index pair and a weight in `[0,1]` whose weighted level depth is the particle depth
  clamped to the range of the levels.  (`N = 1` is finding F13: no valid pair exists.)
-/

namespace Ladim.C12
open Ladim

noncomputable instance : VOps ℝ where
  add := (· + ·)
  sub := (· - ·)
  mul := (· * ·)
  div := (· / ·)
  ofNat := fun n => (n : ℝ)
  sinh := Real.sinh
  cosh := Real.cosh
  tanh := Real.tanh
  exp := Real.exp
  sqrt := Real.sqrt

/-! ### the generic formulas at `ℝ`, unfolded (these are proved by `rfl`/`simp`, they only
    translate the operation-class notation into ordinary real arithmetic) -/

theorem stretch1_real (θs θb S : ℝ) :
    stretch1 θs θb S = (1 - θb) * (1 / Real.sinh θs) * Real.sinh (θs * S)
      + θb * ((1 / 2) / Real.tanh ((1 / 2) * θs) * Real.tanh (θs * (S + 1 / 2)) - 1 / 2) := by
  show (((1:ℕ):ℝ) - θb) * (((1:ℕ):ℝ) / Real.sinh θs) * Real.sinh (θs * S)
      + θb * ((((1:ℕ):ℝ) / ((2:ℕ):ℝ)) / Real.tanh ((((1:ℕ):ℝ) / ((2:ℕ):ℝ)) * θs) * Real.tanh (θs * (S + ((1:ℕ):ℝ) / ((2:ℕ):ℝ))) - ((1:ℕ):ℝ) / ((2:ℕ):ℝ)) = _
  simp only [Nat.cast_one, Nat.cast_ofNat]

theorem stretch2_real (θs θb S : ℝ) :
    stretch2 θs θb S =
      ((S + 1) * (1 + (1 - (S + 1)))) * ((1 - Real.cosh (θs * S)) / (Real.cosh θs - 1))
      + (1 - (S + 1) * (1 + (1 - (S + 1)))) * (Real.sinh (θb * (S + 1)) / Real.sinh θb - 1) := by
  show ((S + ((1:ℕ):ℝ)) * (((1:ℕ):ℝ) + (((1:ℕ):ℝ) - (S + ((1:ℕ):ℝ))))) * ((((1:ℕ):ℝ) - Real.cosh (θs * S)) / (Real.cosh θs - ((1:ℕ):ℝ)))
      + (((1:ℕ):ℝ) - (S + ((1:ℕ):ℝ)) * (((1:ℕ):ℝ) + (((1:ℕ):ℝ) - (S + ((1:ℕ):ℝ))))) * (Real.sinh (θb * (S + ((1:ℕ):ℝ))) / Real.sinh θb - ((1:ℕ):ℝ)) = _
  simp only [Nat.cast_one]

theorem stretch4_real (θs θb S : ℝ) :
    stretch4 θs θb S =
      (Real.exp (θb * ((1 - Real.cosh (θs * S)) / (Real.cosh θs - 1))) - 1) / (1 - Real.exp (0 - θb)) := by
  show (Real.exp (θb * ((((1:ℕ):ℝ) - Real.cosh (θs * S)) / (Real.cosh θs - ((1:ℕ):ℝ)))) - ((1:ℕ):ℝ)) / (((1:ℕ):ℝ) - Real.exp (((0:ℕ):ℝ) - θb)) = _
  simp only [Nat.cast_one, Nat.cast_zero]

/-! ### analytic helpers (plain real analysis, no model terms) -/

theorem tanh_lt_tanh {a b : ℝ} (h : a < b) : Real.tanh a < Real.tanh b := by
  rw [Real.tanh_eq_sinh_div_cosh, Real.tanh_eq_sinh_div_cosh,
    div_lt_div_iff₀ (Real.cosh_pos a) (Real.cosh_pos b)]
  have h1 : Real.sinh (a - b) < 0 := Real.sinh_neg_iff.2 (by linarith)
  rw [Real.sinh_sub] at h1
  linarith

theorem tanh_pos {a : ℝ} (h : 0 < a) : 0 < Real.tanh a := by
  have := tanh_lt_tanh h
  rwa [Real.tanh_zero] at this

/-- chord bound for `cosh` (convexity): `cosh (θ t) ≤ t cosh θ + (1 − t)` for `t ∈ [0,1]` -/
theorem cosh_chord (θ t : ℝ) (h0 : 0 ≤ t) (h1 : t ≤ 1) :
    Real.cosh (θ * t) ≤ t * Real.cosh θ + (1 - t) := by
  have e1 := convexOn_exp.2 (Set.mem_univ θ) (Set.mem_univ (0:ℝ)) h0 (sub_nonneg.2 h1) (by ring)
  have e2 := convexOn_exp.2 (Set.mem_univ (-θ)) (Set.mem_univ (0:ℝ)) h0 (sub_nonneg.2 h1) (by ring)
  simp only [smul_eq_mul, mul_zero, add_zero, Real.exp_zero, mul_one] at e1 e2
  rw [Real.cosh_eq, Real.cosh_eq]
  have e3 : Real.exp (θ * t) = Real.exp (t * θ) := by rw [mul_comm]
  have e4 : Real.exp (-(θ * t)) = Real.exp (t * -θ) := by congr 1; ring
  rw [e3, e4]
  nlinarith

theorem convexOn_sinh : ConvexOn ℝ (Set.Ici (0:ℝ)) Real.sinh := by
  apply MonotoneOn.convexOn_of_deriv (convex_Ici 0) Real.continuous_sinh.continuousOn
    Real.differentiable_sinh.differentiableOn
  rw [Real.deriv_sinh, interior_Ici]
  exact Real.cosh_strictMonoOn.monotoneOn.mono Set.Ioi_subset_Ici_self

/-- chord bound for `sinh` on `[0,∞)`: `sinh (θ r) ≤ r sinh θ` for `r ∈ [0,1]`, `θ ≥ 0` -/
theorem sinh_chord (θ r : ℝ) (hθ : 0 ≤ θ) (h0 : 0 ≤ r) (h1 : r ≤ 1) :
    Real.sinh (θ * r) ≤ r * Real.sinh θ := by
  have e1 := convexOn_sinh.2 (Set.mem_Ici.2 hθ) (Set.mem_Ici.2 le_rfl) h0 (sub_nonneg.2 h1)
    (by ring)
  simp only [smul_eq_mul, mul_zero, add_zero, Real.sinh_zero] at e1
  rwa [mul_comm] at e1

/-- the surface curve `(1 − cosh (θ S)) / (cosh θ − 1)` rises strictly on `(−∞, 0]` -/
theorem csur_lt (θ a b : ℝ) (hθ : 0 < θ) (hab : a < b) (hb : b ≤ 0) :
    (1 - Real.cosh (θ * a)) / (Real.cosh θ - 1) < (1 - Real.cosh (θ * b)) / (Real.cosh θ - 1) := by
  have hD : 0 < Real.cosh θ - 1 := sub_pos.2 (Real.one_lt_cosh.2 hθ.ne')
  apply div_lt_div_of_pos_right _ hD
  have : Real.cosh (θ * b) < Real.cosh (θ * a) := by
    rw [Real.cosh_lt_cosh, abs_of_nonpos (mul_nonpos_of_nonneg_of_nonpos hθ.le hb),
      abs_of_nonpos (mul_nonpos_of_nonneg_of_nonpos hθ.le (by linarith))]
    nlinarith
  linarith

/-- `S ≤ (1 − cosh (θ S)) / (cosh θ − 1)` on `[−1, 0]` -/
theorem le_csur (θ S : ℝ) (hθ : 0 < θ) (h0 : -1 ≤ S) (h1 : S ≤ 0) :
    S ≤ (1 - Real.cosh (θ * S)) / (Real.cosh θ - 1) := by
  have hD : 0 < Real.cosh θ - 1 := sub_pos.2 (Real.one_lt_cosh.2 hθ.ne')
  rw [le_div_iff₀ hD]
  have := cosh_chord θ (-S) (by linarith) (by linarith)
  rw [mul_neg, Real.cosh_neg] at this
  nlinarith

/-- `sinh (θ (S+1)) / sinh θ − 1 ≤ S` on `[−1, 0]` -/
theorem cbot_le (θ S : ℝ) (hθ : 0 < θ) (h0 : -1 ≤ S) (h1 : S ≤ 0) :
    Real.sinh (θ * (S + 1)) / Real.sinh θ - 1 ≤ S := by
  have hD : 0 < Real.sinh θ := Real.sinh_pos_iff.2 hθ
  have := sinh_chord θ (S + 1) hθ.le (by linarith) (by linarith)
  rw [sub_le_iff_le_add, div_le_iff₀ hD]
  linarith

theorem cbot_lt (θ a b : ℝ) (hθ : 0 < θ) (hab : a < b) :
    Real.sinh (θ * (a + 1)) / Real.sinh θ - 1 < Real.sinh (θ * (b + 1)) / Real.sinh θ - 1 := by
  have hD : 0 < Real.sinh θ := Real.sinh_pos_iff.2 hθ
  have : Real.sinh (θ * (a + 1)) < Real.sinh (θ * (b + 1)) :=
    Real.sinh_lt_sinh.2 (by nlinarith)
  have := div_lt_div_of_pos_right this hD
  linarith

/-! ### stretching curves: end points and strict monotonicity on `[−1, 0]` -/

theorem stretch1_ends (θs θb : ℝ) (hs : 0 < θs) :
    stretch1 θs θb (-1) = -1 ∧ stretch1 θs θb 0 = 0 := by
  have hS : Real.sinh θs ≠ 0 := (Real.sinh_pos_iff.2 hs).ne'
  have hT : Real.tanh (1 / 2 * θs) ≠ 0 := (tanh_pos (by positivity)).ne'
  constructor
  · rw [stretch1_real]
    have e1 : θs * (-1 + 1 / 2) = -(1 / 2 * θs) := by ring
    rw [mul_neg_one, Real.sinh_neg, e1, Real.tanh_neg]
    generalize Real.tanh (1 / 2 * θs) = T at hT
    field_simp
    ring
  · rw [stretch1_real]
    have e1 : θs * (0 + 1 / 2) = 1 / 2 * θs := by ring
    rw [mul_zero, Real.sinh_zero, e1]
    generalize Real.tanh (1 / 2 * θs) = T at hT
    field_simp
    ring

theorem stretch1_strictMono (θs θb : ℝ) (hs : 0 < θs) (hb0 : 0 ≤ θb) (hb1 : θb ≤ 1) :
    StrictMonoOn (stretch1 θs θb) (Set.Icc (-1) 0) := by
  intro a _ b _ hab
  simp only [stretch1_real]
  have hP : 0 < 1 / Real.sinh θs := by
    have := Real.sinh_pos_iff.2 hs
    positivity
  have hQ : 0 < 1 / 2 / Real.tanh (1 / 2 * θs) := by
    have := tanh_pos (show 0 < 1 / 2 * θs by positivity)
    positivity
  have h1 : Real.sinh (θs * a) < Real.sinh (θs * b) := Real.sinh_lt_sinh.2 (by nlinarith)
  have h2 : Real.tanh (θs * (a + 1 / 2)) < Real.tanh (θs * (b + 1 / 2)) :=
    tanh_lt_tanh (by nlinarith)
  have h2' := mul_lt_mul_of_pos_left h2 hQ
  rcases hb0.lt_or_eq with hb | hb
  · have e1 : (1 - θb) * (1 / Real.sinh θs) * Real.sinh (θs * a)
        ≤ (1 - θb) * (1 / Real.sinh θs) * Real.sinh (θs * b) :=
      mul_le_mul_of_nonneg_left h1.le (mul_nonneg (by linarith) hP.le)
    have e2 := mul_lt_mul_of_pos_left (show 1 / 2 / Real.tanh (1 / 2 * θs) * Real.tanh (θs * (a + 1 / 2)) - 1 / 2
        < 1 / 2 / Real.tanh (1 / 2 * θs) * Real.tanh (θs * (b + 1 / 2)) - 1 / 2 by linarith) hb
    linarith
  · subst hb
    have e1 := mul_lt_mul_of_pos_left h1 hP
    simp only [sub_zero, one_mul, zero_mul, add_zero]
    exact e1

set_option linter.unusedVariables false in
theorem stretch2_ends (θs θb : ℝ) (hs : 0 < θs) (hb : 0 < θb) :
    stretch2 θs θb (-1) = -1 ∧ stretch2 θs θb 0 = 0 := by
  constructor
  · rw [stretch2_real]
    simp
  · rw [stretch2_real]
    simp

theorem stretch2_strictMono (θs θb : ℝ) (hs : 0 < θs) (hb : 0 < θb) :
    StrictMonoOn (stretch2 θs θb) (Set.Icc (-1) 0) := by
  intro a ha b hb' hab
  obtain ⟨ha0, ha1⟩ := ha
  obtain ⟨hb0, hb1⟩ := hb'
  simp only [stretch2_real]
  have hu := csur_lt θs a b hs hab hb1
  have hv := cbot_lt θb a b hb hab
  have hua := le_csur θs a hs ha0 ha1
  have hva := cbot_le θb a hb ha0 ha1
  generalize (1 - Real.cosh (θs * a)) / (Real.cosh θs - 1) = u1 at *
  generalize (1 - Real.cosh (θs * b)) / (Real.cosh θs - 1) = u2 at *
  generalize Real.sinh (θb * (a + 1)) / Real.sinh θb - 1 = v1 at *
  generalize Real.sinh (θb * (b + 1)) / Real.sinh θb - 1 = v2 at *
  have hm2 : 0 < (b + 1) * (1 + (1 - (b + 1))) := by nlinarith
  have hm2' : 0 ≤ 1 - (b + 1) * (1 + (1 - (b + 1))) := by nlinarith
  have hm21 : 0 ≤ (b + 1) * (1 + (1 - (b + 1))) - (a + 1) * (1 + (1 - (a + 1))) := by nlinarith
  have t1 := mul_pos hm2 (sub_pos.2 hu)
  have t2 := mul_nonneg hm2' (sub_nonneg.2 hv.le)
  have t3 := mul_nonneg hm21 (sub_nonneg.2 (hva.trans hua))
  nlinarith

theorem stretch4_ends (θs θb : ℝ) (hs : 0 < θs) (hb : 0 < θb) :
    stretch4 θs θb (-1) = -1 ∧ stretch4 θs θb 0 = 0 := by
  have hD : Real.cosh θs - 1 ≠ 0 := (sub_pos.2 (Real.one_lt_cosh.2 hs.ne')).ne'
  have hE : 1 - Real.exp (0 - θb) ≠ 0 := by
    have : Real.exp (0 - θb) < 1 := by rw [Real.exp_lt_one_iff]; linarith
    linarith
  constructor
  · rw [stretch4_real, mul_neg_one, Real.cosh_neg]
    have e1 : (1 - Real.cosh θs) / (Real.cosh θs - 1) = -1 := by
      rw [div_eq_iff hD]; ring
    rw [e1, div_eq_iff hE]
    have : θb * -1 = 0 - θb := by ring
    rw [this]; ring
  · rw [stretch4_real]
    simp

theorem stretch4_strictMono (θs θb : ℝ) (hs : 0 < θs) (hb : 0 < θb) :
    StrictMonoOn (stretch4 θs θb) (Set.Icc (-1) 0) := by
  intro a _ b hb' hab
  simp only [stretch4_real]
  have hE : 0 < 1 - Real.exp (0 - θb) := by
    have : Real.exp (0 - θb) < 1 := by rw [Real.exp_lt_one_iff]; linarith
    linarith
  apply div_lt_div_of_pos_right _ hE
  have := Real.exp_lt_exp.2 (mul_lt_mul_of_pos_left (csur_lt θs a b hs hab hb'.2) hb)
  linarith

/-! ### the unstretched coordinates: rho- and w-points interleave inside `[−1, 0]` -/

/-- unfolding of `sW` at `ℝ` -/
theorem sW_real (N k : ℕ) : (sW N k : ℝ) = -1 + (k:ℝ) / (N:ℝ) := by
  show (((0:ℕ):ℝ) - ((1:ℕ):ℝ)) + (k:ℝ) / (N:ℝ) = _
  simp only [Nat.cast_one, Nat.cast_zero, zero_sub]

/-- unfolding of `sRho` at `ℝ` -/
theorem sRho_real (N k : ℕ) : (sRho N k : ℝ) = -1 + (1/2 + (k:ℝ)) / (N:ℝ) := by
  show (((0:ℕ):ℝ) - ((1:ℕ):ℝ)) + (((1:ℕ):ℝ) / ((2:ℕ):ℝ) + (k:ℝ)) / (N:ℝ) = _
  simp only [Nat.cast_one, Nat.cast_zero, zero_sub, Nat.cast_ofNat]

theorem sW_ends (N : Nat) (hN : 0 < N) : (sW N 0 : ℝ) = -1 ∧ (sW N N : ℝ) = 0 := by
  have : (N:ℝ) ≠ 0 := Nat.cast_ne_zero.2 hN.ne'
  constructor
  · rw [sW_real]; simp
  · rw [sW_real, div_self this]; ring

theorem s_interleave (N k : Nat) (hk : k < N) :
    (sW N k : ℝ) < sRho N k ∧ (sRho N k : ℝ) < sW N (k + 1) ∧
    (-1 : ℝ) ≤ sW N k ∧ (sW N (k + 1) : ℝ) ≤ 0 := by
  have hN : (0:ℝ) < N := Nat.cast_pos.2 (by omega)
  have hk' : (k:ℝ) + 1 ≤ N := by exact_mod_cast hk
  have hk0 : (0:ℝ) ≤ k := Nat.cast_nonneg k
  simp only [sW_real, sRho_real, Nat.cast_add, Nat.cast_one]
  refine ⟨?_, ?_, ?_, ?_⟩
  · have := div_lt_div_of_pos_right (show (k:ℝ) < 1 / 2 + k by linarith) hN
    linarith
  · have := div_lt_div_of_pos_right (show 1 / 2 + (k:ℝ) < k + 1 by linarith) hN
    linarith
  · have : 0 ≤ (k:ℝ) / N := by positivity
    linarith
  · have : ((k:ℝ) + 1) / N ≤ 1 := by rw [div_le_one hN]; exact hk'
    linarith

/-- **curves_ordered**: for any strictly increasing stretching function `C` on `[−1,0]` with
    `C (−1) = −1`, `C 0 = 0` (each of the three above), the rho- and w-stretching arrays are
    strictly increasing, interleaved, inside `[−1,0]`, and the w-array runs from −1 to 0. -/
theorem curves_ordered (C : ℝ → ℝ) (hm : StrictMonoOn C (Set.Icc (-1) 0)) (h0 : C (-1) = -1)
    (h1 : C 0 = 0) (N k : Nat) (hk : k < N) :
    C (sW N k) < C (sRho N k) ∧ C (sRho N k) < C (sW N (k + 1)) ∧
    -1 ≤ C (sW N k) ∧ C (sW N (k + 1)) ≤ 0 ∧ C (sW N 0) = -1 ∧ C (sW N N) = 0 := by
  obtain ⟨i1, i2, i3, i4⟩ := s_interleave N k hk
  obtain ⟨e0, eN⟩ := sW_ends N (by omega)
  have mW : (sW N k : ℝ) ∈ Set.Icc (-1 : ℝ) 0 := ⟨i3, by linarith⟩
  have mR : (sRho N k : ℝ) ∈ Set.Icc (-1 : ℝ) 0 := ⟨by linarith, by linarith⟩
  have mW' : (sW N (k + 1) : ℝ) ∈ Set.Icc (-1 : ℝ) 0 := ⟨by linarith, i4⟩
  have mL : (-1 : ℝ) ∈ Set.Icc (-1 : ℝ) 0 := ⟨le_rfl, by norm_num⟩
  have mU : (0 : ℝ) ∈ Set.Icc (-1 : ℝ) 0 := ⟨by norm_num, le_rfl⟩
  refine ⟨hm mW mR i1, hm mR mW' i2, ?_, ?_, ?_, ?_⟩
  · rw [← h0]; exact hm.monotoneOn mL mW i3
  · rw [← h1]; exact hm.monotoneOn mW' mU i4
  · rw [e0, h0]
  · rw [eN, h1]



/-! ### level depths (`sdepth`) over `ℚ` -/

/-- unfolding of `levelDepth` at `ℚ` -/
theorem levelDepth_rat (vt : Nat) (H Hc S C : ℚ) :
    levelDepth vt H Hc S C =
      if vt = 1 then Hc * (S - C) + C * H else (Hc * S + C * H) / (1 + Hc / H) := by
  show (if vt = 1 then Hc * (S - C) + C * H else (Hc * S + C * H) / (((1:ℕ):ℚ) + Hc / H)) = _
  simp only [Nat.cast_one]

/-- **sdepth_mono**: a higher level (larger `S` and larger `C`) is strictly shallower.
    Vtransform 1 needs `0 ≤ hc ≤ h`, Vtransform 2 needs `0 ≤ hc`; `h > 0`. -/
theorem sdepth_mono (vt : Nat) (hvt : vt = 1 ∨ vt = 2) (H Hc S1 S2 C1 C2 : ℚ) (hH : 0 < H)
    (hHc : 0 ≤ Hc) (hle : vt = 1 → Hc ≤ H) (hS : S1 < S2) (hC : C1 < C2) :
    levelDepth vt H Hc S1 C1 < levelDepth vt H Hc S2 C2 := by
  simp only [levelDepth_rat]
  rcases hvt with rfl | rfl
  · have hle' := hle rfl
    simp only [if_true]
    rcases hHc.lt_or_eq with h | h
    · nlinarith [mul_pos h (sub_pos.2 hS), mul_nonneg (sub_nonneg.2 hC.le) (sub_nonneg.2 hle')]
    · subst h
      nlinarith [mul_pos (sub_pos.2 hC) hH]
  · simp only [show (2 : ℕ) ≠ 1 by decide, if_false]
    have hD : 0 < 1 + Hc / H := by positivity
    apply div_lt_div_of_pos_right _ hD
    nlinarith [mul_nonneg hHc (sub_nonneg.2 hS.le), mul_pos (sub_pos.2 hC) hH]

/-- **sdepth_range**: levels lie inside the water column; the lowest w-level is the bottom and
    the highest is the surface. -/
theorem sdepth_range (vt : Nat) (hvt : vt = 1 ∨ vt = 2) (H Hc S C : ℚ) (hH : 0 < H)
    (hHc : 0 ≤ Hc) (hle : vt = 1 → Hc ≤ H) (hS : -1 ≤ S ∧ S ≤ 0) (hC : -1 ≤ C ∧ C ≤ 0) :
    -H ≤ levelDepth vt H Hc S C ∧ levelDepth vt H Hc S C ≤ 0 ∧
    levelDepth vt H Hc (-1) (-1) = -H ∧ levelDepth vt H Hc 0 0 = 0 := by
  obtain ⟨hS0, hS1⟩ := hS
  obtain ⟨hC0, hC1⟩ := hC
  simp only [levelDepth_rat]
  rcases hvt with rfl | rfl
  · have hle' := hle rfl
    simp only [if_true]
    refine ⟨?_, ?_, by ring, by ring⟩
    · nlinarith [mul_nonneg hHc (show 0 ≤ S + 1 by linarith),
        mul_nonneg (show 0 ≤ C + 1 by linarith) (sub_nonneg.2 hle')]
    · nlinarith [mul_nonneg hHc (show 0 ≤ -S by linarith),
        mul_nonneg (show 0 ≤ -C by linarith) (sub_nonneg.2 hle')]
  · simp only [show (2 : ℕ) ≠ 1 by decide, if_false]
    have hD : 0 < 1 + Hc / H := by positivity
    have hD' : (1 + Hc / H) * H = H + Hc := by field_simp
    refine ⟨?_, ?_, ?_, ?_⟩
    · rw [le_div_iff₀ hD]
      have : -H * (1 + Hc / H) = -(H + Hc) := by rw [← hD']; ring
      rw [this]
      nlinarith [mul_nonneg hHc (show 0 ≤ S + 1 by linarith),
        mul_nonneg (show 0 ≤ C + 1 by linarith) hH.le]
    · apply div_nonpos_of_nonpos_of_nonneg _ hD.le
      nlinarith [mul_nonneg hHc (show 0 ≤ -S by linarith),
        mul_nonneg (show 0 ≤ -C by linarith) hH.le]
    · rw [div_eq_iff hD.ne']
      have : -H * (1 + Hc / H) = -(H + Hc) := by rw [← hD']; ring
      rw [this]; ring
    · simp

/-! ### the level look-up -/

/-! helper lemmas on `searchsortedLeft` (valid for any list) -/

theorem ssl_le (l : List ℚ) (v : ℚ) : searchsortedLeft l v ≤ l.length := by
  induction l with
  | nil => simp [searchsortedLeft]
  | cons a as ih =>
    simp only [searchsortedLeft, List.length_cons]
    split <;> omega

/-- every element before the insertion point is `< v` -/
theorem ssl_lt (l : List ℚ) (v : ℚ) (i : Nat) (hi : i < searchsortedLeft l v)
    (hl : i < l.length) : l[i] < v := by
  induction l generalizing i with
  | nil => simp at hl
  | cons a as ih =>
    simp only [searchsortedLeft] at hi
    split at hi
    · cases i with
      | zero => simpa
      | succ j =>
        simp only [List.getElem_cons_succ]
        exact ih j (by omega) (by simpa using hl)
    · omega

/-- the element at the insertion point (if any) is `≥ v` -/
theorem ssl_ge (l : List ℚ) (v : ℚ) (hl : searchsortedLeft l v < l.length) :
    v ≤ l[searchsortedLeft l v] := by
  induction l with
  | nil => simp at hl
  | cons a as ih =>
    by_cases h : a < v
    · have e : searchsortedLeft (a :: as) v = searchsortedLeft as v + 1 := by
        simp [searchsortedLeft, h]
      have hl' : searchsortedLeft as v < as.length := by
        rw [e] at hl; simpa using hl
      simp only [e, List.getElem_cons_succ]
      exact ih hl'
    · have e : searchsortedLeft (a :: as) v = 0 := by
        simp [searchsortedLeft, h]
      simp only [e, List.getElem_cons_zero]
      exact not_lt.1 h

/-- **z2s_spec**: for a strictly increasing column with at least two levels, every depth `Z`
    (above the surface and below the bottom included) gets `1 ≤ K ≤ N−1`, `0 ≤ A ≤ 1`, both levels
    `K−1` and `K` exist, and the weighted level depth is `−Z` clamped to `[zr₀, zr_{N−1}]`. -/
theorem z2s_spec (zr : List ℚ) (Z : ℚ) (hN : 2 ≤ zr.length) (hs : zr.Pairwise (· < ·)) :
    ∃ (K : Nat) (A a b lo hi : ℚ), z2sCol zr Z = some ((K : Int), A) ∧ 1 ≤ K ∧ K ≤ zr.length - 1 ∧
      0 ≤ A ∧ A ≤ 1 ∧ zr[K - 1]? = some a ∧ zr[K]? = some b ∧
      zr.head? = some lo ∧ zr.getLast? = some hi ∧
      A * a + (1 - A) * b = max lo (min (-Z) hi) := by
  have hp := List.pairwise_iff_getElem.1 hs
  have hle := ssl_le zr (-Z)
  have hhead : zr.head? = some zr[0] := by
    rw [List.head?_eq_getElem?, List.getElem?_eq_getElem]
  have hlast : zr.getLast? = some zr[zr.length - 1] := by
    rw [List.getLast?_eq_getElem?, List.getElem?_eq_getElem]
  have hmono : ∀ (i j : Nat) (hi : i < zr.length) (hj : j < zr.length), i ≤ j → zr[i] ≤ zr[j] := by
    intro i j hi hj hij
    rcases Nat.lt_or_eq_of_le hij with h | h
    · exact (hp i j hi hj h).le
    · subst h; exact le_rfl
  by_cases hk : searchsortedLeft zr (-Z) = zr.length
  · -- above the top level
    refine ⟨zr.length - 1, 0, zr[zr.length - 1 - 1], zr[zr.length - 1], zr[0], zr[zr.length - 1],
      ?_, by omega, le_rfl, le_rfl, by norm_num, ?_, ?_, hhead, hlast, ?_⟩
    · simp only [z2sCol, hk, if_true]
      congr 2
      omega
    · rw [List.getElem?_eq_getElem]
    · rw [List.getElem?_eq_getElem]
    · have h1 : zr[zr.length - 1] < -Z := ssl_lt zr (-Z) _ (by omega) (by omega)
      have h2 : zr[0] ≤ zr[zr.length - 1] := hmono 0 _ (by omega) (by omega) (by omega)
      rw [min_eq_right h1.le, max_eq_right h2]; ring
  · have hklt : searchsortedLeft zr (-Z) < zr.length := lt_of_le_of_ne hle hk
    by_cases hk0 : 0 < searchsortedLeft zr (-Z)
    · -- interior
      generalize hkk : searchsortedLeft zr (-Z) = k at *
      have hb : -Z ≤ zr[k] := by
        have := ssl_ge zr (-Z) (by omega)
        simpa only [hkk] using this
      have ha : zr[k - 1] < -Z := ssl_lt zr (-Z) (k - 1) (by omega) (by omega)
      have hab : zr[k - 1] < zr[k] := hp (k - 1) k (by omega) hklt (by omega)
      have hlo : zr[0] ≤ zr[k - 1] := hmono 0 _ (by omega) (by omega) (by omega)
      have hhi : zr[k] ≤ zr[zr.length - 1] := hmono _ _ hklt (by omega) (by omega)
      have hd : 0 < zr[k] - zr[k - 1] := sub_pos.2 hab
      refine ⟨k, (zr[k] + Z) / (zr[k] - zr[k - 1]), zr[k - 1], zr[k], zr[0], zr[zr.length - 1],
        ?_, hk0, by omega, ?_, ?_, ?_, ?_, hhead, hlast, ?_⟩
      · simp only [z2sCol, hkk, hk, if_false, hk0, if_true]
        rw [List.getElem?_eq_getElem hklt, List.getElem?_eq_getElem (show k - 1 < zr.length by omega)]
      · apply div_nonneg _ hd.le; linarith
      · rw [div_le_one hd]; linarith
      · rw [List.getElem?_eq_getElem]
      · rw [List.getElem?_eq_getElem]
      · rw [min_eq_left (hb.trans hhi), max_eq_right (hlo.trans ha.le)]
        field_simp
        ring
    · -- at or below the bottom level
      have hk0' : searchsortedLeft zr (-Z) = 0 := by omega
      refine ⟨1, 1, zr[0], zr[1], zr[0], zr[zr.length - 1],
        ?_, le_rfl, by omega, by norm_num, le_rfl, ?_, ?_, hhead, hlast, ?_⟩
      · simp only [z2sCol, hk0', lt_irrefl, if_false]
        rw [if_neg (by omega)]
        rfl
      · rw [List.getElem?_eq_getElem]
      · rw [List.getElem?_eq_getElem]
      · have hb : -Z ≤ zr[0] := by
          have := ssl_ge zr (-Z) (by omega)
          simpa only [hk0'] using this
        rw [max_eq_left ((min_le_left _ _).trans hb)]; ring

/-- **z2s_partial** (finding F13): with a single level no valid index pair exists — the kernel
    answers `K = 0` (particle above the level) or `K = 1` (below), and level `K` resp. `K − 1`
    is outside the column. -/
theorem z2s_partial_single_level (z Z : ℚ) :
    (z2sCol [z] Z = some (0, 0) ∨ z2sCol [z] Z = some (1, 1)) := by
  by_cases h : z < -Z
  · left
    simp [z2sCol, searchsortedLeft, h]
  · right
    simp [z2sCol, searchsortedLeft, h]

/-! non-vacuity -/
example : z2sCol [-9, -5, -1] 3 = some (2, 1/2) := by decide +kernel

end Ladim.C12
