import Ladim.Model.Vertical
import Ladim.Model.Sample
import Mathlib.Analysis.SpecialFunctions.Trigonometric.DerivHyp
import Mathlib.Analysis.SpecialFunctions.Exp
import Mathlib.Analysis.Convex.SpecificFunctions.Basic
import Mathlib.Tactic.Linarith
import Mathlib.Tactic.Ring
import Mathlib.Tactic.FieldSimp
import Mathlib.Tactic.Positivity
import Mathlib.Algebra.Order.Field.Rat
/-
C12 — the vertical grid.

* the stretching curves `stretch1/2/4` of `Ladim.Model.Vertical`, instantiated at `ℝ`
  (the very same generic terms that are run at `Float` against `ladim.ROMS.s_stretch`):
  they rise strictly monotonically from −1 at `S = −1` to 0 at `S = 0`;
* `levelDepth` (one level of `sdepth`) over `ℚ`: ordered, inside `[−h, 0]`, interleaving;
* `z2sCol` (the `z2s` kernel): for a strictly increasing column of `N ≥ 2` levels the result
  is a valid index pair and a weight in `[0,1]` whose weighted level depth is the particle depth
  clamped to the range of the levels.  (`N = 1` is finding F13: no valid pair exists.)
-/

namespace Ladim.C12
open Ladim

noncomputable instance : VOps ℝ where
  add := (· + ·)
  sub := (· - ·)
  mul := (· * ·)
  div := (· / ·)
  ofNat := fun n => (n : ℝ)
  sinh := Real.sinh
  cosh := Real.cosh
  tanh := Real.tanh
  exp := Real.exp

/-! ### the generic formulas at `ℝ`, unfolded (these are proved by `rfl`/`simp`, they only
    translate the operation-class notation into ordinary real arithmetic) -/

theorem stretch1_real (θs θb S : ℝ) :
    stretch1 θs θb S = (1 - θb) * (1 / Real.sinh θs) * Real.sinh (θs * S)
      + θb * ((1 / 2) / Real.tanh ((1 / 2) * θs) * Real.tanh (θs * (S + 1 / 2)) - 1 / 2) := by
  sorry

theorem stretch2_real (θs θb S : ℝ) :
    stretch2 θs θb S =
      ((S + 1) * (1 + (1 - (S + 1)))) * ((1 - Real.cosh (θs * S)) / (Real.cosh θs - 1))
      + (1 - (S + 1) * (1 + (1 - (S + 1)))) * (Real.sinh (θb * (S + 1)) / Real.sinh θb - 1) := by
  sorry

theorem stretch4_real (θs θb S : ℝ) :
    stretch4 θs θb S =
      (Real.exp (θb * ((1 - Real.cosh (θs * S)) / (Real.cosh θs - 1))) - 1) / (1 - Real.exp (0 - θb)) := by
  sorry

/-! ### stretching curves: end points and strict monotonicity on `[−1, 0]` -/

theorem stretch1_ends (θs θb : ℝ) (hs : 0 < θs) :
    stretch1 θs θb (-1) = -1 ∧ stretch1 θs θb 0 = 0 := by
  sorry

theorem stretch1_strictMono (θs θb : ℝ) (hs : 0 < θs) (hb0 : 0 ≤ θb) (hb1 : θb ≤ 1) :
    StrictMonoOn (stretch1 θs θb) (Set.Icc (-1) 0) := by
  sorry

theorem stretch2_ends (θs θb : ℝ) (hs : 0 < θs) (hb : 0 < θb) :
    stretch2 θs θb (-1) = -1 ∧ stretch2 θs θb 0 = 0 := by
  sorry

theorem stretch2_strictMono (θs θb : ℝ) (hs : 0 < θs) (hb : 0 < θb) :
    StrictMonoOn (stretch2 θs θb) (Set.Icc (-1) 0) := by
  sorry

theorem stretch4_ends (θs θb : ℝ) (hs : 0 < θs) (hb : 0 < θb) :
    stretch4 θs θb (-1) = -1 ∧ stretch4 θs θb 0 = 0 := by
  sorry

theorem stretch4_strictMono (θs θb : ℝ) (hs : 0 < θs) (hb : 0 < θb) :
    StrictMonoOn (stretch4 θs θb) (Set.Icc (-1) 0) := by
  sorry

/-! ### the unstretched coordinates: rho- and w-points interleave inside `[−1, 0]` -/

theorem sW_ends (N : Nat) (hN : 0 < N) : (sW N 0 : ℝ) = -1 ∧ (sW N N : ℝ) = 0 := by
  sorry

theorem s_interleave (N k : Nat) (hk : k < N) :
    (sW N k : ℝ) < sRho N k ∧ (sRho N k : ℝ) < sW N (k + 1) ∧
    (-1 : ℝ) ≤ sW N k ∧ (sW N (k + 1) : ℝ) ≤ 0 := by
  sorry

/-- **curves_ordered**: for any strictly increasing stretching function `C` on `[−1,0]` with
    `C (−1) = −1`, `C 0 = 0` (each of the three above), the rho- and w-stretching arrays are
    strictly increasing, interleaved, inside `[−1,0]`, and the w-array runs from −1 to 0. -/
theorem curves_ordered (C : ℝ → ℝ) (hm : StrictMonoOn C (Set.Icc (-1) 0)) (h0 : C (-1) = -1)
    (h1 : C 0 = 0) (N k : Nat) (hk : k < N) :
    C (sW N k) < C (sRho N k) ∧ C (sRho N k) < C (sW N (k + 1)) ∧
    -1 ≤ C (sW N k) ∧ C (sW N (k + 1)) ≤ 0 ∧ C (sW N 0) = -1 ∧ C (sW N N) = 0 := by
  sorry

/-! ### level depths (`sdepth`) over `ℚ` -/

/-- unfolding of `levelDepth` at `ℚ` -/
theorem levelDepth_rat (vt : Nat) (H Hc S C : ℚ) :
    levelDepth vt H Hc S C =
      if vt = 1 then Hc * (S - C) + C * H else (Hc * S + C * H) / (1 + Hc / H) := by
  sorry

/-- **sdepth_mono**: a higher level (larger `S` and larger `C`) is strictly shallower.
    Vtransform 1 needs `0 ≤ hc ≤ h`, Vtransform 2 needs `0 ≤ hc`; `h > 0`. -/
theorem sdepth_mono (vt : Nat) (hvt : vt = 1 ∨ vt = 2) (H Hc S1 S2 C1 C2 : ℚ) (hH : 0 < H)
    (hHc : 0 ≤ Hc) (hle : vt = 1 → Hc ≤ H) (hS : S1 < S2) (hC : C1 < C2) :
    levelDepth vt H Hc S1 C1 < levelDepth vt H Hc S2 C2 := by
  sorry

/-- **sdepth_range**: levels lie inside the water column; the lowest w-level is the bottom and
    the highest is the surface. -/
theorem sdepth_range (vt : Nat) (hvt : vt = 1 ∨ vt = 2) (H Hc S C : ℚ) (hH : 0 < H)
    (hHc : 0 ≤ Hc) (hle : vt = 1 → Hc ≤ H) (hS : -1 ≤ S ∧ S ≤ 0) (hC : -1 ≤ C ∧ C ≤ 0) :
    -H ≤ levelDepth vt H Hc S C ∧ levelDepth vt H Hc S C ≤ 0 ∧
    levelDepth vt H Hc (-1) (-1) = -H ∧ levelDepth vt H Hc 0 0 = 0 := by
  sorry

/-! ### the level look-up -/

/-- **z2s_spec**: for a strictly increasing column with at least two levels, every depth `Z`
    (above the surface and below the bottom included) gets `1 ≤ K ≤ N−1`, `0 ≤ A ≤ 1`, both levels
    `K−1` and `K` exist, and the weighted level depth is `−Z` clamped to `[zr₀, zr_{N−1}]`. -/
theorem z2s_spec (zr : List ℚ) (Z : ℚ) (hN : 2 ≤ zr.length) (hs : zr.Pairwise (· < ·)) :
    ∃ (K : Nat) (A a b lo hi : ℚ), z2sCol zr Z = some ((K : Int), A) ∧ 1 ≤ K ∧ K ≤ zr.length - 1 ∧
      0 ≤ A ∧ A ≤ 1 ∧ zr[K - 1]? = some a ∧ zr[K]? = some b ∧
      zr.head? = some lo ∧ zr.getLast? = some hi ∧
      A * a + (1 - A) * b = max lo (min (-Z) hi) := by
  sorry

/-- **z2s_partial** (finding F13): with a single level no valid index pair exists — the kernel
    answers `K = 0` (particle above the level) or `K = 1` (below), and level `K` resp. `K − 1`
    is outside the column. -/
theorem z2s_partial_single_level (z Z : ℚ) :
    (z2sCol [z] Z = some (0, 0) ∨ z2sCol [z] Z = some (1, 1)) := by
  sorry

/-! non-vacuity -/
example : z2sCol [-9, -5, -1] 3 = some (2, 1/2) := by decide +kernel

end Ladim.C12
