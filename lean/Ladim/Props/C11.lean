import Ladim.Model.Tracker
import Ladim.Props.C12
import Mathlib.Probability.Distributions.Gaussian.Real
import Mathlib.Probability.Moments.Variance
import Mathlib.Probability.Independence.Basic
import Mathlib.Tactic.Linarith
import Mathlib.Tactic.Ring
import Mathlib.Tactic.FieldSimp
import Mathlib.Tactic.Positivity
/-
C11 — random-walk diffusion.  The displacement formulas `diffVel` / `diffDisp` of
`Ladim.Model.Tracker` (the same generic terms that are run at `Float` against
`Tracker.diffuse`), instantiated at `ℝ` with the `VOps ℝ` instance of `Ladim.Props.C12`.

Assumption (trusted base): `numpy.random.Generator.normal` delivers independent standard normal
variables; the theorems are about any such family `ξ`.
-/

namespace Ladim.C11
open Ladim MeasureTheory ProbabilityTheory NNReal
open Ladim.C12

/-- unfolding of the generic formula at `ℝ` -/
theorem diffDisp_real (D dt dx xi : ℝ) :
    diffDisp D dt dx xi = Real.sqrt (2 * D / dt) * xi * dt / dx := by
  show Real.sqrt (((2:ℕ):ℝ) * D / dt) * xi * dt / dx = _
  simp only [Nat.cast_ofNat]

/-- the displacement is the draw times a coefficient whose square is the configured variance
    `2·D·dt/dx²` in grid units (`dx = 1`: `2·D·dt` in metres, and `2·Dz·dt` in depth) -/
theorem diffCoef_sq (D dt dx : ℝ) (hD : 0 ≤ D) (hdt : 0 < dt) (hdx : 0 < dx) :
    (Real.sqrt (2 * D / dt) * dt / dx) ^ 2 = 2 * D * dt / dx ^ 2 := by
  have hs : Real.sqrt (2 * D / dt) ^ 2 = 2 * D / dt := Real.sq_sqrt (by positivity)
  rw [div_pow, mul_pow, hs]
  field_simp

/-- **disp_law**: driven by a standard normal draw, one displacement component is centred
    normal with variance `2·D·dt/dx²`. -/
theorem disp_law {Ω : Type*} [MeasurableSpace Ω] {P : Measure Ω} {xi : Ω → ℝ}
    (h : HasLaw xi (gaussianReal 0 1) P) (D dt dx : ℝ) (hD : 0 ≤ D) (hdt : 0 < dt) (hdx : 0 < dx) :
    HasLaw (fun ω => diffDisp D dt dx (xi ω))
      (gaussianReal 0 ⟨2 * D * dt / dx ^ 2, by positivity⟩) P := by
  have h2 := gaussianReal_const_mul h (Real.sqrt (2 * D / dt) * dt / dx)
  have e : (fun ω => diffDisp D dt dx (xi ω))
      = fun ω => (Real.sqrt (2 * D / dt) * dt / dx) * xi ω := by
    funext ω; rw [diffDisp_real]; ring
  have hv : (NNReal.mk ((Real.sqrt (2 * D / dt) * dt / dx) ^ 2) (sq_nonneg _)) * 1
      = ⟨2 * D * dt / dx ^ 2, by positivity⟩ := by
    apply NNReal.eq
    simp only [mul_one]
    exact diffCoef_sq D dt dx hD hdt hdx
  rw [e]
  have hg : gaussianReal (Real.sqrt (2 * D / dt) * dt / dx * 0)
      (NNReal.mk ((Real.sqrt (2 * D / dt) * dt / dx) ^ 2) (sq_nonneg _) * 1)
      = gaussianReal 0 ⟨2 * D * dt / dx ^ 2, by positivity⟩ :=
    congrArg₂ gaussianReal (mul_zero _) hv
  exact hg ▸ h2

/-- zero mean and the configured variance -/
theorem disp_mean_variance {Ω : Type*} [MeasurableSpace Ω] {P : Measure Ω} [IsProbabilityMeasure P]
    {xi : Ω → ℝ} (h : HasLaw xi (gaussianReal 0 1) P) (D dt dx : ℝ) (hD : 0 ≤ D) (hdt : 0 < dt)
    (hdx : 0 < dx) :
    (∫ ω, diffDisp D dt dx (xi ω) ∂P) = 0 ∧
    variance (fun ω => diffDisp D dt dx (xi ω)) P = 2 * D * dt / dx ^ 2 := by
  have hl := disp_law h D dt dx hD hdt hdx
  refine ⟨?_, ?_⟩
  · exact hl.integral_eq.trans integral_id_gaussianReal
  · exact hl.variance_eq.trans variance_id_gaussianReal

/-- **independent**: displacements made from independent draws are independent — between
    particles, steps and directions alike (they use distinct draws, see `draws_distinct`). -/
theorem independent {Ω ι : Type*} [MeasurableSpace Ω] {P : Measure Ω} {ξ : ι → Ω → ℝ}
    (hind : iIndepFun ξ P) (D dt dx : ℝ) :
    iIndepFun (fun k ω => diffDisp D dt dx (ξ k ω)) P := by
  have hm : Measurable (fun x : ℝ => diffDisp D dt dx x) := by
    simp only [diffDisp_real]
    fun_prop
  exact hind.comp (fun _ x => diffDisp D dt dx x) (fun _ => hm)

/-- distinct (particle, direction) pairs of one step use distinct positions of the step's
    stream of draws, all inside the block that is requested from the generator -/
theorem draws_distinct (n k k' : Nat) (hk : k < n) (hk' : k' < n) (vdiff : Bool) :
    drawU n k < drawsPerStep n true vdiff ∧ drawV n k < drawsPerStep n true vdiff ∧
    drawU n k ≠ drawV n k' ∧ (k ≠ k' → drawU n k ≠ drawU n k' ∧ drawV n k ≠ drawV n k') ∧
    (vdiff = true → drawW n k true < drawsPerStep n true vdiff ∧ drawW n k true ≠ drawU n k' ∧
      drawW n k true ≠ drawV n k' ∧ drawW n k false < drawsPerStep n false vdiff) := by
  cases vdiff <;> simp [drawU, drawV, drawW, drawsPerStep] <;> omega

/-- **cloud_variance**: after `n` steps in still water the position of a particle (sum of `n`
    independent displacements) has variance `2·D·(n·dt)/dx²` — the cloud spreads with variance
    `2·D·t`. -/
theorem cloud_variance {Ω : Type*} [MeasurableSpace Ω] {P : Measure Ω} [IsProbabilityMeasure P]
    {ξ : ℕ → Ω → ℝ} (hlaw : ∀ k, HasLaw (ξ k) (gaussianReal 0 1) P) (hind : iIndepFun ξ P)
    (D dt dx : ℝ) (hD : 0 ≤ D) (hdt : 0 < dt) (hdx : 0 < dx) (n : ℕ) :
    variance (fun ω => ∑ k ∈ Finset.range n, diffDisp D dt dx (ξ k ω)) P
      = 2 * D * (n * dt) / dx ^ 2 := by
  have hl := fun k => disp_law (hlaw k) D dt dx hD hdt hdx
  have hmem : ∀ k, MemLp (fun ω => diffDisp D dt dx (ξ k ω)) 2 P := by
    intro k
    have := memLp_id_gaussianReal (μ := 0) (v := ⟨2 * D * dt / dx ^ 2, by positivity⟩) 2
    rw [← (hl k).map_eq] at this
    exact (memLp_map_measure_iff aestronglyMeasurable_id (hl k).aemeasurable).1 this
  have hi := independent hind D dt dx
  have hsum := IndepFun.variance_sum (μ := P) (X := fun k ω => diffDisp D dt dx (ξ k ω))
    (s := Finset.range n) (fun k _ => hmem k) (fun i _ j _ hij => hi.indepFun hij)
  have e : (fun ω => ∑ k ∈ Finset.range n, diffDisp D dt dx (ξ k ω))
      = ∑ k ∈ Finset.range n, fun ω => diffDisp D dt dx (ξ k ω) := by
    funext ω; simp
  rw [e, hsum]
  simp only [(disp_mean_variance (hlaw _) D dt dx hD hdt hdx).2]
  simp only [Finset.sum_const, Finset.card_range, nsmul_eq_mul]
  ring

/-- **deterministic_when_off**: with the coefficient at zero the displacement is zero whatever
    the stream of draws contains (and no draw is requested: `drawsPerStep n false false = 0`). -/
theorem deterministic_when_off (dt dx xi : ℝ) :
    diffDisp 0 dt dx xi = 0 ∧ ∀ n, drawsPerStep n false false = 0 := by
  refine ⟨?_, fun n => by simp [drawsPerStep]⟩
  rw [diffDisp_real]
  simp

end Ladim.C11
