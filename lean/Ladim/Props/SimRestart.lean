import Ladim.Props.Simulation
import Ladim.Props.WholeForcing
/-
C08 ∘ C03: a run restarted `r` steps into the window samples the same forcing as the
uninterrupted run.  The restarted run addresses the same frames with step numbers lower by `r`
(its step 0 is the uninterrupted run's step `r`) and starts its own time machine from scratch
(`Forcing.__init__` pre-rolls to the frame before *its* start); the two machines are in different
states — other frames read, other files open — yet the arrays they hand to the tracker and to
`forcing.update` agree, because both are the frames interpolated in time (`C03`): the
specification is the bridge.
-/

namespace Ladim.SimRestart
open Ladim

/-- the frame table as the run restarted at step `r` sees it -/
def shiftFrames (r : Int) (frames : List Frame) : List Frame :=
  frames.map (fun f => { f with step := f.step - r })

/-- the field the tracker uses a fraction `frac` into a step, from the pair `(u, dU)` -/
def fieldUsed (p : Field3 × Field3) (frac : Rat) : Field3 :=
  if frac < 1/1000 then p.1 else RomsSetup.addScaled p.1 p.2 frac

theorem shiftFrames_sorted (r : Int) (frames : List Frame) (hs : C03.Sorted frames) :
    C03.Sorted (shiftFrames r frames) := by
  unfold C03.Sorted shiftFrames at *
  rw [List.pairwise_map]
  exact hs.imp (fun {a b} h => by show a.step - r < b.step - r; omega)

theorem shiftFrames_covers (r : Nat) (frames : List Frame) (last : Int) (hc : C03.Covers frames last)
    (hr : (r : Int) + 1 ≤ last) : C03.Covers (shiftFrames r frames) (last - r) := by
  obtain ⟨_, ⟨f, hf, hf0⟩, ⟨g, hg, hgl⟩⟩ := hc
  refine ⟨by omega, ⟨{ f with step := f.step - r }, ?_, ?_⟩, ⟨{ g with step := g.step - r }, ?_, ?_⟩⟩
  · exact List.mem_map.mpr ⟨f, hf, rfl⟩
  · show f.step - (r : Int) ≤ 0; omega
  · exact List.mem_map.mpr ⟨g, hg, rfl⟩
  · show last - (r : Int) ≤ g.step - r; omega

theorem shapeOf_shift (r : Int) (frames : List Frame) (arr : Nat → Nat → Field3) :
    shapeOf (shiftFrames r frames) arr = shapeOf frames arr := by
  cases frames <;> rfl

/-- interpolation of one node value does not care where the step count starts -/
theorem interpFrames_shift (r : Int) (frames : List Frame) (val : Nat → Nat → Rat) (t : Rat) :
    interpFrames (shiftFrames r frames) val t = interpFrames frames val (t + r) := by
  have h1 : ((fun f : Frame => decide ((f.step : Rat) ≤ t)) ∘
      (fun f : Frame => ({ f with step := f.step - r } : Frame))) =
      fun f : Frame => decide ((f.step : Rat) ≤ t + r) := by
    funext f
    simp only [Function.comp, Int.cast_sub, decide_eq_decide]
    constructor <;> intro h <;> linarith
  have h2 : ((fun f : Frame => decide (t < (f.step : Rat))) ∘
      (fun f : Frame => ({ f with step := f.step - r } : Frame))) =
      fun f : Frame => decide (t + r < (f.step : Rat)) := by
    funext f
    simp only [Function.comp, Int.cast_sub, decide_eq_decide]
    constructor <;> intro h <;> linarith
  unfold interpFrames shiftFrames
  simp only [List.filter_map, List.getLast?_map, List.head?_map, h1, h2]
  cases (List.filter (fun f : Frame => decide ((f.step : Rat) ≤ t + r)) frames).getLast? with
  | none => rfl
  | some a =>
    cases (List.filter (fun f : Frame => decide (t + r < (f.step : Rat))) frames).head? with
    | none =>
      simp only [Option.map_some, Option.map_none, Int.cast_sub]
      have : ((a.step : Rat) - r = t) ↔ ((a.step : Rat) = t + r) := by
        constructor <;> intro h <;> linarith
      simp only [this]
    | some b =>
      simp only [Option.map_some]
      congr 2
      rw [show (b.step - r - (a.step - r) : Int) = b.step - a.step by omega]
      push_cast
      ring

/-- interpolation in time does not care where the step count starts -/
theorem interpField_shift (r : Int) (frames : List Frame) (arr : Nat → Nat → Field3) (t : Rat) :
    interpField (shiftFrames r frames) arr t = interpField frames arr (t + r) := by
  unfold interpField
  rw [shapeOf_shift]
  congr 1
  funext k j i
  rw [interpFrames_shift]

theorem latestFrame_shift (r : Int) (frames : List Frame) (val : Nat → Nat → Rat) (n : Int) :
    latestFrame (shiftFrames r frames) val n = latestFrame frames val (n + r) := by
  have h1 : ((fun f : Frame => decide (f.step ≤ n)) ∘
      (fun f : Frame => ({ f with step := f.step - r } : Frame))) =
      fun f : Frame => decide (f.step ≤ n + r) := by
    funext f
    simp only [Function.comp, decide_eq_decide]
    omega
  unfold latestFrame shiftFrames
  simp only [List.filter_map, List.getLast?_map, h1, Option.map_map]
  rfl

theorem latestField_shift (r : Int) (frames : List Frame) (arr : Nat → Nat → Field3) (n : Int) :
    latestField (shiftFrames r frames) arr n = latestField frames arr (n + r) := by
  unfold latestField
  rw [shapeOf_shift]
  congr 1
  funext k j i
  rw [latestFrame_shift]

/-- **restart_same_velocity_field**: at its step `k` the restarted run's time machine hands the
    tracker the field the uninterrupted run's machine hands it at step `r + k`, for every
    fraction the tracker asks for (`0` or `1/1000 ≤ frac ≤ 1`) -/
theorem restart_same_velocity_field (frames : List Frame) (arr : Nat → Nat → Field3) (n n' : Nat) (last : Int)
    (hs : C03.Sorted frames) (hc : C03.Covers frames last) (r k : Nat)
    (hlast : (r : Int) + k < last) (hk : k < n') (hrk : r + k < n)
    (frac : Rat) (hf : frac = 0 ∨ (1/1000 ≤ frac ∧ frac ≤ 1)) :
    fieldUsed ((fieldSeq (shiftFrames r frames) arr n')[k]?.getD ([], [])) frac =
      fieldUsed ((fieldSeq frames arr n)[r + k]?.getD ([], [])) frac := by
  unfold fieldUsed
  rw [WholeForcing.field_used (shiftFrames r frames) arr n' (last - r) (shiftFrames_sorted r frames hs)
      (shiftFrames_covers r frames last hc (by omega)) k hk (by omega) frac hf,
    WholeForcing.field_used frames arr n last hs hc (r + k) hrk (by push_cast; omega) frac hf,
    interpField_shift]
  congr 1
  push_cast
  ring

/-- **restart_same_scalar_field**: likewise for the scalar fields `forcing.update` samples -/
theorem restart_same_scalar_field (frames : List Frame) (arr : Nat → Nat → Field3) (n n' : Nat) (last : Int)
    (hs : C03.Sorted frames) (hc : C03.Covers frames last) (r k : Nat)
    (hlast : (r : Int) + k ≤ last) (hr : (r : Int) + 1 ≤ last) (hk : k < n') (hrk : r + k < n) :
    (scalarSeq (shiftFrames r frames) arr n')[k]?.getD [] = (scalarSeq frames arr n)[r + k]?.getD [] := by
  rw [WholeForcing.scalarSeq_latest (shiftFrames r frames) arr n' (last - r) (shiftFrames_sorted r frames hs)
      (shiftFrames_covers r frames last hc hr) k hk (by omega),
    WholeForcing.scalarSeq_latest frames arr n last hs hc (r + k) hrk (by push_cast; omega),
    latestField_shift]
  congr 1
  push_cast
  ring

/-! ### non-vacuity: a concrete frame table and its shift meet the hypotheses -/

def exFrames : List Frame := [⟨-2, 0, 0⟩, ⟨1, 0, 1⟩, ⟨4, 1, 0⟩, ⟨9, 1, 1⟩]

example : C03.Sorted exFrames ∧ C03.Covers exFrames 8 ∧
    C03.Sorted (shiftFrames 3 exFrames) ∧ C03.Covers (shiftFrames 3 exFrames) 5 := by
  refine ⟨by simp [C03.Sorted, exFrames], ⟨by decide, ⟨⟨-2, 0, 0⟩, by decide, by decide⟩,
    ⟨⟨9, 1, 1⟩, by decide, by decide⟩⟩, by simp [C03.Sorted, shiftFrames, exFrames],
    ⟨by decide, ⟨⟨-5, 0, 0⟩, by decide, by decide⟩, ⟨⟨6, 1, 1⟩, by decide, by decide⟩⟩⟩


end Ladim.SimRestart
