import Ladim.Model.RunForcing
import Ladim.Props.C03
/-
Composition of C03 (forcing in time) with the whole-run environment: in a run whose
`RomsSetup` is built by `ForcingSetup.toRoms` — the per-node time machine of `ROMS.py`
`Forcing` run over every node of the arrays — the field the tracker samples at fraction
`frac` of step `n` is the frames interpolated linearly in time at `n + frac`, node by node,
and the scalar fields `forcing.update` samples are those of the latest frame at or before
the step.  Together with `C02.*` (sampling in space) and `Whole.roms_refines_spec` this says
what velocity every particle of every whole run sees.
-/

namespace Ladim.WholeForcing
open Ladim FM C03

/-- a run that reaches step `a + b` reached step `a` -/
theorem run_prefix (m0 : FM) (valU valS : Nat → Nat → Rat) (hasS : Bool) (a b : Nat) (m : FM)
    (h : FM.run m0 valU valS hasS (a + b) = some m) : ∃ m', FM.run m0 valU valS hasS a = some m' := by
  induction b generalizing m with
  | zero => exact ⟨m, h⟩
  | succ b ih =>
    rw [← Nat.add_assoc, FM.run] at h
    cases hr : FM.run m0 valU valS hasS (a + b) with
    | none => rw [hr] at h; cases h
    | some m1 => exact ih m1 hr

/-- `scan` started from the state `run` reached at step `s0` lists the later states of `run` -/
theorem scan_get_aux (m0 : FM) (valU valS : Nat → Nat → Rat) (hasS : Bool) :
    ∀ (fuel k s0 : Nat) (m1 m : FM), k < fuel → FM.run m0 valU valS hasS s0 = some m1 →
      FM.run m0 valU valS hasS (s0 + k + 1) = some m →
      (m1.scan valU valS hasS s0 fuel)[k]? = some m := by
  intro fuel
  induction fuel with
  | zero => intro k s0 m1 m hk; omega
  | succ fuel ih =>
    intro k s0 m1 m hk h1 h
    have hstep : FM.run m0 valU valS hasS (s0 + 1) = m1.update valU valS hasS (s0 : Int) := by
      rw [FM.run, h1]; rfl
    obtain ⟨m2, h2⟩ := run_prefix m0 valU valS hasS (s0 + 1) k m (by
      rw [show s0 + 1 + k = s0 + k + 1 by omega]; exact h)
    have hup : m1.update valU valS hasS (s0 : Int) = some m2 := by rw [← hstep]; exact h2
    rw [FM.scan, hup]
    cases k with
    | zero =>
      rw [Nat.add_zero, h2] at h
      simpa using h
    | succ k =>
      rw [List.getElem?_cons_succ]
      exact ih k (s0 + 1) m2 m (by omega) h2 (by
        rw [show s0 + 1 + k + 1 = s0 + (k + 1) + 1 by omega]; exact h)

/-- `scan` lists the states `run` reaches -/
theorem scan_get (m0 : FM) (valU valS : Nat → Nat → Rat) (hasS : Bool) (n s : Nat) (m : FM) (hsn : s < n)
    (h : FM.run m0 valU valS hasS (s + 1) = some m) :
    (m0.scan valU valS hasS 0 n)[s]? = some m := by
  apply scan_get_aux m0 valU valS hasS n s 0 m0 m hsn rfl
  rw [Nat.zero_add]; exact h

/-- the state of a node after the update of step `s` satisfies the invariant of C03 -/
theorem nodeStates_get (frames : List Frame) (val : Nat → Nat → Rat) (hasS : Bool) (last : Int)
    (hs : Sorted frames) (hc : Covers frames last) (n s : Nat) (hsn : s < n) (hsl : (s : Int) ≤ last) :
    ∃ m, (nodeStates frames val hasS n)[s]? = some m ∧ Inv frames val val hasS m s := by
  obtain ⟨m0, m, hinit, hrun, hinv⟩ := run_spec frames val val hasS last hs hc s hsl
  refine ⟨m, ?_, hinv⟩
  rw [nodeStates, hinit]
  exact scan_get m0 val val hasS n s m hsn hrun

/-- mapping over the nodes of `mapNodes` -/
theorem mapNodes_map {α β : Type} (shape : Field3) (f : Nat → Nat → Nat → α) (g : α → β) :
    (mapNodes shape f).map (fun P => P.map (fun r => r.map g)) = mapNodes shape (fun k j i => g (f k j i)) := by
  simp [mapNodes, List.map_map, Function.comp_def]

/-- `addScaled` of two arrays built over the same shape, node by node -/
theorem addScaled_mapNodes (shape : Field3) (f g : Nat → Nat → Nat → Rat) (c : Rat) :
    RomsSetup.addScaled (mapNodes shape f) (mapNodes shape g) c
      = mapNodes shape (fun k j i => f k j i + c * g k j i) := by
  simp [RomsSetup.addScaled, mapNodes, List.zip_map', List.map_map, Function.comp_def]

/-- the entry of step `s` of `fieldSeq`, as arrays over the shape -/
theorem fieldSeq_get (frames : List Frame) (arr : Nat → Nat → Field3) (n s : Nat) (hsn : s < n) :
    (fieldSeq frames arr n)[s]?.getD ([], []) =
      (mapNodes (shapeOf frames arr) (fun k j i =>
          (((nodeStates frames (nodeVal arr k j i) false n)[s]?).map (·.u)).getD 0),
       mapNodes (shapeOf frames arr) (fun k j i =>
          (((nodeStates frames (nodeVal arr k j i) false n)[s]?).map (·.dU)).getD 0)) := by
  simp only [fieldSeq, List.getElem?_map, List.getElem?_range hsn, Option.map_some, Option.getD_some,
    mapNodes_map]

/-- the entry of step `s` of `scalarSeq`, as an array over the shape -/
theorem scalarSeq_get (frames : List Frame) (arr : Nat → Nat → Field3) (n s : Nat) (hsn : s < n) :
    (scalarSeq frames arr n)[s]?.getD [] =
      mapNodes (shapeOf frames arr) (fun k j i =>
          (((nodeStates frames (nodeVal arr k j i) true n)[s]?).map (·.scal)).getD 0) := by
  simp only [scalarSeq, List.getElem?_map, List.getElem?_range hsn, Option.map_some, Option.getD_some,
    mapNodes_map]

/-- **fieldSeq_u**: the running field of step `s` is the frames interpolated at `s` -/
theorem fieldSeq_u (frames : List Frame) (arr : Nat → Nat → Field3) (n : Nat) (last : Int)
    (hs : Sorted frames) (hc : Covers frames last) (s : Nat) (hsn : s < n) (hsl : (s : Int) ≤ last) :
    ((fieldSeq frames arr n)[s]?.getD ([], [])).1 = interpField frames arr (s : Rat) := by
  rw [fieldSeq_get frames arr n s hsn, interpField]
  dsimp only
  congr 1
  funext k j i
  obtain ⟨m0, m, hinit, hrun, hint⟩ :=
    u_eq_interp frames (nodeVal arr k j i) (nodeVal arr k j i) false last hs hc s hsl
  rw [nodeStates, hinit, scan_get m0 _ _ false n s m hsn hrun, hint]
  rfl

/-- **field_used**: the field the tracker uses a fraction `frac` into step `s`
    (`frac = 0` or `1/1000 ≤ frac ≤ 1`; the tracker asks for 0, ½ and 1) is the frames
    interpolated at `s + frac` -/
theorem field_used (frames : List Frame) (arr : Nat → Nat → Field3) (n : Nat) (last : Int)
    (hs : Sorted frames) (hc : Covers frames last) (s : Nat) (hsn : s < n) (hsl : (s : Int) < last)
    (frac : Rat) (hf : frac = 0 ∨ (1/1000 ≤ frac ∧ frac ≤ 1)) :
    (if frac < 1/1000 then ((fieldSeq frames arr n)[s]?.getD ([], [])).1
     else RomsSetup.addScaled ((fieldSeq frames arr n)[s]?.getD ([], [])).1
            ((fieldSeq frames arr n)[s]?.getD ([], [])).2 frac)
      = interpField frames arr ((s : Rat) + frac) := by
  rw [fieldSeq_get frames arr n s hsn, interpField]
  simp only [addScaled_mapNodes]
  rw [← apply_ite (mapNodes (shapeOf frames arr))]
  congr 1
  funext k j i
  obtain ⟨m0, m, hinit, hrun, hint⟩ :=
    velocity_frac frames (nodeVal arr k j i) (nodeVal arr k j i) false last hs hc s hsl frac hf
  have hns : (nodeStates frames (nodeVal arr k j i) false n)[s]? = some m := by
    rw [nodeStates, hinit]; exact scan_get m0 _ _ false n s m hsn hrun
  rw [hint, Option.getD_some, FM.velocity]
  by_cases hlt : frac < 1/1000
  · simp only [if_pos hlt, hns, Option.map_some, Option.getD_some]
  · simp only [if_neg hlt, hns, Option.map_some, Option.getD_some]

/-- **scalarSeq_latest**: the scalar field of step `s` is that of the latest frame at or before `s` -/
theorem scalarSeq_latest (frames : List Frame) (arr : Nat → Nat → Field3) (n : Nat) (last : Int)
    (hs : Sorted frames) (hc : Covers frames last) (s : Nat) (hsn : s < n) (hsl : (s : Int) ≤ last) :
    (scalarSeq frames arr n)[s]?.getD [] = latestField frames arr (s : Int) := by
  rw [scalarSeq_get frames arr n s hsn, latestField]
  congr 1
  funext k j i
  obtain ⟨m0, m, hinit, hrun, hlat⟩ :=
    scalar_latest frames (nodeVal arr k j i) (nodeVal arr k j i) last hs hc s hsl
  rw [nodeStates, hinit, scan_get m0 _ _ true n s m hsn hrun, hlat]
  rfl

/-- **oracle_space_time**: the velocity a particle samples in a whole run, at fraction `frac` of
    step `n` and position `(x, y)` (level column fixed at `(x0, y0, z0)`), is `sampleVel` — the
    C-grid interpolation of `C02` — applied to the frames interpolated in time at `n + frac` -/
theorem oracle_space_time (fs : ForcingSetup) (g : GridM) (sign : Rat) (cfg : TrkCfg)
    (releaseAt : Int → List RP) (ageing : Bool) (kills : Int → List Nat) (period : Int) (sparse : Bool)
    (rnd : Rat → Rat) (last : Int)
    (hs : Sorted fs.frames) (hc : Covers fs.frames last) (n : Nat) (hn : (n : Int) < last) (hrun : n < fs.nrun)
    (frac : Rat) (hf : frac = 0 ∨ (1/1000 ≤ frac ∧ frac ≤ 1)) (x0 y0 z0 x y : Rat) :
    (fs.toRoms g sign cfg releaseAt ageing kills period sparse rnd).oracle (n : Int) x0 y0 z0 frac x y
      = sampleVel g (interpField fs.frames fs.arrU ((n : Rat) + frac))
          (interpField fs.frames fs.arrV ((n : Rat) + frac)) sign x0 y0 z0 x y := by
  rw [← field_used fs.frames fs.arrU fs.nrun last hs hc n hrun hn frac hf,
    ← field_used fs.frames fs.arrV fs.nrun last hs hc n hrun hn frac hf]
  simp only [RomsSetup.oracle, ForcingSetup.toRoms, Int.toNat_natCast]

/-- **force_latest**: `forcing.update` of step `n` gives every scalar forcing variable the value
    of the latest frame at or before `n`, sampled at the particle's own cell and level -/
theorem force_latest (fs : ForcingSetup) (g : GridM) (sign : Rat) (cfg : TrkCfg)
    (releaseAt : Int → List RP) (ageing : Bool) (kills : Int → List Nat) (period : Int) (sparse : Bool)
    (rnd : Rat → Rat) (last : Int)
    (hs : Sorted fs.frames) (hc : Covers fs.frames last) (n : Nat) (hn : (n : Int) ≤ last) (hrun : n < fs.nrun)
    (p : RP) :
    (fs.toRoms g sign cfg releaseAt ageing kills period sparse rnd).force (n : Int) p
      = fs.arrS.foldl (fun q (nm, arr) =>
          match sampleScalar g (latestField fs.frames arr (n : Int)) q.x q.y q.z with
          | some v => { q with vars := RomsSetup.setVar q.vars nm (.num v) }
          | none => { q with vars := RomsSetup.setVar q.vars nm .nan }) p := by
  simp only [RomsSetup.force, ForcingSetup.toRoms, Int.toNat_natCast, List.foldl_map]
  congr 1
  funext q ⟨nm, arr⟩
  simp only [scalarSeq_latest fs.frames arr fs.nrun last hs hc n hrun hn]
  rfl

/-! ### non-vacuity: a concrete frame table meets the hypotheses -/

def exFrames : List Frame := [⟨-2, 0, 0⟩, ⟨1, 0, 1⟩, ⟨4, 1, 0⟩]

example : Sorted exFrames ∧ Covers exFrames 3 := by
  refine ⟨by simp [Sorted, exFrames], by decide, ⟨⟨-2, 0, 0⟩, by decide, by decide⟩,
    ⟨⟨4, 1, 0⟩, by decide, by decide⟩⟩

end Ladim.WholeForcing
