import Ladim.Model.Tracker
import Mathlib.Data.Rat.Floor
import Mathlib.Tactic.Linarith
import Mathlib.Algebra.Order.Field.Rat
import Mathlib.Data.List.Basic
/-
C17 — the sampling kernels never read outside the arrays.

The model's array accesses are *checked* (`getI`/`get2`/`get3` give `none` outside), so the
property is "the samplers return `some …`" for every position the model itself can produce:
any position in the valid region, every clipped Runge–Kutta stage position, any depth.
The margins 0.01 (clip) and 0.5 (valid region) of the code appear in the hypotheses.
-/

namespace Ladim.C17
open Ladim

/-- a 3-D array of shape `(n, rows, cols)` -/
structure Shape3 (F : Field3) (n rows cols : Int) : Prop where
  levels : (F.length : Int) = n
  rws : ∀ P ∈ F, (P.length : Int) = rows
  cls : ∀ P ∈ F, ∀ r ∈ P, (r.length : Int) = cols

structure Shape2 (F : Field2) (rows cols : Int) : Prop where
  rws : (F.length : Int) = rows
  cls : ∀ r ∈ F, (r.length : Int) = cols

/-! ### helpers -/

theorem getI_some {α} (l : List α) (i : Int) (h0 : 0 ≤ i) (h1 : i < (l.length : Int)) :
    ∃ v, getI l i = some v ∧ v ∈ l := by
  unfold getI
  rw [if_pos h0]
  have h : i.toNat < l.length := by omega
  exact ⟨l[i.toNat], List.getElem?_eq_getElem h, List.getElem_mem h⟩

theorem pyTrunc_range (x : ℚ) (c : Int) (h0 : 0 ≤ x) (h1 : x < c - 1) :
    0 ≤ pyTrunc x ∧ pyTrunc x + 1 < c := by
  have e : pyTrunc x = ⌊x⌋ := by unfold pyTrunc; rw [if_pos h0]; rfl
  rw [e]
  refine ⟨Int.floor_nonneg.2 h0, ?_⟩
  have h2 : ((⌊x⌋ + 1 : Int) : ℚ) < (c : ℚ) := by
    push_cast; linarith [Int.floor_le x]
  exact_mod_cast h2

/-- `roundHalfEven x` is an integer within ½ of `x` -/
theorem roundHalfEven_bounds (x : ℚ) :
    x - 1/2 ≤ (roundHalfEven x : ℚ) ∧ (roundHalfEven x : ℚ) ≤ x + 1/2 := by
  have hf : x.floor = ⌊x⌋ := rfl
  have h1 := Int.floor_le x
  have h2 := Int.lt_floor_add_one x
  unfold roundHalfEven
  simp only [hf]
  split_ifs with a b c
  all_goals (push_cast; constructor <;> linarith)

theorem roundHalfEven_intCast (n : Int) : roundHalfEven (n : ℚ) = n := by
  have hf : (n : ℚ).floor = n := by
    show ⌊(n : ℚ)⌋ = n
    exact Int.floor_intCast n
  unfold roundHalfEven
  simp only [hf, sub_self]
  rw [if_pos (by norm_num)]

theorem mapM_some {α β} (f : α → Option β) (l : List α) (h : ∀ a ∈ l, ∃ b, f a = some b) :
    ∃ r, l.mapM f = some r ∧ r.length = l.length := by
  induction l with
  | nil => exact ⟨[], by simp, rfl⟩
  | cons a t ih =>
    obtain ⟨b, hb⟩ := h a (by simp)
    obtain ⟨r, hr, hl⟩ := ih (fun a ha => h a (by simp [ha]))
    exact ⟨b :: r, by simp [List.mapM_cons, hb, hr], by simp [hl]⟩

theorem ssl_le (l : List ℚ) (v : ℚ) : searchsortedLeft l v ≤ l.length := by
  induction l with
  | nil => simp [searchsortedLeft]
  | cons a as ih =>
    simp only [searchsortedLeft, List.length_cons]
    split <;> omega

/-- the level look-up on a column with at least two levels returns `1 ≤ K ≤ N − 1`
    (no monotonicity needed for the index range) -/
theorem z2sCol_some (col : List ℚ) (Z : ℚ) (h : 2 ≤ col.length) :
    ∃ K A, z2sCol col Z = some (K, A) ∧ 1 ≤ K ∧ K < (col.length : Int) := by
  have hle := ssl_le col (-Z)
  unfold z2sCol
  simp only
  generalize searchsortedLeft col (-Z) = k at *
  by_cases hk : k = col.length
  · rw [if_pos hk]; exact ⟨_, _, rfl, by omega, by omega⟩
  · rw [if_neg hk]
    by_cases h0 : 0 < k
    · rw [if_pos h0]
      have h1 : k < col.length := by omega
      rw [List.getElem?_eq_getElem h1, List.getElem?_eq_getElem (show k - 1 < col.length by omega)]
      exact ⟨_, _, rfl, by omega, by omega⟩
    · rw [if_neg h0]; exact ⟨1, 1, rfl, by omega, by omega⟩

/-! ### the property -/

/-- checked access succeeds exactly inside the shape -/
theorem get3_some (F : Field3) (n rows cols : Int) (hs : Shape3 F n rows cols) (k j i : Int)
    (hk : 0 ≤ k ∧ k < n) (hj : 0 ≤ j ∧ j < rows) (hi : 0 ≤ i ∧ i < cols) :
    ∃ v, get3 F k j i = some v := by
  obtain ⟨P, hP, hPm⟩ := getI_some F k hk.1 (by rw [hs.levels]; exact hk.2)
  obtain ⟨r, hr, hrm⟩ := getI_some P j hj.1 (by rw [hs.rws P hPm]; exact hj.2)
  obtain ⟨v, hv, _⟩ := getI_some r i hi.1 (by rw [hs.cls P hPm r hrm]; exact hi.2)
  exact ⟨v, by simp only [get3, hP, hr, hv, Option.bind_some]⟩

theorem get2_some (F : Field2) (rows cols : Int) (hs : Shape2 F rows cols) (j i : Int)
    (hj : 0 ≤ j ∧ j < rows) (hi : 0 ≤ i ∧ i < cols) : ∃ v, get2 F j i = some v := by
  obtain ⟨r, hr, hrm⟩ := getI_some F j hj.1 (by rw [hs.rws]; exact hj.2)
  obtain ⟨v, hv, _⟩ := getI_some r i hi.1 (by rw [hs.cls r hrm]; exact hi.2)
  exact ⟨v, by simp only [get2, hr, hv, Option.bind_some]⟩

/-- **trilinear_in_bounds**: for a local position with `0 ≤ x`, `⌊x⌋ + 1 < cols`, `0 ≤ y`,
    `⌊y⌋ + 1 < rows` and a level pair `1 ≤ K < n`, all eight reads are inside the array. -/
theorem trilinear_in_bounds (F : Field3) (n rows cols : Int) (hs : Shape3 F n rows cols)
    (x y : Rat) (K : Int) (A : Rat) (hx : 0 ≤ x ∧ x < cols - 1) (hy : 0 ≤ y ∧ y < rows - 1)
    (hK : 1 ≤ K ∧ K < n) : ∃ r, trilinear F x y K A = some r := by
  obtain ⟨hi0, hi1⟩ := pyTrunc_range x cols hx.1 hx.2
  obtain ⟨hj0, hj1⟩ := pyTrunc_range y rows hy.1 hy.2
  have kA : 0 ≤ K - 1 ∧ K - 1 < n := by omega
  have kB : 0 ≤ K ∧ K < n := by omega
  have jA : 0 ≤ pyTrunc y ∧ pyTrunc y < rows := by omega
  have jB : 0 ≤ pyTrunc y + 1 ∧ pyTrunc y + 1 < rows := by omega
  have iA : 0 ≤ pyTrunc x ∧ pyTrunc x < cols := by omega
  have iB : 0 ≤ pyTrunc x + 1 ∧ pyTrunc x + 1 < cols := by omega
  obtain ⟨f000, h000⟩ := get3_some F n rows cols hs _ _ _ kA jA iA
  obtain ⟨f100, h100⟩ := get3_some F n rows cols hs _ _ _ kB jA iA
  obtain ⟨f001, h001⟩ := get3_some F n rows cols hs _ _ _ kA jB iA
  obtain ⟨f101, h101⟩ := get3_some F n rows cols hs _ _ _ kB jB iA
  obtain ⟨f010, h010⟩ := get3_some F n rows cols hs _ _ _ kA jA iB
  obtain ⟨f110, h110⟩ := get3_some F n rows cols hs _ _ _ kB jA iB
  obtain ⟨f011, h011⟩ := get3_some F n rows cols hs _ _ _ kA jB iB
  obtain ⟨f111, h111⟩ := get3_some F n rows cols hs _ _ _ kB jB iB
  simp only [trilinear, h000, h100, h001, h101, h010, h110, h011, h111, bind, Option.bind_some, pure]
  exact ⟨_, rfl⟩

/-- the clip box of the tracker: 0.01 inside the limits of the loaded window -/
def InBox (g : GridM) (x y : Rat) : Prop :=
  g.xmin + 1/100 ≤ x ∧ x ≤ g.xmax - 1/100 ∧ g.ymin + 1/100 ≤ y ∧ y ≤ g.ymax - 1/100

theorem clip1_mem (lo hi v : ℚ) (h : lo ≤ hi) : lo ≤ clip1 lo hi v ∧ clip1 lo hi v ≤ hi := by
  unfold clip1
  exact ⟨le_max_right _ _, max_le (min_le_right _ _) h⟩

/-- **stage_positions_clipped**: every Runge–Kutta stage position lies in the clip box
    (whatever the velocity), provided the window is at least two cells wide. -/
theorem stage_positions_clipped (g : GridM) (x y u v frac hx hy : Rat)
    (hw : g.xmin + 1/100 ≤ g.xmax - 1/100 ∧ g.ymin + 1/100 ≤ g.ymax - 1/100) :
    InBox g (stage g x y u v frac hx hy).1 (stage g x y u v frac hx hy).2 := by
  simp only [stage, rkStep, InBox]
  exact ⟨(clip1_mem _ _ _ hw.1).1, (clip1_mem _ _ _ hw.1).2, (clip1_mem _ _ _ hw.2).1,
    (clip1_mem _ _ _ hw.2).2⟩

theorem ingrid_iff (g : GridM) (x y : Rat) (h : g.ingrid x y = true) :
    g.xmin + 1/2 < x ∧ x < g.xmax - 1/2 ∧ g.ymin + 1/2 < y ∧ y < g.ymax - 1/2 := by
  simp only [GridM.ingrid, Bool.and_eq_true, decide_eq_true_eq] at h
  exact ⟨h.1.1.1, h.1.1.2, h.1.2, h.2⟩

/-- the valid region is inside the clip box -/
theorem ingrid_in_box (g : GridM) (x y : Rat) (h : g.ingrid x y = true) : InBox g x y := by
  obtain ⟨h1, h2, h3, h4⟩ := ingrid_iff g x y h
  refine ⟨?_, ?_, ?_, ?_⟩ <;> linarith

/-- **uv_in_bounds**: for every position in the clip box the u-array (shape `(N, jmax, imax+1)`,
    sampled at local `x − i0 + ½`) and the v-array (shape `(N, jmax+1, imax)`, sampled at local
    `y − j0 + ½`) are read inside, for every level pair `1 ≤ K < N`. -/
theorem uv_in_bounds (g : GridM) (U V : Field3) (N : Int)
    (hU : Shape3 U N (g.j1 - g.j0) (g.i1 - g.i0 + 1)) (hV : Shape3 V N (g.j1 - g.j0 + 1) (g.i1 - g.i0))
    (x y : Rat) (hb : InBox g x y) (K : Int) (A : Rat) (hK : 1 ≤ K ∧ K < N) :
    ∃ uv, sample3DUV U V (x - g.i0) (y - g.j0) K A = some uv := by
  obtain ⟨h1, h2, h3, h4⟩ := hb
  simp only [GridM.xmin, GridM.xmax, GridM.ymin, GridM.ymax] at h1 h2 h3 h4
  push_cast at h2 h4
  obtain ⟨u, hu⟩ := trilinear_in_bounds U N _ _ hU (x - g.i0 + 1/2) (y - g.j0) K A
    ⟨by linarith, by push_cast; linarith⟩ ⟨by linarith, by push_cast; linarith⟩ hK
  obtain ⟨v, hv⟩ := trilinear_in_bounds V N _ _ hV (x - g.i0) (y - g.j0 + 1/2) K A
    ⟨by linarith, by push_cast; linarith⟩ ⟨by linarith, by push_cast; linarith⟩ hK
  exact ⟨(u, v), by simp only [sample3DUV, hu, hv, bind, Option.bind_some, pure]⟩

/-- the level look-up succeeds with a valid pair for a cell inside the window, when every
    column has `N ≥ 2` strictly increasing levels -/
def ColumnsOK (g : GridM) (N : Int) : Prop :=
  2 ≤ N ∧ Shape3 g.zr N (g.j1 - g.j0) (g.i1 - g.i0) ∧
  ∀ j i col, column g.zr j i = some col → col.Pairwise (· < ·)

theorem column_some (g : GridM) (N : Int) (hc : ColumnsOK g N) (j i : Int)
    (hj : 0 ≤ j ∧ j < g.j1 - g.j0) (hi : 0 ≤ i ∧ i < g.i1 - g.i0) :
    ∃ col, column g.zr j i = some col ∧ (col.length : Int) = N := by
  obtain ⟨-, hs, -⟩ := hc
  obtain ⟨r, hr, hl⟩ := mapM_some (fun P => get2 P j i) g.zr (fun P hP =>
    get2_some P _ _ ⟨hs.rws P hP, hs.cls P hP⟩ j i hj hi)
  exact ⟨r, hr, by rw [hl]; exact hs.levels⟩

/-- the cell of a position in the valid region is inside the window -/
theorem cell_in_window (g : GridM) (x y : Rat) (h : g.ingrid x y = true) :
    0 ≤ g.cellI x ∧ g.cellI x < g.i1 - g.i0 ∧ 0 ≤ g.cellJ y ∧ g.cellJ y < g.j1 - g.j0 := by
  obtain ⟨h1, h2, h3, h4⟩ := ingrid_iff g x y h
  simp only [GridM.xmin, GridM.xmax, GridM.ymin, GridM.ymax] at h1 h2 h3 h4
  push_cast at h2 h4
  obtain ⟨hx1, hx2⟩ := roundHalfEven_bounds x
  obtain ⟨hy1, hy2⟩ := roundHalfEven_bounds y
  have a1 : (g.i0 : ℚ) < (roundHalfEven x : ℚ) := by linarith
  have a2 : (roundHalfEven x : ℚ) < (g.i1 : ℚ) := by linarith
  have a3 : (g.j0 : ℚ) < (roundHalfEven y : ℚ) := by linarith
  have a4 : (roundHalfEven y : ℚ) < (g.j1 : ℚ) := by linarith
  have b1 : g.i0 < roundHalfEven x := by exact_mod_cast a1
  have b2 : roundHalfEven x < g.i1 := by exact_mod_cast a2
  have b3 : g.j0 < roundHalfEven y := by exact_mod_cast a3
  have b4 : roundHalfEven y < g.j1 := by exact_mod_cast a4
  unfold GridM.cellI GridM.cellJ
  omega

/-- **z2s_in_bounds**: for a particle in the valid region, at any depth, the level look-up
    reads inside `z_r` and returns `1 ≤ K ≤ N − 1` -/
theorem z2s_in_bounds (g : GridM) (N : Int) (hc : ColumnsOK g N) (x y z : Rat)
    (h : g.ingrid x y = true) : ∃ K A, levelOf g x y z = some (K, A) ∧ 1 ≤ K ∧ K < N := by
  obtain ⟨c1, c2, c3, c4⟩ := cell_in_window g x y h
  obtain ⟨col, hcol, hlen⟩ := column_some g N hc _ _ ⟨c3, c4⟩ ⟨c1, c2⟩
  have hN : 2 ≤ col.length := by have := hc.1; omega
  obtain ⟨K, A, hKA, hK1, hK2⟩ := z2sCol_some col z hN
  refine ⟨K, A, ?_, hK1, by omega⟩
  simp only [levelOf, z2s, roundHalfEven_intCast, hcol, Option.bind_some, hKA]

/-- **sampleVel_in_bounds**: a particle whose level column was fixed at a position of the valid
    region, sampled at any position of the clip box (its own, or a clipped stage position), at
    any depth: no read outside any array. -/
theorem sampleVel_in_bounds (g : GridM) (U V : Field3) (N : Int) (hc : ColumnsOK g N)
    (hU : Shape3 U N (g.j1 - g.j0) (g.i1 - g.i0 + 1)) (hV : Shape3 V N (g.j1 - g.j0 + 1) (g.i1 - g.i0))
    (sign x0 y0 z x y : Rat) (h0 : g.ingrid x0 y0 = true) (hb : InBox g x y) :
    ∃ uv, sampleVel g U V sign x0 y0 z x y = some uv := by
  obtain ⟨K, A, hl, hK⟩ := z2s_in_bounds g N hc x0 y0 z h0
  obtain ⟨⟨u, v⟩, huv⟩ := uv_in_bounds g U V N hU hV x y hb K A hK
  simp only [sampleVel, hl, huv, bind, Option.bind_some, pure]
  exact ⟨_, rfl⟩

/-- **nearest_in_bounds**: scalar forcing of a particle in the valid region reads inside -/
theorem scalar_in_bounds (g : GridM) (F : Field3) (N : Int) (hc : ColumnsOK g N)
    (hF : Shape3 F N (g.j1 - g.j0) (g.i1 - g.i0)) (x y z : Rat) (h : g.ingrid x y = true) :
    ∃ v, sampleScalar g F x y z = some v := by
  obtain ⟨K, A, hl, hK⟩ := z2s_in_bounds g N hc x y z h
  obtain ⟨c1, c2, c3, c4⟩ := cell_in_window g x y h
  obtain ⟨v, hv⟩ := get3_some F N _ _ hF K (g.cellJ y) (g.cellI x) ⟨by omega, hK.2⟩ ⟨c3, c4⟩ ⟨c1, c2⟩
  exact ⟨v, by simp only [sampleScalar, hl, bind, Option.bind_some, nearest, roundHalfEven_intCast, hv]⟩

/-- **metric_depth_mask_in_bounds** -/
theorem metric_depth_mask_in_bounds (g : GridM)
    (hH : Shape2 g.H (g.j1 - g.j0) (g.i1 - g.i0)) (hM : Shape2 g.M (g.j1 - g.j0) (g.i1 - g.i0))
    (hd : Shape2 g.dx (g.j1 - g.j0) (g.i1 - g.i0)) (x y : Rat) (h : g.ingrid x y = true) :
    (∃ a, g.metric x y = some a) ∧ (∃ b, g.depth x y = some b) ∧ (∃ c, g.atsea x y = some c) := by
  obtain ⟨c1, c2, c3, c4⟩ := cell_in_window g x y h
  obtain ⟨a, ha⟩ := get2_some g.dx _ _ hd (g.cellJ y) (g.cellI x) ⟨c3, c4⟩ ⟨c1, c2⟩
  obtain ⟨b, hb⟩ := get2_some g.H _ _ hH (g.cellJ y) (g.cellI x) ⟨c3, c4⟩ ⟨c1, c2⟩
  obtain ⟨c, hc⟩ := get2_some g.M _ _ hM (g.cellJ y) (g.cellI x) ⟨c3, c4⟩ ⟨c1, c2⟩
  refine ⟨⟨a, ha⟩, ⟨b, hb⟩, ?_⟩
  simp only [GridM.atsea, hc, Option.map_some]
  exact ⟨_, rfl⟩

/-- every scheme evaluates its stage velocities for an oracle that is defined on the clip box -/
theorem advect_some (s : Scheme) (g : GridM) (vel : VelOracle)
    (hw : g.xmin + 1/100 ≤ g.xmax - 1/100 ∧ g.ymin + 1/100 ≤ g.ymax - 1/100)
    (hvel : ∀ fr x y, InBox g x y → ∃ uv, vel fr x y = some uv)
    (x y hx hy : Rat) (hb : InBox g x y) : ∃ uv, advect s g vel x y hx hy = some uv := by
  cases s with
  | none => exact ⟨(0, 0), rfl⟩
  | EF => exact hvel 0 x y hb
  | RK2 =>
    obtain ⟨⟨u1, v1⟩, e1⟩ := hvel 0 x y hb
    have hb1 := stage_positions_clipped g x y u1 v1 (1/2) hx hy hw
    simp only [advect, e1, bind, Option.bind_some]
    generalize stage g x y u1 v1 (1/2) hx hy = p1 at hb1 ⊢
    obtain ⟨x1, y1⟩ := p1
    exact hvel (1/2) x1 y1 hb1
  | RK4 =>
    obtain ⟨⟨u1, v1⟩, e1⟩ := hvel 0 x y hb
    have hb1 := stage_positions_clipped g x y u1 v1 (1/2) hx hy hw
    simp only [advect, e1, bind, Option.bind_some]
    generalize stage g x y u1 v1 (1/2) hx hy = p1 at hb1 ⊢
    obtain ⟨x1, y1⟩ := p1
    obtain ⟨⟨u2, v2⟩, e2⟩ := hvel (1/2) x1 y1 hb1
    have hb2 := stage_positions_clipped g x y u2 v2 (1/2) hx hy hw
    simp only [e2, Option.bind_some]
    generalize stage g x y u2 v2 (1/2) hx hy = p2 at hb2 ⊢
    obtain ⟨x2, y2⟩ := p2
    obtain ⟨⟨u3, v3⟩, e3⟩ := hvel (1/2) x2 y2 hb2
    have hb3 := stage_positions_clipped g x y u3 v3 1 hx hy hw
    simp only [e3, Option.bind_some]
    generalize stage g x y u3 v3 1 hx hy = p3 at hb3 ⊢
    obtain ⟨x3, y3⟩ := p3
    obtain ⟨⟨u4, v4⟩, e4⟩ := hvel 1 x3 y3 hb3
    simp only [e4, Option.bind_some, pure]
    exact ⟨_, rfl⟩

/-- **advect_in_bounds**: with the ROMS sampler as the oracle, every scheme evaluates all its
    stage velocities without a read outside the arrays, from any start position in the valid
    region, for any time step and metric. -/
theorem advect_in_bounds (s : Scheme) (g : GridM) (U V : Rat → Field3) (N : Int) (hc : ColumnsOK g N)
    (hU : ∀ fr, Shape3 (U fr) N (g.j1 - g.j0) (g.i1 - g.i0 + 1))
    (hV : ∀ fr, Shape3 (V fr) N (g.j1 - g.j0 + 1) (g.i1 - g.i0))
    (sign x0 y0 z hx hy : Rat) (h0 : g.ingrid x0 y0 = true) :
    ∃ uv, advect s g (fun fr x y => sampleVel g (U fr) (V fr) sign x0 y0 z x y) x0 y0 hx hy = some uv := by
  obtain ⟨h1, h2, h3, h4⟩ := ingrid_iff g x0 y0 h0
  exact advect_some s g _ ⟨by linarith, by linarith⟩
    (fun fr x y hb => sampleVel_in_bounds g (U fr) (V fr) N hc (hU fr) (hV fr) sign x0 y0 z x y h0 hb)
    x0 y0 hx hy (ingrid_in_box g x0 y0 h0)

/-- why `N ≥ 2` is needed (finding F13): with one level `K = 1` or `K = 0`, and the trilinear
    sampler then reads level 1 resp. −1 of a one-level array -/
theorem one_level_reads_outside (v : Rat) (x y A : Rat) :
    trilinear [[[v, v], [v, v]]] x y 1 A = none ∧ trilinear [[[v, v], [v, v]]] x y 0 A = none := by
  have h1 : ∀ j i, get3 [[[v, v], [v, v]]] 1 j i = none := fun j i => rfl
  have hm : ∀ j i, get3 [[[v, v], [v, v]]] (0 - 1) j i = none := fun j i => rfl
  constructor
  · simp only [trilinear, bind, h1, Option.bind_none]
    cases get3 [[[v, v], [v, v]]] (1 - 1) (pyTrunc y) (pyTrunc x) <;> rfl
  · simp only [trilinear, bind, hm, Option.bind_none]

end Ladim.C17
