import Ladim.Model.Release
import Mathlib.Tactic.Linarith
import Mathlib.Data.List.Basic
/-
C04 — release accounting.  Property theorems about `Ladim.Model.Release`
(`ParticleReleaser.__init__`, `discretize`, `update`, `__next__` of `ladim/release.py`).

Quantification: every release table sorted in simulation order with its times on the model time
grid (continuous mode: on the release-frequency grid anchored at the first file time), any
number of rows per time, any `mult ≥ 0`, any extra columns, every window, both directions.
-/

namespace Ladim.C04
open Ladim Rel

/-- start inclusive, stop exclusive, in simulation order -/
def inWindow (c : RelCfg) (t : Int) : Bool := !(before c.rev t c.start) && before c.rev t c.stop

/-- the table is sorted in simulation order (times never go back) -/
def SimSorted (rev : Bool) (rows : List RRow) : Prop :=
  rows.Pairwise (fun a b => before rev b.time a.time = false)

/-- every time of the table is on the model time grid -/
def OnGrid (c : RelCfg) (rows : List RRow) : Prop := ∀ r ∈ rows, c.dt ∣ r.time - c.start

/-- the model step of a time (`TimeKeeper.time2step`) -/
def stepOf (c : RelCfg) (t : Int) : Int :=
  if c.rev then Int.fdiv (c.start - t) c.dt else Int.fdiv (t - c.start) c.dt

/-- the row as it reaches the state: with the `release_time` column when that is a state variable -/
def decorate (c : RelCfg) (r : RRow) : RRow :=
  if c.releaseTimeCol then { r with cols := r.cols ++ [("release_time", Val.num r.time)] } else r

/-! ### helpers: distinct times -/

/-- one step of `index.unique()` -/
def ins (acc : List Int) (t : Int) : List Int := if acc.contains t then acc else acc ++ [t]

theorem uniqueTimes_eq (rows : List RRow) : uniqueTimes rows = (rows.map (·.time)).foldl ins [] := by
  unfold uniqueTimes; rw [List.foldl_map]; rfl

theorem mem_foldl_ins (l : List Int) : ∀ (acc : List Int) (t : Int),
    t ∈ l.foldl ins acc ↔ t ∈ acc ∨ t ∈ l := by
  induction l with
  | nil => simp
  | cons x l ih =>
    intro acc t
    simp only [List.foldl_cons, ih, ins]
    by_cases hx : x ∈ acc
    · simp only [List.contains_iff_mem, hx, if_true, List.mem_cons]
      constructor
      · rintro (h | h)
        · exact Or.inl h
        · exact Or.inr (Or.inr h)
      · rintro (h | h | h)
        · exact Or.inl h
        · exact Or.inl (h ▸ hx)
        · exact Or.inr h
    · simp only [List.contains_iff_mem, hx, if_false, List.mem_cons, List.mem_append]
      tauto

theorem mem_uniqueTimes (rows : List RRow) (t : Int) :
    t ∈ uniqueTimes rows ↔ ∃ x ∈ rows, x.time = t := by
  rw [uniqueTimes_eq, mem_foldl_ins]; simp

theorem foldl_ins_prefix (l : List Int) : ∀ (acc : List Int), ∃ m, l.foldl ins acc = acc ++ m := by
  induction l with
  | nil => intro acc; exact ⟨[], by simp⟩
  | cons x l ih =>
    intro acc
    simp only [List.foldl_cons, ins]
    split
    · exact ih acc
    · obtain ⟨m, hm⟩ := ih (acc ++ [x])
      exact ⟨x :: m, by rw [hm]; simp⟩

theorem pairwise_foldl_ins (rev : Bool) (l : List Int) : ∀ (acc : List Int),
    acc.Pairwise (fun a b => before rev a b = true) →
    l.Pairwise (fun a b => before rev b a = false) →
    (∀ a ∈ acc, ∀ x ∈ l, before rev x a = false) →
    (l.foldl ins acc).Pairwise (fun a b => before rev a b = true) := by
  induction l with
  | nil => intro acc h _ _; simpa using h
  | cons x l ih =>
    intro acc hacc hl hal
    rw [List.pairwise_cons] at hl
    simp only [List.foldl_cons, ins]
    by_cases hx : x ∈ acc
    · simp only [List.contains_iff_mem, hx, if_true]
      exact ih acc hacc hl.2 (fun a ha y hy => hal a ha y (List.mem_cons_of_mem _ hy))
    · simp only [List.contains_iff_mem, hx, if_false]
      apply ih _ _ hl.2
      · intro a ha y hy
        rcases List.mem_append.1 ha with ha | ha
        · exact hal a ha y (List.mem_cons_of_mem _ hy)
        · rw [List.mem_singleton] at ha; subst ha; exact hl.1 y hy
      · rw [List.pairwise_append]
        refine ⟨hacc, by simp, ?_⟩
        intro a ha b hb
        rw [List.mem_singleton] at hb; subst hb
        have h1 := hal a ha b (List.mem_cons_self ..)
        have h2 : a ≠ b := fun h => hx (h ▸ ha)
        revert h1; cases rev <;> simp [before] <;> omega

theorem uniqueTimes_sorted (rev : Bool) (rows : List RRow) (hs : SimSorted rev rows) :
    (uniqueTimes rows).Pairwise (fun a b => before rev a b = true) := by
  rw [uniqueTimes_eq]
  apply pairwise_foldl_ins rev _ [] (by simp) _ (by simp)
  rw [List.pairwise_map]; exact hs

theorem uniqueTimes_map_decorate (c : RelCfg) (W : List RRow) :
    uniqueTimes (W.map (decorate c)) = uniqueTimes W := by
  rw [uniqueTimes_eq, uniqueTimes_eq, List.map_map]
  congr 1
  apply List.map_congr_left
  intro x _
  simp only [Function.comp, decorate]; split <;> rfl


/-! ### helpers: the time grid -/

/-- signed displacement from the start in simulation direction -/
def sd (c : RelCfg) (t : Int) : Int := if c.rev then c.start - t else t - c.start

theorem before_iff_sd (c : RelCfg) (a b : Int) : before c.rev a b = true ↔ sd c a < sd c b := by
  unfold before sd; cases c.rev <;> simp

theorem before_false_iff_sd (c : RelCfg) (a b : Int) : before c.rev a b = false ↔ sd c b ≤ sd c a := by
  unfold before sd; cases c.rev <;> simp
  omega

theorem sd_start (c : RelCfg) : sd c c.start = 0 := by unfold sd; split <;> omega

theorem sd_inj (c : RelCfg) {a b : Int} (h : sd c a = sd c b) : a = b := by
  unfold sd at h; split at h <;> omega

theorem stepOf_mul (c : RelCfg) (hdt : 0 < c.dt) (t : Int) (h : c.dt ∣ t - c.start) :
    c.dt * stepOf c t = sd c t := by
  unfold stepOf sd
  split
  · rw [Int.fdiv_eq_ediv_of_nonneg _ (le_of_lt hdt)]
    have h' : c.dt ∣ c.start - t := by
      have := Int.dvd_neg.2 h; rwa [Int.neg_sub] at this
    exact Int.mul_ediv_cancel' h'
  · rw [Int.fdiv_eq_ediv_of_nonneg _ (le_of_lt hdt)]
    exact Int.mul_ediv_cancel' h

theorem stepOf_lt (c : RelCfg) (hdt : 0 < c.dt) {a b : Int} (ha : c.dt ∣ a - c.start)
    (hb : c.dt ∣ b - c.start) (h : before c.rev a b = true) : stepOf c a < stepOf c b := by
  rw [before_iff_sd, ← stepOf_mul c hdt a ha, ← stepOf_mul c hdt b hb] at h
  exact (Int.mul_lt_mul_left hdt).1 h

theorem stepOf_inj (c : RelCfg) (hdt : 0 < c.dt) {a b : Int} (ha : c.dt ∣ a - c.start)
    (hb : c.dt ∣ b - c.start) (h : stepOf c a = stepOf c b) : a = b := by
  apply sd_inj c
  rw [← stepOf_mul c hdt a ha, ← stepOf_mul c hdt b hb, h]

theorem stepOf_nonneg (c : RelCfg) (hdt : 0 < c.dt) {a : Int} (ha : c.dt ∣ a - c.start)
    (h : before c.rev a c.start = false) : 0 ≤ stepOf c a := by
  rw [before_false_iff_sd, sd_start, ← stepOf_mul c hdt a ha] at h
  by_contra hn
  have : c.dt * stepOf c a < c.dt * 0 := (Int.mul_lt_mul_left hdt).2 (by omega)
  omega

/-! ### helpers: `update` / `run` on a strictly increasing step list -/

theorem update_core (G : Int → List RRow) (tot : Nat) (pre post : List Int) (s : Int)
    (hpre : ∀ x ∈ pre, x < s) (hpost : post.Pairwise (· < ·)) (hge : ∀ x ∈ post, s ≤ x)
    (hG : ∀ k, k ∉ pre ++ post → G k = []) :
    ∃ pre' post', Rel.update ⟨pre ++ post, (pre ++ post).map G, pre.length, tot⟩ s
        = (⟨pre' ++ post', (pre' ++ post').map G, pre'.length, tot⟩, expand (G s))
      ∧ pre' ++ post' = pre ++ post ∧ (∀ x ∈ pre', x < s + 1) ∧ post'.Pairwise (· < ·)
      ∧ (∀ x ∈ post', s + 1 ≤ x) := by
  have hspre : s ∉ pre := fun h => lt_irrefl _ (hpre s h)
  cases post with
  | nil =>
    refine ⟨pre, [], ?_, rfl, fun x hx => by have := hpre x hx; omega, hpost, by simp⟩
    have : G s = [] := hG s (by simpa using hspre)
    simp [Rel.update, hspre, this, expand]
  | cons p post' =>
    rw [List.pairwise_cons] at hpost
    by_cases hp : p = s
    · subst hp
      refine ⟨pre ++ [p], post', ?_, by simp, ?_, hpost.2, ?_⟩
      · simp [Rel.update]
      · intro x hx
        rcases List.mem_append.1 hx with hx | hx
        · have := hpre x hx; omega
        · simp at hx; omega
      · intro x hx; have := hpost.1 x hx; omega
    · have hps : s < p := by
        have := hge p (List.mem_cons_self ..); omega
      have hs' : s ∉ p :: post' := by
        intro h
        rcases List.mem_cons.1 h with h | h
        · exact hp h.symm
        · have := hpost.1 s h; omega
      refine ⟨pre, p :: post', ?_, rfl, fun x hx => by have := hpre x hx; omega,
        List.pairwise_cons.2 hpost, ?_⟩
      · have : G s = [] := hG s (by simp only [List.mem_append, not_or]; exact ⟨hspre, hs'⟩)
        have h2 : ¬ s = p := fun h => hp h.symm
        have h3 : s ∉ post' := fun h => hs' (List.mem_cons_of_mem _ h)
        simp [Rel.update, this, expand, hspre, h2, h3]
      · intro x hx
        rcases List.mem_cons.1 hx with hx | hx
        · omega
        · have := hpost.1 x hx; omega

theorem run_core (G : Int → List RRow) (tot : Nat) : ∀ (n : Nat) (pre post : List Int) (s : Int),
    (∀ x ∈ pre, x < s) → post.Pairwise (· < ·) → (∀ x ∈ post, s ≤ x) →
    (∀ k, k ∉ pre ++ post → G k = []) → ∀ k : Nat, k < n →
    (Rel.run ⟨pre ++ post, (pre ++ post).map G, pre.length, tot⟩ s n)[k]?
      = some (s + (k : Int), expand (G (s + (k : Int)))) := by
  intro n
  induction n with
  | zero => intro _ _ _ _ _ _ _ k hk; omega
  | succ n ih =>
    intro pre post s hpre hpost hge hG k hk
    obtain ⟨pre', post', hu, happ, hpre', hpost', hge'⟩ := update_core G tot pre post s hpre hpost hge hG
    simp only [Rel.run, hu]
    cases k with
    | zero => simp
    | succ k =>
      rw [List.getElem?_cons_succ, ih pre' post' (s + 1) hpre' hpost' hge' (happ ▸ hG) k (by omega)]
      have : s + 1 + (k : Int) = s + ((k + 1 : Nat) : Int) := by push_cast; omega
      rw [this]


/-! ### the releaser built from an already filtered table -/

/-- the releaser `init` builds from the filtered table `W` (cold start) -/
def build (c : RelCfg) (W : List RRow) : Rel :=
  { steps := (uniqueTimes (W.map (decorate c))).map (stepOf c),
    groups := (uniqueTimes (W.map (decorate c))).map (fun t => (W.map (decorate c)).filter (·.time == t)),
    index := 0,
    total := ((W.map (decorate c)).map (·.mult)).foldl (· + ·) 0 }

theorem decorate_time (c : RelCfg) (x : RRow) : (decorate c x).time = x.time := by
  unfold decorate; split <;> rfl

theorem decorate_mult (c : RelCfg) (x : RRow) : (decorate c x).mult = x.mult := by
  unfold decorate; split <;> rfl

/-- `init` for a cold start: the two refusals, else `build` on the filtered table -/
theorem init_form (c : RelCfg) (rows : List RRow) (hw : c.warm = false) :
    Rel.init c rows =
      if (rows.filter (fun r => before c.rev r.time c.stop)).isEmpty then .error .exit3 else
      if ((if c.continuous then discretize c (rows.filter (fun r => before c.rev r.time c.stop))
            else rows.filter (fun r => before c.rev r.time c.stop)).filter
            (fun r => !(before c.rev r.time c.start))).isEmpty then .error .exit3
      else .ok (build c ((if c.continuous then discretize c (rows.filter (fun r => before c.rev r.time c.stop))
            else rows.filter (fun r => before c.rev r.time c.stop)).filter
            (fun r => !(before c.rev r.time c.start)))) := by
  have hdec : ∀ W : List RRow, (if c.releaseTimeCol then
      W.map (fun r => { r with cols := r.cols ++ [("release_time", Val.num r.time)] }) else W)
      = W.map (decorate c) := by
    intro W
    cases h : c.releaseTimeCol
    · have : decorate c = id := by funext r; simp [decorate, h]
      simp [this]
    · have : decorate c = fun r => { r with cols := r.cols ++ [("release_time", Val.num r.time)] } := by
        funext r; simp [decorate, h]
      simp [this]
  have htk : TK.time2step ⟨c.start, c.stop, c.dt, 0, c.rev, 0, 0, 0⟩ = stepOf c := rfl
  unfold Rel.init build
  simp only [hw, hdec, htk]
  simp

/-- the main lemma: a releaser built from a table sorted in simulation order, on the time
    grid and not before the start, releases at step `k` exactly the rows whose time has step `k` -/
theorem build_run (c : RelCfg) (W : List RRow) (hdt : 0 < c.dt) (hs : SimSorted c.rev W)
    (hg : OnGrid c W) (hst : ∀ x ∈ W, before c.rev x.time c.start = false) (n k : Nat) (hk : k < n) :
    ((build c W).run 0 n)[k]? = some ((k : Int),
      expand ((W.filter (fun x => stepOf c x.time == (k : Int))).map (decorate c))) := by
  let G : Int → List RRow := fun j => (W.filter (fun x => stepOf c x.time == j)).map (decorate c)
  have hgrid : ∀ t ∈ uniqueTimes W, c.dt ∣ t - c.start := by
    intro t ht
    obtain ⟨x, hx, rfl⟩ := (mem_uniqueTimes W t).1 ht
    exact hg x hx
  have hb : build c W = ⟨[] ++ (uniqueTimes W).map (stepOf c),
      ([] ++ (uniqueTimes W).map (stepOf c)).map G, ([] : List Int).length,
      ((W.map (decorate c)).map (·.mult)).foldl (· + ·) 0⟩ := by
    unfold build
    rw [uniqueTimes_map_decorate]
    simp only [List.nil_append, List.length_nil, List.map_map]
    congr 1
    apply List.map_congr_left
    intro t ht
    simp only [Function.comp, G]
    rw [List.filter_map]
    congr 1
    apply List.filter_congr
    intro x hx
    simp only [Function.comp, decorate_time]
    by_cases hxt : x.time = t
    · simp [hxt]
    · have : stepOf c x.time ≠ stepOf c t := fun h => hxt (stepOf_inj c hdt (hg x hx) (hgrid t ht) h)
      simp [hxt, this]
  rw [hb]
  have := run_core G (((W.map (decorate c)).map (·.mult)).foldl (· + ·) 0) n []
    ((uniqueTimes W).map (stepOf c)) 0 (by simp) ?_ ?_ ?_ k hk
  · simpa [G] using this
  · rw [List.pairwise_map]
    refine (uniqueTimes_sorted c.rev W hs).imp_of_mem ?_
    intro a b ha hb' hab
    exact stepOf_lt c hdt (hgrid a ha) (hgrid b hb') hab
  · intro x hx
    obtain ⟨t, ht, rfl⟩ := List.mem_map.1 hx
    obtain ⟨y, hy, rfl⟩ := (mem_uniqueTimes W t).1 ht
    exact stepOf_nonneg c hdt (hg y hy) (hst y hy)
  · intro j hj
    simp only [G, List.map_eq_nil_iff, List.filter_eq_nil_iff]
    intro x hx hxj
    apply hj
    simp only [List.nil_append, List.mem_map]
    exact ⟨x.time, (mem_uniqueTimes W _).2 ⟨x, hx, rfl⟩, by simpa using hxj⟩


theorem init_discrete (c : RelCfg) (rows : List RRow) (hc : c.continuous = false) (hw : c.warm = false) :
    Rel.init c rows = if (rows.filter (fun x => inWindow c x.time)).isEmpty then .error .exit3
      else .ok (build c (rows.filter (fun x => inWindow c x.time))) := by
  rw [init_form c rows hw]
  have hW : (rows.filter (fun r => before c.rev r.time c.stop)).filter
      (fun r => !(before c.rev r.time c.start)) = rows.filter (fun x => inWindow c x.time) := by
    rw [List.filter_filter]; rfl
  simp only [hc, Bool.false_eq_true, if_false, hW]
  by_cases h1 : (rows.filter (fun r => before c.rev r.time c.stop)).isEmpty
  · have h2 : (rows.filter (fun x => inWindow c x.time)).isEmpty := by
      rw [← hW]
      rw [List.isEmpty_iff] at h1 ⊢
      rw [h1]; rfl
    simp [h1, h2]
  · simp [h1]

/-- **init_accepts_iff** (discrete, cold start): the set-up is accepted iff some row lies in
    the simulated window `[start, stop)`; otherwise it is refused with exit 3 at start-up. -/
theorem init_accepts_iff (c : RelCfg) (rows : List RRow) (hc : c.continuous = false) (hw : c.warm = false) :
    (∃ r, Rel.init c rows = .ok r) ↔ ∃ x ∈ rows, inWindow c x.time = true := by
  rw [init_discrete c rows hc hw]
  by_cases h : (rows.filter (fun x => inWindow c x.time)).isEmpty
  · simp only [h, if_true]
    rw [List.isEmpty_iff, List.filter_eq_nil_iff] at h
    constructor
    · rintro ⟨r, hr⟩; cases hr
    · rintro ⟨x, hx, hxw⟩; exact absurd hxw (h x hx)
  · simp only [h]
    rw [List.isEmpty_iff, List.filter_eq_nil_iff] at h
    constructor
    · intro _
      by_contra hn
      apply h
      intro a ha haw
      exact hn ⟨a, ha, haw⟩
    · intro _; exact ⟨_, rfl⟩

theorem init_refuses (c : RelCfg) (rows : List RRow) (hc : c.continuous = false) (hw : c.warm = false)
    (h : ∀ x ∈ rows, inWindow c x.time = false) : Rel.init c rows = .error .exit3 := by
  rw [init_discrete c rows hc hw]
  have : rows.filter (fun x => inWindow c x.time) = [] := by
    rw [List.filter_eq_nil_iff]; intro a ha; simp [h a ha]
  simp [this]

theorem init_discrete_ok (c : RelCfg) (rows : List RRow) (hc : c.continuous = false) (hw : c.warm = false)
    (r : Rel) (h : Rel.init c rows = .ok r) : r = build c (rows.filter (fun x => inWindow c x.time)) := by
  rw [init_discrete c rows hc hw] at h
  split at h
  · cases h
  · injection h with h; exact h.symm

/-- **released_at_step** (discrete mode): at model step `k` of a run exactly the rows whose
    release time lies in the window and falls on step `k` are released, each `mult` times, in
    file-row order, carrying the row's column values; at every other step nothing. -/
theorem released_at_step (c : RelCfg) (rows : List RRow) (hdt : 0 < c.dt) (hc : c.continuous = false)
    (hw : c.warm = false) (hs : SimSorted c.rev rows) (hg : OnGrid c rows) (r : Rel)
    (h : Rel.init c rows = .ok r) (n k : Nat) (hk : k < n) :
    (r.run 0 n)[k]? = some ((k : Int),
      expand ((rows.filter (fun x => inWindow c x.time && stepOf c x.time == (k : Int))).map (decorate c))) := by
  rw [init_discrete_ok c rows hc hw r h]
  rw [build_run c _ hdt (hs.sublist List.filter_sublist)
    (fun x hx => hg x (List.mem_of_mem_filter hx)) ?_ n k hk]
  · rw [List.filter_filter]
    have : rows.filter (fun a => stepOf c a.time == (k : Int) && inWindow c a.time)
        = rows.filter (fun x => inWindow c x.time && stepOf c x.time == (k : Int)) :=
      List.filter_congr (fun x _ => Bool.and_comm _ _)
    rw [this]
  · intro x hx
    have := (List.mem_filter.1 hx).2
    unfold inWindow at this
    simp only [Bool.and_eq_true, Bool.not_eq_true'] at this
    exact this.1

theorem mem_expand {g : List RRow} {p : RRow} (h : p ∈ expand g) : p ∈ g := by
  unfold expand at h
  rw [List.mem_flatMap] at h
  obtain ⟨a, ha, hp⟩ := h
  rw [List.mem_replicate] at hp
  exact hp.2 ▸ ha

/-- **outside_window_none**: whatever is released at step `k` comes from a row inside the
    window whose time falls on step `k` — rows outside the window produce nothing, at any step -/
theorem outside_window_none (c : RelCfg) (rows : List RRow) (hdt : 0 < c.dt) (hc : c.continuous = false)
    (hw : c.warm = false) (hs : SimSorted c.rev rows) (hg : OnGrid c rows) (r : Rel)
    (h : Rel.init c rows = .ok r) (n k : Nat) (hk : k < n) (out : List RRow)
    (hout : (r.run 0 n)[k]? = some ((k : Int), out)) :
    ∀ p ∈ out, ∃ y ∈ rows, inWindow c y.time = true ∧ stepOf c y.time = (k : Int) ∧ p = decorate c y := by
  rw [released_at_step c rows hdt hc hw hs hg r h n k hk] at hout
  injection hout with hout
  injection hout with _ hout
  subst hout
  intro p hp
  obtain ⟨y, hy, rfl⟩ := List.mem_map.1 (mem_expand hp)
  rw [List.mem_filter] at hy
  simp only [Bool.and_eq_true, beq_iff_eq] at hy
  exact ⟨y, hy.1, hy.2.1, hy.2.2, rfl⟩

theorem foldl_add_eq_sum (l : List Nat) : l.foldl (· + ·) 0 = l.sum := by
  rw [List.sum_eq_foldl]

/-- a row is released exactly `mult` times (so `mult = 0` rows contribute nothing) -/
theorem expand_count (g : List RRow) (x : RRow) [DecidableEq RRow] :
    (expand g).count x = ((g.filter (· == x)).map (·.mult)).foldl (· + ·) 0 := by
  rw [foldl_add_eq_sum]
  unfold expand
  rw [List.count_flatMap]
  induction g with
  | nil => simp
  | cons a g ih =>
    rw [List.map_cons, List.sum_cons, ih, List.filter_cons]
    by_cases hax : a = x
    · subst hax; simp
    · simp [hax, List.count_replicate]

/-- the total particle count announced at start-up is the number of particles the run releases
    (when the run covers all release steps) -/
theorem total_is_sum (c : RelCfg) (rows : List RRow) (hc : c.continuous = false) (hw : c.warm = false)
    (r : Rel) (h : Rel.init c rows = .ok r) :
    r.total = ((rows.filter (fun x => inWindow c x.time)).map (·.mult)).foldl (· + ·) 0 := by
  rw [init_discrete_ok c rows hc hw r h]
  unfold build
  simp only [List.map_map]
  congr 1
  apply List.map_congr_left
  intro x _
  exact decorate_mult c x


/-! ### continuous mode -/

/-- the tick grid: `first file time + k·freq` in simulation direction -/
def isTick (c : RelCfg) (t0 t : Int) : Bool :=
  decide (c.freq ∣ t - t0) && !(before c.rev t t0)

/-- the file time in force at tick `t`: the latest file time at or before it (simulation order) -/
def fileTimeAt (c : RelCfg) (rows : List RRow) (t : Int) : Option Int :=
  ((uniqueTimes rows).filter (fun ft => !(before c.rev t ft))).getLast?

/-- signed tick step -/
def tickStep (c : RelCfg) : Int := if c.rev then -c.freq else c.freq

/-- the rows in force at tick `t` (their own file time) -/
def curAt (c : RelCfg) (r1 : List RRow) (t : Int) : List RRow :=
  match fileTimeAt c r1 t with
  | some ft => r1.filter (fun x => x.time == ft)
  | none => []

/-- the rows `discretize` emits for tick `t` -/
def rowsAt (c : RelCfg) (r1 : List RRow) (t : Int) : List RRow :=
  (curAt c r1 t).map (fun x => { x with time := t })

theorem rowsAt_time {c : RelCfg} {r1 : List RRow} {t : Int} {x : RRow} (h : x ∈ rowsAt c r1 t) :
    x.time = t := by
  unfold rowsAt at h
  obtain ⟨y, _, rfl⟩ := List.mem_map.1 h
  rfl

/-- one step of the forward fill in `discretize` -/
def dstep (r1 : List RRow) (acc : List RRow × List RRow) (tick : Int) : List RRow × List RRow :=
  let cur := if (uniqueTimes r1).contains tick then r1.filter (·.time == tick) else acc.2
  (acc.1 ++ cur.map (fun r => { r with time := tick }), cur)

theorem dstep_eq (r1 : List RRow) (acc : List RRow × List RRow) (tick : Int) :
    dstep r1 acc tick =
      (acc.1 ++ (if (uniqueTimes r1).contains tick then r1.filter (·.time == tick) else acc.2).map
          (fun r => { r with time := tick }),
        if (uniqueTimes r1).contains tick then r1.filter (·.time == tick) else acc.2) := rfl

theorem discretize_def (c : RelCfg) (r1 : List RRow) (t0 : Int) (tl : List Int)
    (h : uniqueTimes r1 = t0 :: tl) :
    discretize c r1 = ((arangeInt t0 c.stop (tickStep c)).foldl (dstep r1) ([], [])).1 := by
  unfold discretize
  split
  · rename_i h'; rw [h] at h'; cases h'
  · rename_i t0' tl' h'
    rw [h] at h'
    injection h' with h1 h2
    subst h1
    rfl

theorem arange_form (a b s : Int) :
    ∃ N : Nat, arangeInt a b s = (List.range N).map (fun k : Nat => a + s * (k : Int)) := by
  unfold arangeInt
  split_ifs
  · exact ⟨_, rfl⟩
  · exact ⟨0, rfl⟩
  · exact ⟨_, rfl⟩
  · exact ⟨0, rfl⟩
  · exact ⟨0, rfl⟩

theorem before_asymm {rev : Bool} {a b : Int} (h : before rev a b = true) : before rev b a = false := by
  revert h; cases rev <;> simp [before] <;> omega

theorem before_irrefl (rev : Bool) (a : Int) : before rev a a = false := by
  cases rev <;> simp [before]

theorem getLast_filter_self (rev : Bool) (L : List Int)
    (hL : L.Pairwise (fun a b => before rev a b = true)) (t : Int) (ht : t ∈ L) :
    (L.filter (fun ft => !(before rev t ft))).getLast? = some t := by
  obtain ⟨A, B, rfl⟩ := List.append_of_mem ht
  rw [List.pairwise_append, List.pairwise_cons] at hL
  obtain ⟨_, ⟨hB, _⟩, hAB⟩ := hL
  have hA' : A.filter (fun ft => !(before rev t ft)) = A := by
    rw [List.filter_eq_self]
    intro a ha
    simp [before_asymm (hAB a ha t (List.mem_cons_self ..))]
  have hB' : B.filter (fun ft => !(before rev t ft)) = [] := by
    rw [List.filter_eq_nil_iff]
    intro b hb
    simp [hB b hb]
  rw [List.filter_append, List.filter_cons, hA', hB']
  simp [before_irrefl]

/-- the forward fill along the first `N` ticks: what has been emitted, and the current row set -/
theorem fold_inv (c : RelCfg) (r1 : List RRow) (t0 : Int)
    (hL : (uniqueTimes r1).Pairwise (fun a b => before c.rev a b = true))
    (ht0 : t0 ∈ uniqueTimes r1) (hf : 0 < c.freq)
    (hgrid : ∀ ft ∈ uniqueTimes r1, ∃ q : Int, ft = t0 + tickStep c * q) : ∀ N : Nat,
    (((List.range N).map (fun k : Nat => t0 + tickStep c * (k : Int))).foldl (dstep r1) ([], [])).1
      = ((List.range N).map (fun k : Nat => t0 + tickStep c * (k : Int))).flatMap (rowsAt c r1)
    ∧ ∀ M : Nat, N = M + 1 →
      (((List.range N).map (fun k : Nat => t0 + tickStep c * (k : Int))).foldl (dstep r1) ([], [])).2
        = curAt c r1 (t0 + tickStep c * (M : Int)) := by
  intro N
  induction N with
  | zero => simp
  | succ N ih =>
    rw [List.range_succ, List.map_append, List.foldl_append, List.flatMap_append]
    simp only [List.map_cons, List.map_nil, List.foldl_cons, List.foldl_nil, List.flatMap_cons,
      List.flatMap_nil, List.append_nil]
    have hcur : (if (uniqueTimes r1).contains (t0 + tickStep c * (N : Int))
          then r1.filter (·.time == t0 + tickStep c * (N : Int))
          else (((List.range N).map (fun k : Nat => t0 + tickStep c * (k : Int))).foldl
            (dstep r1) ([], [])).2) = curAt c r1 (t0 + tickStep c * (N : Int)) := by
      by_cases hmem : t0 + tickStep c * (N : Int) ∈ uniqueTimes r1
      · simp only [List.contains_iff_mem, hmem, if_true]
        unfold curAt fileTimeAt
        rw [getLast_filter_self c.rev _ hL _ hmem]
      · simp only [List.contains_iff_mem, hmem, if_false]
        cases N with
        | zero => exact absurd (by simpa using ht0) hmem
        | succ M =>
          rw [ih.2 M rfl]
          unfold curAt fileTimeAt
          have : (uniqueTimes r1).filter (fun ft => !(before c.rev (t0 + tickStep c * ((M + 1 : Nat) : Int)) ft))
              = (uniqueTimes r1).filter (fun ft => !(before c.rev (t0 + tickStep c * (M : Int)) ft)) := by
            apply List.filter_congr
            intro ft hft
            obtain ⟨q, rfl⟩ := hgrid ft hft
            have hne : q ≠ ((M + 1 : Nat) : Int) := by
              intro hq; apply hmem; rw [← hq]; exact hft
            congr 1
            unfold tickStep before
            push_cast at hne ⊢
            cases c.rev
            · simp only [Bool.false_eq_true, if_false]
              have h1 := @Int.mul_lt_mul_left c.freq ((M : Int) + 1) q hf
              have h2 := @Int.mul_lt_mul_left c.freq (M : Int) q hf
              by_cases hq : (M : Int) + 1 < q
              · have h3 : (M : Int) < q := by omega
                simp [h1.2 hq, h2.2 h3]
              · have h3 : ¬ (M : Int) < q := by omega
                have h4 := mt h1.1 hq
                have h5 := mt h2.1 h3
                simp [h4, h5]
            · simp only [if_true]
              have h1 := @Int.mul_lt_mul_left c.freq ((M : Int) + 1) q hf
              have h2 := @Int.mul_lt_mul_left c.freq (M : Int) q hf
              simp only [Int.neg_mul, add_lt_add_iff_left, neg_lt_neg_iff]
              by_cases hq : (M : Int) + 1 < q
              · have h3 : (M : Int) < q := by omega
                simp [h1.2 hq, h2.2 h3]
              · have h3 : ¬ (M : Int) < q := by omega
                have h4 := mt h1.1 hq
                have h5 := mt h2.1 h3
                simp [h4, h5]
          rw [this]
    constructor
    · rw [dstep_eq, hcur, ih.1]
      rfl
    · intro M hM
      have : N = M := by omega
      subst this
      rw [dstep_eq, hcur]

/-- **discretize, characterised**: tick by tick in order, the rows of the file time in force
    (`fileTimeAt`) with `time :=` the tick -/
theorem discretize_eq (c : RelCfg) (r1 : List RRow) (t0 : Int) (tl : List Int)
    (h0 : uniqueTimes r1 = t0 :: tl) (hs : SimSorted c.rev r1) (hf : 0 < c.freq)
    (hg : ∀ x ∈ r1, c.freq ∣ x.time - t0) :
    discretize c r1 = (arangeInt t0 c.stop (tickStep c)).flatMap (rowsAt c r1) := by
  rw [discretize_def c r1 t0 tl h0]
  obtain ⟨N, hN⟩ := arange_form t0 c.stop (tickStep c)
  rw [hN]
  refine (fold_inv c r1 t0 (uniqueTimes_sorted c.rev r1 hs) (by rw [h0]; simp) hf ?_ N).1
  intro ft hft
  obtain ⟨x, hx, rfl⟩ := (mem_uniqueTimes r1 ft).1 hft
  obtain ⟨q, hq⟩ := hg x hx
  unfold tickStep
  cases c.rev
  · exact ⟨q, by simp only [Bool.false_eq_true, if_false]; omega⟩
  · exact ⟨-q, by simp only [if_true, Int.neg_mul, Int.mul_neg, neg_neg]; omega⟩


theorem mem_arange_pos (a b s t : Int) (hs : 0 < s) :
    t ∈ arangeInt a b s ↔ s ∣ t - a ∧ a ≤ t ∧ t < b := by
  unfold arangeInt
  simp only [gt_iff_lt, hs, if_true]
  split
  · rename_i hab
    simp only [List.mem_map, List.mem_range, Int.lt_toNat]
    constructor
    · rintro ⟨j, hj, rfl⟩
      have h1 : (j : Int) + 1 ≤ (b - a + s - 1) / s := by omega
      rw [Int.le_ediv_iff_mul_le hs] at h1
      have h2 : ((j : Int) + 1) * s = s * j + s := by rw [Int.add_mul, Int.one_mul, Int.mul_comm]
      have h3 : 0 ≤ s * (j : Int) := Int.mul_nonneg (le_of_lt hs) (Int.natCast_nonneg j)
      exact ⟨⟨j, by omega⟩, by omega, by omega⟩
    · rintro ⟨⟨q, hq⟩, h1, h2⟩
      have hq0 : 0 ≤ q := by
        by_contra hn
        have : s * q < s * 0 := (Int.mul_lt_mul_left hs).2 (by omega)
        omega
      refine ⟨q.toNat, ?_, ?_⟩
      · rw [Int.toNat_of_nonneg hq0]
        have : q + 1 ≤ (b - a + s - 1) / s := by
          rw [Int.le_ediv_iff_mul_le hs]
          have h2 : (q + 1) * s = s * q + s := by rw [Int.add_mul, Int.one_mul, Int.mul_comm]
          omega
        omega
      · rw [Int.toNat_of_nonneg hq0]; omega
  · simp only [List.not_mem_nil, false_iff]
    rintro ⟨_, h1, h2⟩; omega

theorem mem_arange_neg (a b s t : Int) (hs : 0 < s) :
    t ∈ arangeInt a b (-s) ↔ s ∣ t - a ∧ t ≤ a ∧ b < t := by
  unfold arangeInt
  have h1 : ¬ (-s > 0) := by omega
  have h2 : -s < 0 := by omega
  simp only [h1, h2, if_true, if_false, neg_neg]
  split
  · rename_i hab
    simp only [List.mem_map, List.mem_range, Int.lt_toNat]
    constructor
    · rintro ⟨j, hj, rfl⟩
      have h1 : (j : Int) + 1 ≤ (a - b + s - 1) / s := by omega
      rw [Int.le_ediv_iff_mul_le hs] at h1
      have h2 : ((j : Int) + 1) * s = s * j + s := by rw [Int.add_mul, Int.one_mul, Int.mul_comm]
      have h3 : 0 ≤ s * (j : Int) := Int.mul_nonneg (le_of_lt hs) (Int.natCast_nonneg j)
      have h4 : -s * (j : Int) = -(s * j) := Int.neg_mul _ _
      exact ⟨⟨-j, by rw [h4]; simp⟩, by omega, by omega⟩
    · rintro ⟨⟨q, hq⟩, h1, h2⟩
      have hq0 : 0 ≤ -q := by
        by_contra hn
        have : s * 0 < s * q := (Int.mul_lt_mul_left hs).2 (by omega)
        omega
      refine ⟨(-q).toNat, ?_, ?_⟩
      · rw [Int.toNat_of_nonneg hq0]
        have : -q + 1 ≤ (a - b + s - 1) / s := by
          rw [Int.le_ediv_iff_mul_le hs]
          have h2 : (-q + 1) * s = -(s * q) + s := by rw [Int.add_mul, Int.one_mul, Int.neg_mul, Int.mul_comm]
          omega
        omega
      · rw [Int.toNat_of_nonneg hq0]
        have h4 : -s * -q = s * q := Int.neg_mul_neg _ _
        omega
  · simp only [List.not_mem_nil, false_iff]
    rintro ⟨_, h1, h2⟩; omega

/-- the ticks of `discretize` are the tick-grid times before the stop -/
theorem mem_ticks (c : RelCfg) (hf : 0 < c.freq) (t0 t : Int) :
    t ∈ arangeInt t0 c.stop (tickStep c) ↔ isTick c t0 t = true ∧ before c.rev t c.stop = true := by
  unfold tickStep isTick before
  cases c.rev
  · simp only [Bool.false_eq_true, if_false, mem_arange_pos _ _ _ _ hf, Bool.and_eq_true,
      decide_eq_true_eq, Bool.not_eq_true', decide_eq_false_iff_not]
    constructor
    · rintro ⟨h1, h2, h3⟩; exact ⟨⟨h1, by omega⟩, h3⟩
    · rintro ⟨⟨h1, h2⟩, h3⟩; exact ⟨h1, by omega, h3⟩
  · simp only [if_true, mem_arange_neg _ _ _ _ hf, Bool.and_eq_true,
      decide_eq_true_eq, Bool.not_eq_true', decide_eq_false_iff_not]
    constructor
    · rintro ⟨h1, h2, h3⟩; exact ⟨⟨h1, by omega⟩, h3⟩
    · rintro ⟨⟨h1, h2⟩, h3⟩; exact ⟨h1, by omega, h3⟩

/-- the ticks are strictly increasing in simulation order -/
theorem ticks_sorted (c : RelCfg) (hf : 0 < c.freq) (t0 : Int) :
    (arangeInt t0 c.stop (tickStep c)).Pairwise (fun a b => before c.rev a b = true) := by
  obtain ⟨N, hN⟩ := arange_form t0 c.stop (tickStep c)
  rw [hN, List.pairwise_map]
  refine (List.pairwise_lt_range (n := N)).imp ?_
  intro i j hij
  have h := (@Int.mul_lt_mul_left c.freq (i : Int) (j : Int) hf).2 (by exact_mod_cast hij)
  unfold tickStep before
  cases c.rev
  · simp only [Bool.false_eq_true, if_false, decide_eq_true_eq]; omega
  · simp only [if_true, decide_eq_true_eq, Int.neg_mul]; omega

theorem flatMap_single {α β : Type} [DecidableEq α] (l : List α) (hnd : l.Nodup) (t : α)
    (F : α → List β) (hF : ∀ a ∈ l, a ≠ t → F a = []) :
    l.flatMap F = if t ∈ l then F t else [] := by
  induction l with
  | nil => simp
  | cons a l ih =>
    rw [List.nodup_cons] at hnd
    rw [List.flatMap_cons, ih hnd.2 (fun b hb => hF b (List.mem_cons_of_mem _ hb))]
    by_cases hat : a = t
    · subst hat
      simp [hnd.1]
    · have : t ≠ a := fun h => hat h.symm
      simp [hF a (List.mem_cons_self ..) hat, this]

theorem stepOf_step2time (c : RelCfg) (hdt : 0 < c.dt) (k : Int) :
    stepOf c (if c.rev then c.start - k * c.dt else c.start + k * c.dt) = k := by
  unfold stepOf
  cases c.rev
  · simp only [Bool.false_eq_true, if_false]
    rw [Int.fdiv_eq_ediv_of_nonneg _ (le_of_lt hdt)]
    have : c.start + k * c.dt - c.start = k * c.dt := by omega
    rw [this, Int.mul_ediv_cancel _ (ne_of_gt hdt)]
  · simp only [if_true]
    rw [Int.fdiv_eq_ediv_of_nonneg _ (le_of_lt hdt)]
    have : c.start - (c.start - k * c.dt) = k * c.dt := by omega
    rw [this, Int.mul_ediv_cancel _ (ne_of_gt hdt)]

theorem step2time_grid (c : RelCfg) (k : Int) :
    c.dt ∣ (if c.rev then c.start - k * c.dt else c.start + k * c.dt) - c.start := by
  cases c.rev
  · exact ⟨k, by simp only [Bool.false_eq_true, if_false]; rw [Int.mul_comm]; omega⟩
  · exact ⟨-k, by simp only [if_true]; rw [Int.mul_neg, Int.mul_comm]; omega⟩


/-- the first file time: every row is at or after it, and it stays the first distinct time of
    the table cut at the stop (when anything is left) -/
theorem head_facts (c : RelCfg) (rows : List RRow) (hs : SimSorted c.rev rows) (t0 : Int)
    (ht0 : (uniqueTimes rows).head? = some t0) :
    (∀ x ∈ rows, before c.rev x.time t0 = false) ∧
    (rows.filter (fun r => before c.rev r.time c.stop) ≠ [] →
      ∃ tl, uniqueTimes (rows.filter (fun r => before c.rev r.time c.stop)) = t0 :: tl) := by
  cases rows with
  | nil => simp [uniqueTimes] at ht0
  | cons x0 rest =>
    have hu : ∀ l : List RRow, ∃ m, uniqueTimes (x0 :: l) = x0.time :: m := by
      intro l
      rw [uniqueTimes_eq, List.map_cons, List.foldl_cons]
      obtain ⟨m, hm⟩ := foldl_ins_prefix (l.map (·.time)) (ins [] x0.time)
      exact ⟨m, by rw [hm]; simp [ins]⟩
    obtain ⟨m, hm⟩ := hu rest
    rw [hm] at ht0
    simp only [List.head?_cons, Option.some.injEq] at ht0
    subst ht0
    unfold SimSorted at hs
    rw [List.pairwise_cons] at hs
    have hall : ∀ x ∈ x0 :: rest, before c.rev x.time x0.time = false := by
      intro x hx
      rcases List.mem_cons.1 hx with rfl | hx
      · exact before_irrefl _ _
      · exact hs.1 x hx
    refine ⟨hall, ?_⟩
    intro hne
    obtain ⟨y, hy⟩ := List.exists_mem_of_ne_nil _ hne
    rw [List.mem_filter] at hy
    have h1 := hall y hy.1
    have h2 : before c.rev x0.time c.stop = true := by
      have h3 := hy.2
      revert h1 h3
      unfold before
      cases c.rev <;> simp <;> omega
    rw [List.filter_cons]
    simp only [h2, if_true]
    obtain ⟨m', hm'⟩ := hu (rest.filter (fun r => before c.rev r.time c.stop))
    exact ⟨m', hm'⟩

/-- **continuous_ticks**: in continuous mode, at every release-frequency tick (counted from the
    first file time) inside the window, the row set of the latest file time at or before the tick
    is released again (each row `mult` times, file-row order, release time = the tick); at every
    other step nothing. -/
theorem continuous_ticks (c : RelCfg) (rows : List RRow) (hdt : 0 < c.dt) (hf : 0 < c.freq)
    (hfd : c.dt ∣ c.freq) (hc : c.continuous = true) (hw : c.warm = false)
    (hs : SimSorted c.rev rows) (t0 : Int) (ht0 : (uniqueTimes rows).head? = some t0)
    (hg0 : c.dt ∣ t0 - c.start) (hg : ∀ x ∈ rows, c.freq ∣ x.time - t0)
    (r : Rel) (h : Rel.init c rows = .ok r) (n k : Nat) (hk : k < n) :
    let t : Int := if c.rev then c.start - k * c.dt else c.start + k * c.dt
    (r.run 0 n)[k]? = some ((k : Int),
      if isTick c t0 t && inWindow c t then
        match fileTimeAt c (rows.filter (fun x => before c.rev x.time c.stop)) t with
        | some ft => expand (((rows.filter (fun x => x.time == ft)).map (fun x => { x with time := t })).map (decorate c))
        | none => []
      else []) := by
  intro t
  rw [init_form c rows hw] at h
  simp only [hc, if_true] at h
  generalize hr1 : rows.filter (fun r => before c.rev r.time c.stop) = r1 at h ⊢
  split at h
  · cases h
  rename_i hne1
  split at h
  · cases h
  injection h with h
  subst h
  have hr1ne : r1 ≠ [] := by simpa [List.isEmpty_iff] using hne1
  obtain ⟨_, htl⟩ := head_facts c rows hs t0 ht0
  rw [hr1] at htl
  obtain ⟨tl, h0⟩ := htl hr1ne
  have hs1 : SimSorted c.rev r1 := by rw [← hr1]; exact hs.sublist List.filter_sublist
  have hD := discretize_eq c r1 t0 tl h0 hs1 hf
    (fun x hx => hg x (by rw [← hr1] at hx; exact List.mem_of_mem_filter hx))
  rw [hD]
  generalize hticks : arangeInt t0 c.stop (tickStep c) = ticks
  have hmt : ∀ τ, τ ∈ ticks ↔ isTick c t0 τ = true ∧ before c.rev τ c.stop = true := by
    intro τ; rw [← hticks]; exact mem_ticks c hf t0 τ
  have hts : ticks.Pairwise (fun a b => before c.rev a b = true) := by
    rw [← hticks]; exact ticks_sorted c hf t0
  have htick_grid : ∀ τ ∈ ticks, c.dt ∣ τ - c.start := by
    intro τ hτ
    have h1 := ((hmt τ).1 hτ).1
    unfold isTick at h1
    simp only [Bool.and_eq_true, decide_eq_true_eq] at h1
    have h2 : c.dt ∣ τ - t0 := Int.dvd_trans hfd h1.1
    have h3 : τ - c.start = (τ - t0) + (t0 - c.start) := by omega
    rw [h3]; exact Int.dvd_add h2 hg0
  have hDtime : ∀ x ∈ ticks.flatMap (rowsAt c r1), x.time ∈ ticks := by
    intro x hx
    obtain ⟨τ, hτ, hxτ⟩ := List.mem_flatMap.1 hx
    rw [rowsAt_time hxτ]; exact hτ
  have hDs : SimSorted c.rev (ticks.flatMap (rowsAt c r1)) := by
    unfold SimSorted
    rw [List.pairwise_flatMap]
    refine ⟨?_, ?_⟩
    · intro τ _
      unfold rowsAt
      rw [List.pairwise_map]
      exact List.pairwise_of_forall (fun _ _ => before_irrefl _ _)
    · refine hts.imp ?_
      intro a b hab x hx y hy
      rw [rowsAt_time hx, rowsAt_time hy]; exact before_asymm hab
  have htk : stepOf c t = (k : Int) := stepOf_step2time c hdt k
  have htg : c.dt ∣ t - c.start := step2time_grid c k
  rw [build_run c _ hdt (hDs.sublist List.filter_sublist)
    (fun x hx => htick_grid _ (hDtime x (List.mem_of_mem_filter hx)))
    (fun x hx => by simpa using (List.mem_filter.1 hx).2) n k hk]
  -- the rows on step `k`
  have hrt : ∀ x ∈ rowsAt c r1 t, (stepOf c x.time == (k : Int) && !(before c.rev x.time c.start))
      = !(before c.rev t c.start) := by
    intro x hx
    rw [rowsAt_time hx, htk]; simp
  have key : ((ticks.flatMap (rowsAt c r1)).filter (fun r => !(before c.rev r.time c.start))).filter
      (fun x => stepOf c x.time == (k : Int))
      = if (isTick c t0 t && inWindow c t) = true then rowsAt c r1 t else [] := by
    rw [List.filter_filter, List.filter_flatMap]
    rw [flatMap_single ticks (hts.imp (fun {a b} hab heq => by
        subst heq; rw [before_irrefl] at hab; cases hab)) t]
    · have hfl : (rowsAt c r1 t).filter
          (fun x => stepOf c x.time == (k : Int) && !(before c.rev x.time c.start))
          = if before c.rev t c.start = true then [] else rowsAt c r1 t := by
        split
        · rename_i hb
          rw [List.filter_eq_nil_iff]; intro x hx; rw [hrt x hx, hb]; simp
        · rename_i hb
          rw [List.filter_eq_self]; intro x hx; rw [hrt x hx]; simpa using hb
      rw [hfl]
      have hm := hmt t
      unfold inWindow
      cases hi : isTick c t0 t <;> cases hb : before c.rev t c.start <;>
        cases he : before c.rev t c.stop <;> simp [hi, he] at hm ⊢ <;> simp [hm]
    · intro τ hτ hne
      rw [List.filter_eq_nil_iff]
      intro x hx
      rw [rowsAt_time hx]
      simp only [Bool.and_eq_true, beq_iff_eq, not_and]
      intro hst
      exact absurd (stepOf_inj c hdt (htick_grid τ hτ) htg (hst.trans htk.symm)) hne
  rw [key]
  congr 2
  by_cases hcond : (isTick c t0 t && inWindow c t) = true
  · simp only [hcond, if_true]
    unfold rowsAt curAt
    cases hft : fileTimeAt c r1 t with
    | none => simp [expand]
    | some ft =>
      simp only []
      have hftm : ft ∈ uniqueTimes r1 := by
        unfold fileTimeAt at hft
        exact (List.mem_filter.1 (List.mem_of_getLast? hft)).1
      obtain ⟨y, hy, hyt⟩ := (mem_uniqueTimes r1 ft).1 hftm
      rw [← hr1] at hy
      have hstop : before c.rev ft c.stop = true := hyt ▸ (List.mem_filter.1 hy).2
      have : r1.filter (fun x => x.time == ft) = rows.filter (fun x => x.time == ft) := by
        rw [← hr1, List.filter_filter]
        apply List.filter_congr
        intro x _
        by_cases hx : x.time = ft
        · simp [hx, hstop]
        · simp [hx]
      rw [this]
  · simp only [hcond]
    simp [expand]


/-! non-vacuity -/
def exCfg : RelCfg := { start := 0, stop := 300, dt := 60, rev := false, continuous := false, freq := 60, warm := false, releaseTimeCol := false }
def exRows : List RRow := [⟨0, 2, [("X", .num 1)]⟩, ⟨120, 0, [("X", .num 2)]⟩, ⟨120, 1, [("X", .num 3)]⟩, ⟨300, 5, [("X", .num 4)]⟩]

example : (match Rel.init exCfg exRows with
    | .ok r => (r.run 0 5).map (fun p => p.2.length)
    | .error _ => []) = [2, 0, 1, 0, 0] := by decide +kernel

end Ladim.C04
