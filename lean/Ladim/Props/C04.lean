import Ladim.Model.Release
import Mathlib.Tactic.Linarith
import Mathlib.Data.List.Basic
/-
C04 — release accounting.  Property theorems about `Ladim.Model.Release`
(`ParticleReleaser.__init__`, `discretize`, `update`, `__next__` of `ladim/release.py`).

Quantification: every release table sorted in simulation order with its times on the model time
grid (continuous mode: on the release-frequency grid anchored at the first file time), any
number of rows per time, any `mult ≥ 0`, any extra columns, every window, both directions.
-/

namespace Ladim.C04
open Ladim Rel

/-- start inclusive, stop exclusive, in simulation order -/
def inWindow (c : RelCfg) (t : Int) : Bool := !(before c.rev t c.start) && before c.rev t c.stop

/-- the table is sorted in simulation order (times never go back) -/
def SimSorted (rev : Bool) (rows : List RRow) : Prop :=
  rows.Pairwise (fun a b => before rev b.time a.time = false)

/-- every time of the table is on the model time grid -/
def OnGrid (c : RelCfg) (rows : List RRow) : Prop := ∀ r ∈ rows, c.dt ∣ r.time - c.start

/-- the model step of a time (`TimeKeeper.time2step`) -/
def stepOf (c : RelCfg) (t : Int) : Int :=
  if c.rev then Int.fdiv (c.start - t) c.dt else Int.fdiv (t - c.start) c.dt

/-- the row as it reaches the state: with the `release_time` column when that is a state variable -/
def decorate (c : RelCfg) (r : RRow) : RRow :=
  if c.releaseTimeCol then { r with cols := r.cols ++ [("release_time", Val.num r.time)] } else r

/-- **init_accepts_iff** (discrete, cold start): the set-up is accepted iff some row lies in
    the simulated window `[start, stop)`; otherwise it is refused with exit 3 at start-up. -/
theorem init_accepts_iff (c : RelCfg) (rows : List RRow) (hc : c.continuous = false) (hw : c.warm = false) :
    (∃ r, Rel.init c rows = .ok r) ↔ ∃ x ∈ rows, inWindow c x.time = true := by
  sorry

theorem init_refuses (c : RelCfg) (rows : List RRow) (hc : c.continuous = false) (hw : c.warm = false)
    (h : ∀ x ∈ rows, inWindow c x.time = false) : Rel.init c rows = .error .exit3 := by
  sorry

/-- **released_at_step** (discrete mode): at model step `k` of a run exactly the rows whose
    release time lies in the window and falls on step `k` are released, each `mult` times, in
    file-row order, carrying the row's column values; at every other step nothing. -/
theorem released_at_step (c : RelCfg) (rows : List RRow) (hdt : 0 < c.dt) (hc : c.continuous = false)
    (hw : c.warm = false) (hs : SimSorted c.rev rows) (hg : OnGrid c rows) (r : Rel)
    (h : Rel.init c rows = .ok r) (n k : Nat) (hk : k < n) :
    (r.run 0 n)[k]? = some ((k : Int),
      expand ((rows.filter (fun x => inWindow c x.time && stepOf c x.time == (k : Int))).map (decorate c))) := by
  sorry

/-- **outside_window_none**: whatever is released at step `k` comes from a row inside the
    window whose time falls on step `k` — rows outside the window produce nothing, at any step -/
theorem outside_window_none (c : RelCfg) (rows : List RRow) (hdt : 0 < c.dt) (hc : c.continuous = false)
    (hw : c.warm = false) (hs : SimSorted c.rev rows) (hg : OnGrid c rows) (r : Rel)
    (h : Rel.init c rows = .ok r) (n k : Nat) (hk : k < n) (out : List RRow)
    (hout : (r.run 0 n)[k]? = some ((k : Int), out)) :
    ∀ p ∈ out, ∃ y ∈ rows, inWindow c y.time = true ∧ stepOf c y.time = (k : Int) ∧ p = decorate c y := by
  sorry

/-- a row is released exactly `mult` times (so `mult = 0` rows contribute nothing) -/
theorem expand_count (g : List RRow) (x : RRow) [DecidableEq RRow] :
    (expand g).count x = ((g.filter (· == x)).map (·.mult)).foldl (· + ·) 0 := by
  sorry

/-- the total particle count announced at start-up is the number of particles the run releases
    (when the run covers all release steps) -/
theorem total_is_sum (c : RelCfg) (rows : List RRow) (hc : c.continuous = false) (hw : c.warm = false)
    (r : Rel) (h : Rel.init c rows = .ok r) :
    r.total = ((rows.filter (fun x => inWindow c x.time)).map (·.mult)).foldl (· + ·) 0 := by
  sorry

/-! ### continuous mode -/

/-- the tick grid: `first file time + k·freq` in simulation direction -/
def isTick (c : RelCfg) (t0 t : Int) : Bool :=
  decide (c.freq ∣ t - t0) && !(before c.rev t t0)

/-- the file time in force at tick `t`: the latest file time at or before it (simulation order) -/
def fileTimeAt (c : RelCfg) (rows : List RRow) (t : Int) : Option Int :=
  ((uniqueTimes rows).filter (fun ft => !(before c.rev t ft))).getLast?

/-- **continuous_ticks**: in continuous mode, at every release-frequency tick (counted from the
    first file time) inside the window, the row set of the latest file time at or before the tick
    is released again (each row `mult` times, file-row order, release time = the tick); at every
    other step nothing. -/
theorem continuous_ticks (c : RelCfg) (rows : List RRow) (hdt : 0 < c.dt) (hf : 0 < c.freq)
    (hfd : c.dt ∣ c.freq) (hc : c.continuous = true) (hw : c.warm = false)
    (hs : SimSorted c.rev rows) (t0 : Int) (ht0 : (uniqueTimes rows).head? = some t0)
    (hg0 : c.dt ∣ t0 - c.start) (hg : ∀ x ∈ rows, c.freq ∣ x.time - t0)
    (r : Rel) (h : Rel.init c rows = .ok r) (n k : Nat) (hk : k < n) :
    let t : Int := if c.rev then c.start - k * c.dt else c.start + k * c.dt
    (r.run 0 n)[k]? = some ((k : Int),
      if isTick c t0 t && inWindow c t then
        match fileTimeAt c (rows.filter (fun x => before c.rev x.time c.stop)) t with
        | some ft => expand (((rows.filter (fun x => x.time == ft)).map (fun x => { x with time := t })).map (decorate c))
        | none => []
      else []) := by
  sorry

/-! non-vacuity -/
def exCfg : RelCfg := { start := 0, stop := 300, dt := 60, rev := false, continuous := false, freq := 60, warm := false, releaseTimeCol := false }
def exRows : List RRow := [⟨0, 2, [("X", .num 1)]⟩, ⟨120, 0, [("X", .num 2)]⟩, ⟨120, 1, [("X", .num 3)]⟩, ⟨300, 5, [("X", .num 4)]⟩]

example : (match Rel.init exCfg exRows with
    | .ok r => (r.run 0 5).map (fun p => p.2.length)
    | .error _ => []) = [2, 0, 1, 0, 0] := by decide +kernel

end Ladim.C04
