import Ladim.Props.C04
/-
C04 for a warm start: the release table of a run restarted `r` steps into the window.  The
restarted run has `start' = start ± r·dt`, the same stop and the same release file; its releaser
skips every release of the restart step (those particles are in the restart file).  For a
discrete release table sorted in simulation order with times on the model time grid, the
restarted run releases nothing at its step 0 and, at its step `k ≥ 1`, exactly what the
uninterrupted run releases at step `k + r` — same rows, same order, same column values.
-/

namespace Ladim.C04Warm
open Ladim Rel C04

/-- the releaser's configuration in the run restarted `r` steps into the window -/
def restartCfg (c : RelCfg) (r : Nat) : RelCfg :=
  { c with start := if c.rev then c.start - r * c.dt else c.start + r * c.dt, warm := true }

/-- the rows released at step `k` according to a release table (nothing if the step is absent) -/
def relAt (tab : List (Int × List RRow)) (k : Int) : List RRow := (tab.lookup k).getD []

/-! ### helpers: the restarted configuration against the original time grid -/

theorem decorate_restart (c : RelCfg) (r : Nat) : decorate (restartCfg c r) = decorate c := rfl

theorem sd_restart (c : RelCfg) (r : Nat) (t : Int) : sd (restartCfg c r) t = sd c t - r * c.dt := by
  unfold sd restartCfg
  cases c.rev <;> simp <;> omega

theorem sd_restart_start (c : RelCfg) (r : Nat) : sd c (restartCfg c r).start = c.dt * r := by
  unfold sd restartCfg
  rw [Int.mul_comm]
  cases c.rev <;> simp

theorem sd_restart_next (c : RelCfg) (r : Nat) :
    sd c (if (restartCfg c r).rev then (restartCfg c r).start - (restartCfg c r).dt
      else (restartCfg c r).start + (restartCfg c r).dt) = c.dt * (r + 1) := by
  unfold sd restartCfg
  rw [Int.mul_add, Int.mul_comm]
  cases c.rev <;> simp <;> omega

theorem grid_restart (c : RelCfg) (r : Nat) (t : Int) (h : c.dt ∣ t - c.start) :
    (restartCfg c r).dt ∣ t - (restartCfg c r).start := by
  show c.dt ∣ t - (if c.rev then c.start - r * c.dt else c.start + r * c.dt)
  obtain ⟨q, hq⟩ := h
  split
  · exact ⟨q + r, by rw [Int.mul_add, ← hq, Int.mul_comm c.dt r]; omega⟩
  · exact ⟨q - r, by rw [Int.mul_sub, ← hq, Int.mul_comm c.dt r]; omega⟩

theorem stepOf_restart (c : RelCfg) (hdt : 0 < c.dt) (r : Nat) (t : Int) (h : c.dt ∣ t - c.start) :
    stepOf (restartCfg c r) t = stepOf c t - r := by
  have h1 := stepOf_mul (restartCfg c r) hdt t (grid_restart c r t h)
  have h2 := stepOf_mul c hdt t h
  rw [sd_restart, ← h2] at h1
  change c.dt * _ = _ at h1
  apply Int.eq_of_mul_eq_mul_left (ne_of_gt hdt)
  rw [Int.mul_sub, h1, Int.mul_comm c.dt r]

theorem not_before_iff (c : RelCfg) (hdt : 0 < c.dt) (t b m : Int) (h : c.dt ∣ t - c.start)
    (hb : sd c b = c.dt * m) : before c.rev t b = false ↔ m ≤ stepOf c t := by
  rw [before_false_iff_sd, ← stepOf_mul c hdt t h, hb]
  exact Int.mul_le_mul_left hdt

/-- position `j` of a release table carries key `first + j`, so `lookup` finds it there -/
theorem run_lookup : ∀ (n : Nat) (rel : Rel) (first : Int) (j : Nat) (out : List RRow),
    (rel.run first n)[j]? = some (first + (j : Int), out) →
    (rel.run first n).lookup (first + (j : Int)) = some out := by
  intro n
  induction n with
  | zero => intro rel first j out h; simp [Rel.run] at h
  | succ n ih =>
    intro rel first j out h
    simp only [Rel.run] at h ⊢
    cases j with
    | zero =>
      simp at h
      simp [h]
    | succ j =>
      rw [List.getElem?_cons_succ] at h
      have e : first + ((j + 1 : Nat) : Int) = first + 1 + (j : Int) := by push_cast; omega
      rw [e] at h ⊢
      have := ih _ _ _ _ h
      rw [List.lookup_cons]
      have hne : (first + 1 + (j : Int) == first) = false := by
        simp; omega
      rw [hne]
      exact this

theorem relAt_run (rel : Rel) (n k : Nat) (out : List RRow)
    (h : (rel.run 0 n)[k]? = some ((k : Int), out)) : relAt (rel.run 0 n) (k : Int) = out := by
  have := run_lookup n rel 0 k out (by simpa using h)
  unfold relAt
  simp at this
  rw [this]; rfl


/-- the table a warm-started discrete releaser is built from -/
def warmTable (c : RelCfg) (rows : List RRow) : List RRow :=
  rows.filter (fun x => inWindow c x.time &&
    !(before c.rev x.time (if c.rev then c.start - c.dt else c.start + c.dt)))

/-- `init` for a warm start, discrete mode: refused only when nothing lies before the stop; an empty
    table after the start/restart-step cut is accepted -/
theorem init_discrete_warm (c : RelCfg) (rows : List RRow) (hc : c.continuous = false) (hw : c.warm = true) :
    Rel.init c rows = if (rows.filter (fun r => before c.rev r.time c.stop)).isEmpty then .error .exit3
      else .ok (build c (warmTable c rows)) := by
  have hdec : ∀ W : List RRow, (if c.releaseTimeCol then
      W.map (fun r => { r with cols := r.cols ++ [("release_time", Val.num r.time)] }) else W)
      = W.map (decorate c) := by
    intro W
    cases h : c.releaseTimeCol
    · have : decorate c = id := by funext r; simp [decorate, h]
      simp [this]
    · have : decorate c = fun r => { r with cols := r.cols ++ [("release_time", Val.num r.time)] } := by
        funext r; simp [decorate, h]
      simp [this]
  have htk : TK.time2step ⟨c.start, c.stop, c.dt, 0, c.rev, 0, 0, 0⟩ = stepOf c := rfl
  have hW : ((rows.filter (fun r => before c.rev r.time c.stop)).filter
      (fun r => !(before c.rev r.time c.start))).filter
      (fun r => !(before c.rev r.time (if c.rev then c.start - c.dt else c.start + c.dt)))
      = warmTable c rows := by
    rw [List.filter_filter, List.filter_filter]
    apply List.filter_congr
    intro x _
    unfold inWindow
    cases before c.rev x.time c.stop <;> cases before c.rev x.time c.start <;>
      cases before c.rev x.time (if c.rev then c.start - c.dt else c.start + c.dt) <;> rfl
  unfold Rel.init build
  simp only [hw, hc, hdec, htk, Bool.false_eq_true, if_false, if_true, Bool.not_true, Bool.and_false, hW]

/-- **warm_release_table** -/
theorem warm_release_table (c : RelCfg) (rows : List RRow) (hdt : 0 < c.dt) (hc : c.continuous = false)
    (hw : c.warm = false) (hs : SimSorted c.rev rows) (hg : OnGrid c rows)
    (rel : Rel) (h : Rel.init c rows = .ok rel) (r : Nat) :
    ∃ rel', Rel.init (restartCfg c r) rows = .ok rel' ∧
      ∀ (n k : Nat), k < n →
        relAt (rel'.run 0 n) (k : Int) = if k = 0 then [] else relAt (rel.run 0 (n + r)) ((k + r : Nat) : Int) := by
  have hne : (rows.filter (fun x => before c.rev x.time c.stop)).isEmpty = false := by
    rw [init_discrete c rows hc hw] at h
    split at h
    · cases h
    · rename_i hT
      rw [List.isEmpty_iff] at hT
      obtain ⟨x, hx⟩ := List.exists_mem_of_ne_nil _ hT
      rw [List.mem_filter] at hx
      have h2 : before c.rev x.time c.stop = true := by
        have := hx.2; unfold inWindow at this
        simp only [Bool.and_eq_true] at this; exact this.2
      have : x ∈ rows.filter (fun x => before c.rev x.time c.stop) := List.mem_filter.2 ⟨hx.1, h2⟩
      cases hl : rows.filter (fun x => before c.rev x.time c.stop) with
      | nil => rw [hl] at this; cases this
      | cons _ _ => rfl
  refine ⟨build (restartCfg c r) (warmTable (restartCfg c r) rows), ?_, ?_⟩
  · rw [init_discrete_warm (restartCfg c r) rows hc rfl]
    have : (rows.filter (fun x => before (restartCfg c r).rev x.time (restartCfg c r).stop)).isEmpty = false := hne
    rw [this]; rfl
  intro n k hk
  have hg' : OnGrid (restartCfg c r) (warmTable (restartCfg c r) rows) :=
    fun x hx => grid_restart c r _ (hg x (List.mem_of_mem_filter hx))
  have hs' : SimSorted (restartCfg c r).rev (warmTable (restartCfg c r) rows) :=
    hs.sublist List.filter_sublist
  have hst' : ∀ x ∈ warmTable (restartCfg c r) rows,
      before (restartCfg c r).rev x.time (restartCfg c r).start = false := by
    intro x hx
    have := (List.mem_filter.1 hx).2
    unfold inWindow at this
    simp only [Bool.and_eq_true, Bool.not_eq_true'] at this
    exact this.1.1
  have h1 := build_run (restartCfg c r) _ hdt hs' hg' hst' n k hk
  rw [relAt_run _ _ _ _ h1]
  -- pointwise facts about a row of the file
  have facts : ∀ x ∈ rows,
      (before c.rev x.time c.start = false ↔ 0 ≤ stepOf c x.time) ∧
      (before (restartCfg c r).rev x.time (restartCfg c r).start = false ↔ (r : Int) ≤ stepOf c x.time) ∧
      (before (restartCfg c r).rev x.time (if (restartCfg c r).rev then (restartCfg c r).start - (restartCfg c r).dt
        else (restartCfg c r).start + (restartCfg c r).dt) = false ↔ (r : Int) + 1 ≤ stepOf c x.time) ∧
      stepOf (restartCfg c r) x.time = stepOf c x.time - r := by
    intro x hx
    exact ⟨not_before_iff c hdt _ _ 0 (hg x hx) (by rw [sd_start]; simp),
      not_before_iff c hdt _ _ r (hg x hx) (sd_restart_start c r),
      not_before_iff c hdt _ _ (r + 1) (hg x hx) (sd_restart_next c r),
      stepOf_restart c hdt r _ (hg x hx)⟩
  by_cases hk0 : k = 0
  · subst hk0
    simp only [if_true]
    have : (warmTable (restartCfg c r) rows).filter
        (fun x => stepOf (restartCfg c r) x.time == ((0 : Nat) : Int)) = [] := by
      rw [List.filter_eq_nil_iff]
      intro x hx
      have hxr := List.mem_of_mem_filter hx
      obtain ⟨_, _, f2, f3⟩ := facts x hxr
      have := (List.mem_filter.1 hx).2
      simp only [Bool.and_eq_true, Bool.not_eq_true'] at this
      have := f2.1 this.2
      simp only [beq_iff_eq, f3]
      omega
    rw [this]; rfl
  · simp only [hk0, if_false]
    have h2 := released_at_step c rows hdt hc hw hs hg rel h (n + r) (k + r) (by omega)
    rw [relAt_run _ _ _ _ h2, decorate_restart]
    congr 2
    unfold warmTable
    rw [List.filter_filter]
    apply List.filter_congr
    intro x hx
    obtain ⟨f0, f1, f2, f3⟩ := facts x hx
    rw [Bool.eq_iff_iff]
    unfold inWindow
    simp only [Bool.and_eq_true, Bool.not_eq_true', beq_iff_eq]
    rw [f0, f1, f2, f3]
    push_cast
    constructor
    · rintro ⟨a, ⟨b, c⟩, d⟩; exact ⟨⟨by omega, c⟩, by omega⟩
    · rintro ⟨⟨a, b⟩, c⟩; exact ⟨by omega, ⟨by omega, b⟩, by omega⟩

/-- non-vacuity: start 0, stop 300, dt 60; rows at 0, 120 (two rows), 240; restart at step 2 -/
def exCfg : RelCfg :=
  { start := 0, stop := 300, dt := 60, rev := false, continuous := false, freq := 60, warm := false, releaseTimeCol := false }
def exRows : List RRow := [⟨0, 1, [("X", .num 1)]⟩, ⟨120, 2, [("X", .num 2)]⟩, ⟨120, 1, [("X", .num 3)]⟩, ⟨240, 1, [("X", .num 4)]⟩]

example : ∃ rel', Rel.init (restartCfg exCfg 2) exRows = .ok rel' ∧
    relAt (rel'.run 0 3) 0 = [] ∧ (relAt (rel'.run 0 3) 2).length = 1 := by
  refine ⟨_, rfl, ?_, ?_⟩ <;> decide +kernel

end Ladim.C04Warm
