import Ladim.Model.Output
import Mathlib.Tactic.Linarith
import Mathlib.Tactic.Ring
import Mathlib.Data.List.Basic
/-
C07 — every scheduled output time is written, for any duration, period and file split.
Property theorems about `Ladim.Model.Output` (`Out.coldRun` = the output side of
`ladim.main.main`: `for step in range(Nsteps): … if step % period_step == 0: write`, then
`finish()`).

All statements are for every `nsteps ≥ 0`, every period `≥ 1` step, every `numrec ≥ 0`
(0 = single file), both layouts, every file-name prototype and every state history `snap`.
-/

namespace Ladim.C07
open Ladim Out

/-- the output steps of a cold run: `0, p, 2p, … < nsteps` -/
def dueSteps (nsteps period : Int) : List Int :=
  (stepRange 0 nsteps.toNat).filter (fun st => Int.fmod st period == 0)

def allTimes (fs : List VFile) : List Rat := fs.flatMap (·.time)
def allCounts (fs : List VFile) : List Nat := fs.flatMap (·.count)
def allPids (fs : List VFile) : List Nat := fs.flatMap (·.pid)

/-! ### the schedule -/

theorem fmod_eq_zero_iff (st period : Int) (hp : 1 ≤ period) :
    Int.fmod st period = 0 ↔ period ∣ st := by
  rw [Int.fmod_eq_emod_of_nonneg _ (by omega), Int.dvd_iff_emod_eq_zero]

/-- the due steps are exactly the multiples of the period below `nsteps` -/
theorem dueSteps_spec (nsteps period : Int) (hp : 1 ≤ period) (st : Int) :
    st ∈ dueSteps nsteps period ↔ 0 ≤ st ∧ st < nsteps ∧ period ∣ st := by
  simp only [dueSteps, stepRange, List.mem_filter, List.mem_map, List.mem_range, beq_iff_eq,
    fmod_eq_zero_iff _ _ hp]
  constructor
  · rintro ⟨⟨k, hk, rfl⟩, hd⟩
    refine ⟨by omega, by omega, hd⟩
  · rintro ⟨h0, h1, hd⟩
    exact ⟨⟨st.toNat, by omega, by omega⟩, hd⟩

/-- `c = -((-n).fdiv p)` is the ceiling of `n / p`: `(c - 1) p < n ≤ c p` -/
theorem ceil_bounds (n p : Int) (hp : 1 ≤ p) :
    (-((-n).fdiv p) - 1) * p < n ∧ n ≤ (-((-n).fdiv p)) * p := by
  rw [Int.fdiv_eq_ediv_of_nonneg _ (by omega)]
  have h1 := Int.ediv_mul_le (-n) (b := p) (by omega)
  have h2 := Int.lt_ediv_add_one_mul_self (-n) (b := p) (by omega)
  generalize (-n) / p = d at *
  constructor
  · have : (-d - 1) * p = -((d + 1) * p) := by ring
    omega
  · have : (-d) * p = -(d * p) := by ring
    omega

theorem ceil_unique (n p c c' : Int) (hp : 1 ≤ p) (h1 : (c - 1) * p < n) (h2 : n ≤ c * p)
    (h1' : (c' - 1) * p < n) (h2' : n ≤ c' * p) : c = c' := by
  have a : c - 1 < c' := lt_of_mul_lt_mul_right (lt_of_lt_of_le h1 h2') (by omega)
  have b : c' - 1 < c := lt_of_mul_lt_mul_right (lt_of_lt_of_le h1' h2) (by omega)
  omega

theorem ceil_succ (n p : Int) (hp : 1 ≤ p) :
    -((-(n + 1)).fdiv p) = -((-n).fdiv p) + (if p ∣ n then 1 else 0) := by
  obtain ⟨a1, a2⟩ := ceil_bounds n p hp
  obtain ⟨b1, b2⟩ := ceil_bounds (n + 1) p hp
  generalize -((-n).fdiv p) = c at *
  generalize -((-(n+1)).fdiv p) = c' at *
  split_ifs with hd
  · obtain ⟨k, rfl⟩ := hd
    have e : k = c := by
      apply ceil_unique (p * k) p k c hp _ _ a1 a2
      · have : (k - 1) * p = p * k - p := by ring
        omega
      · have : k * p = p * k := by ring
        omega
    subst e
    apply ceil_unique (p * k + 1) p _ _ hp b1 b2
    · have : (k + 1 - 1) * p = p * k := by ring
      omega
    · have : (k + 1) * p = p * k + p := by ring
      omega
  · apply ceil_unique (n + 1) p _ _ hp b1 b2
    · simp only [add_zero]; omega
    · simp only [add_zero]
      have : n ≠ c * p := fun h => hd ⟨c, by rw [h]; ring⟩
      omega

theorem dueSteps_length_nat (n : Nat) (period : Int) (hp : 1 ≤ period) :
    ((dueSteps (n : Int) period).length : Int) = -((-(n : Int)).fdiv period) := by
  induction n with
  | zero => simp [dueSteps, stepRange, Int.fdiv]
  | succ n ih =>
    have : dueSteps ((n + 1 : Nat) : Int) period
        = dueSteps n period ++ (if period ∣ (n : Int) then [(n : Int)] else []) := by
      simp only [dueSteps, stepRange, Int.toNat_natCast, List.range_succ, List.map_append,
        List.filter_append, List.map_cons, List.map_nil, List.filter_cons, List.filter_nil,
        beq_iff_eq, fmod_eq_zero_iff _ _ hp, zero_add]
    rw [this, List.length_append, Nat.cast_add, ih, Nat.cast_add, Nat.cast_one, ceil_succ _ _ hp]
    split_ifs <;> simp

/-- their number is the predicted number of records, `⌈nsteps / period⌉` -/
theorem dueSteps_length (nsteps period : Int) (hn : 0 ≤ nsteps) (hp : 1 ≤ period) :
    ((dueSteps nsteps period).length : Int) = predictRecords nsteps period false := by
  obtain ⟨n, rfl⟩ := Int.eq_ofNat_of_zero_le hn
  rw [dueSteps_length_nat n period hp]
  simp [predictRecords]

/-! ### the invariant of the write loop -/

/-- the record appended to the current file by `write` -/
def addRec (l : Layout) (f : VFile) (s : Snapshot) : VFile :=
  match l with
  | .sparse =>
    { f with time := f.time ++ [s.time], count := f.count ++ [s.pid.length],
             pid := f.pid ++ s.pid, inst := appendCols f.inst s.cols }
  | .dense =>
    { f with time := f.time ++ [s.time],
             dense := f.dense ++ [s.cols.map (fun (n, c) =>
                (n, (c.zip s.alive).map (fun (v, a) => if a then some v else none)))] }

def finFile (f : VFile) (s : Snapshot) : VFile :=
  { f with pvarN := some s.npid,
           pvars := s.pvars.map (fun (n, c) => (n, c.take s.npid)), closed := true }

def licOf (o : Out) (s : Snapshot) : Nat :=
  match o.layout with
  | .sparse => o.localInstanceCount + s.pid.length
  | .dense => o.localInstanceCount

@[simp] theorem addRec_time (l f s) : (addRec l f s).time = f.time ++ [s.time] := by
  cases l <;> rfl
@[simp] theorem addRec_name (l f s) : (addRec l f s).name = f.name := by cases l <;> rfl
@[simp] theorem addRec_closed (l f s) : (addRec l f s).closed = f.closed := by cases l <;> rfl
@[simp] theorem addRec_pvarN (l f s) : (addRec l f s).pvarN = f.pvarN := by cases l <;> rfl
theorem addRec_count (f s) : (addRec .sparse f s).count = f.count ++ [s.pid.length] := rfl
theorem addRec_pid (f s) : (addRec .sparse f s).pid = f.pid ++ s.pid := rfl
theorem addRec_count_dense (f s) : (addRec .dense f s).count = f.count := rfl
theorem addRec_pid_dense (f s) : (addRec .dense f s).pid = f.pid := rfl

theorem write_eq (o : Out) (s : Snapshot) : o.write s =
    if o.cur.closed then .error .runtimeError else
    if o.localRecordCount + 1 = o.localNumRecords then
      if o.recordCount + 1 < o.numRecords then
        if o.multifile then
          .ok { o with recordCount := o.recordCount + 1, localRecordCount := 0,
                       localInstanceCount := 0,
                       localNumRecords := localNum o.numrec o.numRecords (o.recordCount + 1),
                       cur := emptyFile (genName o.stem o.suffix o.fileNo),
                       fileNo := o.fileNo + 1,
                       done := o.done ++ [finFile (addRec o.layout o.cur s) s] }
        else .error .other
      else
        .ok { o with recordCount := o.recordCount + 1,
                     localRecordCount := o.localRecordCount + 1,
                     localInstanceCount := licOf o s,
                     cur := finFile (addRec o.layout o.cur s) s }
    else
      .ok { o with recordCount := o.recordCount + 1,
                   localRecordCount := o.localRecordCount + 1,
                   localInstanceCount := licOf o s,
                   cur := addRec o.layout o.cur s } := rfl

/-- the fixed parameters of an output module -/
structure Par where
  layout : Layout
  p : Int
  R : Int
  m : Int
  mf : Bool
  stem : String
  suffix : String

/-- invariant of the write loop after the snapshots `W` have been written -/
structure Inv (P : Par) (o : Out) (W : List Snapshot) : Prop where
  layout : o.layout = P.layout
  period : o.periodStep = P.p
  numRecords : o.numRecords = P.R
  numrec : o.numrec = P.m
  multifile : o.multifile = P.mf
  stem : o.stem = P.stem
  suffix : o.suffix = P.suffix
  rc : o.recordCount = W.length
  lrc_nonneg : 0 ≤ o.localRecordCount
  lrc_le : o.localRecordCount ≤ P.m
  lrc_le_rc : o.localRecordCount ≤ o.recordCount
  lnum : o.localNumRecords = min P.m (P.R - (o.recordCount - o.localRecordCount))
  curLen : (o.cur.time.length : Int) = o.localRecordCount
  doneLen : ∀ f ∈ o.done, (f.time.length : Int) = P.m ∧ f.closed = true ∧ f.pvarN.isSome = true
  open_ : o.recordCount < P.R → o.localRecordCount < o.localNumRecords ∧ o.cur.closed = false
  fin : o.recordCount = P.R → 0 < o.recordCount →
    0 < o.localRecordCount ∧ o.cur.closed = true ∧ o.cur.pvarN.isSome = true
  multi : P.mf = true → o.fileNo = o.done.length + 1 ∧
    o.done.map (·.name) = (List.range o.done.length).map (genName P.stem P.suffix) ∧
    o.cur.name = genName P.stem P.suffix o.done.length
  single : P.mf = false → o.done = [] ∧ o.cur.name = P.stem ++ P.suffix ∧
    o.recordCount = o.localRecordCount
  times : allTimes (o.done ++ [o.cur]) = W.map (·.time)
  counts : P.layout = .sparse →
    allCounts (o.done ++ [o.cur]) = W.map (·.pid.length) ∧
    allPids (o.done ++ [o.cur]) = W.flatMap (·.pid)
  dense : P.layout = .dense → allCounts (o.done ++ [o.cur]) = [] ∧ allPids (o.done ++ [o.cur]) = []

/-- one `write` below the predicted number of records keeps the invariant; the only possible
    failure is the single-file limit (`numrec' = 999999 < numRecords`) -/
theorem write_step (P : Par) (hm : 1 ≤ P.m) (o : Out) (W : List Snapshot) (s : Snapshot)
    (hI : Inv P o W) (hW : (W.length : Int) < P.R) :
    (P.mf = false ∧ P.m < P.R ∧ o.write s = .error .other) ∨
    ∃ o', o.write s = .ok o' ∧ Inv P o' (W ++ [s]) := by
  have hrc := hI.rc
  obtain ⟨hlt, hcl⟩ := hI.open_ (by omega)
  have hlnum := hI.lnum
  have hnn := hI.lrc_nonneg
  have hle := hI.lrc_le
  have hcur := hI.curLen
  have hR := hI.numRecords
  have hmm := hI.numrec
  have htimes := hI.times
  simp only [allTimes, List.flatMap_append, List.flatMap_cons, List.flatMap_nil,
    List.append_nil] at htimes
  have hcounts : P.layout = .sparse →
      List.flatMap (·.count) o.done ++ o.cur.count = W.map (·.pid.length) ∧
      List.flatMap (·.pid) o.done ++ o.cur.pid = W.flatMap (·.pid) := by
    intro hs
    have := hI.counts hs
    simpa only [allCounts, allPids, List.flatMap_append, List.flatMap_cons, List.flatMap_nil,
      List.append_nil] using this
  have hdense : P.layout = .dense →
      List.flatMap (·.count) o.done ++ o.cur.count = [] ∧
      List.flatMap (·.pid) o.done ++ o.cur.pid = [] := by
    intro hs
    have := hI.dense hs
    simpa only [allCounts, allPids, List.flatMap_append, List.flatMap_cons, List.flatMap_nil,
      List.append_nil] using this
  have hlerc := hI.lrc_le_rc
  rw [write_eq]
  simp only [hcl, Bool.false_eq_true, if_false]
  by_cases hfill : o.localRecordCount + 1 = o.localNumRecords
  · simp only [hfill, if_true]
    by_cases hmore : o.recordCount + 1 < o.numRecords
    · simp only [hmore, if_true]
      cases hmf : o.multifile
      · left
        have hmf' : P.mf = false := by rw [← hI.multifile, hmf]
        obtain ⟨-, -, h3⟩ := hI.single hmf'
        refine ⟨hmf', by omega, by simp⟩
      · right
        have hmf' : P.mf = true := by rw [← hI.multifile, hmf]
        obtain ⟨h1, h2, h3⟩ := hI.multi hmf'
        refine ⟨_, rfl, ?_⟩
        exact
          { layout := hI.layout
            period := hI.period
            numRecords := hI.numRecords
            numrec := hI.numrec
            multifile := hmf'.symm
            stem := hI.stem
            suffix := hI.suffix
            rc := by simp; omega
            lrc_nonneg := by simp
            lrc_le := by simp only []; omega
            lrc_le_rc := by simp only []; omega
            lnum := by simp only [localNum]; omega
            curLen := by simp [emptyFile]
            doneLen := by
              intro f hf
              rcases List.mem_append.1 hf with hf | hf
              · exact hI.doneLen f hf
              · simp only [List.mem_singleton] at hf
                subst hf
                simp [finFile]
                omega
            open_ := by
              intro _
              simp only [localNum, emptyFile]
              refine ⟨by omega, trivial⟩
            fin := by intro h; simp only [] at h; omega
            multi := by
              intro _
              refine ⟨by simp [h1], ?_, by simp [hI.stem, hI.suffix, h1, emptyFile]⟩
              simp [List.range_succ, h2, finFile, h3]
            single := by intro h; rw [hmf'] at h; cases h
            times := by
              simp [allTimes, finFile, emptyFile, List.flatMap_append, ← htimes]
            counts := by
              intro hs
              obtain ⟨c1, c2⟩ := hcounts hs
              rw [hI.layout, hs]
              simp [allCounts, allPids, finFile, emptyFile, List.flatMap_append, addRec_count,
                addRec_pid, ← c1, ← c2]
            dense := by
              intro hs
              obtain ⟨c1, c2⟩ := hdense hs
              rw [hI.layout, hs]
              simp only [List.append_eq_nil_iff] at c1 c2
              simp [allCounts, allPids, finFile, emptyFile, List.flatMap_append,
                addRec_count_dense, addRec_pid_dense, c1, c2] }
    · simp only [hmore, if_false]
      right
      refine ⟨_, rfl, ?_⟩
      exact
        { layout := hI.layout
          period := hI.period
          numRecords := hI.numRecords
          numrec := hI.numrec
          multifile := hI.multifile
          stem := hI.stem
          suffix := hI.suffix
          rc := by simp; omega
          lrc_nonneg := by simp only []; omega
          lrc_le := by simp only []; omega
          lrc_le_rc := by simp only []; omega
          lnum := by simp only []; omega
          curLen := by simp [finFile]; omega
          doneLen := hI.doneLen
          open_ := by intro h; simp only [] at h; omega
          fin := by
            intro _ _
            refine ⟨by simp only []; omega, rfl, rfl⟩
          multi := by
            intro h
            obtain ⟨h1, h2, h3⟩ := hI.multi h
            exact ⟨h1, h2, by simp [finFile, h3]⟩
          single := by
            intro h
            obtain ⟨h1, h2, h3⟩ := hI.single h
            exact ⟨h1, by simp [finFile, h2], by simp only []; omega⟩
          times := by
            simp [allTimes, finFile, List.flatMap_append, ← htimes]
          counts := by
            intro hs
            obtain ⟨c1, c2⟩ := hcounts hs
            rw [hI.layout, hs]
            simp [allCounts, allPids, finFile, List.flatMap_append, addRec_count,
              addRec_pid, ← c1, ← c2]
          dense := by
            intro hs
            obtain ⟨c1, c2⟩ := hdense hs
            rw [hI.layout, hs]
            simp only [List.append_eq_nil_iff] at c1 c2
            simp [allCounts, allPids, finFile, List.flatMap_append,
              addRec_count_dense, addRec_pid_dense, c1, c2] }
  · simp only [hfill, if_false]
    right
    refine ⟨_, rfl, ?_⟩
    exact
      { layout := hI.layout
        period := hI.period
        numRecords := hI.numRecords
        numrec := hI.numrec
        multifile := hI.multifile
        stem := hI.stem
        suffix := hI.suffix
        rc := by simp; omega
        lrc_nonneg := by simp only []; omega
        lrc_le := by simp only []; omega
        lrc_le_rc := by simp only []; omega
        lnum := by simp only []; omega
        curLen := by simp; omega
        doneLen := hI.doneLen
        open_ := by
          intro h; simp only [addRec_closed] at h ⊢; refine ⟨by omega, hcl⟩
        fin := by intro h1 h2; simp only [] at h1 h2; exfalso; omega
        multi := by
          intro h
          obtain ⟨h1, h2, h3⟩ := hI.multi h
          exact ⟨h1, h2, by simp [h3]⟩
        single := by
          intro h
          obtain ⟨h1, h2, h3⟩ := hI.single h
          exact ⟨h1, by simp [h2], by simp only []; omega⟩
        times := by
          simp [allTimes, List.flatMap_append, ← htimes]
        counts := by
          intro hs
          obtain ⟨c1, c2⟩ := hcounts hs
          rw [hI.layout, hs]
          simp [allCounts, allPids, List.flatMap_append, addRec_count,
            addRec_pid, ← c1, ← c2]
        dense := by
          intro hs
          obtain ⟨c1, c2⟩ := hdense hs
          rw [hI.layout, hs]
          simp only [List.append_eq_nil_iff] at c1 c2
          simp [allCounts, allPids, List.flatMap_append,
            addRec_count_dense, addRec_pid_dense, c1, c2] }

/-! ### the loop -/

theorem run_inv (P : Par) (hm : 1 ≤ P.m) (snap : Int → Snapshot) (steps : List Int) :
    ∀ (o : Out) (W : List Snapshot), Inv P o W →
    (W.length : Int) + ((steps.filter (fun st => Int.fmod st P.p == 0)).length : Int) ≤ P.R →
    (P.mf = false ∧ P.m < P.R ∧ ∃ e, runSteps o snap steps = .error e) ∨
    ∃ o', runSteps o snap steps = .ok o' ∧
      Inv P o' (W ++ (steps.filter (fun st => Int.fmod st P.p == 0)).map snap) := by
  induction steps with
  | nil => intro o W hI _; right; exact ⟨o, rfl, by simpa using hI⟩
  | cons st rest ih =>
    intro o W hI hlen
    unfold runSteps
    simp only [Out.due, hI.period]
    by_cases hd : (Int.fmod st P.p == 0) = true
    · simp only [List.filter_cons, hd, if_true, List.length_cons, List.map_cons, Nat.cast_add,
        Nat.cast_one] at hlen ⊢
      rcases write_step P hm o W (snap st) hI (by omega) with ⟨h1, h2, h3⟩ | ⟨o', h1, h2⟩
      · left; exact ⟨h1, h2, _, by rw [h3]⟩
      · rw [h1]
        simp only []
        rcases ih o' (W ++ [snap st]) h2 (by simp only [List.length_append, List.length_singleton]; omega)
          with h | ⟨o'', h3, h4⟩
        · left; exact h
        · right; exact ⟨o'', h3, by simpa using h4⟩
    · simp only [List.filter_cons, hd, Bool.false_eq_true, if_false] at hlen ⊢
      exact ih o W hI hlen

/-- the parameters of a run started by `init` -/
def parOf (layout : Layout) (period R numrec : Int) (stem suffix : String) : Par :=
  { layout := layout, p := period, R := R, m := if numrec != 0 then numrec else 999999,
    mf := numrec != 0, stem := stem, suffix := suffix }

theorem parOf_m_pos (layout : Layout) (period R numrec : Int) (stem suffix : String)
    (hr : 0 ≤ numrec) : 1 ≤ (parOf layout period R numrec stem suffix).m := by
  simp only [parOf, bne_iff_ne, ne_eq]
  split_ifs <;> omega

theorem init_inv (layout : Layout) (period R numrec : Int) (stem suffix : String)
    (_hR : 0 ≤ R) (hr : 0 ≤ numrec) :
    Inv (parOf layout period R numrec stem suffix) (init layout period R numrec stem suffix) [] := by
  have hm := parOf_m_pos layout period R numrec stem suffix hr
  exact
    { layout := rfl
      period := rfl
      numRecords := rfl
      numrec := rfl
      multifile := rfl
      stem := rfl
      suffix := rfl
      rc := rfl
      lrc_nonneg := le_refl _
      lrc_le := by simp only [init]; omega
      lrc_le_rc := le_refl _
      lnum := by simp [init, parOf, localNum]
      curLen := by simp [init, emptyFile]
      doneLen := by simp [init]
      open_ := by
        intro h
        simp only [init, parOf, localNum] at h hm ⊢
        refine ⟨by omega, ?_⟩
        simp [emptyFile]
      fin := by intro _ h; simp [init] at h
      multi := by
        intro h
        simp only [parOf] at h
        simp [init, parOf, h, emptyFile]
      single := by
        intro h
        simp only [parOf] at h
        simp only [bne_eq_false_iff_eq] at h
        simp [init, parOf, h, emptyFile]
      times := by simp [init, allTimes, emptyFile]
      counts := by intro _; simp [init, allCounts, allPids, emptyFile]
      dense := by intro _; simp [init, allCounts, allPids, emptyFile] }

theorem predict_nonneg (nsteps period : Int) (hn : 0 ≤ nsteps) (hp : 1 ≤ period) :
    0 ≤ predictRecords nsteps period false := by
  rw [← dueSteps_length nsteps period hn hp]; omega

/-- the state at the end of the loop of a cold run: either the single-file limit of 999999
    records is hit (the run fails), or the loop ends normally in a state satisfying the
    invariant for the full list of due steps -/
theorem coldRun_inv (layout : Layout) (nsteps period numrec : Int) (hn : 0 ≤ nsteps)
    (hp : 1 ≤ period) (hr : 0 ≤ numrec) (stem suffix : String) (snap : Int → Snapshot) :
    (numrec = 0 ∧ 999999 < predictRecords nsteps period false ∧
      ∃ e, coldRun layout nsteps period numrec stem suffix snap = .error e) ∨
    ∃ o, coldRun layout nsteps period numrec stem suffix snap = .ok o.close.files ∧
      Inv (parOf layout period (predictRecords nsteps period false) numrec stem suffix) o
        ((dueSteps nsteps period).map snap) ∧
      o.recordCount = predictRecords nsteps period false := by
  set R := predictRecords nsteps period false with hRdef
  have hR : 0 ≤ R := predict_nonneg nsteps period hn hp
  have hlen := dueSteps_length nsteps period hn hp
  have hm := parOf_m_pos layout period R numrec stem suffix hr
  rcases run_inv (parOf layout period R numrec stem suffix) hm snap (stepRange 0 nsteps.toNat)
      (init layout period R numrec stem suffix) [] (init_inv layout period R numrec stem suffix hR hr)
      (by
        have : (List.filter (fun st => Int.fmod st period == 0) (stepRange 0 nsteps.toNat))
            = dueSteps nsteps period := rfl
        simp only [parOf, this, List.length_nil]
        omega)
    with ⟨h1, h2, e, h3⟩ | ⟨o, h1, h2⟩
  · left
    simp only [parOf, bne_eq_false_iff_eq] at h1 h2
    subst h1
    simp only [bne_self_eq_false, Bool.false_eq_true, if_false] at h2
    refine ⟨rfl, h2, e, ?_⟩
    simp only [coldRun, ← hRdef, h3]
  · right
    refine ⟨o, ?_, h2, ?_⟩
    · simp only [coldRun, ← hRdef, h1]
    · have := h2.rc
      simp only [List.nil_append, List.length_map] at this
      have e : (List.filter (fun st => Int.fmod st
          (parOf layout period R numrec stem suffix).p == 0) (stepRange 0 nsteps.toNat))
            = dueSteps nsteps period := rfl
      rw [e] at this
      omega

/-! ### the property theorems -/

theorem close_files (o : Out) : o.close.files = o.done ++ [{ o.cur with closed := true }] := rfl

theorem predict_pos (nsteps period : Int) (hn : 0 < nsteps) (hp : 1 ≤ period) :
    0 < predictRecords nsteps period false := by
  rw [← dueSteps_length nsteps period (le_of_lt hn) hp]
  have : (0 : Int) ∈ dueSteps nsteps period :=
    (dueSteps_spec nsteps period hp 0).2 ⟨le_refl _, hn, dvd_zero _⟩
  have := List.length_pos_of_mem this
  omega

/-- the records of a successful cold run, over all files in order -/
theorem coldRun_records (layout : Layout) (nsteps period numrec : Int) (hn : 0 ≤ nsteps)
    (hp : 1 ≤ period) (hr : 0 ≤ numrec) (stem suffix : String) (snap : Int → Snapshot)
    (fs : List VFile) (h : coldRun layout nsteps period numrec stem suffix snap = .ok fs) :
    allTimes fs = (dueSteps nsteps period).map (fun st => (snap st).time) ∧
    allCounts fs = (if layout = .sparse then
        (dueSteps nsteps period).map (fun st => (snap st).pid.length) else []) ∧
    allPids fs = (if layout = .sparse then
        (dueSteps nsteps period).flatMap (fun st => (snap st).pid) else []) := by
  rcases coldRun_inv layout nsteps period numrec hn hp hr stem suffix snap
    with ⟨-, -, e, h3⟩ | ⟨o, h1, hI, hrc⟩
  · rw [h3] at h; cases h
  · rw [h1] at h
    obtain rfl := Except.ok.inj h
    have ht := hI.times
    have hc := hI.counts
    have hd := hI.dense
    simp only [allTimes, allCounts, allPids, List.flatMap_append, List.flatMap_cons,
      List.flatMap_nil, List.append_nil, List.map_map, List.flatMap_map, parOf,
      Function.comp_def] at ht hc hd
    simp only [close_files, allTimes, allCounts, allPids, List.flatMap_append, List.flatMap_cons,
      List.flatMap_nil, List.append_nil]
    refine ⟨ht, ?_⟩
    cases layout
    · simpa using hc rfl
    · simpa using hd rfl

/-- **schedule_complete**: the run ends normally (no write to a closed file, no missing file
    name) and the records written, over all files in order, are exactly one per output step,
    in order.  In single-file mode (`numrec = 0`) the modelled code sizes the file for 999999
    records; a run with more output steps than that fails (hypothesis `hbig`). -/
theorem schedule_complete (layout : Layout) (nsteps period numrec : Int) (hn : 0 ≤ nsteps)
    (hp : 1 ≤ period) (hr : 0 ≤ numrec)
    (hbig : numrec = 0 → predictRecords nsteps period false ≤ 999999)
    (stem suffix : String) (snap : Int → Snapshot) :
    ∃ fs, coldRun layout nsteps period numrec stem suffix snap = .ok fs ∧
      allTimes fs = (dueSteps nsteps period).map (fun st => (snap st).time) ∧
      (layout = .sparse →
        allCounts fs = (dueSteps nsteps period).map (fun st => (snap st).pid.length) ∧
        allPids fs = (dueSteps nsteps period).flatMap (fun st => (snap st).pid)) := by
  rcases coldRun_inv layout nsteps period numrec hn hp hr stem suffix snap
    with ⟨h1, h2, -⟩ | ⟨o, h1, -, -⟩
  · have := hbig h1; omega
  · obtain ⟨a, b, c⟩ := coldRun_records layout nsteps period numrec hn hp hr stem suffix snap _ h1
    refine ⟨_, h1, a, ?_⟩
    intro hs
    rw [if_pos hs] at b c
    exact ⟨b, c⟩

/-- **file_chunks**: with `numrec > 0` every file but the last holds exactly `numrec` records,
    the last at most `numrec`, and no file is empty (if anything was written at all); with
    `numrec = 0` there is one file. -/
theorem file_chunks (layout : Layout) (nsteps period numrec : Int) (hn : 0 ≤ nsteps)
    (hp : 1 ≤ period) (hr : 0 ≤ numrec) (stem suffix : String) (snap : Int → Snapshot)
    (fs : List VFile) (h : coldRun layout nsteps period numrec stem suffix snap = .ok fs) :
    (numrec = 0 → fs.length = 1) ∧
    (0 < numrec → (∀ f ∈ fs.dropLast, (f.time.length : Int) = numrec) ∧
                  (∀ f ∈ fs, (f.time.length : Int) ≤ numrec)) ∧
    (0 < nsteps → ∀ f ∈ fs, 0 < f.time.length) := by
  rcases coldRun_inv layout nsteps period numrec hn hp hr stem suffix snap
    with ⟨-, -, e, h3⟩ | ⟨o, h1, hI, hrc⟩
  · rw [h3] at h; cases h
  · rw [h1] at h
    obtain rfl := Except.ok.inj h
    rw [close_files]
    have hmpos := parOf_m_pos layout period (predictRecords nsteps period false) numrec stem suffix hr
    have hcur := hI.curLen
    refine ⟨?_, ?_, ?_⟩
    · intro h0
      have := (hI.single (by simp [parOf, h0])).1
      simp [this]
    · intro hpos
      have hm : (parOf layout period (predictRecords nsteps period false) numrec stem suffix).m
          = numrec := by
        simp only [parOf, bne_iff_ne, ne_eq]
        rw [if_pos (by omega)]
      have hdl := hI.doneLen
      have hle := hI.lrc_le
      rw [hm] at hdl hle
      refine ⟨?_, ?_⟩
      · rw [List.dropLast_concat]
        intro f hf
        exact (hdl f hf).1
      · intro f hf
        rcases List.mem_append.1 hf with hf | hf
        · exact le_of_eq (hdl f hf).1
        · simp only [List.mem_singleton] at hf
          subst hf
          simp only []
          omega
    · intro hpos f hf
      have hRpos := predict_pos nsteps period hpos hp
      rcases List.mem_append.1 hf with hf | hf
      · have := (hI.doneLen f hf).1
        omega
      · simp only [List.mem_singleton] at hf
        subst hf
        have := (hI.fin hrc (by omega)).1
        simp only []
        omega

/-- **all_closed**: at the end every file is closed, and every file that holds a record was
    finished with its particle variables written. -/
theorem all_closed (layout : Layout) (nsteps period numrec : Int) (hn : 0 ≤ nsteps)
    (hp : 1 ≤ period) (hr : 0 ≤ numrec) (stem suffix : String) (snap : Int → Snapshot)
    (fs : List VFile) (h : coldRun layout nsteps period numrec stem suffix snap = .ok fs) :
    ∀ f ∈ fs, f.closed = true ∧ (0 < f.time.length → f.pvarN.isSome) := by
  rcases coldRun_inv layout nsteps period numrec hn hp hr stem suffix snap
    with ⟨-, -, e, h3⟩ | ⟨o, h1, hI, hrc⟩
  · rw [h3] at h; cases h
  · rw [h1] at h
    obtain rfl := Except.ok.inj h
    rw [close_files]
    intro f hf
    rcases List.mem_append.1 hf with hf | hf
    · obtain ⟨-, a, b⟩ := hI.doneLen f hf
      exact ⟨a, fun _ => b⟩
    · simp only [List.mem_singleton] at hf
      subst hf
      refine ⟨rfl, ?_⟩
      intro hpos
      simp only [] at hpos ⊢
      have := hI.curLen
      have := hI.lrc_le_rc
      exact (hI.fin hrc (by omega)).2.2

/-- **names**: the files carry the generator's names in order (a single file keeps the given
    name). -/
theorem names (layout : Layout) (nsteps period numrec : Int) (hn : 0 ≤ nsteps)
    (hp : 1 ≤ period) (hr : 0 ≤ numrec) (stem suffix : String) (snap : Int → Snapshot)
    (fs : List VFile) (h : coldRun layout nsteps period numrec stem suffix snap = .ok fs) :
    fs.map (·.name) =
      if numrec = 0 then [stem ++ suffix] else (List.range fs.length).map (genName stem suffix) := by
  rcases coldRun_inv layout nsteps period numrec hn hp hr stem suffix snap
    with ⟨-, -, e, h3⟩ | ⟨o, h1, hI, hrc⟩
  · rw [h3] at h; cases h
  · rw [h1] at h
    obtain rfl := Except.ok.inj h
    rw [close_files]
    split_ifs with h0
    · obtain ⟨a, b, -⟩ := hI.single (by simp [parOf, h0])
      simp only [parOf] at b
      simp [a, b]
    · obtain ⟨-, a, b⟩ := hI.multi (by simp [parOf, h0])
      simp only [parOf] at a b
      simp [List.range_succ, a, b]

/-- **concat_eq_unsplit**: concatenating the split files gives the records of the unsplit run. -/
theorem concat_eq_unsplit (layout : Layout) (nsteps period numrec : Int) (hn : 0 ≤ nsteps)
    (hp : 1 ≤ period) (hr : 0 ≤ numrec) (stem suffix : String) (snap : Int → Snapshot)
    (fs fs0 : List VFile) (h : coldRun layout nsteps period numrec stem suffix snap = .ok fs)
    (h0 : coldRun layout nsteps period 0 stem suffix snap = .ok fs0) :
    allTimes fs = allTimes fs0 ∧ allCounts fs = allCounts fs0 ∧ allPids fs = allPids fs0 := by
  obtain ⟨a, b, c⟩ := coldRun_records layout nsteps period numrec hn hp hr stem suffix snap fs h
  obtain ⟨a0, b0, c0⟩ :=
    coldRun_records layout nsteps period 0 hn hp (le_refl _) stem suffix snap fs0 h0
  exact ⟨a.trans a0.symm, b.trans b0.symm, c.trans c0.symm⟩

/-- the generator continues a numbered prototype, keeping its width -/
theorem genName_numbered (base suffix : String) (n0 w k : Nat) (stem : String)
    (h : splitStem stem = some (base, n0, w)) :
    genName stem suffix k = base ++ "_" ++ padNat w (n0 + k) ++ suffix := by
  simp only [genName, h]

theorem genName_plain (stem suffix : String) (k : Nat) (h : splitStem stem = none) :
    genName stem suffix k = stem ++ "_" ++ padNat 3 k ++ suffix := by
  simp only [genName, h]

/-- why the pinned revision failed: with the floor prediction `nsteps / period` a run with
    `nsteps = 7`, `period = 2` writes to a closed file (kept as a witness of what the theorem
    rules out): the run stops at step 6 with `RuntimeError`.  (`Except (Int × Refusal) Out` has
    no decidable equality, so the outcome is matched instead of compared.) -/
example : (match runSteps (init .sparse 2 (7 / 2) 0 "out" ".nc")
      (fun _ => { time := 0, pid := [], alive := [], cols := [], npid := 0, pvars := [] })
      (stepRange 0 7) with
    | .error (6, .runtimeError) => true
    | _ => false) = true := by decide

/-! non-vacuity -/
example : (dueSteps 7 2) = [0, 2, 4, 6] := by decide
example : ∃ fs, coldRun .sparse 7 2 3 "out" ".nc"
      (fun st => { time := st, pid := [0], alive := [true], cols := [], npid := 1, pvars := [] }) = .ok fs
    ∧ fs.map (·.name) = ["out_000.nc", "out_001.nc"] ∧ fs.map (·.time.length) = [3, 1] :=
  ⟨_, rfl, by decide, by decide⟩

end Ladim.C07
