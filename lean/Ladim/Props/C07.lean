import Ladim.Model.Output
import Mathlib.Tactic.Linarith
import Mathlib.Data.List.Basic
/-
C07 — every scheduled output time is written, for any duration, period and file split.
Property theorems about `Ladim.Model.Output` (`Out.coldRun` = the output side of
`ladim.main.main`: `for step in range(Nsteps): … if step % period_step == 0: write`, then
`finish()`).

All statements are for every `nsteps ≥ 0`, every period `≥ 1` step, every `numrec ≥ 0`
(0 = single file), both layouts, every file-name prototype and every state history `snap`.
-/

namespace Ladim.C07
open Ladim Out

/-- the output steps of a cold run: `0, p, 2p, … < nsteps` -/
def dueSteps (nsteps period : Int) : List Int :=
  (stepRange 0 nsteps.toNat).filter (fun st => Int.fmod st period == 0)

def allTimes (fs : List VFile) : List Rat := fs.flatMap (·.time)
def allCounts (fs : List VFile) : List Nat := fs.flatMap (·.count)
def allPids (fs : List VFile) : List Nat := fs.flatMap (·.pid)

/-- the due steps are exactly the multiples of the period below `nsteps` -/
theorem dueSteps_spec (nsteps period : Int) (hp : 1 ≤ period) (st : Int) :
    st ∈ dueSteps nsteps period ↔ 0 ≤ st ∧ st < nsteps ∧ period ∣ st := by
  sorry

/-- their number is the predicted number of records, `⌈nsteps / period⌉` -/
theorem dueSteps_length (nsteps period : Int) (hn : 0 ≤ nsteps) (hp : 1 ≤ period) :
    ((dueSteps nsteps period).length : Int) = predictRecords nsteps period false := by
  sorry

/-- **schedule_complete**: the run ends normally (no write to a closed file, no missing file
    name) and the records written, over all files in order, are exactly one per output step,
    in order. -/
theorem schedule_complete (layout : Layout) (nsteps period numrec : Int) (hn : 0 ≤ nsteps)
    (hp : 1 ≤ period) (hr : 0 ≤ numrec) (stem suffix : String) (snap : Int → Snapshot) :
    ∃ fs, coldRun layout nsteps period numrec stem suffix snap = .ok fs ∧
      allTimes fs = (dueSteps nsteps period).map (fun st => (snap st).time) ∧
      (layout = .sparse →
        allCounts fs = (dueSteps nsteps period).map (fun st => (snap st).pid.length) ∧
        allPids fs = (dueSteps nsteps period).flatMap (fun st => (snap st).pid)) := by
  sorry

/-- **file_chunks**: with `numrec > 0` every file but the last holds exactly `numrec` records,
    the last at most `numrec`, and no file is empty (if anything was written at all); with
    `numrec = 0` there is one file. -/
theorem file_chunks (layout : Layout) (nsteps period numrec : Int) (hn : 0 ≤ nsteps)
    (hp : 1 ≤ period) (hr : 0 ≤ numrec) (stem suffix : String) (snap : Int → Snapshot)
    (fs : List VFile) (h : coldRun layout nsteps period numrec stem suffix snap = .ok fs) :
    (numrec = 0 → fs.length = 1) ∧
    (0 < numrec → (∀ f ∈ fs.dropLast, (f.time.length : Int) = numrec) ∧
                  (∀ f ∈ fs, (f.time.length : Int) ≤ numrec)) ∧
    (0 < nsteps → ∀ f ∈ fs, 0 < f.time.length) := by
  sorry

/-- **all_closed**: at the end every file is closed, and every file that holds a record was
    finished with its particle variables written. -/
theorem all_closed (layout : Layout) (nsteps period numrec : Int) (hn : 0 ≤ nsteps)
    (hp : 1 ≤ period) (hr : 0 ≤ numrec) (stem suffix : String) (snap : Int → Snapshot)
    (fs : List VFile) (h : coldRun layout nsteps period numrec stem suffix snap = .ok fs) :
    ∀ f ∈ fs, f.closed = true ∧ (0 < f.time.length → f.pvarN.isSome) := by
  sorry

/-- **names**: the files carry the generator's names in order (a single file keeps the given
    name). -/
theorem names (layout : Layout) (nsteps period numrec : Int) (hn : 0 ≤ nsteps)
    (hp : 1 ≤ period) (hr : 0 ≤ numrec) (stem suffix : String) (snap : Int → Snapshot)
    (fs : List VFile) (h : coldRun layout nsteps period numrec stem suffix snap = .ok fs) :
    fs.map (·.name) =
      if numrec = 0 then [stem ++ suffix] else (List.range fs.length).map (genName stem suffix) := by
  sorry

/-- **concat_eq_unsplit**: concatenating the split files gives the records of the unsplit run. -/
theorem concat_eq_unsplit (layout : Layout) (nsteps period numrec : Int) (hn : 0 ≤ nsteps)
    (hp : 1 ≤ period) (hr : 0 ≤ numrec) (stem suffix : String) (snap : Int → Snapshot)
    (fs fs0 : List VFile) (h : coldRun layout nsteps period numrec stem suffix snap = .ok fs)
    (h0 : coldRun layout nsteps period 0 stem suffix snap = .ok fs0) :
    allTimes fs = allTimes fs0 ∧ allCounts fs = allCounts fs0 ∧ allPids fs = allPids fs0 := by
  sorry

/-- the generator continues a numbered prototype, keeping its width -/
theorem genName_numbered (base suffix : String) (n0 w k : Nat) (stem : String)
    (h : splitStem stem = some (base, n0, w)) :
    genName stem suffix k = base ++ "_" ++ padNat w (n0 + k) ++ suffix := by
  sorry

theorem genName_plain (stem suffix : String) (k : Nat) (h : splitStem stem = none) :
    genName stem suffix k = stem ++ "_" ++ padNat 3 k ++ suffix := by
  sorry

/-- why the pinned revision failed: with the floor prediction `nsteps / period` a run with
    `nsteps = 7`, `period = 2` writes to a closed file (kept as a witness of what the theorem
    rules out) -/
example : runSteps (init .sparse 2 (7 / 2) 0 "out" ".nc")
      (fun _ => { time := 0, pid := [], alive := [], cols := [], npid := 0, pvars := [] })
      (stepRange 0 7) = .error (6, .runtimeError) := by decide

/-! non-vacuity -/
example : (dueSteps 7 2) = [0, 2, 4, 6] := by decide
example : ∃ fs, coldRun .sparse 7 2 3 "out" ".nc"
      (fun st => { time := st, pid := [0], alive := [true], cols := [], npid := 1, pvars := [] }) = .ok fs
    ∧ fs.map (·.name) = ["out_000.nc", "out_001.nc"] ∧ fs.map (·.time.length) = [3, 1] :=
  ⟨_, rfl, by decide, by decide⟩

end Ladim.C07
