import Ladim.Model.Params
import Ladim.Props.C13Parser
import Ladim.Props.C18
/-
The glue between the configuration and the modules (`Ladim.Params.ofCfg`): every spelling of a
period means the same parameters, omitted keys mean the documented defaults, the derived
quantities are what the arithmetic says, and the legacy vocabulary gives the parameters of its
version-2 translation.  Composition of C13 (period spellings) and C18 (three spellings, one
run) at the level of what the module constructors compute.
-/

namespace Ladim.ParamsProps
open Ladim Params

/-- replace the value of `key` in section `sec` of a configured tree -/
def setIn (conf : Cfg) (sec key : String) (v : Cfg) : Cfg :=
  conf.set sec ((getD conf sec Cfg.emptyDict).set key v)

/-! ### look-up in a tree after `setIn` -/

theorem getD_set (c : Cfg) (k k' : String) (v d : Cfg) :
    getD (c.set k v) k' d = if k' = k ∧ C18.isDict c = true then v else getD c k' d := by
  unfold getD
  rw [C18.get?_set]
  split <;> rfl

theorem set_of_not_dict (c : Cfg) (k : String) (v : Cfg) (h : C18.isDict c = false) : c.set k v = c := by
  cases c <;> first | rfl | simp [C18.isDict] at h

theorem getD_setIn_ne (conf : Cfg) (sec key sec' : String) (v d : Cfg) (h : sec' ≠ sec) :
    getD (setIn conf sec key v) sec' d = getD conf sec' d := by
  unfold setIn
  rw [getD_set, if_neg (fun hh => h hh.1)]

theorem getD_setIn_same (conf : Cfg) (sec key : String) (v d : Cfg) (hd : C18.isDict conf = true) :
    getD (setIn conf sec key v) sec d = (getD conf sec Cfg.emptyDict).set key v := by
  unfold setIn
  rw [getD_set, if_pos ⟨rfl, hd⟩]

theorem get?_setIn_ne (conf : Cfg) (sec key sec' : String) (v : Cfg) (h : sec' ≠ sec) :
    (setIn conf sec key v).get? sec' = conf.get? sec' := by
  unfold setIn
  rw [C18.get?_set_ne _ _ _ _ h]

theorem getD_getD_setIn (conf : Cfg) (sec key : String) (v : Cfg) (hd : C18.isDict conf = true)
    (hs : C18.isDict (getD conf sec Cfg.emptyDict) = true) (sec' k' : String) (d' : Cfg) :
    getD (getD (setIn conf sec key v) sec' Cfg.emptyDict) k' d' =
      if sec' = sec ∧ k' = key then v else getD (getD conf sec' Cfg.emptyDict) k' d' := by
  by_cases h : sec' = sec
  · subst h
    rw [getD_setIn_same _ _ _ _ _ hd, getD_set]
    simp only [hs, and_true, true_and]
  · rw [getD_setIn_ne _ _ _ _ _ _ h, if_neg (fun hh => h hh.1)]

theorem get?_getD_setIn (conf : Cfg) (sec key : String) (v : Cfg) (hd : C18.isDict conf = true)
    (hs : C18.isDict (getD conf sec Cfg.emptyDict) = true) (sec' k' : String) :
    (getD (setIn conf sec key v) sec' Cfg.emptyDict).get? k' =
      if sec' = sec ∧ k' = key then some v else (getD conf sec' Cfg.emptyDict).get? k' := by
  by_cases h : sec' = sec
  · subst h
    rw [getD_setIn_same _ _ _ _ _ hd, C18.get?_set]
    simp only [hs, and_true, true_and]
  · rw [getD_setIn_ne _ _ _ _ _ _ h, if_neg (fun hh => h hh.1)]

/-! ### `ofCfg` as an explicit case analysis -/

/-- the record `ofCfg` builds once the three periods are known -/
def mk (conf : Cfg) (dt op : Int) (rf : Option Int) : Params :=
  let time := getD conf "time" Cfg.emptyDict
  let tracker := getD conf "tracker" Cfg.emptyDict
  let output := getD conf "output" Cfg.emptyDict
  let release := getD conf "release" Cfg.emptyDict
  let forcing := getD conf "forcing" Cfg.emptyDict
  let grid := getD conf "grid" Cfg.emptyDict
  let rev := (getD time "time_reversal" (.bool false)).truthy
  let adv0 := ((getD tracker "advection" (.str "")).strVal?).getD ""
  let numrec : Int := match getD output "numrec" (.num 0) with
    | .num q => q.num
    | _ => 0
  { dt := dt, rev := rev, hasRef := (getD time "reference" .null).truthy,
    advection := if ["EF", "RK2", "RK4"].contains adv0 then adv0 else "",
    diffusion := numPos (getD tracker "diffusion" (.num 0)),
    vertDiff := numPos (getD tracker "vertdiff" (.num 0)),
    vertAdv := (getD tracker "vertical_advection" (.bool false)).truthy,
    outPeriod := if rev then -op else op,
    outPeriodStep := Int.fdiv op dt,
    multifile := numrec != 0,
    numrec := if numrec != 0 then numrec else 999999,
    layout := ((getD output "layout" (.str "sparse")).strVal?).getD "sparse",
    skipInitial := (getD output "skip_initial" (.bool false)).truthy,
    continuous := (getD release "continuous" (.bool false)).truthy, relFreq := rf,
    extraForcing := strList (getD forcing "extra_forcing" (.list [])),
    subgrid := match grid.get? "subgrid" with
      | some s => intList s
      | none => none }

/-- `ofCfg` as an explicit case analysis -/
theorem ofCfg_eq (conf : Cfg) :
    ofCfg conf =
      if (getD (getD conf "time" Cfg.emptyDict) "dt" .null).truthy = false then .error .exit3 else
      match normalizePeriod (periodOf (getD (getD conf "time" Cfg.emptyDict) "dt" .null)) with
      | .error e => .error e
      | .ok dt =>
        match normalizePeriod (periodOf (getD (getD conf "output" Cfg.emptyDict) "output_period" .null)) with
        | .error e => .error e
        | .ok op =>
          if (getD (getD conf "release" Cfg.emptyDict) "continuous" (.bool false)).truthy = true then
            match normalizePeriod (periodOf (getD (getD conf "release" Cfg.emptyDict) "release_frequency" (.num 0))) with
            | .error e => .error e
            | .ok f => if f = 0 then .error .valueError else .ok (mk conf dt op (some f))
          else .ok (mk conf dt op none) := by
  simp only [ofCfg]
  cases (getD (getD conf "time" Cfg.emptyDict) "dt" .null).truthy with
  | false => rfl
  | true =>
    cases normalizePeriod (periodOf (getD (getD conf "time" Cfg.emptyDict) "dt" .null)) with
    | error e => rfl
    | ok dt =>
      cases normalizePeriod (periodOf (getD (getD conf "output" Cfg.emptyDict) "output_period" .null)) with
      | error e => rfl
      | ok op =>
        cases hc : (getD (getD conf "release" Cfg.emptyDict) "continuous" (.bool false)).truthy with
        | false => simp only [mk, hc]; rfl
        | true =>
          cases normalizePeriod (periodOf (getD (getD conf "release" Cfg.emptyDict) "release_frequency" (.num 0))) with
          | error e => rfl
          | ok f =>
            by_cases hf : f = 0
            · simp only [hf, if_true]; rfl
            · simp only [mk, hc, hf, if_false]; rfl


/-- what a successful `ofCfg` says -/
theorem ofCfg_ok (conf : Cfg) (p : Params) (h : ofCfg conf = .ok p) :
    ∃ dt op rf,
      (getD (getD conf "time" Cfg.emptyDict) "dt" .null).truthy = true ∧
      normalizePeriod (periodOf (getD (getD conf "time" Cfg.emptyDict) "dt" .null)) = .ok dt ∧
      normalizePeriod (periodOf (getD (getD conf "output" Cfg.emptyDict) "output_period" .null)) = .ok op ∧
      ((getD (getD conf "release" Cfg.emptyDict) "continuous" (.bool false)).truthy = true →
        ∃ f, normalizePeriod (periodOf (getD (getD conf "release" Cfg.emptyDict) "release_frequency" (.num 0))) = .ok f ∧
          rf = some f) ∧
      ((getD (getD conf "release" Cfg.emptyDict) "continuous" (.bool false)).truthy = false → rf = none) ∧
      p = mk conf dt op rf := by
  rw [ofCfg_eq] at h
  cases ht : (getD (getD conf "time" Cfg.emptyDict) "dt" .null).truthy with
  | false => rw [ht] at h; simp at h
  | true =>
    rw [ht] at h
    simp only [Bool.true_eq_false, if_false] at h
    cases hdt : normalizePeriod (periodOf (getD (getD conf "time" Cfg.emptyDict) "dt" .null)) with
    | error e => rw [hdt] at h; cases h
    | ok dt =>
      rw [hdt] at h
      cases hop : normalizePeriod (periodOf (getD (getD conf "output" Cfg.emptyDict) "output_period" .null)) with
      | error e => rw [hop] at h; cases h
      | ok op =>
        rw [hop] at h
        cases hc : (getD (getD conf "release" Cfg.emptyDict) "continuous" (.bool false)).truthy with
        | false =>
          rw [hc] at h
          simp only [Bool.false_eq_true, if_false] at h
          injection h with h
          exact ⟨dt, op, none, rfl, rfl, rfl, fun hh => (by cases hh), fun _ => rfl, h.symm⟩
        | true =>
          rw [hc] at h
          simp only [if_true] at h
          cases hf : normalizePeriod (periodOf (getD (getD conf "release" Cfg.emptyDict) "release_frequency" (.num 0))) with
          | error e => rw [hf] at h; cases h
          | ok f =>
            rw [hf] at h
            by_cases hf0 : f = 0
            · simp only [hf0, if_true] at h; cases h
            · simp only [hf0, if_false] at h
              injection h with h
              exact ⟨dt, op, some f, rfl, rfl, rfl, fun _ => ⟨f, rfl, rfl⟩, fun hh => (by cases hh), h.symm⟩

/-! ### the spellings of a period -/

/-- the three spellings of one minute (and of two minutes, one hour) are the same period -/
theorem minute_spellings :
    normalizePeriod (periodOf (.num 60)) = .ok 60 ∧
    normalizePeriod (periodOf (.list [.num 1, .str "m"])) = .ok 60 ∧
    normalizePeriod (periodOf (.list [.num 60, .str "s"])) = .ok 60 ∧
    normalizePeriod (periodOf (.str "PT1M")) = .ok 60 ∧
    normalizePeriod (periodOf (.str "PT60S")) = .ok 60 ∧
    normalizePeriod (periodOf (.str "PT1H")) = .ok 3600 ∧
    normalizePeriod (periodOf (.list [.num 1, .str "h"])) = .ok 3600 := by
  refine ⟨?_, ?_, ?_, ?_, ?_, ?_, ?_⟩ <;> decide

/-- malformed periods are refused with `ValueError`: a fractional number, a pair with a
    fractional value or an unknown unit, a string that is not `PTxHyMzS`, nothing at all -/
theorem malformed_periods :
    normalizePeriod (periodOf (.num (3/2))) = .error .valueError ∧
    normalizePeriod (periodOf (.list [.num (3/2), .str "m"])) = .error .valueError ∧
    normalizePeriod (periodOf (.list [.num 1, .str "x"])) = .error .valueError ∧
    normalizePeriod (periodOf (.list [.num 1, .str "m", .num 2])) = .error .valueError ∧
    normalizePeriod (periodOf (.str "1M")) = .error .valueError ∧
    normalizePeriod (periodOf (.str "PT")) = .error .valueError ∧
    normalizePeriod (periodOf .null) = .error .valueError := by
  refine ⟨?_, ?_, ?_, ?_, ?_, ?_, ?_⟩ <;> decide +kernel
/-- **spellings_same_params** (time step): two spellings of the time step that `normalize_period`
    maps to the same number of seconds (and that are both "given", i.e. truthy) yield the same
    parameters — whatever the rest of the configuration is (also when `time` holds a scalar instead
    of a section: the assignment then has no effect on either side) -/
theorem spellings_same_params_dt (conf : Cfg) (a b : Cfg) (hd : ∃ l, conf = .dict l)
    (hn : normalizePeriod (periodOf a) = normalizePeriod (periodOf b)) (ht : a.truthy = b.truthy) :
    ofCfg (setIn conf "time" "dt" a) = ofCfg (setIn conf "time" "dt" b) := by
  have hd' := (C18.isDict_iff conf).mpr hd
  cases hs : C18.isDict (getD conf "time" Cfg.emptyDict) with
  | false => simp only [setIn, set_of_not_dict _ _ _ hs]
  | true =>
    simp only [ofCfg_eq, mk, getD_getD_setIn _ _ _ _ hd' hs, get?_getD_setIn _ _ _ _ hd' hs, String.reduceEq,
      and_true, and_false, if_true, if_false, ht, hn]

/-- likewise for the output period -/
theorem spellings_same_params_outper (conf : Cfg) (a b : Cfg) (hd : ∃ l, conf = .dict l)
    (hn : normalizePeriod (periodOf a) = normalizePeriod (periodOf b)) :
    ofCfg (setIn conf "output" "output_period" a) = ofCfg (setIn conf "output" "output_period" b) := by
  have hd' := (C18.isDict_iff conf).mpr hd
  cases hs : C18.isDict (getD conf "output" Cfg.emptyDict) with
  | false => simp only [setIn, set_of_not_dict _ _ _ hs]
  | true =>
    simp only [ofCfg_eq, mk, getD_getD_setIn _ _ _ _ hd' hs, get?_getD_setIn _ _ _ _ hd' hs, String.reduceEq,
      and_true, and_false, if_true, if_false, hn]

/-- likewise for the release frequency -/
theorem spellings_same_params_freq (conf : Cfg) (a b : Cfg) (hd : ∃ l, conf = .dict l)
    (hn : normalizePeriod (periodOf a) = normalizePeriod (periodOf b)) :
    ofCfg (setIn conf "release" "release_frequency" a) = ofCfg (setIn conf "release" "release_frequency" b) := by
  have hd' := (C18.isDict_iff conf).mpr hd
  cases hs : C18.isDict (getD conf "release" Cfg.emptyDict) with
  | false => simp only [setIn, set_of_not_dict _ _ _ hs]
  | true =>
    simp only [ofCfg_eq, mk, getD_getD_setIn _ _ _ _ hd' hs, get?_getD_setIn _ _ _ _ hd' hs, String.reduceEq,
      and_true, and_false, if_true, if_false, hn]

/-- an instance: `dt: 60`, `dt: [1, m]` and `dt: PT1M` give the same parameters in any configuration -/
theorem one_minute_same_params (conf : Cfg) (hd : ∃ l, conf = .dict l) :
    ofCfg (setIn conf "time" "dt" (.num 60)) = ofCfg (setIn conf "time" "dt" (.list [.num 1, .str "m"])) ∧
    ofCfg (setIn conf "time" "dt" (.num 60)) = ofCfg (setIn conf "time" "dt" (.str "PT1M")) := by
  obtain ⟨m1, m2, -, m4, -⟩ := minute_spellings
  exact ⟨spellings_same_params_dt conf _ _ hd (m1.trans m2.symm) (by decide),
    spellings_same_params_dt conf _ _ hd (m1.trans m4.symm) (by decide)⟩

/-! ### defaults and derived quantities -/

/-- **defaults**: keys that are not given mean the documented defaults -/
theorem defaults (conf : Cfg) (p : Params) (h : ofCfg conf = .ok p) :
    ((getD conf "time" Cfg.emptyDict).get? "time_reversal" = none → p.rev = false) ∧
    ((getD conf "tracker" Cfg.emptyDict).get? "advection" = none → p.advection = "") ∧
    ((getD conf "tracker" Cfg.emptyDict).get? "diffusion" = none → p.diffusion = false) ∧
    ((getD conf "tracker" Cfg.emptyDict).get? "vertdiff" = none → p.vertDiff = false) ∧
    ((getD conf "tracker" Cfg.emptyDict).get? "vertical_advection" = none → p.vertAdv = false) ∧
    ((getD conf "output" Cfg.emptyDict).get? "numrec" = none → p.multifile = false ∧ p.numrec = 999999) ∧
    ((getD conf "output" Cfg.emptyDict).get? "layout" = none → p.layout = "sparse") ∧
    ((getD conf "output" Cfg.emptyDict).get? "skip_initial" = none → p.skipInitial = false) ∧
    ((getD conf "release" Cfg.emptyDict).get? "continuous" = none → p.continuous = false ∧ p.relFreq = none) ∧
    ((getD conf "forcing" Cfg.emptyDict).get? "extra_forcing" = none → p.extraForcing = []) ∧
    ((getD conf "grid" Cfg.emptyDict).get? "subgrid" = none → p.subgrid = none) := by
  obtain ⟨dt, op, rf, -, -, -, -, hrf, rfl⟩ := ofCfg_ok conf p h
  have hg : ∀ (c : Cfg) k d, c.get? k = none → getD c k d = d := fun c k d hk => by simp [getD, hk]
  refine ⟨?_, ?_, ?_, ?_, ?_, ?_, ?_, ?_, ?_, ?_, ?_⟩ <;> intro hk
  · simp only [mk, hg _ _ _ hk]; rfl
  · simp only [mk, hg _ _ _ hk]; rfl
  · simp only [mk, hg _ _ _ hk]; decide
  · simp only [mk, hg _ _ _ hk]; decide
  · simp only [mk, hg _ _ _ hk]; rfl
  · simp only [mk, hg _ _ _ hk]; constructor <;> rfl
  · simp only [mk, hg _ _ _ hk]; rfl
  · simp only [mk, hg _ _ _ hk]; rfl
  · have := hrf (by rw [hg _ _ _ hk]; rfl)
    subst this
    simp only [mk, hg _ _ _ hk]; constructor <;> first | rfl | trivial
  · simp only [mk, hg _ _ _ hk]; rfl
  · simp only [mk, hk]

/-- floor division by a positive number -/
theorem fdiv_bounds (a b : Int) (hb : 0 < b) :
    Int.fdiv a b * b ≤ a ∧ a < (Int.fdiv a b + 1) * b ∧ (0 ≤ Int.fdiv a b ↔ 0 ≤ a) := by
  rw [Int.fdiv_eq_ediv_of_nonneg _ hb.le]
  refine ⟨Int.ediv_mul_le _ hb.ne', Int.lt_ediv_add_one_mul_self _ hb, ?_⟩
  exact Int.ediv_nonneg_iff_of_pos hb

/-- **derived quantities, signed form**: with `op` the normalised output period as written (it
    may be negative if the user writes a negative number), the output period of the run is `op`
    with the sign of the direction of time, the output period in steps is `op // dt`, and for a
    positive time step that is the floor of the ratio; it is nonnegative exactly when `op` is -/
theorem derived_signed (conf : Cfg) (p : Params) (h : ofCfg conf = .ok p) :
    ∃ op, normalizePeriod (periodOf (getD (getD conf "output" Cfg.emptyDict) "output_period" .null)) = .ok op ∧
      p.outPeriod = (if p.rev then -op else op) ∧ p.outPeriodStep = Int.fdiv op p.dt ∧
      (0 < p.dt → p.outPeriodStep * p.dt ≤ op ∧ op < (p.outPeriodStep + 1) * p.dt ∧ (0 ≤ p.outPeriodStep ↔ 0 ≤ op)) := by
  obtain ⟨dt, op, rf, -, -, hop, -, -, rfl⟩ := ofCfg_ok conf p h
  exact ⟨op, hop, rfl, rfl, fun hdt => fdiv_bounds op dt hdt⟩

/-- **derived quantities**: the output period in steps is the floor of the ratio (the upper
    bound only for a period of at least zero steps: a negative period written by the user gives a
    negative number of steps), the sign of the output period follows the direction of time, an
    unknown advection name means none, and a falsy time step is refused (`missing_dt_refused`) -/
theorem derived (conf : Cfg) (p : Params) (h : ofCfg conf = .ok p) (hdt : 0 < p.dt) :
    p.outPeriodStep * p.dt ≤ |p.outPeriod| ∧
    (0 ≤ p.outPeriodStep → |p.outPeriod| < (p.outPeriodStep + 1) * p.dt) ∧
    (p.rev = true → p.outPeriod ≤ 0 ∨ p.outPeriodStep < 0) ∧
    (p.advection = "" ∨ p.advection = "EF" ∨ p.advection = "RK2" ∨ p.advection = "RK4") ∧
    (p.multifile = false → p.numrec = 999999) := by
  obtain ⟨op, -, ho, hs, hb⟩ := derived_signed conf p h
  obtain ⟨b1, b2, b3⟩ := hb hdt
  have habs : |p.outPeriod| = |op| := by
    rw [ho]; split
    · exact abs_neg op
    · rfl
  refine ⟨?_, ?_, ?_, ?_, ?_⟩
  · rw [habs]; exact b1.trans (le_abs_self op)
  · intro h0
    rw [habs, abs_of_nonneg (b3.mp h0)]; exact b2
  · intro hr
    by_cases h0 : 0 ≤ p.outPeriodStep
    · left; rw [ho, hr]; simp only [if_true]; have := b3.mp h0; omega
    · right; omega
  · obtain ⟨dt, op, rf, -, -, -, -, -, rfl⟩ := ofCfg_ok conf p h
    simp only [mk]
    split
    · rename_i hc
      simp only [List.contains_cons, List.contains_nil, Bool.or_false, Bool.or_eq_true, beq_iff_eq] at hc
      rcases hc with hc | hc | hc <;> simp [hc]
    · left; rfl
  · obtain ⟨dt, op, rf, -, -, -, -, -, rfl⟩ := ofCfg_ok conf p h
    simp only [mk]
    intro hm
    rw [if_neg (by simpa using hm)]

/-- the same under the assumption that the output period is at least zero steps (equivalently,
    that the period written is not negative) -/
theorem derived_nonneg (conf : Cfg) (p : Params) (h : ofCfg conf = .ok p) (hdt : 0 < p.dt)
    (hop : 0 ≤ p.outPeriodStep) :
    p.outPeriodStep * p.dt ≤ |p.outPeriod| ∧ |p.outPeriod| < (p.outPeriodStep + 1) * p.dt ∧
    (p.rev = true → p.outPeriod ≤ 0) ∧ (p.rev = false → 0 ≤ p.outPeriod) ∧
    (p.advection = "" ∨ p.advection = "EF" ∨ p.advection = "RK2" ∨ p.advection = "RK4") ∧
    (p.multifile = false → p.numrec = 999999) := by
  obtain ⟨d1, d2, d3, d4, d5⟩ := derived conf p h hdt
  refine ⟨d1, d2 hop, fun hr => (d3 hr).resolve_right (by omega), ?_, d4, d5⟩
  intro hr
  obtain ⟨op, -, ho, -, hb⟩ := derived_signed conf p h
  rw [ho, hr]
  simpa using (hb hdt).2.2.mp hop

theorem missing_dt_refused (conf : Cfg) (h : (getD (getD conf "time" Cfg.emptyDict) "dt" .null).truthy = false) :
    ofCfg conf = .error .exit3 := by
  rw [ofCfg_eq, if_pos h]

/-- `normalize_period` refuses with `ValueError` only -/
theorem normalizePeriod_error (x : PeriodIn) (e : Refusal) (h : normalizePeriod x = .error e) :
    e = .valueError := by
  unfold normalizePeriod at h
  split at h
  · cases h
  · split at h
    · cases h
    · cases h; rfl
  · cases h; rfl
  · split at h
    · cases h
    · cases h; rfl
  · cases h; rfl

/-- **zero_frequency_refused**: a continuous release whose frequency normalises to 0 (whatever its
    spelling: `0`, `false`, `[0, h]`, `PT0S`, or the key omitted) is refused with `ValueError`, as
    soon as a time step is given — whatever the rest of the configuration is -/
theorem zero_frequency_refused (conf : Cfg)
    (ht : (getD (getD conf "time" Cfg.emptyDict) "dt" .null).truthy = true)
    (hc : (getD (getD conf "release" Cfg.emptyDict) "continuous" (.bool false)).truthy = true)
    (hf : normalizePeriod (periodOf (getD (getD conf "release" Cfg.emptyDict) "release_frequency" (.num 0))) = .ok 0) :
    ofCfg conf = .error .valueError := by
  rw [ofCfg_eq, ht, hc, hf]
  simp only [Bool.true_eq_false, if_false, if_true]
  cases hdt : normalizePeriod (periodOf (getD (getD conf "time" Cfg.emptyDict) "dt" .null)) with
  | error e => rw [normalizePeriod_error _ _ hdt]
  | ok dt =>
    cases hop : normalizePeriod (periodOf (getD (getD conf "output" Cfg.emptyDict) "output_period" .null)) with
    | error e => rw [normalizePeriod_error _ _ hop]
    | ok op => rfl

/-- without any assumption on the time step: no parameters come out of such a configuration -/
theorem zero_frequency_no_params (conf : Cfg)
    (hc : (getD (getD conf "release" Cfg.emptyDict) "continuous" (.bool false)).truthy = true)
    (hf : normalizePeriod (periodOf (getD (getD conf "release" Cfg.emptyDict) "release_frequency" (.num 0))) = .ok 0)
    (p : Params) : ofCfg conf ≠ .ok p := by
  intro h
  cases ht : (getD (getD conf "time" Cfg.emptyDict) "dt" .null).truthy with
  | false => rw [missing_dt_refused conf ht] at h; cases h
  | true => rw [zero_frequency_refused conf ht hc hf] at h; cases h

/-- the release frequency of accepted parameters: present exactly for a continuous release, it is
    then the normalised configured value and never 0 -/
theorem relFreq_ok (conf : Cfg) (p : Params) (h : ofCfg conf = .ok p) :
    p.relFreq ≠ some 0 ∧
    (p.continuous = true ↔ ∃ f, p.relFreq = some f) ∧
    (p.continuous = false ↔ p.relFreq = none) ∧
    (∀ f, p.relFreq = some f → f ≠ 0 ∧
      normalizePeriod (periodOf (getD (getD conf "release" Cfg.emptyDict) "release_frequency" (.num 0))) = .ok f) := by
  obtain ⟨dt, op, rf, -, -, -, hct, hcf, rfl⟩ := ofCfg_ok conf p h
  have hmc : (mk conf dt op rf).continuous =
      (getD (getD conf "release" Cfg.emptyDict) "continuous" (.bool false)).truthy := rfl
  have hmr : (mk conf dt op rf).relFreq = rf := rfl
  rw [hmc, hmr]
  cases hc : (getD (getD conf "release" Cfg.emptyDict) "continuous" (.bool false)).truthy with
  | false =>
    have := hcf hc
    subst this
    simp
  | true =>
    obtain ⟨f, hf, rfl⟩ := hct hc
    have hne : f ≠ 0 := by
      rintro rfl
      exact zero_frequency_no_params conf hc hf _ h
    refine ⟨by simpa using hne, by simp, by simp, ?_⟩
    intro f' hf'
    cases hf'
    exact ⟨hne, hf⟩

/-- **v1_eq_v2_params**: a legacy (version 1) file gives the parameters of its version-2
    translation (`C18.v1_eq_v2`: the translation of `renderV1 s` is `canonV2 s`, a fixed point of
    `configure_v2`) -/
theorem v1_eq_v2_params (glob : String → List String) (s : C18.Sim) (hs : C18.SimOK s) :
    Params.ofFile glob (C18.renderV1 s) = Params.ofCfg (C18.canonV2 s) ∧
    Params.ofFile glob (C18.canonV2 s) = Params.ofCfg (C18.canonV2 s) := by
  obtain ⟨h1, h2⟩ := C18.v1_eq_v2 glob s hs
  have r1 : (C18.renderV1 s).has "version" = false := by simp [C18.renderV1, Cfg.has, Cfg.get?]
  have r2 : (C18.renderV1 s).has "time_control" = true := by simp [C18.renderV1, Cfg.has, Cfg.get?]
  have c1 : (C18.canonV2 s).has "version" = false := by simp [C18.canonV2, Cfg.has, Cfg.get?]
  have c2 : (C18.canonV2 s).has "time_control" = false := by simp [C18.canonV2, Cfg.has, Cfg.get?]
  constructor
  · simp only [ofFile, C18.dispatch glob _ r1, r2, if_true, h1]
  · simp only [ofFile, C18.dispatch glob _ c1, c2, Bool.false_eq_true, if_false, h2]

/-! ### non-vacuity -/

/-- a small configured tree -/
def exConf : Cfg :=
  .dict [("time", .dict [("dt", .num 60)]), ("tracker", .dict []),
         ("output", .dict [("output_period", .list [.num 2, .str "m"])]),
         ("release", .dict []), ("forcing", .dict []), ("grid", .dict [])]

example : ofCfg exConf = .ok
    { dt := 60, rev := false, hasRef := false, advection := "", diffusion := false, vertDiff := false,
      vertAdv := false, outPeriod := 120, outPeriodStep := 2, multifile := false, numrec := 999999,
      layout := "sparse", skipInitial := false, continuous := false, relFreq := none,
      extraForcing := [], subgrid := none } := by
  decide


/-- why the upper floor bound in `derived` is guarded: a negative output period is accepted (as it
    is by the code), gives a negative number of steps, and the unguarded bound fails -/
example :
    let conf : Cfg := .dict [("time", .dict [("dt", .num 60)]), ("output", .dict [("output_period", .num (-90))])]
    ∃ p, ofCfg conf = .ok p ∧ 0 < p.dt ∧ p.outPeriod = -90 ∧ p.outPeriodStep = -2 ∧
      ¬ (|p.outPeriod| < (p.outPeriodStep + 1) * p.dt) := by
  refine ⟨_, rfl, ?_⟩
  decide

end Ladim.ParamsProps
