import Ladim.Model.Config
import Mathlib.Tactic.Linarith
import Mathlib.Data.List.Basic
/-
C18 — one simulation, three spellings.  Property theorems about `Ladim.Model.Config`
(`configure`, `configure_v2`, `configure_v1` of `ladim/configure.py`).  YAML and TOML differ
only by the (trusted) parser: both yield the same tree, which is where the model starts.
-/

namespace Ladim.C18
open Ladim Cfg

/-! ### look-up after assignment -/

theorem find_map_repl (l : List (String × Cfg)) (k k' : String) (v : Cfg) :
    (l.map (fun p => if p.1 == k then (k, v) else p)).find? (·.1 == k') =
      if k' = k then (if l.any (·.1 == k) then some (k, v) else none) else l.find? (·.1 == k') := by
  induction l with
  | nil => simp
  | cons p l ih =>
    simp only [List.map_cons, List.find?_cons, List.any_cons, ih]
    by_cases hp : p.1 = k
    · by_cases hk : k' = k
      · simp [hp, hk]
      · have h1 : (k == k') = false := by simpa using Ne.symm hk
        simp [hp, hk, h1]
    · by_cases hk : k' = k
      · have h1 : (p.1 == k) = false := by simpa using hp
        subst hk
        simp only [h1, Bool.false_eq_true, if_false, Bool.false_or, if_true]
      · simp [hp, hk]

theorem get?_set_dict (l : List (String × Cfg)) (k k' : String) (v : Cfg) :
    ((Cfg.dict l).set k v).get? k' = if k' = k then some v else (Cfg.dict l).get? k' := by
  unfold Cfg.set
  by_cases ha : l.any (·.1 == k) = true
  · simp only [ha, if_true, Cfg.get?, find_map_repl]
    by_cases hk : k' = k <;> simp [hk]
  · simp only [ha, Cfg.get?]
    simp only [Bool.not_eq_true] at ha
    by_cases hk : k' = k
    · subst hk
      have : l.find? (·.1 == k') = none := by
        rw [List.find?_eq_none]; intro x hx
        have := List.any_eq_false.mp ha x hx
        simpa using this
      simp [this]
    · have h1 : (k == k') = false := by simpa using Ne.symm hk
      simp [hk, h1]

theorem get?_set_ne (c : Cfg) (k k' : String) (v : Cfg) (h : k' ≠ k) :
    (c.set k v).get? k' = c.get? k' := by
  cases c <;> try rfl
  rw [get?_set_dict, if_neg h]

theorem get?_set_self (l : List (String × Cfg)) (k : String) (v : Cfg) :
    ((Cfg.dict l).set k v).get? k = some v := by
  rw [get?_set_dict, if_pos rfl]

theorem set_isDict (l : List (String × Cfg)) (k : String) (v : Cfg) :
    ∃ l', (Cfg.dict l).set k v = .dict l' := by
  unfold Cfg.set; simp only []; split <;> exact ⟨_, rfl⟩


/-! ### `configure_v2` as a chain of steps

`configureV2 glob c0 = pre (phase1 c0) >>= stepGrid glob` (`configureV2_eq'`): the defaulting of
the optional sections, the checks of the mandatory ones, and the completion of the grid section. -/

def addDefault (c : Cfg) (k : String) : Cfg := if c.has k then c else c.set k emptyDict

def phase1 (c0 : Cfg) : Cfg :=
  addDefault (addDefault (addDefault (addDefault c0 "state") "grid") "ibm") "warm_start"

def stepTracker (c : Cfg) : Except String Cfg :=
  match c.get? "tracker" with
  | none => throw "tracker"
  | some t => pure (if t.isNull then c.set "tracker" emptyDict else c)

def stepTime (c : Cfg) : Except String Cfg :=
  if !c.has "time" then throw "time" else pure c

def stepRelease (c : Cfg) : Except String Cfg :=
  match c.get? "release" with
  | none => throw "release"
  | some r => pure (if r.isNull then c.set "release" (.dict [("release_file", .str "")]) else c)

def stepOutput (c : Cfg) : Except String Cfg :=
  if !c.has "output" then throw "output" else pure c

def gridModule (c grid : Cfg) : Except String Cfg :=
  if grid.has "module" then pure grid else
    match c.get? "forcing" with
    | none => throw "forcing"
    | some f => match f.get? "module" with
      | none => throw "module"
      | some m => pure (grid.set "module" m)

def gridFilename (glob : String → List String) (c grid : Cfg) : Except String Cfg :=
  if grid.has "filename" then pure grid else
    match c.get? "forcing" with
    | none => throw "forcing"
    | some f => match f.get? "filename" with
      | none => throw "filename"
      | some fn => pure (grid.set "filename" (.str (gridFileFrom glob ((fn.strVal?).getD ""))))

def stepGrid (glob : String → List String) (c : Cfg) : Except String Cfg :=
  (gridModule c ((c.get? "grid").getD emptyDict) >>= gridFilename glob c) >>= fun grid => pure (c.set "grid" grid)

theorem configureV2_eq (glob : String → List String) (c0 : Cfg) :
    configureV2 glob c0 =
      (stepTracker (phase1 c0) >>= stepTime >>= stepRelease >>= stepOutput >>= stepGrid glob) := by
  unfold configureV2
  extract_lets c1 c2 c3 c4
  have h4 : phase1 c0 = c4 := rfl
  rw [h4]
  clear_value c4
  rename_i jp1 jp2
  cases ht : c4.get? "tracker" with
  | none => simp [stepTracker, ht, bind, Except.bind, throw, throwThe, MonadExceptOf.throw]
  | some t =>
    simp only [stepTracker, ht, pure_bind]
    generalize (if t.isNull = true then c4.set "tracker" emptyDict else c4) = c5
    simp only [jp2, stepTime]
    cases h5 : c5.has "time" with
    | false => simp [bind, Except.bind, throw, throwThe, MonadExceptOf.throw]
    | true =>
      simp only [Bool.not_true, Bool.false_eq_true, if_false, pure_bind]
      cases hr : c5.get? "release" with
      | none => simp [stepRelease, hr, bind, Except.bind, throw, throwThe, MonadExceptOf.throw]
      | some r =>
        simp only [stepRelease, hr, pure_bind]
        generalize (if r.isNull = true then c5.set "release" (dict [("release_file", str "")]) else c5) = c6
        simp only [jp1, stepOutput]
        cases h6 : c6.has "output" with
        | false => simp [bind, Except.bind, throw, throwThe, MonadExceptOf.throw]
        | true =>
          simp only [Bool.not_true, Bool.false_eq_true, if_false, pure_bind, stepGrid, gridModule]
          generalize ((c6.get? "grid").getD emptyDict) = g
          unfold gridFilename
          cases hm : g.has "module" <;> rcases c6.get? "forcing" with _ | f <;> dsimp only [] <;>
            simp only [Bool.false_eq_true, if_false, if_true, pure_bind] <;> try rfl
          · rcases f.get? "module" with _ | m <;> dsimp only [] <;> try rfl
            simp only [pure_bind]
            generalize g.set "module" m = g'
            cases g'.has "filename" <;> simp only [Bool.false_eq_true, if_false, if_true, pure_bind]
            rcases f.get? "filename" with _ | fn <;> rfl
          · cases g.has "filename" <;> simp only [Bool.false_eq_true, if_false, if_true, pure_bind]
          · cases g.has "filename" <;> simp only [Bool.false_eq_true, if_false, if_true, pure_bind]
            rcases f.get? "filename" with _ | fn <;> rfl



def isDict : Cfg → Bool
  | .dict _ => true
  | _ => false

theorem isDict_iff (c : Cfg) : isDict c = true ↔ ∃ l, c = .dict l := by
  cases c <;> simp [isDict]

theorem isDict_set (c : Cfg) (k : String) (v : Cfg) : isDict (c.set k v) = isDict c := by
  cases c <;> try rfl
  rename_i l
  obtain ⟨l', h⟩ := set_isDict l k v
  rw [h]; rfl

theorem get?_set (c : Cfg) (k k' : String) (v : Cfg) :
    (c.set k v).get? k' = if k' = k ∧ isDict c = true then some v else c.get? k' := by
  cases c <;> try (simp [Cfg.set, Cfg.get?, isDict]; done)
  rename_i l
  rw [get?_set_dict]; simp [isDict]

theorem get?_none_of_not_dict (c : Cfg) (k : String) (h : isDict c = false) : c.get? k = none := by
  cases c <;> first | rfl | simp [isDict] at h

theorem isDict_of_get? (c : Cfg) (k : String) (v : Cfg) (h : c.get? k = some v) : isDict c = true := by
  cases c <;> first | rfl | simp [Cfg.get?] at h

theorem isDict_addDefault (c : Cfg) (k : String) : isDict (addDefault c k) = isDict c := by
  unfold addDefault; split
  · rfl
  · exact isDict_set _ _ _

theorem get?_addDefault (c : Cfg) (k k' : String) :
    (addDefault c k).get? k' =
      if k' = k ∧ isDict c = true then some ((c.get? k).getD emptyDict) else c.get? k' := by
  unfold addDefault Cfg.has
  cases h : c.get? k with
  | none =>
    simp only [Option.isSome_none, Bool.false_eq_true, if_false, get?_set, Option.getD_none]
  | some v =>
    simp only [Option.isSome_some, if_true, Option.getD_some]
    by_cases hk : k' = k
    · subst hk; simp [h, isDict_of_get? c k' v h]
    · simp [hk]

theorem isDict_phase1 (c : Cfg) : isDict (phase1 c) = isDict c := by
  simp only [phase1, isDict_addDefault]

theorem get?_phase1 (c : Cfg) (k' : String) :
    (phase1 c).get? k' =
      if (k' = "state" ∨ k' = "grid" ∨ k' = "ibm" ∨ k' = "warm_start") ∧ isDict c = true
      then some ((c.get? k').getD emptyDict) else c.get? k' := by
  simp only [phase1, get?_addDefault, isDict_addDefault]
  by_cases hd : isDict c = true
  · simp only [hd, and_true]
    by_cases h1 : k' = "warm_start"
    · subst h1; simp
    by_cases h2 : k' = "ibm"
    · subst h2; simp
    by_cases h3 : k' = "grid"
    · subst h3; simp
    by_cases h4 : k' = "state"
    · subst h4; simp
    simp [h1, h2, h3, h4]
  · simp [hd]

/-- a wildcard forcing file name stands for its first sorted match; a literal name for itself -/
theorem gridFileFrom_spec (glob : String → List String) (fn : String) :
    (fn.contains '*' = false ∧ fn.contains '?' = false → gridFileFrom glob fn = fn) ∧
    (∀ f rest, (fn.contains '*' = true ∨ fn.contains '?' = true) → glob fn = f :: rest → gridFileFrom glob fn = f) := by
  constructor
  · rintro ⟨h1, h2⟩
    simp [gridFileFrom, h1, h2]
  · intro f rest h hg
    have : (fn.contains '*' || fn.contains '?') = true := by
      rcases h with h | h <;> simp [h]
    simp only [gridFileFrom, this, hg, if_true]

/-- the version dispatch: an explicit version wins; otherwise a `time_control` section means
    version 1 -/
theorem dispatch (glob : String → List String) (c : Cfg) (hv : c.has "version" = false) :
    configure glob c =
      if c.has "time_control" then
        (match configureV1 glob c with | some r => .ok r | none => .error "KeyError")
      else configureV2 glob c := by
  have hv' : c.get? "version" = none := by
    simpa [Cfg.has] using hv
  unfold configure
  simp only [hv']
  cases c.has "time_control"
  · simp
  · simp; cases configureV1 glob c <;> rfl


/-- the mandatory-section checks, after the defaulting phase -/
def pre (c : Cfg) : Except String Cfg :=
  stepTracker c >>= stepTime >>= stepRelease >>= stepOutput

theorem configureV2_eq' (glob : String → List String) (c0 : Cfg) :
    configureV2 glob c0 = pre (phase1 c0) >>= stepGrid glob := configureV2_eq glob c0


theorem bind_ok {α β : Type} (x : Except String α) (f : α → Except String β) (b : β)
    (h : x >>= f = .ok b) : ∃ a, x = .ok a ∧ f a = .ok b := by
  cases x with
  | error e => cases h
  | ok a => exact ⟨a, rfl, h⟩

theorem stepTracker_ok (c c' : Cfg) (h : stepTracker c = .ok c') :
    c.has "tracker" = true ∧ isDict c' = isDict c ∧ ∀ k, k ≠ "tracker" → c'.get? k = c.get? k := by
  unfold stepTracker at h
  cases ht : c.get? "tracker" with
  | none => rw [ht] at h; cases h
  | some t =>
    rw [ht] at h
    injection h with h
    subst h
    refine ⟨by simp [Cfg.has, ht], ?_, ?_⟩
    · split
      · exact isDict_set _ _ _
      · rfl
    · intro k hk
      split
      · exact get?_set_ne _ _ _ _ hk
      · rfl

theorem stepRelease_ok (c c' : Cfg) (h : stepRelease c = .ok c') :
    c.has "release" = true ∧ isDict c' = isDict c ∧ ∀ k, k ≠ "release" → c'.get? k = c.get? k := by
  unfold stepRelease at h
  cases ht : c.get? "release" with
  | none => rw [ht] at h; cases h
  | some t =>
    rw [ht] at h
    injection h with h
    subst h
    refine ⟨by simp [Cfg.has, ht], ?_, ?_⟩
    · split
      · exact isDict_set _ _ _
      · rfl
    · intro k hk
      split
      · exact get?_set_ne _ _ _ _ hk
      · rfl

theorem stepTime_ok (c c' : Cfg) (h : stepTime c = .ok c') : c.has "time" = true ∧ c' = c := by
  unfold stepTime at h
  cases ht : c.has "time" with
  | false => rw [ht] at h; cases h
  | true =>
    rw [ht] at h
    injection h with h
    exact ⟨rfl, h.symm⟩

theorem stepOutput_ok (c c' : Cfg) (h : stepOutput c = .ok c') : c.has "output" = true ∧ c' = c := by
  unfold stepOutput at h
  cases ht : c.has "output" with
  | false => rw [ht] at h; cases h
  | true =>
    rw [ht] at h
    injection h with h
    exact ⟨rfl, h.symm⟩

/-- what a successful `pre` guarantees -/
theorem pre_ok (c c' : Cfg) (h : pre c = .ok c') :
    isDict c' = isDict c ∧ (∀ k, k ≠ "tracker" → k ≠ "release" → c'.get? k = c.get? k) ∧
    c.has "tracker" = true ∧ c.has "time" = true ∧ c.has "release" = true ∧ c.has "output" = true := by
  unfold pre at h
  obtain ⟨c3, h, h4⟩ := bind_ok _ _ _ h
  obtain ⟨c2, h, h3⟩ := bind_ok _ _ _ h
  obtain ⟨c1, h1, h2⟩ := bind_ok _ _ _ h
  obtain ⟨t1, d1, g1⟩ := stepTracker_ok _ _ h1
  obtain ⟨t2, rfl⟩ := stepTime_ok _ _ h2
  obtain ⟨t3, d3, g3⟩ := stepRelease_ok _ _ h3
  obtain ⟨t4, rfl⟩ := stepOutput_ok _ _ h4
  have hne : ∀ k, k ≠ "tracker" → c2.has k = c.has k := by
    intro k hk; simp only [Cfg.has, g1 k hk]
  refine ⟨d3.trans d1, ?_, t1, ?_, ?_, ?_⟩
  · intro k hk1 hk2; rw [g3 k hk2, g1 k hk1]
  · rw [← hne _ (by decide)]; exact t2
  · rw [← hne _ (by decide)]; exact t3
  · rw [← hne _ (by decide)]; simpa only [Cfg.has, g3 "output" (by decide)] using t4

/-- the mandatory sections: without `tracker`, `time`, `release` or `output` the configuration
    is refused (exit 3 in the code) -/
theorem v2_mandatory (glob : String → List String) (c : Cfg) (k : String)
    (hk : k = "tracker" ∨ k = "time" ∨ k = "release" ∨ k = "output") (hno : c.has k = false) :
    ∃ e, configureV2 glob c = .error e := by
  rw [configureV2_eq']
  cases hp : pre (phase1 c) with
  | error e => exact ⟨e, rfl⟩
  | ok c' =>
    exfalso
    obtain ⟨-, -, t1, t2, t3, t4⟩ := pre_ok _ _ hp
    have : ∀ k', (k' = "tracker" ∨ k' = "time" ∨ k' = "release" ∨ k' = "output") →
        (phase1 c).has k' = c.has k' := by
      intro k' hk'
      simp only [Cfg.has, get?_phase1]
      rcases hk' with rfl | rfl | rfl | rfl <;> simp
    have hk' := this _ hk
    rcases hk with rfl | rfl | rfl | rfl <;> simp_all


/-- **grid_default_from_forcing**: with no grid section (or one without module and file), the
    grid uses the forcing module and the (first) forcing file. -/
theorem grid_default_from_forcing (glob : String → List String) (c r : Cfg) (m : Cfg) (fn : String)
    (hg : c.has "grid" = false ∨ c.get? "grid" = some emptyDict)
    (hm : (c.get? "forcing").bind (·.get? "module") = some m)
    (hf : (c.get? "forcing").bind (·.get? "filename") = some (.str fn))
    (h : configureV2 glob c = .ok r) :
    (r.get? "grid").bind (·.get? "module") = some m ∧
    (r.get? "grid").bind (·.get? "filename") = some (.str (gridFileFrom glob fn)) := by
  rw [configureV2_eq'] at h
  obtain ⟨c6, hp, h⟩ := bind_ok _ _ _ h
  obtain ⟨d6, g6, -⟩ := pre_ok _ _ hp
  cases hfo : c.get? "forcing" with
  | none => rw [hfo] at hm; cases hm
  | some f =>
    rw [hfo] at hm hf
    simp only [Option.bind_some] at hm hf
    have hd : isDict c = true := isDict_of_get? _ _ _ hfo
    rw [isDict_phase1, hd] at d6
    have hgrid : c6.get? "grid" = some emptyDict := by
      rw [g6 _ (by decide) (by decide), get?_phase1]
      rcases hg with hg | hg
      · have : c.get? "grid" = none := by simpa [Cfg.has] using hg
        simp [hd, this]
      · simp [hd, hg]
    have hforc : c6.get? "forcing" = some f := by
      rw [g6 _ (by decide) (by decide), get?_phase1]
      simp [hfo]
    have e1 : emptyDict.has "module" = false := rfl
    have e3 : isDict emptyDict = true := rfl
    have e4 : ∀ k, emptyDict.get? k = none := fun _ => rfl
    have e2 : (emptyDict.set "module" m).has "filename" = false := by
      simp [Cfg.has, get?_set, e4]
    simp only [stepGrid, gridModule, gridFilename, hgrid, hforc, hm, hf, Option.getD_some, e1, e2,
      Bool.false_eq_true, if_false, pure_bind, Cfg.strVal?] at h
    injection h with h
    subst h
    simp [get?_set, d6, isDict_set, e3]


/-- two trees with the same sections (top-level order of keys disregarded) -/
def Eqv (a b : Cfg) : Prop := isDict a = true ∧ isDict b = true ∧ ∀ key, a.get? key = b.get? key

/-- `Eqv` lifted to results: same error, or equivalent trees -/
def RelE : Except String Cfg → Except String Cfg → Prop
  | .ok a, .ok b => Eqv a b
  | .error e, .error e' => e = e'
  | _, _ => False

theorem Eqv.set {a b : Cfg} (h : Eqv a b) (k : String) (v : Cfg) : Eqv (a.set k v) (b.set k v) := by
  obtain ⟨ha, hb, hg⟩ := h
  refine ⟨by rw [isDict_set, ha], by rw [isDict_set, hb], ?_⟩
  intro key
  rw [get?_set, get?_set, ha, hb, hg]

theorem Eqv.has {a b : Cfg} (h : Eqv a b) (k : String) : a.has k = b.has k := by
  unfold Cfg.has; rw [h.2.2]

theorem RelE.bind {x y : Except String Cfg} {f g : Cfg → Except String Cfg} (h : RelE x y)
    (hfg : ∀ a b, Eqv a b → RelE (f a) (g b)) : RelE (x >>= f) (y >>= g) := by
  cases x <;> cases y <;> first | exact h | exact hfg _ _ h | exact h.elim

theorem stepTracker_congr {a b : Cfg} (h : Eqv a b) : RelE (stepTracker a) (stepTracker b) := by
  unfold stepTracker
  rw [h.2.2]
  cases b.get? "tracker" with
  | none => exact rfl
  | some t =>
    show Eqv _ _
    split
    · exact h.set _ _
    · exact h

theorem stepRelease_congr {a b : Cfg} (h : Eqv a b) : RelE (stepRelease a) (stepRelease b) := by
  unfold stepRelease
  rw [h.2.2]
  cases b.get? "release" with
  | none => exact rfl
  | some t =>
    show Eqv _ _
    split
    · exact h.set _ _
    · exact h

theorem stepTime_congr {a b : Cfg} (h : Eqv a b) : RelE (stepTime a) (stepTime b) := by
  unfold stepTime
  rw [h.has]
  cases b.has "time"
  · exact rfl
  · exact h

theorem stepOutput_congr {a b : Cfg} (h : Eqv a b) : RelE (stepOutput a) (stepOutput b) := by
  unfold stepOutput
  rw [h.has]
  cases b.has "output"
  · exact rfl
  · exact h

theorem stepGrid_congr (glob : String → List String) {a b : Cfg} (h : Eqv a b) :
    RelE (stepGrid glob a) (stepGrid glob b) := by
  have h1 : ∀ g, gridModule a g = gridModule b g := by
    intro g; unfold gridModule; rw [h.2.2]
  have h2 : gridFilename glob a = gridFilename glob b := by
    funext g; unfold gridFilename; rw [h.2.2]
  unfold stepGrid
  rw [h1, h2, h.2.2]
  cases (gridModule b ((b.get? "grid").getD emptyDict) >>= gridFilename glob b) with
  | error e => exact rfl
  | ok g => exact h.set _ _

theorem configureV2_congr (glob : String → List String) {a b : Cfg} (h : Eqv a b) :
    RelE (pre a >>= stepGrid glob) (pre b >>= stepGrid glob) := by
  unfold pre
  refine RelE.bind (RelE.bind (RelE.bind (RelE.bind (stepTracker_congr h) ?_) ?_) ?_) ?_
  · exact fun _ _ => stepTime_congr
  · exact fun _ _ => stepRelease_congr
  · exact fun _ _ => stepOutput_congr
  · exact fun _ _ => stepGrid_congr glob

theorem phase1_set_eqv (c : Cfg) (k : String)
    (hk : k = "state" ∨ k = "grid" ∨ k = "ibm" ∨ k = "warm_start") (hno : c.has k = false)
    (hd : isDict c = true) : Eqv (phase1 (c.set k emptyDict)) (phase1 c) := by
  refine ⟨by rw [isDict_phase1, isDict_set, hd], by rw [isDict_phase1, hd], ?_⟩
  intro key
  have hno' : c.get? k = none := by simpa [Cfg.has] using hno
  simp only [get?_phase1, get?_set, isDict_set, hd, and_true]
  by_cases hkey : key = k
  · subst hkey
    simp [hk, hno']
  · simp [hkey]

/-- **defaults_are_empty_sections**: omitting any of the optional sections `state`, `grid`,
    `ibm`, `warm_start` gives the same configuration as writing them as empty sections.

    "The same" is equality of every section (`get?`), or the same error.  Literal equality of the
    two trees fails on the ORDER of the top-level keys only: `c.set k emptyDict` appends `k` at
    once, whereas `configure_v2` appends the missing sections in the order state, grid, ibm,
    warm_start.  With `c = {tracker: {}, time: {}, release: {}, output: {}, forcing: {module: m,
    filename: f}}` and `k = "grid"` the keys come out as `…, forcing, grid, state, ibm, warm_start`
    for `c.set "grid" {}` and as `…, forcing, state, grid, ibm, warm_start` for `c`.
    (`defaults_are_empty_sections_state` below: for `k = "state"` the trees are literally equal.) -/
theorem defaults_are_empty_sections (glob : String → List String) (c : Cfg) (k : String)
    (hk : k = "state" ∨ k = "grid" ∨ k = "ibm" ∨ k = "warm_start") (hno : c.has k = false)
    (hd : ∃ l, c = .dict l) :
    match configureV2 glob (c.set k emptyDict), configureV2 glob c with
    | .ok a, .ok b => ∀ key, a.get? key = b.get? key
    | .error e, .error e' => e = e'
    | _, _ => False := by
  have h := configureV2_congr glob (phase1_set_eqv c k hk hno ((isDict_iff c).mpr hd))
  rw [← configureV2_eq', ← configureV2_eq'] at h
  revert h
  cases configureV2 glob (c.set k emptyDict) <;> cases configureV2 glob c <;> intro h
  · exact h
  · exact h
  · exact h
  · exact h.2.2


/-- for the first defaulted section the two results are literally equal -/
theorem defaults_are_empty_sections_state (glob : String → List String) (c : Cfg)
    (hno : c.has "state" = false) (hd : ∃ l, c = .dict l) :
    configureV2 glob (c.set "state" emptyDict) = configureV2 glob c := by
  have h1 : (c.set "state" emptyDict).has "state" = true := by
    simp [Cfg.has, get?_set, (isDict_iff c).mpr hd]
  have : phase1 (c.set "state" emptyDict) = phase1 c := by
    simp only [phase1, addDefault, h1, hno, if_true, Bool.false_eq_true, if_false]
  rw [configureV2_eq', configureV2_eq', this]

/-! ### version 1 means the same as version 2 -/

/-- a simulation in the version-1 vocabulary -/
structure Sim where
  start : Cfg
  stop : Cfg
  dt : Cfg
  forcingFile : String
  gridFile : String
  extraForcing : List String
  ibmModule : String
  ibmVars : List String
  relFile : String
  relVars : List String           -- column names of the release file
  pvars : List String             -- those of them that are particle variables
  continuous : Bool
  freq : Cfg
  advection : Cfg
  outFile : String
  outper : Cfg
  outInst : List (String × Cfg × Cfg)   -- name, ncformat, attributes (a dict)
  outPart : List (String × Cfg × Cfg)

def strs (l : List String) : Cfg := .list (l.map Cfg.str)

/-- its legacy (version 1) spelling -/
def renderV1 (s : Sim) : Cfg :=
  .dict [
    ("time_control", .dict [("start_time", s.start), ("stop_time", s.stop)]),
    ("files", .dict [("particle_release_file", .str s.relFile), ("output_file", .str s.outFile)]),
    ("gridforce", .dict [("module", .str "ladim.ROMS"), ("input_file", .str s.forcingFile), ("gridfile", .str s.gridFile),
                         ("extra_forcing", strs s.extraForcing)]),
    ("ibm", .dict [("ibm_module", .str s.ibmModule), ("variables", strs s.ibmVars)]),
    ("particle_release", .dict ([("variables", strs s.relVars), ("particle_variables", strs s.pvars)]
        ++ (if s.continuous then [("release_type", .str "continuous"), ("release_frequency", s.freq)] else []))),
    ("output_variables", .dict ([("outper", s.outper), ("instance", strs (s.outInst.map (·.1))), ("particle", strs (s.outPart.map (·.1)))]
        ++ (s.outInst ++ s.outPart).map (fun v => (v.1, (v.2.2.set "ncformat" v.2.1))))),
    ("numerics", .dict [("dt", s.dt), ("advection", s.advection), ("diffusion", .num 0)])]

/-- the same simulation in the version-2 vocabulary, as `configure_v2` completes it -/
def canonV2 (s : Sim) : Cfg :=
  let ivars := s.ibmVars ++ ((s.relVars.filter (fun v => v == "lon" || v == "lat")).filter (fun v => !s.ibmVars.contains v))
  let outVar (v : String × Cfg × Cfg) : String × Cfg :=
    (v.1, .dict [("encoding", .dict [("datatype", v.2.1)]), ("attributes", (v.2.2.set "ncformat" v.2.1).erase "ncformat")])
  .dict [
    ("time", .dict [("start", s.start), ("stop", s.stop), ("dt", s.dt)]),
    ("grid", .dict [("module", .str "ladim.ROMS"), ("filename", .str s.gridFile)]),
    ("forcing", .dict [("module", .str "ladim.ROMS"), ("filename", .str s.forcingFile), ("extra_forcing", strs s.extraForcing)]),
    ("state", .dict [("instance_variables", .dict (ivars.map (fun v => (v, Cfg.str "float")))),
                     ("particle_variables", .dict ((s.relVars.filter (fun v => !(["mult", "X", "Y", "Z"].contains v) && s.pvars.contains v)).map (fun v => (v, Cfg.str "float")))),
                     ("default_values", .dict (ivars.map (fun v => (v, Cfg.num 0))))]),
    ("tracker", .dict [("advection", s.advection)]),
    ("release", .dict ([("release_file", .str s.relFile), ("names", strs s.relVars)]
        ++ (if s.continuous then [("continuous", .bool true), ("release_frequency", s.freq)] else []))),
    ("ibm", .dict [("module", .str s.ibmModule)]),
    ("warm_start", emptyDict),
    ("output", .dict [("filename", .str s.outFile), ("output_period", s.outper),
                      ("instance_variables", .dict (s.outInst.map outVar)), ("particle_variables", .dict (s.outPart.map outVar)),
                      ("ncargs", .dict [("data_model", .str "NETCDF3_CLASSIC")])])]

/-- the simulation is well formed: names are distinct, a grid file is given, output variables
    are described by dictionaries and are not named like a reserved key -/
structure SimOK (s : Sim) : Prop where
  gridGiven : s.gridFile ≠ ""
  attrsDict : ∀ v ∈ s.outInst ++ s.outPart, ∃ l, v.2.2 = .dict l
  namesNodup : ((s.outInst ++ s.outPart).map (·.1)).Nodup
  notReserved : ∀ v ∈ s.outInst ++ s.outPart, v.1 ∉ ["outper", "instance", "particle", "format"]
  noTypeOverride : ∀ v ∈ s.relVars, v ∉ ["variables", "particle_variables", "release_type", "release_frequency"]

theorem filterMap_strs (l : List String) : (strs l).listItems.filterMap Cfg.strVal? = l := by
  simp only [strs, Cfg.listItems, List.filterMap_map]
  induction l with
  | nil => rfl
  | cons a l ih => simp [Cfg.strVal?, ih] 


theorem get?_cons_ne (k k' : String) (v : Cfg) (l : List (String × Cfg)) (h : k ≠ k') :
    (Cfg.dict ((k, v) :: l)).get? k' = (Cfg.dict l).get? k' := by
  have : (k == k') = false := by simpa using h
  simp only [Cfg.get?, List.find?_cons, this]

theorem find_map_key {α : Type} (l : List α) (key : α → String) (f : α → String × Cfg)
    (hf : ∀ a, (f a).1 = key a) (hnd : (l.map key).Nodup) (x : α) (hx : x ∈ l) :
    (l.map f).find? (·.1 == key x) = some (f x) := by
  induction l with
  | nil => cases hx
  | cons a l ih =>
    simp only [List.map_cons, List.nodup_cons] at hnd
    simp only [List.map_cons, List.find?_cons, hf]
    rcases List.mem_cons.mp hx with rfl | hx'
    · simp
    · have : key a ≠ key x := fun h => hnd.1 (h ▸ List.mem_map_of_mem hx')
      have : (key a == key x) = false := by simpa using this
      rw [this]
      exact ih hnd.2 hx'

def outV (v : String × Cfg × Cfg) : String × Cfg :=
  (v.1, .dict [("encoding", .dict [("datatype", v.2.1)]), ("attributes", (v.2.2.set "ncformat" v.2.1).erase "ncformat")])

theorem mapM_outVar (ov : Cfg) (l : List (String × Cfg × Cfg))
    (h : ∀ v ∈ l, ov.get? v.1 = some (v.2.2.set "ncformat" v.2.1)) (hd : ∀ v ∈ l, ∃ l', v.2.2 = .dict l') :
    List.mapM (fun v => (ov.get? v).bind fun d => (d.get? "ncformat").bind fun fmt =>
        (pure (v, Cfg.dict [("encoding", .dict [("datatype", fmt)]), ("attributes", d.erase "ncformat")]) : Option (String × Cfg)))
      (l.map (·.1)) = some (l.map outV) := by
  induction l with
  | nil => rfl
  | cons a l ih =>
    have ih' := ih (fun v hv => h v (List.mem_cons_of_mem _ hv)) (fun v hv => hd v (List.mem_cons_of_mem _ hv))
    obtain ⟨l', hl'⟩ := hd a List.mem_cons_self
    rw [List.map_cons, List.mapM_cons, ih', h a List.mem_cons_self]
    simp only [Option.bind_some, hl', get?_set_self, Option.pure_def, Option.bind_eq_bind, List.map_cons, outV]

theorem configureV1_render (glob : String → List String) (s : Sim) (hs : SimOK s) :
    configureV1 glob (renderV1 s) = some (canonV2 s) := by
  obtain ⟨tc, h_tc, tc1, tc2, tc3⟩ : ∃ tc, (renderV1 s).get? "time_control" = some tc ∧
      tc.get? "start_time" = some s.start ∧ tc.get? "stop_time" = some s.stop ∧ tc.get? "reference_time" = none :=
    ⟨_, by simp only [renderV1, Cfg.get?]; simp; rfl, by simp [Cfg.get?], by simp [Cfg.get?], by simp [Cfg.get?]⟩
  obtain ⟨nu, h_num, nu1, nu2, nu3⟩ : ∃ nu, (renderV1 s).get? "numerics" = some nu ∧
      nu.get? "dt" = some s.dt ∧ nu.get? "advection" = some s.advection ∧ nu.get? "diffusion" = some (.num 0) :=
    ⟨_, by simp only [renderV1, Cfg.get?]; simp; rfl, by simp [Cfg.get?], by simp [Cfg.get?], by simp [Cfg.get?]⟩
  obtain ⟨fi, h_files, fi1, fi2⟩ : ∃ fi, (renderV1 s).get? "files" = some fi ∧
      fi.get? "particle_release_file" = some (.str s.relFile) ∧ fi.get? "output_file" = some (.str s.outFile) :=
    ⟨_, by simp only [renderV1, Cfg.get?]; simp; rfl, by simp [Cfg.get?], by simp [Cfg.get?]⟩
  obtain ⟨gf, h_gf, gf1, gf2, gf3, gf4, gf5⟩ : ∃ gf, (renderV1 s).get? "gridforce" = some gf ∧
      gf.get? "module" = some (.str "ladim.ROMS") ∧ gf.get? "input_file" = some (.str s.forcingFile) ∧
      gf.get? "gridfile" = some (.str s.gridFile) ∧ gf.get? "extra_forcing" = some (strs s.extraForcing) ∧
      gf.get? "subgrid" = none :=
    ⟨_, by simp only [renderV1, Cfg.get?]; simp; rfl, by simp [Cfg.get?], by simp [Cfg.get?], by simp [Cfg.get?],
      by simp [Cfg.get?], by simp [Cfg.get?]⟩
  have h_ibm : (renderV1 s).get? "ibm" = some (.dict [("ibm_module", .str s.ibmModule), ("variables", strs s.ibmVars)]) := by
    simp [renderV1, Cfg.get?]
  have ib1 : (Cfg.dict [("ibm_module", .str s.ibmModule), ("variables", strs s.ibmVars)]).get? "variables" =
      some (strs s.ibmVars) := by simp [Cfg.get?]
  have h_ws : (renderV1 s).has "warm_start" = false := by
    simp [renderV1, Cfg.get?, Cfg.has]
  obtain ⟨pr, h_pr, pr1, pr2, pr3, pr4, pr5⟩ : ∃ pr, (renderV1 s).get? "particle_release" = some pr ∧
      pr.get? "variables" = some (strs s.relVars) ∧ pr.get? "particle_variables" = some (strs s.pvars) ∧
      pr.get? "release_type" = (if s.continuous then some (.str "continuous") else none) ∧
      pr.get? "release_frequency" = (if s.continuous then some s.freq else none) ∧
      ∀ v ∈ s.relVars, pr.get? v = none := by
    refine ⟨_, by simp only [renderV1, Cfg.get?]; simp; rfl, ?_, ?_, ?_, ?_, ?_⟩
    · simp [Cfg.get?]
    · simp [Cfg.get?]
    · cases s.continuous <;> simp [Cfg.get?]
    · cases s.continuous <;> simp [Cfg.get?]
    · intro v hv
      have := hs.noTypeOverride v hv
      simp only [List.mem_cons, List.not_mem_nil, or_false, not_or] at this
      obtain ⟨n1, n2, n3, n4⟩ := this
      have e1 : ("variables" == v) = false := by simpa using Ne.symm n1
      have e2 : ("particle_variables" == v) = false := by simpa using Ne.symm n2
      have e3 : ("release_type" == v) = false := by simpa using Ne.symm n3
      have e4 : ("release_frequency" == v) = false := by simpa using Ne.symm n4
      cases s.continuous <;> simp [Cfg.get?, e1, e2, e3, e4]
  obtain ⟨ov, h_ov, ov1, ov2, ov3, ov4, ov5⟩ : ∃ ov, (renderV1 s).get? "output_variables" = some ov ∧
      ov.get? "outper" = some s.outper ∧ ov.get? "instance" = some (strs (s.outInst.map (·.1))) ∧
      ov.get? "particle" = some (strs (s.outPart.map (·.1))) ∧ ov.get? "format" = none ∧
      ∀ v ∈ s.outInst ++ s.outPart, ov.get? v.1 = some (v.2.2.set "ncformat" v.2.1) := by
    refine ⟨.dict (("outper", s.outper) :: ("instance", strs (s.outInst.map (·.1))) ::
        ("particle", strs (s.outPart.map (·.1))) ::
        (s.outInst ++ s.outPart).map (fun v => (v.1, (v.2.2.set "ncformat" v.2.1)))), ?_, ?_, ?_, ?_, ?_, ?_⟩
    · simp [renderV1, Cfg.get?]
    · simp [Cfg.get?]
    · simp [Cfg.get?]
    · simp [Cfg.get?]
    · rw [get?_cons_ne _ _ _ _ (by decide), get?_cons_ne _ _ _ _ (by decide), get?_cons_ne _ _ _ _ (by decide)]
      simp only [Cfg.get?, Option.map_eq_none_iff]
      rw [List.find?_eq_none]
      intro x hx
      obtain ⟨v, hv, rfl⟩ := List.mem_map.mp hx
      have := hs.notReserved v hv
      simp only [List.mem_cons, List.not_mem_nil, or_false, not_or] at this
      simpa using this.2.2.2
    · intro v hv
      have := hs.notReserved v hv
      simp only [List.mem_cons, List.not_mem_nil, or_false, not_or] at this
      obtain ⟨n1, n2, n3, n4⟩ := this
      rw [get?_cons_ne _ _ _ _ (Ne.symm n1), get?_cons_ne _ _ _ _ (Ne.symm n2), get?_cons_ne _ _ _ _ (Ne.symm n3)]
      have := find_map_key (s.outInst ++ s.outPart) (·.1) (fun v => (v.1, (v.2.2.set "ncformat" v.2.1)))
        (fun _ => rfl) hs.namesNodup v hv
      simp only [Cfg.get?, this, Option.map_some]
  unfold configureV1
  rw [h_tc, h_num, h_gf, h_files, h_pr, h_ov, h_ibm, h_ws]
  dsimp only [bind, Option.bind_some, Option.getD_some]
  rw [tc1, tc2, tc3, nu1, nu2, nu3, fi1, fi2, gf1, gf2, gf3, gf4, gf5, ib1, pr1, pr2, pr3, pr4, ov1, ov2, ov3, ov4]
  dsimp only [bind, Option.bind_some, Option.getD_some, Option.map_some, Option.getD_none]
  simp only [filterMap_strs]
  rw [mapM_outVar ov s.outInst (fun v hv => ov5 v (List.mem_append_left _ hv)) (fun v hv => hs.attrsDict v (List.mem_append_left _ hv)),
    mapM_outVar ov s.outPart (fun v hv => ov5 v (List.mem_append_right _ hv)) (fun v hv => hs.attrsDict v (List.mem_append_right _ hv))]
  have tg : (Cfg.str s.gridFile).truthy = true := by simp [Cfg.truthy, hs.gridGiven]
  have t0 : (Cfg.num 0).truthy = false := by simp [Cfg.truthy]
  have hpv : ∀ P : String → Bool, List.map (fun v => (v, (pr.get? v).getD (Cfg.str "float"))) (s.relVars.filter P) =
      List.map (fun v => (v, Cfg.str "float")) (s.relVars.filter P) := fun P =>
    List.map_congr_left (fun v hv => by rw [pr5 v (List.mem_of_mem_filter hv)]; rfl)
  rw [hpv, tg, t0]
  unfold canonV2
  cases hc : s.continuous
  · simp [Cfg.strVal?, Cfg.items, outV, Function.comp_def]
  · simp [Cfg.strVal?, Cfg.items, outV, Function.comp_def]

theorem configureV2_fix (glob : String → List String) (T M F Fo S I W O : Cfg) (Tl Rl : List (String × Cfg)) :
    configureV2 glob (.dict [("time", T), ("grid", .dict [("module", M), ("filename", F)]), ("forcing", Fo),
      ("state", S), ("tracker", .dict Tl), ("release", .dict Rl), ("ibm", I), ("warm_start", W), ("output", O)]) =
    .ok (.dict [("time", T), ("grid", .dict [("module", M), ("filename", F)]), ("forcing", Fo),
      ("state", S), ("tracker", .dict Tl), ("release", .dict Rl), ("ibm", I), ("warm_start", W), ("output", O)]) := by
  rw [configureV2_eq']
  simp [pre, phase1, addDefault, stepTracker, stepTime, stepRelease, stepOutput, stepGrid, gridModule, gridFilename,
    Cfg.has, Cfg.get?, Cfg.set, Cfg.isNull]
  rfl

/-- **v1_eq_v2**: the translation of the legacy spelling is exactly the completed version-2
    configuration of the same simulation, and that one is a fixed point of `configure_v2`
    (so both spellings hand the same sections to the module constructors). -/
theorem v1_eq_v2 (glob : String → List String) (s : Sim) (hs : SimOK s) :
    configureV1 glob (renderV1 s) = some (canonV2 s) ∧ configureV2 glob (canonV2 s) = .ok (canonV2 s) :=
  ⟨configureV1_render glob s hs, configureV2_fix glob _ _ _ _ _ _ _ _ _ _⟩

end Ladim.C18
