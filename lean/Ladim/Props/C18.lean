import Ladim.Model.Config
import Mathlib.Tactic.Linarith
import Mathlib.Data.List.Basic
/-
C18 — one simulation, three spellings.  Property theorems about `Ladim.Model.Config`
(`configure`, `configure_v2`, `configure_v1` of `ladim/configure.py`).  YAML and TOML differ
only by the (trusted) parser: both yield the same tree, which is where the model starts.
-/

namespace Ladim.C18
open Ladim Cfg

/-- **defaults_are_empty_sections**: omitting any of the optional sections `state`, `grid`,
    `ibm`, `warm_start` gives the same configuration as writing them as empty sections. -/
theorem defaults_are_empty_sections (glob : String → List String) (c : Cfg) (k : String)
    (hk : k = "state" ∨ k = "grid" ∨ k = "ibm" ∨ k = "warm_start") (hno : c.has k = false)
    (hd : ∃ l, c = .dict l) :
    configureV2 glob (c.set k emptyDict) = configureV2 glob c := by
  sorry

/-- a wildcard forcing file name stands for its first sorted match; a literal name for itself -/
theorem gridFileFrom_spec (glob : String → List String) (fn : String) :
    (fn.contains '*' = false ∧ fn.contains '?' = false → gridFileFrom glob fn = fn) ∧
    (∀ f rest, (fn.contains '*' = true ∨ fn.contains '?' = true) → glob fn = f :: rest → gridFileFrom glob fn = f) := by
  sorry

/-- **grid_default_from_forcing**: with no grid section (or one without module and file), the
    grid uses the forcing module and the (first) forcing file. -/
theorem grid_default_from_forcing (glob : String → List String) (c r : Cfg) (m : Cfg) (fn : String)
    (hg : c.has "grid" = false ∨ c.get? "grid" = some emptyDict)
    (hm : (c.get? "forcing").bind (·.get? "module") = some m)
    (hf : (c.get? "forcing").bind (·.get? "filename") = some (.str fn))
    (h : configureV2 glob c = .ok r) :
    (r.get? "grid").bind (·.get? "module") = some m ∧
    (r.get? "grid").bind (·.get? "filename") = some (.str (gridFileFrom glob fn)) := by
  sorry

/-- the mandatory sections: without `tracker`, `time`, `release` or `output` the configuration
    is refused (exit 3 in the code) -/
theorem v2_mandatory (glob : String → List String) (c : Cfg) (k : String)
    (hk : k = "tracker" ∨ k = "time" ∨ k = "release" ∨ k = "output") (hno : c.has k = false) :
    ∃ e, configureV2 glob c = .error e := by
  sorry

/-- the version dispatch: an explicit version wins; otherwise a `time_control` section means
    version 1 -/
theorem dispatch (glob : String → List String) (c : Cfg) (hv : c.has "version" = false) :
    configure glob c =
      if c.has "time_control" then
        (match configureV1 glob c with | some r => .ok r | none => .error "KeyError")
      else configureV2 glob c := by
  sorry

/-! ### version 1 means the same as version 2 -/

/-- a simulation in the version-1 vocabulary -/
structure Sim where
  start : Cfg
  stop : Cfg
  dt : Cfg
  forcingFile : String
  gridFile : String
  extraForcing : List String
  ibmModule : String
  ibmVars : List String
  relFile : String
  relVars : List String           -- column names of the release file
  pvars : List String             -- those of them that are particle variables
  continuous : Bool
  freq : Cfg
  advection : Cfg
  outFile : String
  outper : Cfg
  outInst : List (String × Cfg × Cfg)   -- name, ncformat, attributes (a dict)
  outPart : List (String × Cfg × Cfg)

def strs (l : List String) : Cfg := .list (l.map Cfg.str)

/-- its legacy (version 1) spelling -/
def renderV1 (s : Sim) : Cfg :=
  .dict [
    ("time_control", .dict [("start_time", s.start), ("stop_time", s.stop)]),
    ("files", .dict [("particle_release_file", .str s.relFile), ("output_file", .str s.outFile)]),
    ("gridforce", .dict [("module", .str "ladim.ROMS"), ("input_file", .str s.forcingFile), ("gridfile", .str s.gridFile),
                         ("extra_forcing", strs s.extraForcing)]),
    ("ibm", .dict [("ibm_module", .str s.ibmModule), ("variables", strs s.ibmVars)]),
    ("particle_release", .dict ([("variables", strs s.relVars), ("particle_variables", strs s.pvars)]
        ++ (if s.continuous then [("release_type", .str "continuous"), ("release_frequency", s.freq)] else []))),
    ("output_variables", .dict ([("outper", s.outper), ("instance", strs (s.outInst.map (·.1))), ("particle", strs (s.outPart.map (·.1)))]
        ++ (s.outInst ++ s.outPart).map (fun v => (v.1, (v.2.2.set "ncformat" v.2.1))))),
    ("numerics", .dict [("dt", s.dt), ("advection", s.advection), ("diffusion", .num 0)])]

/-- the same simulation in the version-2 vocabulary, as `configure_v2` completes it -/
def canonV2 (s : Sim) : Cfg :=
  let ivars := s.ibmVars ++ ((s.relVars.filter (fun v => v == "lon" || v == "lat")).filter (fun v => !s.ibmVars.contains v))
  let outVar (v : String × Cfg × Cfg) : String × Cfg :=
    (v.1, .dict [("encoding", .dict [("datatype", v.2.1)]), ("attributes", (v.2.2.set "ncformat" v.2.1).erase "ncformat")])
  .dict [
    ("time", .dict [("start", s.start), ("stop", s.stop), ("dt", s.dt)]),
    ("grid", .dict [("module", .str "ladim.ROMS"), ("filename", .str s.gridFile)]),
    ("forcing", .dict [("module", .str "ladim.ROMS"), ("filename", .str s.forcingFile), ("extra_forcing", strs s.extraForcing)]),
    ("state", .dict [("instance_variables", .dict (ivars.map (fun v => (v, Cfg.str "float")))),
                     ("particle_variables", .dict ((s.relVars.filter (fun v => !(["mult", "X", "Y", "Z"].contains v) && s.pvars.contains v)).map (fun v => (v, Cfg.str "float")))),
                     ("default_values", .dict (ivars.map (fun v => (v, Cfg.num 0))))]),
    ("tracker", .dict [("advection", s.advection)]),
    ("release", .dict ([("release_file", .str s.relFile), ("names", strs s.relVars)]
        ++ (if s.continuous then [("continuous", .bool true), ("release_frequency", s.freq)] else []))),
    ("ibm", .dict [("module", .str s.ibmModule)]),
    ("warm_start", emptyDict),
    ("output", .dict [("filename", .str s.outFile), ("output_period", s.outper),
                      ("instance_variables", .dict (s.outInst.map outVar)), ("particle_variables", .dict (s.outPart.map outVar)),
                      ("ncargs", .dict [("data_model", .str "NETCDF3_CLASSIC")])])]

/-- the simulation is well formed: names are distinct, a grid file is given, output variables
    are described by dictionaries and are not named like a reserved key -/
structure SimOK (s : Sim) : Prop where
  gridGiven : s.gridFile ≠ ""
  attrsDict : ∀ v ∈ s.outInst ++ s.outPart, ∃ l, v.2.2 = .dict l
  namesNodup : ((s.outInst ++ s.outPart).map (·.1)).Nodup
  notReserved : ∀ v ∈ s.outInst ++ s.outPart, v.1 ∉ ["outper", "instance", "particle", "format"]
  noTypeOverride : ∀ v ∈ s.relVars, v ∉ ["variables", "particle_variables", "release_type", "release_frequency"]

/-- **v1_eq_v2**: the translation of the legacy spelling is exactly the completed version-2
    configuration of the same simulation, and that one is a fixed point of `configure_v2`
    (so both spellings hand the same sections to the module constructors). -/
theorem v1_eq_v2 (glob : String → List String) (s : Sim) (hs : SimOK s) :
    configureV1 glob (renderV1 s) = some (canonV2 s) ∧ configureV2 glob (canonV2 s) = .ok (canonV2 s) := by
  sorry

end Ladim.C18
