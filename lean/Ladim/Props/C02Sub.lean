import Ladim.Props.C02
import Ladim.Props.C17
/-
C02 — "…and neither depends on which sub-rectangle of the model grid was loaded."

The whole statement: for every legal subgrid and every position in *its* valid region, what a
particle feels — the velocity at any position of the subgrid's clip box with the level column of
its own cell, and the scalar forcing of its own cell — is the same number as with the whole grid
loaded, whatever the file contains (masks, bathymetry, packed or float storage).
-/

namespace Ladim.C02
open Ladim

/-- the file's arrays are rectangular and consistent: rho-arrays `(jmax0, imax0)`, u `(N, jmax0, imax0−1)`,
    v `(N, jmax0−1, imax0)` -/
structure FileOK (f : RomsFile) (rawU rawV : Field3) (N jmax0 imax0 : Int) : Prop where
  hj : (f.h.length : Int) = jmax0
  hi : ((f.h.headD []).length : Int) = imax0
  hh : C17.Shape2 f.h jmax0 imax0
  hm : C17.Shape2 f.mask jmax0 imax0
  hu : C17.Shape3 rawU N jmax0 (imax0 - 1)
  hv : C17.Shape3 rawV N (jmax0 - 1) imax0

/-- element `(k, j, i)` of the v-window: raw value at global `(j0+j−1, i0+i)` times the two
    neighbouring cell masks (interior faces) -/
theorem windowV_node (f : RomsFile) (sub : Option (Int × Int × Int × Int)) (g : GridM)
    (hg : mkGrid f sub = some g) (rawV : Field3) (scale : Option ℚ) (k : Nat) (j i : Int)
    (hj : 1 ≤ j ∧ j < g.j1 - g.j0) (hi : 0 ≤ i ∧ i < g.i1 - g.i0)
    (x ml mr : ℚ)
    (hx : ((rawV[k]?).bind (getI · (g.j0 + j - 1))).bind (getI · (g.i0 + i)) = some x)
    (hml : get2 f.mask (g.j0 + j - 1) (g.i0 + i) = some ml)
    (hmr : get2 f.mask (g.j0 + j) (g.i0 + i) = some mr) :
    get3 (windowV g rawV scale) k j i
      = some ((match scale with | some s => s * x | none => x) * (ml * mr)) := by
  sorry

/-- the level column of a cell, in global cell indices, does not depend on the window -/
theorem column_window (f : RomsFile) (sub : Option (Int × Int × Int × Int)) (g g0 : GridM)
    (hg : mkGrid f sub = some g) (hg0 : mkGrid f none = some g0) (J I : Int)
    (hJ : g.j0 ≤ J ∧ J < g.j1) (hI : g.i0 ≤ I ∧ I < g.i1) :
    column g.zr (J - g.j0) (I - g.i0) = column g0.zr (J - g0.j0) (I - g0.i0) := by
  sorry

/-- **sample_subgrid_indep (level column)**: `K` and `A` of a particle do not depend on the window -/
theorem levelOf_subgrid_indep (f : RomsFile) (sub : Option (Int × Int × Int × Int)) (g g0 : GridM)
    (hg : mkGrid f sub = some g) (hg0 : mkGrid f none = some g0) (x y z : ℚ)
    (hv : g.ingrid x y = true) : levelOf g x y z = levelOf g0 x y z := by
  sorry

/-- **sample_subgrid_indep (velocity)**: with the level column fixed at a position of the
    subgrid's valid region, the velocity sampled at any position of the subgrid's clip box equals
    the velocity sampled with the whole grid loaded. -/
theorem sampleVel_subgrid_indep (f : RomsFile) (rawU rawV : Field3) (N jmax0 imax0 : Int) (hf : FileOK f rawU rawV N jmax0 imax0)
    (sub : Option (Int × Int × Int × Int)) (g g0 : GridM)
    (hg : mkGrid f sub = some g) (hg0 : mkGrid f none = some g0) (scale : Option ℚ) (sign x0 y0 z x y : ℚ)
    (h0 : g.ingrid x0 y0 = true) (hb : C17.InBox g x y) (hin : g.xmin + 1/2 < x ∧ x < g.xmax - 1/2 ∧ g.ymin + 1/2 < y ∧ y < g.ymax - 1/2) :
    sampleVel g (windowU g rawU scale) (windowV g rawV scale) sign x0 y0 z x y
      = sampleVel g0 (windowU g0 rawU scale) (windowV g0 rawV scale) sign x0 y0 z x y := by
  sorry

/-- **sample_subgrid_indep (scalars)**: scalar forcing of a particle in the subgrid's valid region -/
theorem sampleScalar_subgrid_indep (f : RomsFile) (raw : Field3) (sub : Option (Int × Int × Int × Int))
    (g g0 : GridM) (hg : mkGrid f sub = some g) (hg0 : mkGrid f none = some g0) (x y z : ℚ)
    (hv : g.ingrid x y = true) :
    sampleScalar g (windowRho g raw) x y z = sampleScalar g0 (windowRho g0 raw) x y z := by
  sorry

end Ladim.C02
