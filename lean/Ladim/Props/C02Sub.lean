import Ladim.Props.C02
import Ladim.Props.C17
/-
C02 — "…and neither depends on which sub-rectangle of the model grid was loaded."

The whole statement: for every legal subgrid and every position in *its* valid region, what a
particle feels — the velocity at any position of the subgrid's clip box with the level column of
its own cell, and the scalar forcing of its own cell — is the same number as with the whole grid
loaded, whatever the file contains (masks, bathymetry, packed or float storage).
-/

namespace Ladim.C02
open Ladim

/-- the file's arrays are rectangular and consistent: rho-arrays `(jmax0, imax0)`, u `(N, jmax0, imax0−1)`,
    v `(N, jmax0−1, imax0)` -/
structure FileOK (f : RomsFile) (rawU rawV : Field3) (N jmax0 imax0 : Int) : Prop where
  hj : (f.h.length : Int) = jmax0
  hi : ((f.h.headD []).length : Int) = imax0
  hh : C17.Shape2 f.h jmax0 imax0
  hm : C17.Shape2 f.mask jmax0 imax0
  hu : C17.Shape3 rawU N jmax0 (imax0 - 1)
  hv : C17.Shape3 rawV N (jmax0 - 1) imax0

/-- element `(k, j, i)` of the v-window: raw value at global `(j0+j−1, i0+i)` times the two
    neighbouring cell masks (interior faces) -/
theorem windowV_node (f : RomsFile) (sub : Option (Int × Int × Int × Int)) (g : GridM)
    (hg : mkGrid f sub = some g) (rawV : Field3) (scale : Option ℚ) (k : Nat) (j i : Int)
    (hj : 1 ≤ j ∧ j < g.j1 - g.j0) (hi : 0 ≤ i ∧ i < g.i1 - g.i0)
    (x ml mr : ℚ)
    (hx : ((rawV[k]?).bind (getI · (g.j0 + j - 1))).bind (getI · (g.i0 + i)) = some x)
    (hml : get2 f.mask (g.j0 + j - 1) (g.i0 + i) = some ml)
    (hmr : get2 f.mask (g.j0 + j) (g.i0 + i) = some mr) :
    get3 (windowV g rawV scale) k j i
      = some ((match scale with | some s => s * x | none => x) * (ml * mr)) := by
  obtain ⟨hM, hi0, -, hj0, -⟩ := mkGrid_some f sub g hg
  obtain ⟨i_n, rfl⟩ := Int.eq_ofNat_of_zero_le hi.1
  obtain ⟨n, hn⟩ : ∃ n : Nat, j = ((n + 1 : Nat) : Int) := ⟨(j - 1).toNat, by omega⟩
  subst hn
  have hraw : (((rawV.map (fun P => slice2 P (g.j0 - 1) g.j1 g.i0 g.i1))[k]?).bind (·[n + 1]?)).bind
      (·[i_n]?) = some x := by
    rw [List.getElem?_map]
    obtain ⟨row, hrow, hrx⟩ := bind_some_split _ _ _ hx
    obtain ⟨P, hP, hPr⟩ := bind_some_split _ _ _ hrow
    rw [hP]
    simp only [Option.map_some, Option.bind_some]
    rw [← get2_nat, get2_slice2 P _ _ _ _ _ _ (by omega) (by omega) (by omega) hi]
    unfold get2
    have e : g.j0 - 1 + ((n + 1 : Nat) : Int) = g.j0 + ((n + 1 : Nat) : Int) - 1 := by omega
    rw [e, hPr, Option.bind_some, ← hrx]
  have hmask : (maskV g.M)[n + 1]?.bind (·[i_n]?) = some (ml * mr) := by
    apply maskV_interior
    · rw [← get2_nat, hM, get2_slice2 _ _ _ _ _ _ _ (by omega) (by omega) (by omega) hi, ← hml]
      congr 1
      omega
    · rw [← get2_nat, hM, get2_slice2 _ _ _ _ _ _ _ (by omega) (by omega) (by omega) hi, ← hmr]
  unfold windowV
  rw [get3_nat]
  exact readVel_node _ scale _ k (n + 1) i_n x (ml * mr) hraw hmask

/-! ### the two windows -/

/-- the limits of the whole-grid window -/
theorem subgridLimits_none (im jm a b c d : Int)
    (h : subgridLimits im jm none = some (a, b, c, d)) :
    a = 1 ∧ b = im - 1 ∧ c = 1 ∧ d = jm - 1 := by
  unfold subgridLimits at h
  simp only at h
  split_ifs at h <;>
    (simp only [Option.some.injEq, Prod.mk.injEq] at h; omega)

/-- what `mkGrid` returns: the limits, and the arrays as slices of the file's -/
theorem mkGrid_limits (f : RomsFile) (sub : Option (Int × Int × Int × Int)) (g : GridM)
    (hg : mkGrid f sub = some g) :
    subgridLimits ((f.h.headD []).length) f.h.length sub = some (g.i0, g.i1, g.j0, g.j1) ∧
    g.zr = zRho f.vtransform (slice2 f.h g.j0 g.j1 g.i0 g.i1) f.hc f.CsR := by
  unfold mkGrid at hg
  simp only at hg
  split at hg
  · exact absurd hg (by simp)
  · rename_i i0 i1 j0 j1 hs
    obtain rfl := Option.some.inj hg
    exact ⟨hs, rfl⟩

/-- every legal window lies inside the whole-grid window, which lies inside the file -/
theorem window_sub (f : RomsFile) (sub : Option (Int × Int × Int × Int)) (g g0 : GridM)
    (hg : mkGrid f sub = some g) (hg0 : mkGrid f none = some g0) :
    (1 ≤ g.i0 ∧ g.i0 < g.i1 ∧ 1 ≤ g.j0 ∧ g.j0 < g.j1) ∧
    (g0.i0 = 1 ∧ g.i1 ≤ g0.i1 ∧ g0.j0 = 1 ∧ g.j1 ≤ g0.j1) ∧
    (g0.i1 = ((f.h.headD []).length : Int) - 1 ∧ g0.j1 = (f.h.length : Int) - 1) := by
  obtain ⟨hs, -⟩ := mkGrid_limits f sub g hg
  obtain ⟨hs0, -⟩ := mkGrid_limits f none g0 hg0
  have h1 := subgridLimits_some _ _ _ _ _ _ _ hs
  have h2 := subgridLimits_none _ _ _ _ _ _ hs0
  omega

theorem mapM_map_opt {α β γ} (f : α → β) (φ : β → Option γ) (l : List α) :
    (l.map f).mapM φ = l.mapM (fun a => φ (f a)) := by
  induction l with
  | nil => rfl
  | cons a t ih => simp only [List.map_cons, List.mapM_cons, ih]

theorem get2_map2 (φ : ℚ → ℚ) (H : Field2) (j i : Int) :
    get2 (H.map fun row => row.map φ) j i = (get2 H j i).map φ := by
  unfold get2
  rw [getI_map]
  cases getI H j with
  | none => rfl
  | some row => simp only [Option.map_some, Option.bind_some, getI_map]

/-- element `(j, i)` of a rho-window is the file's element at the global indices -/
theorem get2_window (f : RomsFile) (sub : Option (Int × Int × Int × Int)) (g : GridM)
    (hg : mkGrid f sub = some g) (F : Field2) (J I : Int)
    (hJ : g.j0 ≤ J ∧ J < g.j1) (hI : g.i0 ≤ I ∧ I < g.i1) :
    get2 (slice2 F g.j0 g.j1 g.i0 g.i1) (J - g.j0) (I - g.i0) = get2 F J I := by
  obtain ⟨-, hi0, -, hj0, -⟩ := mkGrid_some f sub g hg
  rw [get2_slice2 _ _ _ _ _ _ _ (by omega) (by omega) (by omega) (by omega)]
  congr 1 <;> omega

/-- the level column of a cell, in global cell indices, does not depend on the window -/
theorem column_window (f : RomsFile) (sub : Option (Int × Int × Int × Int)) (g g0 : GridM)
    (hg : mkGrid f sub = some g) (hg0 : mkGrid f none = some g0) (J I : Int)
    (hJ : g.j0 ≤ J ∧ J < g.j1) (hI : g.i0 ≤ I ∧ I < g.i1) :
    column g.zr (J - g.j0) (I - g.i0) = column g0.zr (J - g0.j0) (I - g0.i0) := by
  obtain ⟨-, hzr⟩ := mkGrid_limits f sub g hg
  obtain ⟨-, hzr0⟩ := mkGrid_limits f none g0 hg0
  obtain ⟨hw, hw0, -⟩ := window_sub f sub g g0 hg hg0
  rw [hzr, hzr0]
  unfold column zRho
  simp only [mapM_map_opt, get2_map2]
  rw [get2_window f sub g hg f.h J I hJ hI,
    get2_window f none g0 hg0 f.h J I (by omega) (by omega)]

/-- **sample_subgrid_indep (level column)**: `K` and `A` of a particle do not depend on the window -/
theorem levelOf_subgrid_indep (f : RomsFile) (sub : Option (Int × Int × Int × Int)) (g g0 : GridM)
    (hg : mkGrid f sub = some g) (hg0 : mkGrid f none = some g0) (x y z : ℚ)
    (hv : g.ingrid x y = true) : levelOf g x y z = levelOf g0 x y z := by
  obtain ⟨c1, c2, c3, c4⟩ := C17.cell_in_window g x y hv
  unfold levelOf z2s
  simp only [roundHalfEven_intCast]
  have := column_window f sub g g0 hg hg0 (roundHalfEven y) (roundHalfEven x)
    (by unfold GridM.cellJ at c3 c4; omega) (by unfold GridM.cellI at c1 c2; omega)
  unfold GridM.cellI GridM.cellJ
  rw [this]

/-! ### the velocity windows -/

theorem get3_readVel_none (raw : Field3) (φ : List (List ℚ) → List (List ℚ)) (scale : Option ℚ)
    (mask : Field2) (k j i : Int) (h : getI raw k = none) :
    get3 (readVel (raw.map φ) scale mask) k j i = none := by
  unfold get3 readVel
  rw [getI_map, getI_map, h]
  rfl

theorem getI_some_nonneg {α} (l : List α) (k : Int) (v : α) (h : getI l k = some v) : 0 ≤ k := by
  by_contra hk
  unfold getI at h
  rw [if_neg hk] at h
  cases h

/-- an interior u-face of the subgrid's window carries the same number as the same (global) face
    of the whole-grid window, at every level index (also outside the array: both `none`) -/
theorem windowU_indep (f : RomsFile) (rawU rawV : Field3) (N jmax0 imax0 : Int)
    (hf : FileOK f rawU rawV N jmax0 imax0)
    (sub : Option (Int × Int × Int × Int)) (g g0 : GridM)
    (hg : mkGrid f sub = some g) (hg0 : mkGrid f none = some g0) (scale : Option ℚ)
    (k j i j' i' : Int)
    (hj : 0 ≤ j ∧ j < g.j1 - g.j0) (hi : 1 ≤ i ∧ i < g.i1 - g.i0)
    (ej : g.j0 + j = g0.j0 + j') (ei : g.i0 + i = g0.i0 + i') :
    get3 (windowU g rawU scale) k j i = get3 (windowU g0 rawU scale) k j' i' := by
  obtain ⟨hw, hw0, hw1⟩ := window_sub f sub g g0 hg hg0
  have hjm := hf.hj
  have him := hf.hi
  cases hk : getI rawU k with
  | none =>
    unfold windowU
    rw [get3_readVel_none _ _ _ _ _ _ _ hk, get3_readVel_none _ _ _ _ _ _ _ hk]
  | some P =>
    obtain ⟨n, rfl⟩ := Int.eq_ofNat_of_zero_le (getI_some_nonneg _ _ _ hk)
    rw [getI_natCast] at hk
    have hPm : P ∈ rawU := List.mem_of_getElem? hk
    obtain ⟨row, hrow, hrm⟩ := C17.getI_some P (g.j0 + j) (by omega)
      (by rw [hf.hu.rws P hPm]; omega)
    obtain ⟨xv, hxv, -⟩ := C17.getI_some row (g.i0 + i - 1) (by omega)
      (by rw [hf.hu.cls P hPm row hrm]; omega)
    obtain ⟨ml, hml⟩ := C17.get2_some f.mask _ _ hf.hm (g.j0 + j) (g.i0 + i - 1)
      (by omega) (by omega)
    obtain ⟨mr, hmr⟩ := C17.get2_some f.mask _ _ hf.hm (g.j0 + j) (g.i0 + i)
      (by omega) (by omega)
    have hx : ((rawU[n]?).bind (getI · (g.j0 + j))).bind (getI · (g.i0 + i - 1)) = some xv := by
      rw [hk]; simp only [Option.bind_some, hrow, hxv]
    rw [windowU_node f sub g hg rawU scale n j i hj hi xv ml mr hx hml hmr]
    rw [ej, ei] at hx hml hmr
    rw [windowU_node f none g0 hg0 rawU scale n j' i' (by omega) (by omega) xv ml mr hx hml hmr]

theorem windowV_indep (f : RomsFile) (rawU rawV : Field3) (N jmax0 imax0 : Int)
    (hf : FileOK f rawU rawV N jmax0 imax0)
    (sub : Option (Int × Int × Int × Int)) (g g0 : GridM)
    (hg : mkGrid f sub = some g) (hg0 : mkGrid f none = some g0) (scale : Option ℚ)
    (k j i j' i' : Int)
    (hj : 1 ≤ j ∧ j < g.j1 - g.j0) (hi : 0 ≤ i ∧ i < g.i1 - g.i0)
    (ej : g.j0 + j = g0.j0 + j') (ei : g.i0 + i = g0.i0 + i') :
    get3 (windowV g rawV scale) k j i = get3 (windowV g0 rawV scale) k j' i' := by
  obtain ⟨hw, hw0, hw1⟩ := window_sub f sub g g0 hg hg0
  have hjm := hf.hj
  have him := hf.hi
  cases hk : getI rawV k with
  | none =>
    unfold windowV
    rw [get3_readVel_none _ _ _ _ _ _ _ hk, get3_readVel_none _ _ _ _ _ _ _ hk]
  | some P =>
    obtain ⟨n, rfl⟩ := Int.eq_ofNat_of_zero_le (getI_some_nonneg _ _ _ hk)
    rw [getI_natCast] at hk
    have hPm : P ∈ rawV := List.mem_of_getElem? hk
    obtain ⟨row, hrow, hrm⟩ := C17.getI_some P (g.j0 + j - 1) (by omega)
      (by rw [hf.hv.rws P hPm]; omega)
    obtain ⟨xv, hxv, -⟩ := C17.getI_some row (g.i0 + i) (by omega)
      (by rw [hf.hv.cls P hPm row hrm]; omega)
    obtain ⟨ml, hml⟩ := C17.get2_some f.mask _ _ hf.hm (g.j0 + j - 1) (g.i0 + i)
      (by omega) (by omega)
    obtain ⟨mr, hmr⟩ := C17.get2_some f.mask _ _ hf.hm (g.j0 + j) (g.i0 + i)
      (by omega) (by omega)
    have hx : ((rawV[n]?).bind (getI · (g.j0 + j - 1))).bind (getI · (g.i0 + i)) = some xv := by
      rw [hk]; simp only [Option.bind_some, hrow, hxv]
    rw [windowV_node f sub g hg rawV scale n j i hj hi xv ml mr hx hml hmr]
    rw [ej, ei] at hx hml hmr
    rw [windowV_node f none g0 hg0 rawV scale n j' i' (by omega) (by omega) xv ml mr hx hml hmr]

/-- two trilinear samples agree when the fractional weights agree and the four node columns
    agree at every level index -/
theorem trilinear_congr (F G : Field3) (x y x' y' : ℚ) (K : Int) (A : ℚ)
    (hp : x - pyTrunc x = x' - pyTrunc x') (hq : y - pyTrunc y = y' - pyTrunc y')
    (h : ∀ (k a b : Int), (a = 0 ∨ a = 1) → (b = 0 ∨ b = 1) →
      get3 F k (pyTrunc y + a) (pyTrunc x + b) = get3 G k (pyTrunc y' + a) (pyTrunc x' + b)) :
    trilinear F x y K A = trilinear G x' y' K A := by
  have h00 : ∀ k, get3 F k (pyTrunc y) (pyTrunc x) = get3 G k (pyTrunc y') (pyTrunc x') :=
    fun k => by simpa only [add_zero] using h k 0 0 (Or.inl rfl) (Or.inl rfl)
  have h10 : ∀ k, get3 F k (pyTrunc y + 1) (pyTrunc x) = get3 G k (pyTrunc y' + 1) (pyTrunc x') :=
    fun k => by simpa only [add_zero] using h k 1 0 (Or.inr rfl) (Or.inl rfl)
  have h01 : ∀ k, get3 F k (pyTrunc y) (pyTrunc x + 1) = get3 G k (pyTrunc y') (pyTrunc x' + 1) :=
    fun k => by simpa only [add_zero] using h k 0 1 (Or.inl rfl) (Or.inr rfl)
  have h11 : ∀ k, get3 F k (pyTrunc y + 1) (pyTrunc x + 1)
      = get3 G k (pyTrunc y' + 1) (pyTrunc x' + 1) :=
    fun k => h k 1 1 (Or.inr rfl) (Or.inr rfl)
  simp only [trilinear, h00, h10, h01, h11, hp, hq]

/-- the *global* index `a + ⌊y − a⌋` and the fractional weight do not depend on the offset -/
theorem index_shift (y : ℚ) (a : Int) (h : 0 ≤ y - a) (h0 : 0 ≤ y) :
    a + pyTrunc (y - a) = pyTrunc y ∧ (y - a) - pyTrunc (y - a) = y - pyTrunc y := by
  rw [pyTrunc_nonneg_eq _ h, pyTrunc_nonneg_eq _ h0, Int.floor_sub_intCast]
  constructor
  · omega
  · push_cast; ring

theorem valid_whole_index (a b : Int) (y : ℚ) (hlo : (a : ℚ) + 1/2 < y)
    (hhi : y < ((b - 1 : Int) : ℚ) - 1/2) :
    0 ≤ pyTrunc (y - a) ∧ pyTrunc (y - a) + 1 < b - a := by
  push_cast at hhi
  exact C17.pyTrunc_range (y - a) (b - a) (by linarith) (by push_cast; linarith)

theorem valid_half_index (a b : Int) (x : ℚ) (hlo : (a : ℚ) + 1/2 < x)
    (hhi : x < ((b - 1 : Int) : ℚ) - 1/2) :
    1 ≤ pyTrunc (x - a + 1/2) ∧ pyTrunc (x - a + 1/2) + 1 < b - a := by
  push_cast at hhi
  rw [pyTrunc_nonneg_eq _ (by linarith)]
  constructor
  · apply Int.le_floor.2
    push_cast; linarith
  · have h1 : (⌊x - (a : ℚ) + 1/2⌋ : ℚ) ≤ x - a + 1/2 := Int.floor_le _
    have h2 : ((⌊x - (a : ℚ) + 1/2⌋ + 1 : Int) : ℚ) < ((b - a : Int) : ℚ) := by
      push_cast; linarith
    exact_mod_cast h2

set_option linter.unusedVariables false in -- `hb` follows from `hin`; kept as stated
/-- **sample_subgrid_indep (velocity)**: with the level column fixed at a position of the
    subgrid's valid region, the velocity sampled at any position of the subgrid's clip box equals
    the velocity sampled with the whole grid loaded.  (`hin`: the sampled position is strictly
    inside the valid region, so that only interior faces of the subgrid's window are touched.) -/
theorem sampleVel_subgrid_indep (f : RomsFile) (rawU rawV : Field3) (N jmax0 imax0 : Int) (hf : FileOK f rawU rawV N jmax0 imax0)
    (sub : Option (Int × Int × Int × Int)) (g g0 : GridM)
    (hg : mkGrid f sub = some g) (hg0 : mkGrid f none = some g0) (scale : Option ℚ) (sign x0 y0 z x y : ℚ)
    (h0 : g.ingrid x0 y0 = true) (hb : C17.InBox g x y) (hin : g.xmin + 1/2 < x ∧ x < g.xmax - 1/2 ∧ g.ymin + 1/2 < y ∧ y < g.ymax - 1/2) :
    sampleVel g (windowU g rawU scale) (windowV g rawV scale) sign x0 y0 z x y
      = sampleVel g0 (windowU g0 rawU scale) (windowV g0 rawV scale) sign x0 y0 z x y := by
  obtain ⟨hx1, hx2, hy1, hy2⟩ := hin
  obtain ⟨hw, hw0, hw1⟩ := window_sub f sub g g0 hg hg0
  -- interior indices in `g`'s window
  obtain ⟨iu1, iu2⟩ := valid_u_index g x hx1 hx2
  obtain ⟨jv1, jv2⟩ := valid_half_index g.j0 g.j1 y hy1 hy2
  obtain ⟨iw1, iw2⟩ := valid_whole_index g.i0 g.i1 x hx1 hx2
  obtain ⟨jw1, jw2⟩ := valid_whole_index g.j0 g.j1 y hy1 hy2
  simp only [GridM.xmin, GridM.xmax, GridM.ymin, GridM.ymax] at hx1 hx2 hy1 hy2
  push_cast at hx2 hy2
  have c1 : (g0.i0 : ℚ) = 1 := by exact_mod_cast hw0.1
  have c2 : (g0.j0 : ℚ) = 1 := by exact_mod_cast hw0.2.2.1
  have c3 : (1 : ℚ) ≤ g.i0 := by exact_mod_cast hw.1
  have c4 : (1 : ℚ) ≤ g.j0 := by exact_mod_cast hw.2.2.1
  -- global indices and weights
  obtain ⟨su, pu⟩ := u_index_shift x g.i0 (by linarith) (by linarith)
  obtain ⟨su0, pu0⟩ := u_index_shift x g0.i0 (by linarith) (by linarith)
  obtain ⟨sv, pv⟩ := u_index_shift y g.j0 (by linarith) (by linarith)
  obtain ⟨sv0, pv0⟩ := u_index_shift y g0.j0 (by linarith) (by linarith)
  obtain ⟨sx, px⟩ := index_shift x g.i0 (by linarith) (by linarith)
  obtain ⟨sx0, px0⟩ := index_shift x g0.i0 (by linarith) (by linarith)
  obtain ⟨sy, py⟩ := index_shift y g.j0 (by linarith) (by linarith)
  obtain ⟨sy0, py0⟩ := index_shift y g0.j0 (by linarith) (by linarith)
  have hS : ∀ (K : Int) (A : ℚ),
      sample3DUV (windowU g rawU scale) (windowV g rawV scale) (x - g.i0) (y - g.j0) K A
        = sample3DUV (windowU g0 rawU scale) (windowV g0 rawV scale) (x - g0.i0) (y - g0.j0) K A := by
    intro K A
    have hU : trilinear (windowU g rawU scale) (x - g.i0 + 1/2) (y - g.j0) K A
        = trilinear (windowU g0 rawU scale) (x - g0.i0 + 1/2) (y - g0.j0) K A := by
      apply trilinear_congr _ _ _ _ _ _ _ _ (by rw [pu, pu0]) (by rw [py, py0])
      intro k a b ha hb'
      apply windowU_indep f rawU rawV N jmax0 imax0 hf sub g g0 hg hg0 scale
      · rcases ha with rfl | rfl <;> omega
      · rcases hb' with rfl | rfl <;> omega
      · omega
      · omega
    have hV : trilinear (windowV g rawV scale) (x - g.i0) (y - g.j0 + 1/2) K A
        = trilinear (windowV g0 rawV scale) (x - g0.i0) (y - g0.j0 + 1/2) K A := by
      apply trilinear_congr _ _ _ _ _ _ _ _ (by rw [px, px0]) (by rw [pv, pv0])
      intro k a b ha hb'
      apply windowV_indep f rawU rawV N jmax0 imax0 hf sub g g0 hg hg0 scale
      · rcases ha with rfl | rfl <;> omega
      · rcases hb' with rfl | rfl <;> omega
      · omega
      · omega
    simp only [sample3DUV, hU, hV]
  unfold sampleVel
  rw [levelOf_subgrid_indep f sub g g0 hg hg0 x0 y0 z h0]
  simp only [hS]

theorem get3_windowRho (f : RomsFile) (sub : Option (Int × Int × Int × Int)) (g : GridM)
    (hg : mkGrid f sub = some g) (raw : Field3) (k J I : Int)
    (hJ : g.j0 ≤ J ∧ J < g.j1) (hI : g.i0 ≤ I ∧ I < g.i1) :
    get3 (windowRho g raw) k (J - g.j0) (I - g.i0) = (getI raw k).bind (fun P => get2 P J I) := by
  unfold get3 windowRho
  rw [getI_map]
  cases getI raw k with
  | none => rfl
  | some P =>
    simp only [Option.map_some, Option.bind_some]
    exact get2_window f sub g hg P J I hJ hI

/-- **sample_subgrid_indep (scalars)**: scalar forcing of a particle in the subgrid's valid region -/
theorem sampleScalar_subgrid_indep (f : RomsFile) (raw : Field3) (sub : Option (Int × Int × Int × Int))
    (g g0 : GridM) (hg : mkGrid f sub = some g) (hg0 : mkGrid f none = some g0) (x y z : ℚ)
    (hv : g.ingrid x y = true) :
    sampleScalar g (windowRho g raw) x y z = sampleScalar g0 (windowRho g0 raw) x y z := by
  obtain ⟨c1, c2, c3, c4⟩ := C17.cell_in_window g x y hv
  obtain ⟨hw, hw0, -⟩ := window_sub f sub g g0 hg hg0
  unfold sampleScalar
  rw [levelOf_subgrid_indep f sub g g0 hg hg0 x y z hv]
  cases levelOf g0 x y z with
  | none => rfl
  | some KA =>
    obtain ⟨K, A⟩ := KA
    simp only [bind, Option.bind_some, nearest, roundHalfEven_intCast]
    simp only [GridM.cellI, GridM.cellJ] at c1 c2 c3 c4 ⊢
    rw [get3_windowRho f sub g hg raw K _ _ (by omega) (by omega),
      get3_windowRho f none g0 hg0 raw K _ _ (by omega) (by omega)]

end Ladim.C02
