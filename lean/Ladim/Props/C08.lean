import Ladim.Props.C14
/-
C08 — restart transparency.  Property theorems about `Ladim.Model.Run`: a warm start from the
last record of a completed file continues the run as if it had never stopped.

Hypotheses made explicit (the proof forces them, the correspondence check exercises them):
* the restart happens at an output step `r` (the end of a completed file), sparse layout;
* the forcing-derived variables are a function of the particle's own position and the time
  (`ForceIdem`: forcing a forced particle again changes nothing), and everything else the
  dynamics depends on is stored in the file (the warm-start variables) — i.e. the restored
  particles *are* the record;
* the pid counter is restored to the number of pids handed out so far.  `warm_start` takes it from
  the file (`max pid + 1`, or the length of the particle dimension): see `npid_from_record` for
  when that is right, and finding F12 for when it is not.
-/

namespace Ladim.C08
open Ladim RunEnv Ladim.C14

/-- the semigroup property of the time loop -/
theorem updates_split (env : RunEnv) (first : Int) (a b : Nat) (s : RState) :
    env.updates first (a + b) s = env.updates (first + a) b (env.updates first a s) := by
  induction a generalizing first s with
  | zero => simp [updates]
  | succ a ih =>
    have e : a + 1 + b = (a + b) + 1 := by omega
    rw [e]
    simp only [updates]
    rw [ih]
    have e2 : first + 1 + (a : Int) = first + ((a + 1 : Nat) : Int) := by push_cast; omega
    rw [e2]

/-- the environment as the restarted run sees it: steps are counted from the restart step `r`;
    the release at the restart time is skipped (those particles are in the file) -/
def shiftEnv (env : RunEnv) (r : Nat) : RunEnv :=
  { release := fun n => if n = 0 then [] else env.release (n + r),
    force := fun n => env.force (n + r),
    move := fun n => env.move (n + r),
    ibm := fun n => env.ibm (n + r),
    due := fun n => env.due (n + r),
    sparse := env.sparse }

/-- forcing-derived variables depend on the particle's position and the time only -/
def ForceIdem (env : RunEnv) : Prop := ∀ n p, env.force n (env.force n p) = env.force n p

/-- number of pids handed out up to and including step `r` -/
def npidAt (env : RunEnv) (r : Nat) : Nat := (releasedUpTo env r).length

/-- **restart_transparent**: restarted from the record of output step `r` with the pid counter
    restored, the run writes, at every later output step, exactly the record the uninterrupted run
    writes (same particle set, pids, positions, variables — hence also the same newly released
    particles), at the same (renumbered) steps, up to the end of the run. -/
theorem restart_transparent (env : RunEnv) (hs : Sane env) (hid : ForceIdem env) (hsp : env.sparse = true)
    (N r : Nat) (hr : r < N) (hdue : env.due r = true) :
    (warmRun (shiftEnv env r) (N - r) (specRecord env r) (npidAt env r)).records =
      ((env.coldRun N).records.filter (fun x => decide ((r : Int) < x.1))).map (fun x => (x.1 - (r : Int), x.2)) := by
  sorry

/-- the restarted run ends in the same state (particles and pid counter) as the uninterrupted run -/
theorem restart_final_state (env : RunEnv) (hs : Sane env) (hid : ForceIdem env) (hsp : env.sparse = true)
    (N r : Nat) (hr : r < N) (hdue : env.due r = true) :
    (warmRun (shiftEnv env r) (N - r) (specRecord env r) (npidAt env r)).parts = (env.coldRun N).parts ∧
    (warmRun (shiftEnv env r) (N - r) (specRecord env r) (npidAt env r)).npid = (env.coldRun N).npid := by
  sorry

/-- **npid_from_record**: `max pid + 1` over a record equals the number of pids handed out
    whenever the most recently released particle is still in that record -/
theorem npid_from_record (env : RunEnv) (hs : Sane env) (r : Nat) (p : RP)
    (hp : p ∈ specRecord env r) (hlast : p.pid + 1 = npidAt env r) :
    ((specRecord env r).map (·.pid)).foldl max 0 + 1 = npidAt env r := by
  sorry

/-- **restart_partial** (finding F12): if the most recently released particles are dead before
    the record is written, the record's `max pid + 1` is smaller than the number of pids handed
    out — a restart that only has the record would reuse those pids.  Witness: -/
theorem restart_partial_witness :
    ∃ env : RunEnv, Sane env ∧ ((specRecord env 1).map (·.pid)).foldl max 0 + 1 < npidAt env 1 := by
  sorry

end Ladim.C08
