import Ladim.Props.C14
/-
C08 — restart transparency.  Property theorems about `Ladim.Model.Run`: a warm start from the
last record of a completed file continues the run as if it had never stopped.

Hypotheses made explicit (the proof forces them, the correspondence check exercises them):
* the restart happens at an output step `r` (the end of a completed file), sparse layout;
* the forcing-derived variables are a function of the particle's own position and the time
  (`ForceIdem`: forcing a forced particle again changes nothing), and everything else the
  dynamics depends on is stored in the file (the warm-start variables) — i.e. the restored
  particles *are* the record;
* the pid counter is restored to the number of pids handed out so far.  `warm_start` takes it from
  the file (`max pid + 1`, or the length of the particle dimension): see `npid_from_record` for
  when that is right, and finding F12 for when it is not.
-/

namespace Ladim.C08
open Ladim RunEnv Ladim.C14

/-- the semigroup property of the time loop -/
theorem updates_split (env : RunEnv) (first : Int) (a b : Nat) (s : RState) :
    env.updates first (a + b) s = env.updates (first + a) b (env.updates first a s) := by
  induction a generalizing first s with
  | zero => simp [updates]
  | succ a ih =>
    have e : a + 1 + b = (a + b) + 1 := by omega
    rw [e]
    simp only [updates]
    rw [ih]
    have e2 : first + 1 + (a : Int) = first + ((a + 1 : Nat) : Int) := by push_cast; omega
    rw [e2]

/-- the environment as the restarted run sees it: steps are counted from the restart step `r`;
    the release at the restart time is skipped (those particles are in the file) -/
def shiftEnv (env : RunEnv) (r : Nat) : RunEnv :=
  { release := fun n => if n = 0 then [] else env.release (n + r),
    force := fun n => env.force (n + r),
    move := fun n => env.move (n + r),
    ibm := fun n => env.ibm (n + r),
    due := fun n => env.due (n + r),
    sparse := env.sparse }

/-- forcing-derived variables depend on the particle's position and the time only -/
def ForceIdem (env : RunEnv) : Prop := ∀ n p, env.force n (env.force n p) = env.force n p

/-- number of pids handed out up to and including step `r` -/
def npidAt (env : RunEnv) (r : Nat) : Nat := (releasedUpTo env r).length

/-! ### helpers -/

/-- undo the renumbering of the steps -/
def unshift (r : Nat) (x : Int × List RP) : Int × List RP := (x.1 - (r : Int), x.2)

/-- from step 1 of the restarted run on, one `update` of the restarted run is the `update` of the
    uninterrupted run `r` steps later -/
theorem shift_update (env : RunEnv) (r : Nat) (n : Int) (hn : 1 ≤ n) (s s' : RState)
    (hp : s'.parts = s.parts) (hc : s'.npid = s.npid) :
    (update (shiftEnv env r) n s').parts = (update env (n + r) s).parts ∧
    (update (shiftEnv env r) n s').npid = (update env (n + r) s).npid ∧
    ∃ L, (update env (n + r) s).records = s.records ++ L ∧
      (update (shiftEnv env r) n s').records = s'.records ++ L.map (unshift r) ∧
      ∀ x ∈ L, n + (r : Int) ≤ x.1 := by
  have hn0 : n ≠ 0 := by omega
  have hrel : (shiftEnv env r).release n = env.release (n + r) := by simp [shiftEnv, hn0]
  have hd : doOut (shiftEnv env r) n = doOut env (n + r) := by
    have h1 : (0 : Int) ≤ n := by omega
    have h2 : (0 : Int) ≤ n + r := by omega
    simp [doOut, shiftEnv, h1, h2]
  have h3 : parts3 (shiftEnv env r) n s' = parts3 env (n + r) s := by
    unfold parts3 parts2
    rw [hd, hrel, hp, hc]
    rfl
  refine ⟨?_, ?_, ?_⟩
  · rw [update_parts, update_parts, h3]; rfl
  · rw [update_npid, update_npid, hrel, hc]
  · rw [update_records, update_records, hd, h3]
    by_cases h : doOut env (n + r) = true
    · refine ⟨[(n + r, parts3 env (n + r) s)], by rw [if_pos h], ?_, by simp⟩
      rw [if_pos h]
      simp [unshift]
    · exact ⟨[], by rw [if_neg h]; simp, by rw [if_neg h]; simp, by simp⟩

theorem shift_updates (env : RunEnv) (r : Nat) : ∀ (k : Nat) (first : Int) (s s' : RState),
    1 ≤ first → s'.parts = s.parts → s'.npid = s.npid →
    (updates (shiftEnv env r) first k s').parts = (updates env (first + r) k s).parts ∧
    (updates (shiftEnv env r) first k s').npid = (updates env (first + r) k s).npid ∧
    ∃ L, (updates env (first + r) k s).records = s.records ++ L ∧
      (updates (shiftEnv env r) first k s').records = s'.records ++ L.map (unshift r) ∧
      ∀ x ∈ L, first + (r : Int) ≤ x.1
  | 0, first, s, s', _, hp, hc => by
    exact ⟨hp, hc, [], by simp [updates], by simp [updates], by simp⟩
  | k + 1, first, s, s', hf, hp, hc => by
    obtain ⟨hp1, hc1, L1, hL1, hL1', hb1⟩ := shift_update env r first hf s s' hp hc
    obtain ⟨hp2, hc2, L2, hL2, hL2', hb2⟩ :=
      shift_updates env r k (first + 1) _ _ (by omega) hp1 hc1
    have e : first + 1 + (r : Int) = first + r + 1 := by omega
    rw [e] at hp2 hc2 hL2 hb2
    simp only [updates]
    refine ⟨hp2, hc2, L1 ++ L2, ?_, ?_, ?_⟩
    · rw [hL2, hL1, List.append_assoc]
    · rw [hL2', hL1', List.map_append, List.append_assoc]
    · intro x hx
      rcases List.mem_append.1 hx with h | h
      · exact hb1 x h
      · have := hb2 x h; omega

/-- the records of the first `N` steps carry step numbers below `N` -/
theorem records_lt (env : RunEnv) : ∀ (N : Nat), ∀ x ∈ (stateAt env N).records, x.1 < (N : Int)
  | 0 => by simp [stateAt, updates, empty]
  | N + 1 => by
    intro x hx
    rw [stateAt_succ, update_records] at hx
    have ih := records_lt env N
    split at hx
    · rcases List.mem_append.1 hx with h | h
      · have := ih x h; push_cast; omega
      · simp only [List.mem_singleton] at h
        subst h; push_cast; omega
    · have := ih x hx; push_cast; omega

/-- a record holds living, freshly forced particles -/
theorem specRecord_fix (env : RunEnv) (hid : ForceIdem env) (r : Nat) :
    (specRecord env r).filter (·.alive) = specRecord env r ∧
    (specRecord env r).map (env.force (r : Int)) = specRecord env r := by
  constructor
  · rw [specRecord_eq_full, List.filter_filter]; simp
  · rw [specRecord_eq_full, full_eq]
    conv_rhs => rw [← List.map_id (List.filter _ _)]
    apply List.map_congr_left
    intro p hp
    obtain ⟨q, _, rfl⟩ := List.mem_map.1 (List.mem_filter.1 hp).1
    simp [hid r q]

/-- the constructor step of the restarted run reproduces the state after step `r` -/
theorem warm_step0 (env : RunEnv) (hs : Sane env) (hid : ForceIdem env) (hsp : env.sparse = true)
    (r : Nat) (hdue : env.due r = true) :
    let s1 := stepBody (shiftEnv env r) 0 false
      { parts := specRecord env r, npid := npidAt env r, log := [], records := [] }
    s1.parts = (stateAt env (r + 1)).parts ∧ s1.npid = (stateAt env (r + 1)).npid ∧ s1.records = [] := by
  obtain ⟨hp, hc⟩ := sparse_inv env hs hsp r
  obtain ⟨hf1, hf2⟩ := specRecord_fix env hid r
  intro s1
  refine ⟨?_, ?_, ?_⟩
  · rw [stateAt_succ, update_parts, (sparse_parts3 env hs hsp r _ hp hc).2 hdue]
    simp [s1, stepBody, shiftEnv, assignPids, hsp, hf1, hf2, gstep, Function.comp_def]
  · rw [(sparse_inv env hs hsp (r + 1)).2]
    simp [s1, stepBody, shiftEnv, assignPids, npidAt, cnt]
  · simp [s1, stepBody]

/-- both runs, decomposed at the restart step -/
theorem restart_decomp (env : RunEnv) (hs : Sane env) (hid : ForceIdem env) (hsp : env.sparse = true)
    (N r : Nat) (hr : r < N) (hdue : env.due r = true) :
    (warmRun (shiftEnv env r) (N - r) (specRecord env r) (npidAt env r)).parts = (env.coldRun N).parts ∧
    (warmRun (shiftEnv env r) (N - r) (specRecord env r) (npidAt env r)).npid = (env.coldRun N).npid ∧
    ∃ L, (env.coldRun N).records = (stateAt env (r + 1)).records ++ L ∧
      (warmRun (shiftEnv env r) (N - r) (specRecord env r) (npidAt env r)).records = L.map (unshift r) ∧
      ∀ x ∈ L, (r : Int) + 1 ≤ x.1 := by
  obtain ⟨h1, h2, h3⟩ := warm_step0 env hs hid hsp r hdue
  have hN : N = (r + 1) + (N - r - 1) := by omega
  have hcold : env.coldRun N = updates env ((1 : Int) + r) (N - r - 1) (stateAt env (r + 1)) := by
    unfold coldRun
    conv_lhs => rw [hN, updates_split]
    have e : (0 : Int) + ((r + 1 : Nat) : Int) = 1 + r := by push_cast; omega
    rw [e]; rfl
  obtain ⟨hp, hc, L, hL, hL', hb⟩ := shift_updates env r (N - r - 1) 1 _ _ (by omega) h1 h2
  rw [← hcold] at hp hc hL
  have hw : warmRun (shiftEnv env r) (N - r) (specRecord env r) (npidAt env r) =
      updates (shiftEnv env r) 1 (N - r - 1) (stepBody (shiftEnv env r) 0 false
        { parts := specRecord env r, npid := npidAt env r, log := [], records := [] }) := rfl
  rw [hw]
  refine ⟨hp, hc, L, hL, ?_, ?_⟩
  · rw [hL', h3]; simp
  · intro x hx; have := hb x hx; omega

/-- **restart_transparent**: restarted from the record of output step `r` with the pid counter
    restored, the run writes, at every later output step, exactly the record the uninterrupted run
    writes (same particle set, pids, positions, variables — hence also the same newly released
    particles), at the same (renumbered) steps, up to the end of the run. -/
theorem restart_transparent (env : RunEnv) (hs : Sane env) (hid : ForceIdem env) (hsp : env.sparse = true)
    (N r : Nat) (hr : r < N) (hdue : env.due r = true) :
    (warmRun (shiftEnv env r) (N - r) (specRecord env r) (npidAt env r)).records =
      ((env.coldRun N).records.filter (fun x => decide ((r : Int) < x.1))).map (fun x => (x.1 - (r : Int), x.2)) := by
  obtain ⟨_, _, L, hL, hL', hb⟩ := restart_decomp env hs hid hsp N r hr hdue
  rw [hL', hL, List.filter_append]
  have e1 : (stateAt env (r + 1)).records.filter (fun x => decide ((r : Int) < x.1)) = [] := by
    rw [List.filter_eq_nil_iff]
    intro x hx
    have := records_lt env (r + 1) x hx
    push_cast at this
    simp only [decide_eq_true_eq]; omega
  have e2 : L.filter (fun x => decide ((r : Int) < x.1)) = L := by
    rw [List.filter_eq_self]
    intro x hx
    have := hb x hx
    simp only [decide_eq_true_eq]; omega
  rw [e1, e2]
  rfl

/-- the restarted run ends in the same state (particles and pid counter) as the uninterrupted run -/
theorem restart_final_state (env : RunEnv) (hs : Sane env) (hid : ForceIdem env) (hsp : env.sparse = true)
    (N r : Nat) (hr : r < N) (hdue : env.due r = true) :
    (warmRun (shiftEnv env r) (N - r) (specRecord env r) (npidAt env r)).parts = (env.coldRun N).parts ∧
    (warmRun (shiftEnv env r) (N - r) (specRecord env r) (npidAt env r)).npid = (env.coldRun N).npid := by
  obtain ⟨h1, h2, _⟩ := restart_decomp env hs hid hsp N r hr hdue
  exact ⟨h1, h2⟩

theorem foldl_max_ge (l : List Nat) : ∀ a : Nat, a ≤ l.foldl max a ∧ ∀ x ∈ l, x ≤ l.foldl max a := by
  induction l with
  | nil => intro a; simp
  | cons b l ih =>
    intro a
    obtain ⟨h1, h2⟩ := ih (max a b)
    simp only [List.foldl_cons, List.mem_cons]
    refine ⟨by omega, ?_⟩
    rintro x (rfl | hx)
    · omega
    · exact h2 x hx

theorem foldl_max_le (M : Nat) (l : List Nat) : ∀ a : Nat, a ≤ M → (∀ x ∈ l, x ≤ M) → l.foldl max a ≤ M := by
  induction l with
  | nil => intro a ha _; simpa using ha
  | cons b l ih =>
    intro a ha h
    simp only [List.foldl_cons]
    have hb := h b (by simp)
    exact ih (max a b) (by omega) (fun x hx => h x (by simp [hx]))

/-- the pids in a record are among the pids handed out so far -/
theorem record_pid_lt (env : RunEnv) (hs : Sane env) (r : Nat) (q : RP) (hq : q ∈ specRecord env r) :
    q.pid < npidAt env r := by
  rw [specRecord_eq_full] at hq
  have h1 : q.pid ∈ (full env r).map (·.pid) := List.mem_map.2 ⟨q, (List.mem_filter.1 hq).1, rfl⟩
  rw [full_pids env hs, full_length] at h1
  exact List.mem_range.1 h1

/-- **npid_from_record**: `max pid + 1` over a record equals the number of pids handed out
    whenever the most recently released particle is still in that record -/
theorem npid_from_record (env : RunEnv) (hs : Sane env) (r : Nat) (p : RP)
    (hp : p ∈ specRecord env r) (hlast : p.pid + 1 = npidAt env r) :
    ((specRecord env r).map (·.pid)).foldl max 0 + 1 = npidAt env r := by
  have hge := (foldl_max_ge ((specRecord env r).map (·.pid)) 0).2 p.pid (List.mem_map.2 ⟨p, hp, rfl⟩)
  have hle := foldl_max_le p.pid ((specRecord env r).map (·.pid)) 0 (by omega) (by
    intro x hx
    obtain ⟨q, hq, rfl⟩ := List.mem_map.1 hx
    have := record_pid_lt env hs r q hq
    omega)
  omega

/-- a release row -/
def witnessRow : RP :=
  { pid := 0, x := 0, y := 0, z := 0, alive := true, active := true, vars := [], pvars := [] }

/-- two particles released at step 0; the IBM kills the second one in the same step -/
def witnessEnv : RunEnv :=
  { release := fun n => if n = 0 then [witnessRow, witnessRow] else [],
    force := fun _ p => p,
    move := fun _ p => p,
    ibm := fun n p => if n = 0 ∧ p.pid = 1 then { p with alive := false } else p,
    due := fun _ => true,
    sparse := true }

/-- **restart_partial** (finding F12): if the most recently released particles are dead before
    the record is written, the record's `max pid + 1` is smaller than the number of pids handed
    out — a restart that only has the record would reuse those pids.  Witness: -/
theorem restart_partial_witness :
    ∃ env : RunEnv, Sane env ∧ ((specRecord env 1).map (·.pid)).foldl max 0 + 1 < npidAt env 1 := by
  refine ⟨witnessEnv, ?_, ?_⟩
  · refine ⟨fun _ _ => rfl, fun _ _ h => h, ?_, fun _ _ => rfl, fun _ _ => rfl, ?_⟩
    · intro n p h
      show (if n = 0 ∧ p.pid = 1 then { p with alive := false } else p).alive = false
      split
      · rfl
      · exact h
    · intro n p
      show (if n = 0 ∧ p.pid = 1 then { p with alive := false } else p).pid = p.pid
      split <;> rfl
  · simp [specRecord, releasedUpTo, npidAt, advance, advance1, witnessEnv, witnessRow, List.range_succ]

end Ladim.C08
