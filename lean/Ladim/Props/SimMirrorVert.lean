import Ladim.Props.SimMirror
import Ladim.Props.SimShift
/-
C10 for the whole simulation, with vertical advection.  Vertical advection uses the scalar
forcing field `w`; every particle carries the value sampled at its position as the variable `w`.
The mirrored forward run negates that field together with U and V, so its particles carry `−w`;
everything else — positions, depths, identifiers, other variables, the call log — is literally
equal.  (Without a scalar field named `w` this is `SimMirror.reverse_eq_mirror_noVert`.)
-/

namespace Ladim.SimMirrorVert
open Ladim

def negV : Val → Val
  | .num q => .num (-q)
  | .nan => .nan

/-- the particle with the sign of its variable `w` flipped -/
def flipW (p : RP) : RP :=
  { p with vars := p.vars.map (fun (k, v) => if k == "w" then (k, negV v) else (k, v)) }

/-- the forward set-up over the mirrored time axis in the velocity field of opposite sign: U, V and
    the vertical velocity `w` negated, release times mirrored -/
def mirrorW (s : Sim) : Sim :=
  { SimMirror.mirror s with
      rawS := s.rawS.map (fun (nm, t) => if nm == "w" then (nm, fun f i => C10.negF (t f i)) else (nm, t)) }

/-! ### the time machine with a scalar: negating the frames negates the scalar field too -/

/-- negation of the scalar field of the machine -/
def negS (m : FM) : FM := { m with scal := -m.scal }

/-- negation of the running fields and of the scalar field -/
def negAll (m : FM) : FM := C10.FM.neg (negS m)

theorem read_negS (m : FM) (val : Nat → Nat → Rat) (step : Int) :
    (negS m).read val step = (m.read val step).map (fun p => (p.1, negS p.2)) := by
  unfold FM.read
  simp only [negS]
  cases FM.frameOf m.frames step <;> simp

theorem init_negS (frames : List Frame) (valU valS : Nat → Nat → Rat) :
    FM.init frames valU (C10.negVal valS) true = (FM.init frames valU valS true).map negS := by
  simp only [FM.init, C10.read_negVal]
  generalize List.foldl (max : Int → Int → Int) _ _ = pre
  split
  · simp
  · split
    · simp
    · rename_i nxt _
      generalize FM.mk frames 0 0 0 0 none [] = m0
      cases h0 : m0.read valU pre with
      | none => simp
      | some p0 =>
        obtain ⟨u0, m1⟩ := p0
        simp only []
        cases h1 : m1.read valU nxt.step with
        | none => simp
        | some p1 =>
          obtain ⟨u1, m2⟩ := p1
          simp only []
          cases h2 : m2.read valS pre with
          | none => simp
          | some p2 => simp [negS]

theorem update_negS (m : FM) (valU valS : Nat → Nat → Rat) (step : Int) :
    (negS m).update valU (C10.negVal valS) true step = (m.update valU valS true step).map negS := by
  simp only [FM.update]
  have hfr : (negS m).frames = m.frames := rfl
  rw [hfr]
  cases h : FM.indexOf m.frames step with
  | none => simp [negS]
  | some i =>
    simp only [if_true]
    have e1 : FM.mk m.frames (negS m).unew (negS m).unew (negS m).dU (negS m).scal
        (negS m).openFile (negS m).reads
        = negS (FM.mk m.frames m.unew m.unew m.dU m.scal m.openFile m.reads) := rfl
    rw [e1]
    generalize FM.mk m.frames m.unew m.unew m.dU m.scal m.openFile m.reads = m1
    rw [C10.read_negVal, read_negS]
    cases m1.read valS step with
    | none => simp
    | some p =>
      obtain ⟨sv, m2⟩ := p
      simp only [Option.map_some]
      have hfr2 : (negS m2).frames = m2.frames := rfl
      simp only [hfr2]
      cases m2.frames[i + 1]? with
      | none => simp [negS]
      | some nxt =>
        simp only
        have e2 : FM.mk m2.frames (negS m2).u (negS m2).unew (negS m2).dU (-sv) (negS m2).openFile
            (negS m2).reads = negS (FM.mk m2.frames m2.u m2.unew m2.dU sv m2.openFile m2.reads) := rfl
        rw [e2, read_negS]
        cases ({ m2 with scal := sv } : FM).read valU nxt.step with
        | none => simp
        | some q => simp [negS]

theorem init_negAll (frames : List Frame) (val : Nat → Nat → Rat) :
    FM.init frames (C10.negVal val) (C10.negVal val) true = (FM.init frames val val true).map negAll := by
  rw [C10.fm_neg_init, init_negS, Option.map_map]
  rfl

theorem update_negAll (m : FM) (val : Nat → Nat → Rat) (step : Int) :
    (negAll m).update (C10.negVal val) (C10.negVal val) true step = (m.update val val true step).map negAll := by
  unfold negAll
  rw [C10.fm_neg_update, update_negS, Option.map_map]
  rfl

theorem scan_negAll (val : Nat → Nat → Rat) :
    ∀ (fuel s : Nat) (m : FM), (negAll m).scan (C10.negVal val) (C10.negVal val) true s fuel =
      (m.scan val val true s fuel).map negAll := by
  intro fuel
  induction fuel with
  | zero => intro s m; rfl
  | succ fuel ih =>
    intro s m
    simp only [FM.scan, update_negAll]
    cases m.update val val true (s : Int) with
    | none => rfl
    | some m' => simp only [Option.map_some, List.map_cons, ih]

theorem nodeStates_negAll (frames : List Frame) (val : Nat → Nat → Rat) (n : Nat) :
    nodeStates frames (C10.negVal val) true n = (nodeStates frames val true n).map negAll := by
  unfold nodeStates
  rw [init_negAll]
  cases FM.init frames val val true with
  | none => rfl
  | some m0 =>
    simp only [Option.map_some]
    rw [scan_negAll]

/-- the time machine over a negated scalar array gives the negated scalar fields -/
theorem scalarSeq_neg (frames : List Frame) (arr : Nat → Nat → Field3) (n k : Nat) :
    (scalarSeq frames (fun f i => C10.negF (arr f i)) n)[k]?.getD [] =
      C10.negF ((scalarSeq frames arr n)[k]?.getD []) := by
  by_cases hk : k < n
  · rw [WholeForcing.scalarSeq_get _ _ _ _ hk, WholeForcing.scalarSeq_get _ _ _ _ hk]
    simp only [SimMirror.shapeOf_neg, SimMirror.mapNodes_negF, SimMirror.negF_mapNodes, SimMirror.nodeVal_neg,
      nodeStates_negAll, List.getElem?_map]
    congr 1
    funext a b c
    cases (nodeStates frames (nodeVal arr a b c) true n)[k]? <;> simp [negAll, negS, C10.FM.neg]
  · have h1 : ∀ a, (scalarSeq frames a n).length = n := by intro a; simp [scalarSeq]
    rw [List.getElem?_eq_none (by rw [h1]; omega), List.getElem?_eq_none (by rw [h1]; omega)]
    rfl

theorem windowRho_neg (g : GridM) (raw : Field3) : windowRho g (C10.negF raw) = C10.negF (windowRho g raw) := by
  simp only [windowRho, C10.negF, List.map_map, Function.comp_def, SimMirror.slice2_neg]

/-- sampling the particle's own cell commutes with negation -/
theorem sampleScalar_neg (g : GridM) (F : Field3) (x y z : Rat) :
    sampleScalar g (C10.negF F) x y z = (sampleScalar g F x y z).map (fun v => -v) := by
  simp only [sampleScalar, nearest, C10.get3_negF, bind]
  cases levelOf g x y z with
  | none => rfl
  | some KA => rfl

/-! ### the variable `w` of a particle -/

def flipVars (l : List (String × Val)) : List (String × Val) :=
  l.map (fun (k, v) => if k == "w" then (k, negV v) else (k, v))

theorem flipW_eq (p : RP) : flipW p = { p with vars := flipVars p.vars } := rfl

theorem any_flipVars (l : List (String × Val)) (n : String) :
    (flipVars l).any (·.1 == n) = l.any (·.1 == n) := by
  unfold flipVars
  rw [List.any_map]
  congr 1
  funext x
  simp only [Function.comp]
  split <;> rfl

/-- writing a variable commutes with the flip: the value written to `w` is negated -/
theorem setVar_flipVars (l : List (String × Val)) (n : String) (v : Val) :
    RomsSetup.setVar (flipVars l) n (if n == "w" then negV v else v) = flipVars (RomsSetup.setVar l n v) := by
  unfold RomsSetup.setVar
  rw [any_flipVars]
  split
  · unfold flipVars
    rw [List.map_map, List.map_map]
    apply List.map_congr_left
    rintro ⟨k, x⟩ _
    simp only [Function.comp]
    by_cases hk : k = n
    · subst hk
      by_cases hw : k = "w"
      · subst hw; simp
      · simp [hw]
    · by_cases hw : k = "w"
      · subst hw
        simp [hk]
      · simp [hk, hw]
  · unfold flipVars
    rw [List.map_append]
    congr 1
    by_cases hw : n = "w"
    · subst hw; simp
    · simp [hw]

theorem setVar_flipVars_ne (l : List (String × Val)) (n : String) (v : Val) (hn : n ≠ "w") :
    RomsSetup.setVar (flipVars l) n v = flipVars (RomsSetup.setVar l n v) := by
  have := setVar_flipVars l n v
  rwa [show (n == "w") = false by simpa using hn] at this

theorem lookup_flipVars (l : List (String × Val)) (n : String) :
    PState.lookup (flipVars l) n = (PState.lookup l n).map (fun v => if n == "w" then negV v else v) := by
  induction l with
  | nil => rfl
  | cons x t ih =>
    obtain ⟨k, v⟩ := x
    unfold PState.lookup flipVars at ih ⊢
    simp only [List.map_cons, List.find?_cons]
    by_cases hk : k = n
    · subst hk
      by_cases hw : k = "w"
      · subst hw; simp
      · simp [hw]
    · have hkn : (k == n) = false := by simpa using hk
      have h1 : ((if k == "w" then (k, negV v) else (k, v)).1 == n) = false := by
        split <;> exact hkn
      rw [h1]
      simp only [hkn]
      exact ih

theorem lookupVar_w (l : List (String × Val)) :
    RomsSetup.valRat (RomsSetup.lookupVar (flipVars l) "w") = -RomsSetup.valRat (RomsSetup.lookupVar l "w") := by
  unfold RomsSetup.lookupVar
  rw [lookup_flipVars]
  cases PState.lookup l "w" with
  | none => simp [RomsSetup.valRat]
  | some v => cases v <;> simp [RomsSetup.valRat, negV]

theorem lookupVar_ne (l : List (String × Val)) (n : String) (hn : n ≠ "w") :
    RomsSetup.lookupVar (flipVars l) n = RomsSetup.lookupVar l n := by
  unfold RomsSetup.lookupVar
  rw [lookup_flipVars]
  have : (n == "w") = false := by simpa using hn
  simp [this]

/-! ### the loop environment -/

/-- the scalar fields with the field `w` negated -/
def negWScal (L : List (String × (Nat → Field3))) : List (String × (Nat → Field3)) :=
  L.map (fun (nm, f) => if nm == "w" then (nm, fun k => C10.negF (f k)) else (nm, f))

/-- one scalar forcing variable written to a particle -/
def forceStep (g : GridM) (n : Int) (q : RP) (e : String × (Nat → Field3)) : RP :=
  match sampleScalar g (e.2 n.toNat) q.x q.y q.z with
  | some v => { q with vars := RomsSetup.setVar q.vars e.1 (.num v) }
  | none => { q with vars := RomsSetup.setVar q.vars e.1 .nan }

theorem force_eq (S : RomsSetup) (n : Int) (p : RP) : S.force n p = S.scalars.foldl (forceStep S.g n) p := rfl

theorem forceStep_flip (g : GridM) (n : Int) (q : RP) (nm : String) (f : Nat → Field3) :
    forceStep g n (flipW q) (if nm == "w" then (nm, fun k => C10.negF (f k)) else (nm, f)) =
      flipW (forceStep g n q (nm, f)) := by
  by_cases hw : nm = "w"
  · subst hw
    simp only [beq_self_eq_true, if_true, forceStep, sampleScalar_neg, flipW_eq]
    cases sampleScalar g (f n.toNat) q.x q.y q.z with
    | none =>
      simp only [Option.map_none]
      have := setVar_flipVars q.vars "w" .nan
      simp only [beq_self_eq_true, if_true, negV] at this
      rw [this]
    | some v =>
      simp only [Option.map_some]
      have := setVar_flipVars q.vars "w" (.num v)
      simp only [beq_self_eq_true, if_true, negV] at this
      rw [this]
  · have hb : (nm == "w") = false := by simpa using hw
    simp only [hb, Bool.false_eq_true, if_false, forceStep, flipW_eq]
    cases sampleScalar g (f n.toNat) q.x q.y q.z with
    | none => simp only [setVar_flipVars_ne _ _ _ hw]
    | some v => simp only [setVar_flipVars_ne _ _ _ hw]

theorem foldl_forceStep_flip (g : GridM) (n : Int) (L : List (String × (Nat → Field3))) :
    ∀ p : RP, (negWScal L).foldl (forceStep g n) (flipW p) = flipW (L.foldl (forceStep g n) p) := by
  induction L with
  | nil => intro p; rfl
  | cons e L ih =>
    intro p
    obtain ⟨nm, f⟩ := e
    unfold negWScal at ih ⊢
    simp only [List.map_cons, List.foldl_cons]
    rw [forceStep_flip, ih]

theorem trackerStep_wadv (cfg : TrkCfg) (g : GridM) (vel : VelOracle) (w w' : Rat) (h : w' = w) (p : Part) :
    trackerStep cfg g vel 0 0 0 w' p = trackerStep cfg g vel 0 0 0 w p := by rw [h]

/-- a reversed set-up and a forward set-up with the same oracle and the scalar field `w` negated:
    the loop environments commute with the flip of the particle variable `w` -/
theorem env_comm (a b : RomsSetup) (hg : b.g = a.g) (hsc : b.scalars = negWScal a.scalars) (hcfg : b.cfg = a.cfg)
    (hs : a.sign = -1) (hs' : b.sign = 1) (hor : b.oracle = a.oracle)
    (hrel : ∀ n, b.releaseAt n = (a.releaseAt n).map flipW) (hage : b.ageing = a.ageing) (hk : b.kills = a.kills)
    (hp : b.period = a.period) (hsp : b.sparse = a.sparse) (hrnd : b.rnd = a.rnd) :
    SimShift.Commutes a.env b.env flipW where
  release := hrel
  force n p := by
    show b.force n (flipW p) = flipW (a.force n p)
    rw [force_eq, force_eq, hsc, hg]
    exact foldl_forceStep_flip a.g n a.scalars p
  move n p := by
    show b.move n (flipW p) = flipW (a.move n p)
    unfold RomsSetup.move
    simp only [hg, hcfg, hor, hrnd, hs, hs']
    have hx : (flipW p).x = p.x := rfl
    have hy : (flipW p).y = p.y := rfl
    have hz : (flipW p).z = p.z := rfl
    have hal : (flipW p).alive = p.alive := rfl
    have hac : (flipW p).active = p.active := rfl
    have hv : (flipW p).vars = flipVars p.vars := rfl
    rw [hx, hy, hz, hal, hac, hv, lookupVar_w]
    rw [trackerStep_wadv a.cfg a.g _ (-1 * RomsSetup.valRat (RomsSetup.lookupVar p.vars "w"))
      (1 * -RomsSetup.valRat (RomsSetup.lookupVar p.vars "w")) (by ring)]
    cases trackerStep a.cfg a.g (a.oracle n p.x p.y p.z) 0 0 0 (-1 * RomsSetup.valRat (RomsSetup.lookupVar p.vars "w"))
        { x := p.x, y := p.y, z := p.z, alive := p.alive, active := p.active } with
    | some q => rfl
    | none =>
      simp only [flipW_eq]
      rw [setVar_flipVars_ne _ _ _ (by decide)]
  ibm n p := by
    show b.ibm n (flipW p) = flipW (a.ibm n p)
    have hset : RomsSetup.setVar (flipVars p.vars) "age"
        (.num (RomsSetup.valRat (RomsSetup.lookupVar (flipVars p.vars) "age") + 1)) =
        flipVars (RomsSetup.setVar p.vars "age" (.num (RomsSetup.valRat (RomsSetup.lookupVar p.vars "age") + 1))) := by
      rw [lookupVar_ne _ _ (by decide), setVar_flipVars_ne _ _ _ (by decide)]
    have hpid : (flipW p).pid = p.pid := rfl
    unfold RomsSetup.ibm
    simp only [hage, hk, hpid]
    cases a.ageing <;> cases (a.kills n).contains p.pid <;>
      simp only [flipW_eq, hset, Bool.false_eq_true, if_false, if_true]
  due n := by
    show (Int.fmod n b.period == 0) = (Int.fmod n a.period == 0)
    rw [hp]
  sparse := hsp
  alive _ := rfl
  pid _ _ := rfl

/-! ### release: the released particles carry the default `w`, which the flip fixes -/

theorem expand_mem (g : List RRow) (x : RRow) (h : x ∈ Rel.expand g) : x ∈ g := by
  unfold Rel.expand at h
  rw [List.mem_flatMap] at h
  obtain ⟨r, hr, hx⟩ := h
  rw [List.mem_replicate] at hx
  rw [hx.2]
  exact hr

theorem update_mem (P : RRow → Prop) (r : Rel) (first : Int) (h : ∀ g ∈ r.groups, ∀ x ∈ g, P x) :
    (∀ x ∈ (r.update first).2, P x) ∧ (r.update first).1.groups = r.groups := by
  unfold Rel.update
  split
  · cases hg : r.groups[r.index]? with
    | none => exact ⟨fun x hx => (by cases hx), rfl⟩
    | some g => exact ⟨fun x hx => h g (List.mem_of_getElem? hg) x (expand_mem g x hx), rfl⟩
  · exact ⟨fun x hx => (by cases hx), rfl⟩

/-- every row the releaser hands out is a row of one of its groups -/
theorem run_mem (P : RRow → Prop) : ∀ (n : Nat) (r : Rel) (first : Int), (∀ g ∈ r.groups, ∀ x ∈ g, P x) →
    ∀ e ∈ r.run first n, ∀ x ∈ e.2, P x := by
  intro n
  induction n with
  | zero => intro r first _ e he; cases he
  | succ n ih =>
    intro r first h e he
    obtain ⟨h1, h2⟩ := update_mem P r first h
    rw [SimMirror.run_succ, List.mem_cons] at he
    rcases he with rfl | he
    · exact h1
    · exact ih (r.update first).1 (first + 1) (by rw [h2]; exact h) e he

theorem lookup_mem (P : RRow → Prop) (tab : List (Int × List RRow)) (h : ∀ e ∈ tab, ∀ x ∈ e.2, P x) (n : Int) :
    ∀ x ∈ (tab.lookup n).getD [], P x := by
  induction tab with
  | nil => intro x hx; cases hx
  | cons e t ih =>
    obtain ⟨k, rows⟩ := e
    rw [List.lookup_cons]
    cases n == k
    · exact ih (fun e he => h e (List.mem_cons_of_mem _ he))
    · exact h (k, rows) List.mem_cons_self

theorem stage4_mem (c : RelCfg) (hc : c.continuous = false) (rows : List RRow) (x : RRow)
    (hx : x ∈ C14.stage4 c rows) : x ∈ rows := by
  unfold C14.stage4 at hx
  simp only [hc, Bool.false_eq_true, if_false] at hx
  split at hx
  · exact (List.mem_filter.1 (List.mem_filter.1 (List.mem_filter.1 hx).1).1).1
  · exact (List.mem_filter.1 (List.mem_filter.1 hx).1).1

/-- the rows of the release table are rows of the release file (discrete release, no
    `release_time` column added) -/
theorem relTable_mem (c : RelCfg) (hc : c.continuous = false) (hrt : c.releaseTimeCol = false) (rows : List RRow)
    (rel : Rel) (h : Rel.init c rows = .ok rel) (first : Int) (n : Nat) (k : Int) :
    ∀ x ∈ ((rel.run first n).lookup k).getD [], x ∈ rows := by
  apply lookup_mem (· ∈ rows)
  apply run_mem (· ∈ rows)
  intro g hg x hx
  rw [(C14.init_ok c rows rel h).2.1, List.mem_map] at hg
  obtain ⟨t, _, rfl⟩ := hg
  have h5 : x ∈ C14.stage5 c rows := (List.mem_filter.1 hx).1
  unfold C14.stage5 at h5
  simp only [hrt, Bool.false_eq_true, if_false] at h5
  exact stage4_mem c hc rows x h5

/-- a row without a column `w` gives a particle whose `w` is the default: fixed by the flip -/
theorem flipW_rowToRP (s : Sim) (hwdef : ∀ d ∈ s.ivDefaults, d.1 = "w" → d.2 = .nan ∨ d.2 = .num 0) (r : RRow)
    (hr : ∀ c ∈ r.cols, c.1 ≠ "w") : flipW (s.rowToRP r) = s.rowToRP r := by
  unfold flipW Sim.rowToRP
  simp only
  rw [RP.mk.injEq]
  refine ⟨rfl, rfl, rfl, rfl, rfl, rfl, ?_, rfl⟩
  rw [List.map_map]
  apply List.map_congr_left
  rintro ⟨n, d⟩ hd
  simp only [Function.comp]
  by_cases hn : n = "w"
  · subst hn
    have hl : PState.lookup r.cols "w" = none := by
      unfold PState.lookup
      rw [List.find?_eq_none.2 (fun c hc => by simpa using hr c hc)]
      rfl
    rw [hl]
    rcases hwdef _ hd rfl with h | h
    · simp only at h
      subst h
      rfl
    · simp only at h
      subst h
      simp [negV]
  · simp [hn]

/-! ### the set-up of the mirrored run -/

theorem scalars_mirrorW (s : Sim) (g : GridM) (nrun : Nat) (tab tab' : List (Int × List RRow)) (rnd : Rat → Rat) :
    ((mirrorW s).setup g nrun tab' rnd).scalars = negWScal (s.setup g nrun tab rnd).scalars := by
  show (((mirrorW s).rawS.map _).map _).map _ = negWScal (((s.rawS.map _).map _).map _)
  unfold negWScal mirrorW
  simp only [List.map_map]
  apply List.map_congr_left
  rintro ⟨nm, t⟩ _
  simp only [Function.comp]
  by_cases hw : nm = "w"
  · subst hw
    simp only [beq_self_eq_true, if_true, windowRho_neg]
    rw [SimMirror.tabulate_neg]
    congr 1
    funext k
    exact scalarSeq_neg _ _ _ k
  · have hb : (nm == "w") = false := by simpa using hw
    simp only [hb, Bool.false_eq_true, if_false]
    rfl

theorem oracle_mirrorW (s : Sim) (hrev : s.rev = true) (g : GridM) (nrun : Nat)
    (tab tab' : List (Int × List RRow)) (rnd : Rat → Rat) :
    ((mirrorW s).setup g nrun tab' rnd).oracle = (s.setup g nrun tab rnd).oracle :=
  SimMirror.oracle_mirror s hrev g nrun tab tab' rnd

/-- the loop environments of the two runs commute with the flip of `w` -/
theorem envOf_mirrorW (s : Sim) (rnd : Rat → Rat) (hrev : s.rev = true) (hc : s.continuous = false)
    (hrt : s.pvNames.contains "release_time" = false)
    (hwcol : ∀ r ∈ s.rows, ∀ c ∈ r.cols, c.1 ≠ "w")
    (hwdef : ∀ d ∈ s.ivDefaults, d.1 = "w" → d.2 = .nan ∨ d.2 = .num 0)
    (g : GridM) (rel rel' : Rel) (h : Rel.init s.relCfg s.rows = .ok rel)
    (h' : Rel.init (mirrorW s).relCfg (mirrorW s).rows = .ok rel') (N : Nat) :
    SimShift.Commutes (Simulation.envOf s g rel N rnd) (Simulation.envOf (mirrorW s) g rel' N rnd) flipW := by
  unfold Simulation.envOf
  apply env_comm
  · rfl
  · exact scalars_mirrorW s g (N + 1) _ _ rnd
  · rfl
  · show (if s.rev then (-1 : Rat) else 1) = -1
    rw [hrev]; rfl
  · rfl
  · exact oracle_mirrorW s hrev g (N + 1) _ _ rnd
  · intro n
    show (((rel'.run 0 (N + 1)).lookup n).getD []).map (SimMirror.mirror s).rowToRP =
      ((((rel.run 0 (N + 1)).lookup n).getD []).map s.rowToRP).map flipW
    rw [SimMirror.relTable_mirror s hrev hc hrt rel rel' h h' (N + 1), SimMirror.releaseAt_mirror s _ n, List.map_map]
    apply List.map_congr_left
    intro x hx
    have hmem := relTable_mem s.relCfg hc hrt s.rows rel h 0 (N + 1) n x hx
    exact (flipW_rowToRP s hwdef x (hwcol x hmem)).symm
  · rfl
  · rfl
  · rfl
  · rfl
  · rfl

/-! ### the whole run -/

/-- **reverse_eq_mirror** (cold start, discrete release, no `release_time` particle variable, the
    release table does not set `w`): the reversed run and the mirrored forward run are refused
    alike, and when they run they have the same number of steps, the same call log, the same pid
    counter, and the same records and final state up to the sign of the carried variable `w` -/
theorem reverse_eq_mirror (s : Sim) (rnd : Rat → Rat) (hrev : s.rev = true) (hc : s.continuous = false)
    (hw : s.warm = none) (hrt : s.pvNames.contains "release_time" = false)
    (hedge : s.stop = s.start → mkGrid s.file s.sub ≠ none)
    (hwcol : ∀ r ∈ s.rows, ∀ c ∈ r.cols, c.1 ≠ "w")
    (hwdef : ∀ d ∈ s.ivDefaults, d.1 = "w" → d.2 = .nan ∨ d.2 = .num 0) :
    match s.run rnd, (mirrorW s).run rnd with
    | .ok a, .ok b => b.nsteps = a.nsteps ∧
        b.final.records = a.final.records.map (fun (n, ps) => (n, ps.map flipW)) ∧
        b.final.parts = a.final.parts.map flipW ∧
        b.final.npid = a.final.npid ∧ b.final.log = a.final.log
    | .error e, .error e' => e' = e
    | _, _ => False := by
  have hclock := SimMirror.clock_mirror s.start s.stop s.dt s.ref
  rw [← hrev] at hclock
  rcases hclock with ⟨tk, tk', htk, htk', hn⟩ | ⟨hse, htk, tk', htk'⟩ | ⟨htk, htk'⟩
  · -- both clocks run
    cases hg : mkGrid s.file s.sub with
    | none =>
      rw [Simulation.refuses_bad_grid s rnd tk htk hg,
        Simulation.refuses_bad_grid (mirrorW s) rnd tk' htk' hg]
    | some g =>
      have hm := SimMirror.rel_mirror s hrev hc hrt
      cases hr : Rel.init s.relCfg s.rows with
      | error e =>
        cases hr' : Rel.init (SimMirror.mirror s).relCfg (SimMirror.mirror s).rows with
        | error e' =>
          rw [hr, hr'] at hm
          rw [SimMirror.run_err_rel s rnd tk g e htk hg hr, SimMirror.run_err_rel (mirrorW s) rnd tk' g e' htk' hg hr']
          exact hm.symm
        | ok rel' => rw [hr, hr'] at hm; exact hm.elim
      | ok rel =>
        cases hr' : Rel.init (SimMirror.mirror s).relCfg (SimMirror.mirror s).rows with
        | error e' => rw [hr, hr'] at hm; exact hm.elim
        | ok rel' =>
          obtain ⟨a, ha, han, haf⟩ := SimMirror.run_cold s rnd tk g rel htk hg hr hw
          obtain ⟨b, hb, hbn, hbf⟩ := SimMirror.run_cold (mirrorW s) rnd tk' g rel' htk' hg hr' hw
          rw [ha, hb]
          have hfin : b.final = SimShift.mapState flipW a.final := by
            rw [hbf, haf, ← hn]
            exact SimShift.coldRun_comm (envOf_mirrorW s rnd hrev hc hrt hwcol hwdef g rel rel' hr hr' _) _
          refine ⟨by rw [hbn, han, hn], ?_, ?_, ?_, ?_⟩ <;> rw [hfin] <;> rfl
  · -- stop = start: the reversed clock refuses, the forward releaser has an empty window
    cases hg : mkGrid s.file s.sub with
    | none => exact absurd hg (hedge hse)
    | some g =>
      rw [SimMirror.run_err_tk s rnd _ htk,
        SimMirror.run_err_rel (mirrorW s) rnd tk' g _ htk' hg (SimMirror.rel_empty_window s hc hw hse)]
  · rw [SimMirror.run_err_tk s rnd _ htk, SimMirror.run_err_tk (mirrorW s) rnd _ htk']

end Ladim.SimMirrorVert
