import Ladim.Model.Time
import Mathlib.Tactic.Linarith
/-
C13 — period spellings: `parseIso` (the model of
`re.match(r"^PT(\d+H)?(\d+M)?(\d+S)?$", s)` + "at least one group" + summation)
accepts exactly the strings of the documented shape and gives them the documented value.
-/

namespace Ladim.C13
open Ladim

/-- a non-empty run of ASCII digits -/
def IsDigits (ds : List Char) : Prop := ds ≠ [] ∧ ∀ c ∈ ds, c.isDigit = true

/-- rendering of one optional group `(\d+c)?` -/
def grp (g : Option (List Char)) (c : Char) : List Char :=
  match g with
  | none => []
  | some ds => ds ++ [c]

def grpVal (g : Option (List Char)) : Int :=
  match g with
  | none => 0
  | some ds => (digitsToNat ds : Int)

def GrpOk (g : Option (List Char)) : Prop :=
  match g with
  | none => True
  | some ds => IsDigits ds

/-- the documented shape `PTxHyMzS` with each group optional but at least one present
    (Python's `$` also tolerates one trailing newline) with its value in seconds -/
def IsoShape (cs : List Char) (v : Int) : Prop :=
  ∃ h m s : Option (List Char), GrpOk h ∧ GrpOk m ∧ GrpOk s ∧
    (h.isSome ∨ m.isSome ∨ s.isSome) ∧
    (cs = 'P' :: 'T' :: (grp h 'H' ++ grp m 'M' ++ grp s 'S') ∨
     cs = 'P' :: 'T' :: (grp h 'H' ++ grp m 'M' ++ grp s 'S') ++ ['\n']) ∧
    v = 3600 * grpVal h + 60 * grpVal m + grpVal s


/-! ### helper lemmas -/

def pgCore (c : Char) (cs ds rest : List Char) : Option Nat × List Char :=
  match ds, rest with
  | _ :: _, r :: rest' => if r = c then (some (digitsToNat ds), rest') else (none, cs)
  | _, _ => (none, cs)

theorem parseGroup_of (c : Char) (cs ds rest : List Char)
    (h1 : cs.takeWhile Char.isDigit = ds) (h2 : cs.dropWhile Char.isDigit = rest) :
    parseGroup c cs = pgCore c cs ds rest := by
  subst h1; subst h2; rfl

theorem tw_dw (ds tl : List Char) (hd : ∀ d ∈ ds, d.isDigit = true)
    (ht : tl = [] ∨ ∃ r tl', tl = r :: tl' ∧ r.isDigit = false) :
    (ds ++ tl).takeWhile Char.isDigit = ds ∧ (ds ++ tl).dropWhile Char.isDigit = tl := by
  rw [List.takeWhile_append_of_pos hd, List.dropWhile_append_of_pos hd]
  rcases ht with rfl | ⟨r, tl', rfl, hr⟩
  · simp
  · simp [hr]

theorem parseGroup_some (c : Char) (hc : c.isDigit = false) (ds rest : List Char)
    (hds : IsDigits ds) :
    parseGroup c (ds ++ c :: rest) = (some (digitsToNat ds), rest) := by
  obtain ⟨h1, h2⟩ := tw_dw ds (c :: rest) hds.2 (Or.inr ⟨c, rest, rfl, hc⟩)
  rw [parseGroup_of c _ _ _ h1 h2]
  obtain ⟨hne, _⟩ := hds
  cases ds with
  | nil => exact absurd rfl hne
  | cons d ds' => simp [pgCore]

theorem parseGroup_none_digits (c r : Char) (hr : r.isDigit = false) (hrc : r ≠ c)
    (ds tl : List Char) (hds : ∀ d ∈ ds, d.isDigit = true) :
    parseGroup c (ds ++ r :: tl) = (none, ds ++ r :: tl) := by
  obtain ⟨h1, h2⟩ := tw_dw ds (r :: tl) hds (Or.inr ⟨r, tl, rfl, hr⟩)
  rw [parseGroup_of c _ _ _ h1 h2]
  cases ds with
  | nil => simp [pgCore]
  | cons d ds' => simp [pgCore, hrc]

theorem parseGroup_none_cons (c r : Char) (hr : r.isDigit = false) (hrc : r ≠ c)
    (tl : List Char) : parseGroup c (r :: tl) = (none, r :: tl) := by
  simpa using parseGroup_none_digits c r hr hrc [] tl (by simp)

theorem parseGroup_nil (c : Char) : parseGroup c [] = (none, []) := rfl

theorem parseGroup_cases (c : Char) (cs : List Char) :
    ∃ g rest, GrpOk g ∧ cs = grp g c ++ rest ∧
      parseGroup c cs = (g.map digitsToNat, rest) := by
  have h0 := List.takeWhile_append_dropWhile (p := Char.isDigit) (l := cs)
  have hd : ∀ d ∈ cs.takeWhile Char.isDigit, d.isDigit = true :=
    fun d hd => by
      have := List.all_takeWhile (p := Char.isDigit) (l := cs)
      exact List.all_eq_true.mp this d hd
  rw [parseGroup_of c cs _ _ rfl rfl]
  generalize cs.takeWhile Char.isDigit = ds at h0 hd
  generalize cs.dropWhile Char.isDigit = rest at h0
  cases ds with
  | nil => exact ⟨none, cs, trivial, rfl, by simp [pgCore]⟩
  | cons d ds' =>
    cases rest with
    | nil => exact ⟨none, cs, trivial, rfl, by simp [pgCore]⟩
    | cons r rest' =>
      by_cases hrc : r = c
      · subst hrc
        refine ⟨some (d :: ds'), rest', ⟨by simp, hd⟩, ?_, by simp [pgCore]⟩
        simp [grp, ← h0]
      · exact ⟨none, cs, trivial, rfl, by simp [pgCore, hrc]⟩

/-- the part of `parseIso` after the `PT` prefix -/
def parseTail (cs : List Char) : Option Int :=
  let (h, cs1) := parseGroup 'H' cs
  let (m, cs2) := parseGroup 'M' cs1
  let (sec, cs3) := parseGroup 'S' cs2
  if cs3 = [] ∨ cs3 = ['\n'] then
    match h, m, sec with
    | none, none, none => none
    | _, _, _ => some (3600 * (h.getD 0 : Int) + 60 * (m.getD 0 : Int) + (sec.getD 0 : Int))
  else none

theorem parseIso_eq (s : String) :
    parseIso s = (match s.toList with
      | 'P' :: 'T' :: cs => parseTail cs
      | _ => none) := rfl

theorem getD_map_grpVal (g : Option (List Char)) :
    (((g.map digitsToNat).getD 0 : Nat) : Int) = grpVal g := by
  cases g <;> simp [grpVal]

theorem parseTail_sound (cs : List Char) (v : Int) (h : parseTail cs = some v) :
    ∃ h m s : Option (List Char), GrpOk h ∧ GrpOk m ∧ GrpOk s ∧
      (h.isSome ∨ m.isSome ∨ s.isSome) ∧
      (cs = grp h 'H' ++ grp m 'M' ++ grp s 'S' ∨
       cs = grp h 'H' ++ grp m 'M' ++ grp s 'S' ++ ['\n']) ∧
      v = 3600 * grpVal h + 60 * grpVal m + grpVal s := by
  obtain ⟨gh, cs1, okh, e1, p1⟩ := parseGroup_cases 'H' cs
  obtain ⟨gm, cs2, okm, e2, p2⟩ := parseGroup_cases 'M' cs1
  obtain ⟨gs, cs3, oks, e3, p3⟩ := parseGroup_cases 'S' cs2
  unfold parseTail at h
  rw [p1] at h; dsimp only at h
  rw [p2] at h; dsimp only at h
  rw [p3] at h; dsimp only at h
  split_ifs at h with htl
  · refine ⟨gh, gm, gs, okh, okm, oks, ?_, ?_, ?_⟩
    · cases gh <;> cases gm <;> cases gs <;> simp at h ⊢
    · subst e1 e2 e3
      rcases htl with rfl | rfl
      · left; simp
      · right; simp
    · rw [← getD_map_grpVal gh, ← getD_map_grpVal gm, ← getD_map_grpVal gs]
      cases gh <;> cases gm <;> cases gs <;> simp at h ⊢ <;> omega

theorem nog_tl (c : Char) (hc : '\n' ≠ c) (tl : List Char) (htl : tl = [] ∨ tl = ['\n']) :
    parseGroup c tl = (none, tl) := by
  rcases htl with rfl | rfl
  · rfl
  · exact parseGroup_none_cons c '\n' (by decide) hc []

theorem nog_grp (c c' : Char) (hd : c'.isDigit = false) (hc : c' ≠ c)
    (g : Option (List Char)) (ok : GrpOk g) (Y : List Char)
    (hY : parseGroup c Y = (none, Y)) :
    parseGroup c (grp g c' ++ Y) = (none, grp g c' ++ Y) := by
  cases g with
  | none => simpa [grp] using hY
  | some ds =>
    have := parseGroup_none_digits c c' hd hc ds Y ok.2
    simpa [grp] using this

theorem parseGroup_grp (c : Char) (hc : c.isDigit = false) (g : Option (List Char))
    (ok : GrpOk g) (X : List Char) (hX : parseGroup c X = (none, X)) :
    parseGroup c (grp g c ++ X) = (g.map digitsToNat, X) := by
  cases g with
  | none => simpa [grp] using hX
  | some ds =>
    have := parseGroup_some c hc ds X ok
    simpa [grp] using this

theorem parseTail_complete (h m s : Option (List Char)) (okh : GrpOk h) (okm : GrpOk m)
    (oks : GrpOk s) (hsome : h.isSome ∨ m.isSome ∨ s.isSome) (tl : List Char)
    (htl : tl = [] ∨ tl = ['\n']) :
    parseTail (grp h 'H' ++ grp m 'M' ++ grp s 'S' ++ tl) =
      some (3600 * grpVal h + 60 * grpVal m + grpVal s) := by
  have dH : 'H'.isDigit = false := by decide
  have dM : 'M'.isDigit = false := by decide
  have dS : 'S'.isDigit = false := by decide
  have p1 := parseGroup_grp 'H' dH h okh (grp m 'M' ++ (grp s 'S' ++ tl))
    (nog_grp 'H' 'M' dM (by decide) m okm _
      (nog_grp 'H' 'S' dS (by decide) s oks _ (nog_tl 'H' (by decide) tl htl)))
  have p2 := parseGroup_grp 'M' dM m okm (grp s 'S' ++ tl)
    (nog_grp 'M' 'S' dS (by decide) s oks _ (nog_tl 'M' (by decide) tl htl))
  have p3 := parseGroup_grp 'S' dS s oks tl (nog_tl 'S' (by decide) tl htl)
  unfold parseTail
  rw [List.append_assoc, List.append_assoc, p1]; dsimp only
  rw [p2]; dsimp only
  rw [p3]; dsimp only
  rw [if_pos htl, ← getD_map_grpVal h, ← getD_map_grpVal m, ← getD_map_grpVal s]
  cases h <;> cases m <;> cases s <;> simp at hsome ⊢

/-- **parseIso_spec** (sound and complete): a string is accepted with value `v` iff it has
    the documented shape with that value; everything else is rejected. -/
theorem parseIso_spec (str : String) (v : Int) :
    parseIso str = some v ↔ IsoShape str.toList v := by
  rw [parseIso_eq]
  constructor
  · intro h
    split at h
    · rename_i cs heq
      obtain ⟨gh, gm, gs, okh, okm, oks, hsome, hcs, hv⟩ := parseTail_sound cs v h
      refine ⟨gh, gm, gs, okh, okm, oks, hsome, ?_, hv⟩
      rw [heq]
      rcases hcs with rfl | rfl
      · left; rfl
      · right; simp
    · cases h
  · rintro ⟨gh, gm, gs, okh, okm, oks, hsome, hcs, hv⟩
    rcases hcs with hcs | hcs
    · rw [hcs, hv]
      simpa using parseTail_complete gh gm gs okh okm oks hsome [] (Or.inl rfl)
    · rw [hcs, hv]
      simpa using parseTail_complete gh gm gs okh okm oks hsome ['\n'] (Or.inr rfl)

/-- value of a decimal digit string, as a specification of `digitsToNat` -/
theorem digitsToNat_snoc (ds : List Char) (c : Char) :
    digitsToNat (ds ++ [c]) = 10 * digitsToNat ds + (c.toNat - '0'.toNat) := by
  simp [digitsToNat, List.foldl_append]

/-- **spellings_agree**: the ISO spelling `PT<h>H<m>M<s>S`, the integer number of seconds and the
    `[value, unit]` spellings of the three parts denote the same duration (digit strings are
    arbitrary, leading zeros included). -/
theorem spellings_agree (dh dm ds : List Char) (hh : IsDigits dh) (hm : IsDigits dm)
    (hs : IsDigits ds) (str : String)
    (hstr : str.toList = 'P' :: 'T' :: (dh ++ ['H'] ++ dm ++ ['M'] ++ ds ++ ['S'])) :
    ∃ vh vm vs : Int,
      normalizePeriod (.pair (digitsToNat dh) "h") = .ok vh ∧
      normalizePeriod (.pair (digitsToNat dm) "m") = .ok vm ∧
      normalizePeriod (.pair (digitsToNat ds) "s") = .ok vs ∧
      normalizePeriod (.iso str) = .ok (vh + vm + vs) ∧
      normalizePeriod (.secs (vh + vm + vs)) = .ok (vh + vm + vs) ∧
      vh + vm + vs = 3600 * digitsToNat dh + 60 * digitsToNat dm + digitsToNat ds := by
  have hiso : parseIso str =
      some (3600 * (digitsToNat dh : Int) + 60 * (digitsToNat dm : Int) + (digitsToNat ds : Int)) := by
    rw [parseIso_spec]
    exact ⟨some dh, some dm, some ds, hh, hm, hs, Or.inl rfl,
      Or.inl (by rw [hstr]; simp [grp]), rfl⟩
  refine ⟨(digitsToNat dh : Int) * 3600, (digitsToNat dm : Int) * 60, (digitsToNat ds : Int) * 1,
    by simp [normalizePeriod, pairUnitSeconds], by simp [normalizePeriod, pairUnitSeconds],
    by simp [normalizePeriod, pairUnitSeconds], ?_, rfl, by omega⟩
  simp only [normalizePeriod, hiso]
  congr 1; omega

/-- malformed spellings are rejected -/
theorem rejects (str : String) (hno : ¬ ∃ v, IsoShape str.toList v) :
    normalizePeriod (.iso str) = .error .valueError := by
  cases h : parseIso str with
  | none => simp [normalizePeriod, h]
  | some v => exact absurd ⟨v, (parseIso_spec str v).mp h⟩ hno

example : parseIso "PT1H30M" = some 5400 := by decide
example : parseIso "PT" = none := by decide
example : parseIso "PT5" = none := by decide
example : IsoShape "PT90S".toList 90 := by
  refine ⟨none, none, some ['9', '0'], trivial, trivial, ⟨by simp, by decide⟩, by simp, Or.inl (by decide), by decide⟩

end Ladim.C13
