import Ladim.Props.SimFlags
import Ladim.Props.SimSafe
import Ladim.Props.Simulation
/-
C09 for flagged particles, at the level of the records of a whole simulation: in every record of `Sim.run`, a particle
that is not active sits at the release position of a release row whose column `active` is 0.  `hrows` says that what enters the
state at a step stems from rows of the table (position and flag of the row; the releaser may add a `release_time` column) —
for sorted on-grid discrete tables that is `Simulation.release_schedule`.  (A particle that is
deactivated later — by leaving the grid — is dead and in no record; the scripted IBM never deactivates.)
-/

namespace Ladim.SimFlagsRecords
open Ladim RunEnv RomsSetup

/-- the release positions of the rows that release inactive particles -/
def restingPlaces (s : Sim) : List (Rat × Rat) :=
  (s.rows.filter (fun r => !(Sim.flagOf r.cols "active"))).map (fun r => ((s.rowToRP r).x, (s.rowToRP r).y))

/-- living, inactive ⇒ at a resting place -/
def AtRest (places : List (Rat × Rat)) (p : RP) : Prop :=
  p.alive = true → p.active = false → (p.x, p.y) ∈ places

/-- one tracker step keeps `AtRest` (with `rnd = id`): an inactive particle stays where it is; an active particle that
    becomes inactive has left the grid and is dead -/
theorem move_atRest (s : RomsSetup) (hr : s.rnd = id) (places : List (Rat × Rat)) (n : Int) (p : RP)
    (h : AtRest places p) : AtRest places (s.move n p) := by
  intro hal hac
  have hpal : p.alive = true := by
    cases hpa : p.alive with
    | true => rfl
    | false => rw [Whole.move_dead s n p hpa] at hal; cases hal
  cases hpc : p.active with
  | false =>
    obtain ⟨hx, hy, -⟩ := SimFlags.move_inactive s n p hpc (by rw [hr]; rfl) (by rw [hr]; rfl)
    rw [hx, hy]
    exact h hpal hpc
  | true =>
    exfalso
    rcases Whole.move_cases s n p with ⟨q, hq, he⟩ | he
    · obtain ⟨p1, hp1, -, -, hal1, hac1⟩ := C09.trackerStep_cases _ _ _ _ _ _ _ _ q hq
      obtain ⟨dx, ua, va, -, -, -, hal2, hac2, -⟩ := C09.moveH_cases _ _ _ _ _ _ p1 hp1
      rw [he] at hal hac
      have hqa : q.alive = true := hal
      have hqc : q.active = false := hac
      rw [hal1, hal2] at hqa
      rw [hac1, hac2] at hqc
      simp only [hpal, hpc, Bool.true_and] at hqa hqc
      rw [hqa] at hqc
      cases hqc
    · rw [he] at hac
      have : p.active = false := hac
      rw [hpc] at this; cases this

theorem ibm_atRest (s : RomsSetup) (places : List (Rat × Rat)) (n : Int) (p : RP)
    (h : AtRest places p) : AtRest places (s.ibm n p) := by
  obtain ⟨vs, a, he, hd⟩ := Whole.ibm_cases s n p
  intro hal hac
  rw [he] at hal hac ⊢
  have hpal : p.alive = true := by
    cases hpa : p.alive with
    | true => rfl
    | false =>
      have h1 : a = true := hal
      rw [hd hpa] at h1; cases h1
  exact h hpal hac

theorem force_atRest (s : RomsSetup) (places : List (Rat × Rat)) (n : Int) (p : RP)
    (h : AtRest places p) : AtRest places (s.force n p) := by
  rw [Whole.force_eq]
  exact h

/-- **inactive_in_records_at_rest**: in every record of an accepted run (cold start, sparse layout, `rnd = id`), every particle
    that is not active is at the release position of a row of the release table whose `active` column is 0 -/
theorem inactive_in_records_at_rest (s : Sim) (res : SimResult) (tk : TK) (g : GridM) (rel : Rel)
    (hp : Simulation.Parts s id res tk g rel) (hw : s.warm = none) (hsp : s.sparse = true)
    (hrows : ∀ k, ∀ p ∈ (Simulation.envOf s g rel res.nsteps id).release k, ∃ r ∈ s.rows,
      p.x = (s.rowToRP r).x ∧ p.y = (s.rowToRP r).y ∧ p.active = Sim.flagOf r.cols "active")
    (n : Nat) (hn : n < res.nsteps) (hdue : Int.fmod (n : Int) s.period = 0) (parts : List RP)
    (hrec : ((n : Int), parts) ∈ res.final.records) :
    ∀ p ∈ parts, p.active = false → (p.x, p.y) ∈ restingPlaces s := by
  have hspec := (Simulation.records_are_spec s id res tk g rel hp hw hsp n hn hdue).2 parts hrec
  rw [hspec]
  let st := s.setup g (res.nsteps + 1) (rel.run 0 (res.nsteps + 1)) id
  have hall : ∀ p ∈ RunEnv.specRecord (Simulation.envOf s g rel res.nsteps id) n, AtRest (restingPlaces s) p := by
    apply SimSafe.specRecord_all_upto (Simulation.envOf s g rel res.nsteps id) (AtRest (restingPlaces s)) n
    · intro k p i hpm _ hac
      obtain ⟨r, hr, hx, hy, ha⟩ := hrows k p hpm
      have hac' : p.active = false := hac
      show (p.x, p.y) ∈ restingPlaces s
      rw [hx, hy]
      unfold restingPlaces
      refine List.mem_map.2 ⟨r, List.mem_filter.2 ⟨hr, ?_⟩, rfl⟩
      rw [← ha, hac']; rfl
    · intro k p h
      exact force_atRest st _ k p h
    · intro j _ p h
      exact move_atRest st rfl _ (j : Int) p h
    · intro k p h
      exact ibm_atRest st _ k p h
  intro p hpm hac
  have hal : p.alive = true := by
    unfold RunEnv.specRecord at hpm
    exact (List.mem_filter.1 hpm).2
  exact hall p hpm hal hac

end Ladim.SimFlagsRecords
