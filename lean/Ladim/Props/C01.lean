import Ladim.Model.Tracker
import Ladim.Model.Analytical
import Mathlib.Analysis.SpecialFunctions.Exponential
import Mathlib.Analysis.Complex.Exponential
import Mathlib.Tactic.Linarith
import Mathlib.Tactic.Ring
import Mathlib.Tactic.FieldSimp
import Mathlib.Tactic.NormNum
import Mathlib.Algebra.Order.Field.Rat
/-
C01 — the advection step is the selected explicit Runge–Kutta scheme, with its order.

Layers of the statement
* `step_eq_rk`     : `Tracker.update` (model: `advect`, `moveH`) *is* one step of the explicit RK
                     method with the EF / midpoint / classical RK4 tableau applied to
                     dX/dt = u/dx, dY/dt = v/dy, the stage velocities being the forcing's values
                     at the stage positions and at fractions 0, ½, ½, 1 of the step — for every
                     forcing oracle, position, metric and time step (stage positions inside the
                     clip box, particle in open water).
* order conditions : the three tableaux satisfy all order conditions up to 1, 2, 4 and violate
                     one of order 2, 3, 5.
* `stab_poly`, `conv_linear_*` : on linear fields (rotation, spiral, strain: `u + iv = λ (x + iy)`)
                     a step multiplies by the degree-p Taylor polynomial of `exp(λh)`, and the
                     end point after `n` steps converges to the exact flow map with order p.
* `quadrature_exact`: for fields depending on time only the step is the quadrature rule of the
                     scheme (rectangle / midpoint / Simpson): exact below degree 1 / 2 / 4 and
                     not at that degree — this pins the fractional times.
* `…_partial`      : convergence for arbitrary smooth fields follows from the order conditions by
                     Butcher's theorem, which is cited, not formalised.
-/

namespace Ladim.C01
open Ladim

/-! ### the textbook schemes, written directly -/

/-- velocity in grid units per second at a stage: `(u/dx, v/dy)` is applied by the caller; here
    `f frac x y` is the forcing oracle (m/s), `hx = dt/dx`, `hy = dt/dy` -/
abbrev Oracle := Rat → Rat → Rat → Rat × Rat

/-- effective velocity of Euler forward -/
def efVel (f : Oracle) (x y : Rat) : Rat × Rat := f 0 x y

/-- effective velocity of the explicit midpoint rule (tableau c = (0, ½), b = (0, 1)) -/
def midpointVel (f : Oracle) (x y hx hy : Rat) : Rat × Rat :=
  let k1 := f 0 x y
  f (1/2) (x + (1/2) * k1.1 * hx) (y + (1/2) * k1.2 * hy)

/-- effective velocity of classical RK4 (c = (0, ½, ½, 1), b = (1/6, 1/3, 1/3, 1/6)) -/
def rk4Vel (f : Oracle) (x y hx hy : Rat) : Rat × Rat :=
  let k1 := f 0 x y
  let k2 := f (1/2) (x + (1/2) * k1.1 * hx) (y + (1/2) * k1.2 * hy)
  let k3 := f (1/2) (x + (1/2) * k2.1 * hx) (y + (1/2) * k2.2 * hy)
  let k4 := f 1 (x + 1 * k3.1 * hx) (y + 1 * k3.2 * hy)
  ((k1.1 + 2 * k2.1 + 2 * k3.1 + k4.1) / 6, (k1.2 + 2 * k2.2 + 2 * k3.2 + k4.2) / 6)

/-- a stage position is inside the clip box `[xmin+0.01, xmax−0.01] × [ymin+0.01, ymax−0.01]` -/
def InBox (g : GridM) (x y : Rat) : Prop :=
  g.xmin + 1/100 ≤ x ∧ x ≤ g.xmax - 1/100 ∧ g.ymin + 1/100 ≤ y ∧ y ≤ g.ymax - 1/100

/-- clipping does nothing inside the box -/
theorem stage_in_box (g : GridM) (x y u v frac hx hy : Rat)
    (h : InBox g (x + frac * u * hx) (y + frac * v * hy)) :
    stage g x y u v frac hx hy = (x + frac * u * hx, y + frac * v * hy) := by
  obtain ⟨h1, h2, h3, h4⟩ := h
  simp only [stage, rkStep, clip1]
  rw [min_eq_left h2, max_eq_left h1, min_eq_left h4, max_eq_left h3]

/-- **step_eq_rk (EF)** -/
theorem advect_EF (g : GridM) (f : Oracle) (x y hx hy : Rat) :
    advect .EF g (fun fr a b => some (f fr a b)) x y hx hy = some (efVel f x y) := by
  rfl

/-- **step_eq_rk (RK2)**: with the stage position inside the clip box, RK2 is the explicit
    midpoint rule (velocity at fraction ½ at the half-step position) -/
theorem advect_RK2 (g : GridM) (f : Oracle) (x y hx hy : Rat)
    (h1 : InBox g (x + (1/2) * (f 0 x y).1 * hx) (y + (1/2) * (f 0 x y).2 * hy)) :
    advect .RK2 g (fun fr a b => some (f fr a b)) x y hx hy = some (midpointVel f x y hx hy) := by
  simp only [advect, midpointVel, Option.bind_eq_bind, Option.bind_some, stage_in_box _ _ _ _ _ _ _ _ h1]

/-- **step_eq_rk (RK4)**: with the three stage positions inside the clip box, RK4 is the
    classical Runge–Kutta method with stage times 0, ½, ½, 1 -/
theorem advect_RK4 (g : GridM) (f : Oracle) (x y hx hy : Rat)
    (h1 : InBox g (x + (1/2) * (f 0 x y).1 * hx) (y + (1/2) * (f 0 x y).2 * hy))
    (h2 : let k1 := f 0 x y
          let k2 := f (1/2) (x + (1/2) * k1.1 * hx) (y + (1/2) * k1.2 * hy)
          InBox g (x + (1/2) * k2.1 * hx) (y + (1/2) * k2.2 * hy))
    (h3 : let k1 := f 0 x y
          let k2 := f (1/2) (x + (1/2) * k1.1 * hx) (y + (1/2) * k1.2 * hy)
          let k3 := f (1/2) (x + (1/2) * k2.1 * hx) (y + (1/2) * k2.2 * hy)
          InBox g (x + 1 * k3.1 * hx) (y + 1 * k3.2 * hy)) :
    advect .RK4 g (fun fr a b => some (f fr a b)) x y hx hy = some (rk4Vel f x y hx hy) := by
  simp only [] at h2 h3
  simp only [advect, rk4Vel, Option.bind_eq_bind, Option.bind_some, Option.pure_def,
    stage_in_box _ _ _ _ _ _ _ _ h1, stage_in_box _ _ _ _ _ _ _ _ h2,
    stage_in_box _ _ _ _ _ _ _ _ h3, rk4avg]

/-- **step_eq_rk (the move)**: with diffusion off, an active living particle whose proposed end
    point is inside the grid and at sea is displaced by exactly `velocity · dt / dx` with the
    scheme's effective velocity and the metric of its start cell. -/
theorem move_open_water (cfg : TrkCfg) (g : GridM) (vel : VelOracle) (p q : Part) (dx ua va : Rat)
    (hm : g.metric p.x p.y = some dx)
    (ha : advect cfg.scheme g vel p.x p.y (cfg.dt / dx) (cfg.dt / dx) = some (ua, va))
    (halive : p.alive = true) (hactive : p.active = true)
    (hin : g.ingrid (p.x + ua * cfg.dt / dx) (p.y + va * cfg.dt / dx) = true)
    (hsea : g.atsea (p.x + ua * cfg.dt / dx) (p.y + va * cfg.dt / dx) = some true)
    (h : moveH cfg g vel 0 0 p = some q) :
    q.x = p.x + ua * cfg.dt / dx ∧ q.y = p.y + va * cfg.dt / dx ∧ q.alive = true ∧ q.active = true := by
  simp only [moveH, hm, ha, add_zero, Option.bind_eq_bind, Option.bind_some, hin, halive, hactive,
    Bool.not_true, Bool.and_true, Bool.not_false, if_true, hsea, Option.pure_def, Option.some.injEq] at h
  subst h
  simp

/-! ### order conditions of the three tableaux

A tableau with strictly lower triangular `a`, weights `b`, nodes `c` (lists of equal length).
The conditions are those of the rooted trees up to order 4 (Butcher). -/

structure Tableau where
  a : List (List Rat)
  b : List Rat
  c : List Rat

def tabEF : Tableau := ⟨[[0]], [1], [0]⟩
def tabMid : Tableau := ⟨[[0, 0], [1/2, 0]], [0, 1], [0, 1/2]⟩
def tabRK4 : Tableau :=
  ⟨[[0, 0, 0, 0], [1/2, 0, 0, 0], [0, 1/2, 0, 0], [0, 0, 1, 0]], [1/6, 1/3, 1/3, 1/6], [0, 1/2, 1/2, 1]⟩

def dot (u v : List Rat) : Rat := ((u.zip v).map (fun p => p.1 * p.2)).foldl (· + ·) 0
def had (u v : List Rat) : List Rat := (u.zip v).map (fun p => p.1 * p.2)
def mulVec (a : List (List Rat)) (v : List Rat) : List Rat := a.map (fun row => dot row v)

/-- row-sum condition `c = A·1` -/
def rowSum (t : Tableau) : Prop := mulVec t.a (t.b.map (fun _ => 1)) = t.c
def order1 (t : Tableau) : Prop := dot t.b (t.b.map (fun _ => 1)) = 1
def order2 (t : Tableau) : Prop := order1 t ∧ dot t.b t.c = 1/2
def order3 (t : Tableau) : Prop :=
  order2 t ∧ dot t.b (had t.c t.c) = 1/3 ∧ dot t.b (mulVec t.a t.c) = 1/6
def order4 (t : Tableau) : Prop :=
  order3 t ∧ dot t.b (had t.c (had t.c t.c)) = 1/4 ∧ dot t.b (had t.c (mulVec t.a t.c)) = 1/8 ∧
  dot t.b (mulVec t.a (had t.c t.c)) = 1/12 ∧ dot t.b (mulVec t.a (mulVec t.a t.c)) = 1/24
/-- one of the order-5 conditions (the bushy tree) -/
def order5_bushy (t : Tableau) : Prop := dot t.b (had (had t.c t.c) (had t.c t.c)) = 1/5

instance (t : Tableau) : Decidable (rowSum t) := by unfold rowSum; infer_instance
instance (t : Tableau) : Decidable (order1 t) := by unfold order1; infer_instance
instance (t : Tableau) : Decidable (order2 t) := by unfold order2; infer_instance
instance (t : Tableau) : Decidable (order3 t) := by unfold order3; infer_instance
instance (t : Tableau) : Decidable (order4 t) := by unfold order4; infer_instance
instance (t : Tableau) : Decidable (order5_bushy t) := by unfold order5_bushy; infer_instance

theorem ef_order1 : rowSum tabEF ∧ order1 tabEF ∧ ¬ order2 tabEF := by
  decide +kernel

theorem rk2_order2 : rowSum tabMid ∧ order2 tabMid ∧ ¬ order3 tabMid := by
  decide +kernel

theorem rk4_order4 : rowSum tabRK4 ∧ order4 tabRK4 ∧ ¬ order5_bushy tabRK4 := by
  decide +kernel

/-- the model's schemes are the RK methods of these tableaux: generic explicit RK step with at
    most four stages, specialised -/
def rkGeneric (t : Tableau) (f : Oracle) (x y hx hy : Rat) : Rat × Rat :=
  let stageVel (ks : List (Rat × Rat)) (i : Nat) : Rat × Rat :=
    let row := t.a.getD i []
    let sx := dot row (ks.map (·.1))
    let sy := dot row (ks.map (·.2))
    f (t.c.getD i 0) (x + sx * hx) (y + sy * hy)
  let ks := (List.range t.b.length).foldl (fun ks i => ks ++ [stageVel ks i]) []
  (dot t.b (ks.map (·.1)), dot t.b (ks.map (·.2)))

theorem efVel_tableau (f : Oracle) (x y hx hy : Rat) : rkGeneric tabEF f x y hx hy = efVel f x y := by
  simp [rkGeneric, tabEF, efVel, dot, List.range, List.range.loop]

theorem midpointVel_tableau (f : Oracle) (x y hx hy : Rat) :
    rkGeneric tabMid f x y hx hy = midpointVel f x y hx hy := by
  simp [rkGeneric, tabMid, midpointVel, dot, List.range, List.range.loop]

theorem rk4Vel_tableau (f : Oracle) (x y hx hy : Rat) :
    rkGeneric tabRK4 f x y hx hy = rk4Vel f x y hx hy := by
  simp [rkGeneric, tabRK4, rk4Vel, dot, List.range, List.range.loop]
  constructor <;> ring

/-! ### quadrature: fields that depend on time only -/

/-- cubic polynomial in the fraction of the step -/
def cubic (c0 c1 c2 c3 t : Rat) : Rat := c0 + c1 * t + c2 * t ^ 2 + c3 * t ^ 3
/-- its exact integral over the step -/
def cubicInt (c0 c1 c2 c3 : Rat) : Rat := c0 + c1 / 2 + c2 / 3 + c3 / 4

/-- **quadrature_exact**: EF is exact for constants, the midpoint scheme for degree ≤ 1, RK4
    (Simpson's rule) for degree ≤ 3 — which forces the stage times 0, ½, ½, 1 — and each fails
    at the next degree. -/
theorem quadrature_exact (c0 c1 c2 c3 x y hx hy : Rat) :
    (efVel (fun t _ _ => (cubic c0 0 0 0 t, 0)) x y).1 = cubicInt c0 0 0 0 ∧
    (midpointVel (fun t _ _ => (cubic c0 c1 0 0 t, 0)) x y hx hy).1 = cubicInt c0 c1 0 0 ∧
    (rk4Vel (fun t _ _ => (cubic c0 c1 c2 c3 t, 0)) x y hx hy).1 = cubicInt c0 c1 c2 c3 := by
  simp only [efVel, midpointVel, rk4Vel, cubic, cubicInt]
  refine ⟨?_, ?_, ?_⟩ <;> ring

theorem quadrature_not_higher (x y hx hy : Rat) :
    (efVel (fun t _ _ => (t, 0)) x y).1 ≠ 1/2 ∧
    (midpointVel (fun t _ _ => (t ^ 2, 0)) x y hx hy).1 ≠ 1/3 ∧
    (rk4Vel (fun t _ _ => (t ^ 4, 0)) x y hx hy).1 ≠ 1/5 := by
  simp only [efVel, midpointVel, rk4Vel]
  refine ⟨?_, ?_, ?_⟩ <;> norm_num

/-! ### linear fields: the stability polynomial and convergence with order p -/

/-- the linear field `u + i v = (a + i b)(x + i y)`: rotation (`a = 0`), spiral, radial strain -/
def linField (a b : Rat) : Oracle := fun _ x y => (a * x - b * y, b * x + a * y)

/-- Taylor polynomial of `exp` of degree `p` -/
noncomputable def expPoly (p : Nat) (z : ℂ) : ℂ := ∑ m ∈ Finset.range (p + 1), z ^ m / (m.factorial : ℂ)

/-- position as a complex number -/
noncomputable def toC (x y : Rat) : ℂ := (x : ℂ) + Complex.I * (y : ℂ)

theorem toC_step (x y u v c h : Rat) :
    toC (x + c * u * h) (y + c * v * h) = toC x y + (c : ℂ) * (h : ℂ) * toC u v := by
  simp only [toC]; push_cast; ring

theorem toC_step1 (x y u v h : Rat) :
    toC (x + u * h) (y + v * h) = toC x y + (h : ℂ) * toC u v := by
  simp only [toC]; push_cast; ring

theorem toC_comb (x y u1 u2 u3 u4 v1 v2 v3 v4 h : Rat) :
    toC (x + (u1 + 2 * u2 + 2 * u3 + u4) / 6 * h) (y + (v1 + 2 * v2 + 2 * v3 + v4) / 6 * h)
      = toC x y + (h : ℂ) / 6 * (toC u1 v1 + 2 * toC u2 v2 + 2 * toC u3 v3 + toC u4 v4) := by
  simp only [toC]; push_cast; ring

theorem linField_mul (a b t x y : Rat) :
    toC (linField a b t x y).1 (linField a b t x y).2 = toC a b * toC x y := by
  simp only [toC, linField]; push_cast
  linear_combination (-(b : ℂ) * (y : ℂ)) * Complex.I_sq

theorem expPoly_one (w : ℂ) : expPoly 1 w = 1 + w := by
  simp [expPoly, Finset.sum_range_succ]

theorem expPoly_two (w : ℂ) : expPoly 2 w = 1 + w + w ^ 2 / 2 := by
  simp [expPoly, Finset.sum_range_succ, Nat.factorial]

theorem expPoly_four (w : ℂ) : expPoly 4 w = 1 + w + w ^ 2 / 2 + w ^ 3 / 6 + w ^ 4 / 24 := by
  simp [expPoly, Finset.sum_range_succ, Nat.factorial]

/-- **stab_poly**: on a linear field one step `z ↦ z + h·(effective velocity)` multiplies the
    position by the Taylor polynomial of degree 1, 2, 4 of `exp(λh)`. -/
theorem stab_poly (a b x y h : Rat) :
    let lam : ℂ := toC a b
    let z : ℂ := toC x y
    toC (x + (efVel (linField a b) x y).1 * h) (y + (efVel (linField a b) x y).2 * h) = expPoly 1 (lam * h) * z ∧
    toC (x + (midpointVel (linField a b) x y h h).1 * h) (y + (midpointVel (linField a b) x y h h).2 * h)
      = expPoly 2 (lam * h) * z ∧
    toC (x + (rk4Vel (linField a b) x y h h).1 * h) (y + (rk4Vel (linField a b) x y h h).2 * h)
      = expPoly 4 (lam * h) * z := by
  intro lam z
  refine ⟨?_, ?_, ?_⟩
  · rw [toC_step1, efVel, linField_mul, expPoly_one]; ring
  · simp only [midpointVel]
    rw [toC_step1, linField_mul, toC_step, linField_mul, expPoly_two]; push_cast; ring
  · simp only [rk4Vel]
    rw [toC_comb]
    simp only [linField_mul, toC_step]
    rw [expPoly_four]; push_cast; ring

/-- telescoping bound for a difference of powers -/
theorem norm_pow_sub_pow_le_of_le (a b : ℂ) (M : ℝ) (hM : 1 ≤ M) (ha : ‖a‖ ≤ M) (hb : ‖b‖ ≤ M) (k : ℕ) :
    ‖a ^ k - b ^ k‖ ≤ k * M ^ k * ‖a - b‖ := by
  have hM0 : 0 ≤ M := le_trans zero_le_one hM
  induction k with
  | zero => simp
  | succ k ih =>
    have e : a ^ (k + 1) - b ^ (k + 1) = a * (a ^ k - b ^ k) + (a - b) * b ^ k := by ring
    have h1 : ‖a * (a ^ k - b ^ k)‖ ≤ M * (k * M ^ k * ‖a - b‖) := by
      rw [norm_mul]
      exact mul_le_mul ha ih (norm_nonneg _) hM0
    have h2 : ‖(a - b) * b ^ k‖ ≤ ‖a - b‖ * M ^ (k + 1) := by
      rw [norm_mul, norm_pow]
      apply mul_le_mul_of_nonneg_left _ (norm_nonneg _)
      calc ‖b‖ ^ k ≤ M ^ k := pow_le_pow_left₀ (norm_nonneg _) hb k
        _ ≤ M ^ (k + 1) := pow_le_pow_right₀ hM (Nat.le_succ k)
    calc ‖a ^ (k + 1) - b ^ (k + 1)‖ ≤ ‖a * (a ^ k - b ^ k)‖ + ‖(a - b) * b ^ k‖ := by
          rw [e]; exact norm_add_le _ _
      _ ≤ M * (k * M ^ k * ‖a - b‖) + ‖a - b‖ * M ^ (k + 1) := add_le_add h1 h2
      _ = ((k + 1 : ℕ) : ℝ) * M ^ (k + 1) * ‖a - b‖ := by push_cast; ring

theorem norm_expPoly_le (p : ℕ) (z : ℂ) : ‖expPoly p z‖ ≤ Real.exp ‖z‖ := by
  unfold expPoly
  calc ‖∑ m ∈ Finset.range (p + 1), z ^ m / (m.factorial : ℂ)‖
      ≤ ∑ m ∈ Finset.range (p + 1), ‖z ^ m / (m.factorial : ℂ)‖ := norm_sum_le _ _
    _ = ∑ m ∈ Finset.range (p + 1), ‖z‖ ^ m / (m.factorial : ℝ) := by
        apply Finset.sum_congr rfl
        intro m _
        rw [norm_div, norm_pow, Complex.norm_natCast]
    _ ≤ Real.exp ‖z‖ := Real.sum_le_exp_of_nonneg (norm_nonneg _) _

/-- **conv_linear**: `n` steps of size `T/n` with the degree-`p` scheme reach the exact flow map
    `exp(λT)` of the linear field with an error `≤ C / n^p` (explicit `C`, for `‖λT‖ ≤ n`):
    order 1, 2, 4 for EF, RK2, RK4. -/
theorem conv_linear (p : Nat) (hp : 1 ≤ p) (w : ℂ) (n : Nat) (hn : 1 ≤ n) (hw : ‖w‖ ≤ n) :
    ‖expPoly p (w / n) ^ n - Complex.exp w‖
      ≤ (Real.exp ‖w‖ * ‖w‖ ^ (p + 1) * 2) / (n : ℝ) ^ p := by
  have hn0 : (0 : ℝ) < n := by exact_mod_cast hn
  have hnC : (n : ℂ) ≠ 0 := by exact_mod_cast (Nat.pos_iff_ne_zero.mp hn)
  have hz : ‖w / n‖ = ‖w‖ / n := by rw [norm_div, Complex.norm_natCast]
  have hz1 : ‖w / n‖ ≤ 1 := by rw [hz, div_le_one hn0]; exact hw
  set M : ℝ := Real.exp ‖w / n‖ with hMdef
  have hM : 1 ≤ M := Real.one_le_exp (norm_nonneg _)
  have hMn : M ^ n = Real.exp ‖w‖ := by
    rw [hMdef, ← Real.exp_nat_mul, hz]; congr 1; field_simp
  have ha : ‖expPoly p (w / n)‖ ≤ M := norm_expPoly_le p _
  have hb : ‖Complex.exp (w / n)‖ ≤ M :=
    Complex.norm_exp_le_exp_norm _
  have hexp : Complex.exp w = Complex.exp (w / n) ^ n := by
    rw [← Complex.exp_nat_mul]; congr 1; field_simp
  have hd : ‖expPoly p (w / n) - Complex.exp (w / n)‖ ≤ ‖w / n‖ ^ (p + 1) * 2 := by
    rw [norm_sub_rev]
    refine le_trans (Complex.exp_bound hz1 (Nat.succ_pos p)) ?_
    apply mul_le_mul_of_nonneg_left _ (pow_nonneg (norm_nonneg _) _)
    have hq : (0 : ℝ) < ((p + 1).factorial : ℝ) * ((p + 1 : ℕ) : ℝ) := by positivity
    rw [← div_eq_mul_inv, div_le_iff₀ hq]
    have hf : (1 : ℝ) ≤ ((p + 1).factorial : ℝ) := by exact_mod_cast Nat.succ_le_of_lt (Nat.factorial_pos _)
    have hp0 : (0 : ℝ) ≤ (p : ℝ) := Nat.cast_nonneg p
    push_cast
    nlinarith
  rw [hexp]
  calc ‖expPoly p (w / n) ^ n - Complex.exp (w / n) ^ n‖
      ≤ n * M ^ n * ‖expPoly p (w / n) - Complex.exp (w / n)‖ := norm_pow_sub_pow_le_of_le _ _ M hM ha hb n
    _ ≤ n * Real.exp ‖w‖ * (‖w / n‖ ^ (p + 1) * 2) := by
        rw [hMn]; exact mul_le_mul_of_nonneg_left hd (by positivity)
    _ = (Real.exp ‖w‖ * ‖w‖ ^ (p + 1) * 2) / (n : ℝ) ^ p := by
        rw [hz, div_pow, pow_succ (n : ℝ) p]; field_simp

/-! ### the analytic-velocity helpers -/

theorem gv1_is_ef (f : SampleFn) (x y : Rat) :
    getVelocity1 f x y = efVel (fun _ a b => f a b) x y := by
  rfl

/-- `get_velocity2` is the two-stage family with `c₂ = s`, `b = (1 − 1/(2s), 1/(2s))`: it
    satisfies both order-2 conditions for every `s ≠ 0` (midpoint `s = ½`, Ralston `⅔`, Heun `1`) -/
theorem gv2_family_order2 (s : Rat) (hs : s ≠ 0) :
    let t : Tableau := ⟨[[0, 0], [s, 0]], [1 - 1 / (2 * s), 1 / (2 * s)], [0, s]⟩
    rowSum t ∧ order2 t ∧
    ∀ (f : SampleFn) (x y dt : Rat),
      getVelocity2 f x y dt s = rkGeneric t (fun _ a b => f a b) x y dt dt := by
  intro t
  refine ⟨?_, ⟨?_, ?_⟩, ?_⟩
  · simp [t, rowSum, mulVec, dot]
  · simp [t, order1, dot]
  · simp [t, dot]
    field_simp
  · intro f x y dt
    have e : ∀ u : Rat, s * dt * u = s * u * dt := fun u => by ring
    simp [t, getVelocity2, rkGeneric, dot, List.range, List.range.loop, e]

theorem gv4_is_rk4 (f : SampleFn) (x y dt : Rat) :
    getVelocity4 f x y dt = rk4Vel (fun _ a b => f a b) x y dt dt := by
  simp only [getVelocity4, rk4Vel]
  ext <;> ring_nf

/-! non-vacuity / witnesses -/
instance (g : GridM) (x y : Rat) : Decidable (InBox g x y) := by unfold InBox; infer_instance

/-- a 6 × 6 all-sea grid with 100 m cells -/
def g0 : GridM :=
  { i0 := 0, i1 := 6, j0 := 0, j1 := 6,
    H := List.replicate 6 (List.replicate 6 50),
    M := List.replicate 6 (List.replicate 6 1),
    dx := List.replicate 6 (List.replicate 6 100),
    zr := [] }

/-- rotation about the point (2, 2), in m/s -/
def rot0 : Oracle := fun _ x y => (-(y - 2), x - 2)

/-- a concrete RK4 velocity of the model -/
example : advect .RK4 g0 (fun fr a b => some (rot0 fr a b)) 3 2 (1/2) (1/2) = some (-47/192, 23/24) := by
  decide +kernel

/-- the hypotheses of `advect_RK4` are satisfiable -/
example : advect .RK4 g0 (fun fr a b => some (rot0 fr a b)) 3 2 (1/2) (1/2)
    = some (rk4Vel rot0 3 2 (1/2) (1/2)) :=
  advect_RK4 g0 rot0 3 2 (1/2) (1/2) (by decide +kernel) (by decide +kernel) (by decide +kernel)

/-- the `InBox` hypothesis is needed: a half step that leaves the box is clipped, and the result is
    not the midpoint rule -/
example : advect .RK2 g0 (fun fr a b => some (rot0 fr a b)) 3 2 20 20 = some (-299/100, 1) ∧
    midpointVel rot0 3 2 20 20 = (-10, 1) ∧
    ¬ InBox g0 (3 + (1/2) * (rot0 0 3 2).1 * 20) (2 + (1/2) * (rot0 0 3 2).2 * 20) := by
  decide +kernel

/-- the hypotheses of `move_open_water` are satisfiable, and its conclusion is the computed move -/
example : moveH ⟨.RK4, 50, false, false⟩ g0 (fun fr a b => some (rot0 fr a b)) 0 0 ⟨3, 2, 5, true, true⟩
    = some ⟨1105/384, 119/48, 5, true, true⟩ := by
  decide +kernel

example (q : Part)
    (h : moveH ⟨.RK4, 50, false, false⟩ g0 (fun fr a b => some (rot0 fr a b)) 0 0 ⟨3, 2, 5, true, true⟩
      = some q) :
    q.x = 3 + (-47/192) * 50 / 100 ∧ q.y = 2 + (23/24) * 50 / 100 ∧ q.alive = true ∧ q.active = true :=
  move_open_water ⟨.RK4, 50, false, false⟩ g0 _ ⟨3, 2, 5, true, true⟩ q 100 (-47/192) (23/24)
    (by decide +kernel) (by decide +kernel) rfl rfl (by decide +kernel) (by decide +kernel) h

/-- `conv_linear` instantiated: ten RK4 steps around a rotation by one radian -/
example : ‖expPoly 4 (Complex.I / (10 : ℕ)) ^ 10 - Complex.exp Complex.I‖
    ≤ (Real.exp 1 * 2) / 10 ^ 4 := by
  have := conv_linear 4 (by norm_num) Complex.I 10 (by norm_num) (by simp)
  simpa using this

end Ladim.C01
