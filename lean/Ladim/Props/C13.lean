import Ladim.Model.Time
import Mathlib.Tactic.Linarith
import Mathlib.Tactic.Ring
import Mathlib.Tactic.FieldSimp
import Mathlib.Algebra.Order.Field.Rat
/-
C13 — clock arithmetic: property theorems about `Ladim.Model.Time`.
(The period-spelling theorems are in `Ladim.Props.C13Parser`.)
-/

namespace Ladim.C13
open Ladim TK

/-- what `init` establishes -/
structure Started (tk : TK) (s e dt : Int) (rev : Bool) : Prop where
  hstart : tk.start = s
  hstop : tk.stop = e
  hdt : tk.dt = dt
  hrev : tk.rev = rev
  hstep : tk.step = -1
  htime : tk.time = if rev then s + dt else s - dt
  hnsteps : tk.nsteps = Int.fdiv (e - s).natAbs dt
  hside : rev = decide (e - s < 0)

theorem init_started {s e dt : Int} {ref : Option Int} {rev : Bool} {tk : TK}
    (h : TK.init (some s) (some e) dt ref rev = .ok tk) : Started tk s e dt rev := by
  unfold TK.init at h
  simp only at h
  split at h
  · cases h
  · split at h
    · cases h
    · rename_i hdt hside
      injection h with h
      subst h
      refine ⟨rfl, rfl, rfl, rfl, rfl, ?_, rfl, ?_⟩
      · simp only [step2time]; cases rev <;> simp <;> ring
      · simpa using hside

/-- the accepted set-ups are exactly: start, stop and dt present, and stop on the side of
    start that the direction asks for (equal times only forward) -/
theorem init_accepts_iff (start stop : Option Int) (dt : Int) (ref : Option Int) (rev : Bool) :
    (∃ tk, TK.init start stop dt ref rev = .ok tk) ↔
      ∃ s e, start = some s ∧ stop = some e ∧ dt ≠ 0 ∧ (rev = true ↔ e < s) := by
  constructor
  · rintro ⟨tk, h⟩
    cases start with
    | none => simp [TK.init] at h
    | some s =>
      cases stop with
      | none => simp [TK.init] at h
      | some e =>
        refine ⟨s, e, rfl, rfl, ?_, ?_⟩
        · intro h0; simp [TK.init, h0] at h
        · have := (init_started h).hside
          rw [this]; simp
  · rintro ⟨s, e, rfl, rfl, hdt, hside⟩
    have : rev = decide (e < s) := by
      cases rev <;> simp at hside ⊢ <;> omega
    simp [TK.init, hdt, this]

theorem updates_step (tk : TK) (n : Nat) : (tk.updates n).step = tk.step + n := by
  induction n with
  | zero => simp [updates]
  | succ n ih => simp [updates, update, ih]; omega

theorem updates_fields (tk : TK) (n : Nat) :
    (tk.updates n).start = tk.start ∧ (tk.updates n).dt = tk.dt ∧ (tk.updates n).rev = tk.rev
    ∧ (tk.updates n).ref = tk.ref ∧ (tk.updates n).stop = tk.stop ∧ (tk.updates n).nsteps = tk.nsteps := by
  induction n with
  | zero => simp [updates]
  | succ n ih => simpa [updates, update] using ih

theorem updates_time (tk : TK) (n : Nat) :
    (tk.updates n).time = if tk.rev then tk.time - n * tk.dt else tk.time + n * tk.dt := by
  induction n with
  | zero => simp [updates]
  | succ n ih =>
    have hf := updates_fields tk n
    simp only [updates, update, hf.2.2.1, hf.2.1, ih]
    cases tk.rev <;> simp <;> ring

/-- **clock_reads**: after start-up and `n+1` updates the clock is at step `n` and reads
    `start + n·dt` (`start − n·dt` when reversed).  For every accepted set-up and every `n`. -/
theorem clock_reads {s e dt : Int} {ref : Option Int} {rev : Bool} {tk : TK}
    (h : TK.init (some s) (some e) dt ref rev = .ok tk) (n : Nat) :
    (tk.updates (n + 1)).step = n ∧
    (tk.updates (n + 1)).time = (if rev then s - n * dt else s + n * dt) ∧
    (tk.updates (n + 1)).time = (tk.updates (n + 1)).step2time n := by
  have st := init_started h
  have hf := updates_fields tk (n + 1)
  refine ⟨?_, ?_, ?_⟩
  · rw [updates_step, st.hstep]; omega
  · rw [updates_time, st.hrev, st.htime, st.hdt]
    cases rev <;> simp <;> ring
  · rw [updates_time, st.hrev, st.htime, st.hdt]
    simp only [step2time, hf.2.2.1, hf.1, hf.2.1, st.hrev, st.hstart, st.hdt]
    cases rev <;> simp <;> ring

/-- **nsteps_floor**: the number of steps is `⌊|stop − start| / dt⌋`: the largest `N` with
    `N·dt ≤ |stop − start|`. -/
theorem nsteps_floor {s e dt : Int} {ref : Option Int} {rev : Bool} {tk : TK}
    (h : TK.init (some s) (some e) dt ref rev = .ok tk) (hdt : 0 < dt) :
    0 ≤ tk.nsteps ∧ tk.nsteps * dt ≤ |e - s| ∧ |e - s| < (tk.nsteps + 1) * dt := by
  have st := init_started h
  rw [st.hnsteps, Int.fdiv_eq_ediv_of_nonneg _ (le_of_lt hdt)]
  have habs : ((e - s).natAbs : Int) = |e - s| := Int.natCast_natAbs _
  rw [habs]
  have h0 : 0 ≤ |e - s| := abs_nonneg _
  refine ⟨Int.ediv_nonneg h0 (le_of_lt hdt), ?_, ?_⟩
  · exact Int.ediv_mul_le _ (ne_of_gt hdt)
  · have := Int.lt_ediv_add_one_mul_self |e - s| hdt
    linarith

/-- **time2step_step2time**: step → time → step is the identity for every integer step. -/
theorem time2step_step2time (tk : TK) (hdt : tk.dt ≠ 0) (n : Int) :
    tk.time2step (tk.step2time n) = n := by
  unfold time2step step2time
  cases tk.rev <;> simp
  · exact Int.mul_fdiv_cancel n hdt
  · exact Int.mul_fdiv_cancel n hdt

/-- **step2time_time2step**: time → step → time is the identity on step boundaries. -/
theorem step2time_time2step (tk : TK) (hdt : tk.dt ≠ 0) (t : Int)
    (hgrid : tk.dt ∣ t - tk.start) : tk.step2time (tk.time2step t) = t := by
  obtain ⟨k, hk⟩ := hgrid
  unfold time2step step2time
  cases hrev : tk.rev <;> simp
  · rw [hk, Int.mul_fdiv_cancel_left k hdt]; linarith
  · have : tk.start - t = tk.dt * (-k) := by linarith
    rw [this, Int.mul_fdiv_cancel_left _ hdt]; linarith

/-- off the step grid `time2step` is the step that has begun: floor toward the start of the
    simulation in simulation time (stated for `dt > 0`). -/
theorem time2step_floor (tk : TK) (hdt : 0 < tk.dt) (t : Int) :
    if tk.rev then t ≤ tk.step2time (tk.time2step t) ∧ tk.step2time (tk.time2step t) < t + tk.dt
    else tk.step2time (tk.time2step t) ≤ t ∧ t < tk.step2time (tk.time2step t) + tk.dt := by
  unfold time2step step2time
  cases hrev : tk.rev <;> simp
  · rw [Int.fdiv_eq_ediv_of_nonneg _ (le_of_lt hdt)]
    have h1 := Int.ediv_mul_le (t - tk.start) (ne_of_gt hdt)
    have h2 := Int.lt_ediv_add_one_mul_self (t - tk.start) hdt
    constructor <;> linarith
  · rw [Int.fdiv_eq_ediv_of_nonneg _ (le_of_lt hdt)]
    have h1 := Int.ediv_mul_le (tk.start - t) (ne_of_gt hdt)
    have h2 := Int.lt_ediv_add_one_mul_self (tk.start - t) hdt
    constructor <;> linarith

/-- **nctime_spec**: the CF time value is the offset of the clock from the reference time in
    the requested unit; **step2nctime_eq_nctime**: the per-step formula agrees with the
    running clock at every step of a run. -/
theorem nctime_spec {s e dt : Int} {ref : Option Int} {rev : Bool} {tk : TK}
    (h : TK.init (some s) (some e) dt ref rev = .ok tk) (n : Nat) (unit : String) (u : Int)
    (hu : TK.unitSeconds unit = some u) :
    (tk.updates (n + 1)).nctime unit
      = some ((((if rev then s - n * dt else s + n * dt) - tk.ref : Int) : Rat) / (u : Rat)) ∧
    (tk.updates (n + 1)).nctime unit = tk.step2nctime n unit := by
  have st := init_started h
  have hc := clock_reads h n
  have hf := updates_fields tk (n + 1)
  constructor
  · simp only [nctime, hu, hc.2.1, hf.2.2.2.1]
  · simp only [nctime, step2nctime, hu, hc.2.1, hf.2.2.2.1, step2time, st.hrev,
      st.hstart, st.hdt]

/-- the default reference time is the earlier of start and stop -/
theorem ref_default {s e dt : Int} {rev : Bool} {tk : TK}
    (h : TK.init (some s) (some e) dt none rev = .ok tk) : tk.ref = min s e := by
  unfold TK.init at h
  simp only at h
  split at h
  · cases h
  · split at h
    · cases h
    · injection h with h; subst h; rfl

/-! non-vacuity: a concrete reversed set-up is accepted and reads `S, S−dt, …` -/
example : ∃ tk, TK.init (some 3600) (some 0) 600 none true = .ok tk ∧
    (tk.updates 1).time = 3600 ∧ (tk.updates 3).time = 2400 ∧ tk.nsteps = 6 := by
  refine ⟨_, rfl, ?_, ?_, ?_⟩ <;> decide

end Ladim.C13
