import Ladim.Props.Whole
import Ladim.Props.C09
import Ladim.Model.Simulation
/-
C09 for particles flagged in the release table.  `Sim.rowToRP` reads the columns `active` and `alive` of a
release row (`Sim.flagOf`: absent means true, a number means "not zero").  A particle that is not active is kept
in the state and in the records but never moved horizontally: through the whole loop — tracker (whatever the
scheme and the flow), scripted IBM, forcing — it stays at its release position and stays inactive.
-/

namespace Ladim.SimFlags
open Ladim RunEnv RomsSetup

/-- a row whose column `active` holds 0 yields a particle that is not active -/
theorem flagged_inactive (s : Sim) (r : RRow) (h : PState.lookup r.cols "active" = some (.num 0)) :
    (s.rowToRP r).active = false := by
  simp [Sim.rowToRP, Sim.flagOf, h]

/-- a row whose column `alive` holds 0 yields a particle that is dead on arrival -/
theorem flagged_dead (s : Sim) (r : RRow) (h : PState.lookup r.cols "alive" = some (.num 0)) :
    (s.rowToRP r).alive = false := by
  simp [Sim.rowToRP, Sim.flagOf, h]

/-- rows without flag columns yield living, active particles -/
theorem unflagged (s : Sim) (r : RRow) (ha : PState.lookup r.cols "active" = none)
    (hl : PState.lookup r.cols "alive" = none) : (s.rowToRP r).active = true ∧ (s.rowToRP r).alive = true := by
  simp [Sim.rowToRP, Sim.flagOf, ha, hl]

/-- the tracker leaves a particle that is not active where it is, and not active -/
theorem move_inactive (s : RomsSetup) (n : Int) (p : RP) (hi : p.active = false)
    (hrx : s.rnd p.x = p.x) (hry : s.rnd p.y = p.y) :
    (s.move n p).x = p.x ∧ (s.move n p).y = p.y ∧ (s.move n p).active = false := by
  rcases Whole.move_cases s n p with ⟨q, hq, he⟩ | he
  · obtain ⟨p1, hp1, hx, hy, -, hac⟩ := C09.trackerStep_cases _ _ _ _ _ _ _ _ q hq
    obtain ⟨hx1, hy1⟩ := C09.inactive_fixed _ _ _ _ _ _ p1 hi hp1
    obtain ⟨dx, ua, va, -, -, -, -, hac1, -⟩ := C09.moveH_cases _ _ _ _ _ _ p1 hp1
    have hqx : q.x = p.x := by rw [hx, hx1]
    have hqy : q.y = p.y := by rw [hy, hy1]
    have hqa : q.active = false := by
      rw [hac, hac1]
      show (p.active && _) = false
      rw [hi]; rfl
    rw [he]
    exact ⟨by show s.rnd q.x = p.x; rw [hqx, hrx], by show s.rnd q.y = p.y; rw [hqy, hry], hqa⟩
  · rw [he]; exact ⟨rfl, rfl, hi⟩

theorem ibm_same (s : RomsSetup) (n : Int) (p : RP) :
    (s.ibm n p).x = p.x ∧ (s.ibm n p).y = p.y ∧ (s.ibm n p).active = p.active := by
  obtain ⟨vs, a, he, -⟩ := Whole.ibm_cases s n p
  rw [he]; exact ⟨rfl, rfl, rfl⟩

theorem force_same (s : RomsSetup) (n : Int) (p : RP) :
    (s.force n p).x = p.x ∧ (s.force n p).y = p.y ∧ (s.force n p).active = p.active := by
  rw [Whole.force_eq]; exact ⟨rfl, rfl, rfl⟩

/-- one pass of the loop (tracker, IBM, forcing of the next step) leaves a particle that is not active where it
    is, and not active (`rnd`: the rounding of stored positions fixes the position it already has) -/
theorem step_inactive (s : RomsSetup) (n : Int) (p : RP) (hi : p.active = false)
    (hrx : s.rnd p.x = p.x) (hry : s.rnd p.y = p.y) :
    (advance1 s.env n p).x = p.x ∧ (advance1 s.env n p).y = p.y ∧ (advance1 s.env n p).active = false := by
  obtain ⟨mx, my, ma⟩ := move_inactive s n p hi hrx hry
  obtain ⟨ix, iy, ia⟩ := ibm_same s n (s.move n p)
  obtain ⟨fx, fy, fa⟩ := force_same s (n + 1) (s.ibm n (s.move n p))
  show (s.force (n + 1) (s.ibm n (s.move n p))).x = p.x ∧ (s.force (n + 1) (s.ibm n (s.move n p))).y = p.y ∧
    (s.force (n + 1) (s.ibm n (s.move n p))).active = false
  exact ⟨by rw [fx, ix, mx], by rw [fy, iy, my], by rw [fa, ia, ma]⟩

/-- **inactive_stays**: a particle released inactive is, at every later record moment, at its release position and
    inactive — for every scheme, flow, land mask and IBM schedule -/
theorem inactive_stays (s : RomsSetup) (k : Int) (p : RP) (m : Nat) (hi : p.active = false)
    (hrx : s.rnd p.x = p.x) (hry : s.rnd p.y = p.y) :
    (advance s.env k p m).x = p.x ∧ (advance s.env k p m).y = p.y ∧ (advance s.env k p m).active = false := by
  induction m with
  | zero =>
    obtain ⟨fx, fy, fa⟩ := force_same s k p
    show (s.force k p).x = p.x ∧ (s.force k p).y = p.y ∧ (s.force k p).active = false
    exact ⟨fx, fy, by rw [fa, hi]⟩
  | succ m ih =>
    obtain ⟨ihx, ihy, iha⟩ := ih
    obtain ⟨sx, sy, sa⟩ := step_inactive s (k + m) (advance s.env k p m) iha
      (by rw [ihx, hrx]) (by rw [ihy, hry])
    show (advance1 s.env (k + m) (advance s.env k p m)).x = p.x ∧
      (advance1 s.env (k + m) (advance s.env k p m)).y = p.y ∧
      (advance1 s.env (k + m) (advance s.env k p m)).active = false
    exact ⟨by rw [sx, ihx], by rw [sy, ihy], sa⟩

/-- the numbering of the particles does not touch the flag -/
theorem inactive_stays_numbered (s : RomsSetup) (k : Int) (p : RP) (i m : Nat) (hi : p.active = false)
    (hrx : s.rnd p.x = p.x) (hry : s.rnd p.y = p.y) :
    (advance s.env k { p with pid := i } m).x = p.x ∧ (advance s.env k { p with pid := i } m).y = p.y := by
  obtain ⟨hx, hy, -⟩ := inactive_stays s k { p with pid := i } m hi hrx hry
  exact ⟨hx, hy⟩


end Ladim.SimFlags
